import NucleoVerif.Props.C02_Fuzzy
import NucleoVerif.Props.C03_Bound
/-! # C03 (companion file) — the score at the `fuzzy_match` entry point is the scheme on the reported alignment

`C03_calculateScore_eq_alignScore` has two side conditions: the window ends at the last matched character, and the `u16`
accumulator does not saturate.  Here both are discharged: on a *tight* window (`C02_Greedy`: what the prefilters and the
greedy scans produce) the last reported index is the window's last position (`tight_last`), and below 2520 characters
nothing saturates (`C03_Bound`).  With the recurrence theorem this gives the statement at the entry point for the
contiguous shortcut and the matrix path. -/
namespace NucleoVerif
open Gen Spec Sub DP

/-- the characters at strictly increasing positions of `L` form a sublist of `L` -/
theorem sublist_of_positions : ∀ (L : List Nat) (ps : List Nat) (base : Nat), ps.Pairwise (· < ·) →
    (∀ p ∈ ps, base ≤ p ∧ p < base + L.length) → (ps.map (fun p => (L[p - base]?).getD 0)).Sublist L := by
  intro L
  induction L with
  | nil =>
    intro ps base _ hin
    cases ps with
    | nil => exact List.Sublist.refl _
    | cons p _ => have := hin p (by simp); simp at this; omega
  | cons x xs ih =>
    intro ps base hpw hin
    cases ps with
    | nil => exact List.nil_sublist _
    | cons p ps' =>
      have hp := hin p (by simp)
      have hpw' := List.pairwise_cons.mp hpw
      by_cases hpb : p = base
      · subst hpb
        have hrest : ∀ q ∈ ps', p + 1 ≤ q ∧ q < p + 1 + xs.length := by
          intro q hq
          have h1 := hpw'.1 q hq
          have h2 := hin q (by simp [hq])
          simp only [List.length_cons] at h2
          omega
        have := ih ps' (p + 1) hpw'.2 hrest
        simp only [List.map_cons, Nat.sub_self, List.getElem?_cons_zero, Option.getD_some]
        have hmap : ps'.map (fun q => ((x :: xs)[q - p]?).getD 0) = ps'.map (fun q => (xs[q - (p + 1)]?).getD 0) := by
          apply List.map_congr_left
          intro q hq
          have := (hrest q hq).1
          have e : q - p = (q - (p + 1)) + 1 := by omega
          rw [e, List.getElem?_cons_succ]
        rw [hmap]
        exact List.Sublist.cons₂ x this
      · have hall : ∀ q ∈ p :: ps', base + 1 ≤ q ∧ q < base + 1 + xs.length := by
          intro q hq
          have h2 := hin q hq
          simp only [List.length_cons] at h2
          rcases List.mem_cons.mp hq with rfl | hq'
          · omega
          · have := hpw'.1 q hq'; omega
        have := ih (p :: ps') (base + 1) hpw hall
        have hmap : (p :: ps').map (fun q => ((x :: xs)[q - base]?).getD 0) = (p :: ps').map (fun q => (xs[q - (base + 1)]?).getD 0) := by
          apply List.map_congr_left
          intro q hq
          have := (hall q hq).1
          have e : q - base = (q - (base + 1)) + 1 := by omega
          rw [e, List.getElem?_cons_succ]
        rw [hmap]
        exact List.Sublist.cons x this

theorem le_getLast_of_pairwise : ∀ (l : List Nat) (d : Nat), l.Pairwise (· < ·) → ∀ x ∈ l, x ≤ l.getLast?.getD d := by
  intro l
  induction l with
  | nil => intro d _ x hx; cases hx
  | cons a t ih =>
    intro d hpw x hx
    have hpw' := List.pairwise_cons.mp hpw
    cases t with
    | nil => simp at hx; subst hx; simp
    | cons b t' =>
      rw [List.getLast?_cons_cons]
      rcases List.mem_cons.mp hx with rfl | hx'
      · have h1 := hpw'.1 b (by simp)
        have h2 := ih d hpw'.2 b (by simp)
        omega
      · exact ih d hpw'.2 x hx'

/-- **on a tight window the last reported index is the window's last position** — so the window `calculate_score` is given
    ends at the last matched character, which is what `C03_calculateScore_eq_alignScore` asks of its call sites -/
theorem tight_last (cfg : Cfg) (ext : Ext) (hrep : Rep) (h : List Nat) (n0 : Nat) (nrest : List Nat) (start e : Nat)
    (tw : TightWindow cfg hrep h n0 nrest start e) :
    (calculateScore cfg ext hrep h (n0 :: nrest) start e).2.getLast?.getD start + 1 = e := by
  obtain ⟨w1, w2, w3⟩ := calculateScore_tight cfg ext hrep h n0 nrest start e tw
  obtain ⟨t1, t2, _, t4⟩ := tw
  have hhead := calculateScore_head cfg ext hrep h n0 nrest start e (by omega)
  generalize (calculateScore cfg ext hrep h (n0 :: nrest) start e).2 = idx at w1 w2 w3 hhead
  cases idx with
  | nil => simp at hhead
  | cons a tl =>
    simp only [List.head?_cons, Option.some.injEq] at hhead
    subst hhead
    simp only [List.map_cons, List.cons.injEq] at w3
    obtain ⟨_, w3'⟩ := w3
    cases nrest with
    | nil =>
      simp only at t4
      have : tl = [] := by simpa using w3'
      subst this
      simp; omega
    | cons n1 r =>
      simp only at t4
      obtain ⟨_, tno⟩ := t4
      have hpw' := List.pairwise_cons.mp w1
      have htl_ne : tl ≠ [] := by intro e'; rw [e'] at w3'; simp at w3'
      have hlast_mem : tl.getLast?.getD a ∈ tl := by
        cases hl : tl.getLast? with
        | none => simp at hl; exact absurd hl htl_ne
        | some v => simp only [Option.getD_some]; exact List.mem_of_getLast? hl
      have hlast_eq : (a :: tl).getLast?.getD a = tl.getLast?.getD a := by
        cases tl with
        | nil => exact absurd rfl htl_ne
        | cons b t' => rw [List.getLast?_cons_cons]
      rw [hlast_eq]
      have hlt := (w2 _ (List.mem_cons_of_mem a hlast_mem)).2
      -- if the last index were not the window's last position, the rest of the needle would fit without it
      by_cases hge : tl.getLast?.getD a + 1 = e
      · exact hge
      · exfalso
        have hsmall : ∀ x ∈ tl, a + 1 ≤ x ∧ x < a + 1 + ((((h.drop (a + 1)).take (e - (a + 1))).map (cnorm cfg hrep)).dropLast).length := by
          intro x hx
          have h1 := hpw'.1 x hx
          have h2 := le_getLast_of_pairwise tl a hpw'.2 x hx
          simp only [List.length_dropLast, List.length_map, List.length_take, List.length_drop]
          omega
        have hsub := sublist_of_positions ((((h.drop (a + 1)).take (e - (a + 1))).map (cnorm cfg hrep)).dropLast) tl (a + 1) hpw'.2 hsmall
        have hmap : tl.map (fun p => ((((h.drop (a + 1)).take (e - (a + 1))).map (cnorm cfg hrep)).dropLast[p - (a + 1)]?).getD 0) = n1 :: r := by
          rw [← w3']
          apply List.map_congr_left
          intro x hx
          have hs := hsmall x hx
          simp only [List.length_dropLast, List.length_map, List.length_take, List.length_drop] at hs
          rw [List.getElem?_dropLast]
          have hlt1 : x - (a + 1) < (((h.drop (a + 1)).take (e - (a + 1))).map (cnorm cfg hrep)).length - 1 := by
            simp only [List.length_map, List.length_take, List.length_drop]; omega
          simp only [hlt1, if_true, List.getElem?_map, List.getElem?_take, List.getElem?_drop]
          have hlt2 : x - (a + 1) < e - (a + 1) := by omega
          simp only [hlt2, if_true]
          have hx2 : a + 1 + (x - (a + 1)) = x := by omega
          rw [hx2]
          have hxl : x < h.length := by have := (w2 x (List.mem_cons_of_mem a hx)).2; omega
          simp [chAt, List.getElem?_eq_getElem hxl]
        rw [hmap] at hsub
        have := (subseqB_iff_sublist _ _).mpr hsub
        rw [this] at tno
        cases tno

/-- **`calculate_score` on a tight window returns the scheme's value of the alignment it reports** (needles of up to 2519
    characters, prefix preference off, both presets' bonus values): the two side conditions of
    `C03_calculateScore_eq_alignScore` — the window ends at the last match, the accumulator does not saturate — hold -/
theorem C03_tight_score (cfg : Cfg) (ext : Ext) (hrep : Rep) (h : List Nat) (n0 : Nat) (nrest : List Nat) (start e : Nat)
    (tw : TightWindow cfg hrep h n0 nrest start e) (hw : cfg.white ≤ 10) (hd : cfg.delim ≤ 10) (hpp : cfg.preferPrefix = false)
    (hlen : (n0 :: nrest).length ≤ 2519) :
    (calculateScore cfg ext hrep h (n0 :: nrest) start e).1 = alignScore cfg ext h (calculateScore cfg ext hrep h (n0 :: nrest) start e).2 := by
  have hl := tight_last cfg ext hrep h n0 nrest start e tw
  obtain ⟨_, _, w3⟩ := calculateScore_tight cfg ext hrep h n0 nrest start e tw
  have hlen' : (calculateScore cfg ext hrep h (n0 :: nrest) start e).2.length ≤ 2519 := by
    have := congrArg List.length w3
    simp only [List.length_map] at this
    omega
  exact C03_calculateScore_eq_alignScore_short cfg ext hrep h n0 nrest start e tw.1 tw.2.1 hw hd hpp hl hlen'

/-- a window that is exactly the needle is tight -/
theorem tightWindow_of_exact (cfg : Cfg) (hrep : Rep) (h : List Nat) (n0 : Nat) (nrest : List Nat) (start : Nat)
    (hfit : start + (n0 :: nrest).length ≤ h.length)
    (hwin : ((h.drop start).take (n0 :: nrest).length).map (cnorm cfg hrep) = n0 :: nrest) :
    TightWindow cfg hrep h n0 nrest start (start + (n0 :: nrest).length) := by
  have hst : start < h.length := by simp only [List.length_cons] at hfit; omega
  have hd : h.drop start = h[start] :: h.drop (start + 1) := by rw [List.drop_eq_getElem_cons hst]
  rw [hd] at hwin
  simp only [List.length_cons, List.take_succ_cons, List.map_cons, List.cons.injEq] at hwin
  obtain ⟨h0, hrest⟩ := hwin
  refine ⟨by simp, hfit, by simp [chAt, List.getElem?_eq_getElem hst, h0], ?_⟩
  cases nrest with
  | nil => simp
  | cons n1 r =>
    simp only
    have e1 : start + (n0 :: n1 :: r).length - (start + 1) = (n1 :: r).length := by simp only [List.length_cons]; omega
    rw [e1, hrest]
    refine ⟨(subseqB_iff_sublist _ _).mpr (List.Sublist.refl _), ?_⟩
    cases hs : subseqB (n1 :: r) (n1 :: r).dropLast with
    | false => rfl
    | true =>
      have := subseqB_length _ _ hs
      simp at this
      omega

/-- **`fuzzy_match` on the contiguous shortcut and on the matrix path returns the scheme's value of the alignment it
    reports** — ASCII haystack and needle of 2 to 2519 characters (normalized), prefix preference off -/
theorem C03_fuzzy_entry_ascii (cfg : Cfg) (ext : Ext) (h : List Nat) (n0 n1 : Nat) (ns : List Nat)
    (hpp : cfg.preferPrefix = false) (hw : cfg.white ≤ 10) (hdl : cfg.delim ≤ 10)
    (hasc : ∀ c ∈ h, c < 128) (hn : ∀ c ∈ n0 :: n1 :: ns, normAscii cfg c = c)
    (hlen : (n0 :: n1 :: ns).length < h.length) (hshort : (n0 :: n1 :: ns).length ≤ 2519)
    (start ge e : Nat) (hp : prefilterAscii cfg h (n0 :: n1 :: ns) false = some (start, ge, e))
    (hfit : (n0 :: n1 :: ns).length = e - start ∨ slabFits (charSize .ascii) (e - start) (n0 :: n1 :: ns).length = true)
    (sc : Nat) (is : List Nat) (hres : fuzzyMatch cfg ext .ascii .ascii h (n0 :: n1 :: ns) = some (sc, is)) :
    sc = alignScore cfg ext h is := by
  have hr : Rep.ascii = .ascii → ∀ c ∈ h, c < 128 := fun _ => hasc
  unfold fuzzyMatch at hres
  have h1 : ¬ ((n0 :: n1 :: ns).length > h.length) := by omega
  have h2 : ¬ ((n0 :: n1 :: ns).length = h.length) := by omega
  simp only [h1, if_false, List.isEmpty_cons, Bool.false_eq_true, h2, hp] at hres
  obtain ⟨_, hspec⟩ := prefilterAscii_spec cfg h n0 (n1 :: ns) false hn
  obtain ⟨s1, s2, s3, s4, s5⟩ := hspec start ge e hp
  split at hres
  · rename_i hcont
    have hge : ge = start + (n0 :: n1 :: ns).length := by omega
    have hwinN : ((h.drop start).take (ge - start)).map (normAscii cfg) = n0 :: n1 :: ns := by
      have hl : (((h.drop start).take (ge - start)).map (normAscii cfg)).length = (n0 :: n1 :: ns).length := by
        simp only [List.length_map, List.length_take, List.length_drop]; omega
      have hsub := (subseqB_iff_sublist _ _).mp s5
      exact (hsub.eq_of_length hl.symm).symm
    have hwin : ((h.drop start).take (n0 :: n1 :: ns).length).map (cnorm cfg .ascii) = n0 :: n1 :: ns := by
      rw [map_cnorm_eq_map_norm cfg .ascii h _ hr (fun c hc => List.mem_of_mem_drop (List.mem_of_mem_take hc))]
      have : ge - start = (n0 :: n1 :: ns).length := by omega
      rw [← this]; exact hwinN
    have tw := tightWindow_of_exact cfg .ascii h n0 (n1 :: ns) start (by omega) hwin
    rw [← hge] at tw
    have hsc := C03_tight_score cfg ext .ascii h n0 (n1 :: ns) start ge tw hw hdl hpp hshort
    have e0 := Option.some.inj hres
    rw [e0] at hsc
    exact hsc
  · rename_i hnc
    rcases hfit with hfit | hfit
    · exact absurd hfit hnc
    · unfold fuzzyOptimal at hres
      simp only [hfit, if_true] at hres
      exact C03_optimalDP_eq_alignScore cfg ext .ascii h _ start e hpp sc is hres

/-- the same on a code-point haystack (exact-window shortcut and matrix path) -/
theorem C03_fuzzy_entry_unicode (cfg : Cfg) (ext : Ext) (nrep : Rep) (h : List Nat) (n0 n1 : Nat) (ns : List Nat)
    (hpp : cfg.preferPrefix = false) (hw : cfg.white ≤ 10) (hdl : cfg.delim ≤ 10)
    (hn : (n0 :: n1 :: ns).map (norm cfg nrep) = n0 :: n1 :: ns)
    (hlen : (n0 :: n1 :: ns).length < h.length) (hshort : (n0 :: n1 :: ns).length ≤ 2519)
    (start e : Nat) (hp : prefilterNonAscii cfg h (n0 :: n1 :: ns) false = some (start, e))
    (hfit : (n0 :: n1 :: ns).length = e - start ∨ slabFits (charSize .unicode) (e - start) (n0 :: n1 :: ns).length = true)
    (sc : Nat) (is : List Nat) (hres : fuzzyMatch cfg ext .unicode nrep h (n0 :: n1 :: ns) = some (sc, is)) :
    sc = alignScore cfg ext h is := by
  have hr : Rep.unicode = .ascii → ∀ c ∈ h, c < 128 := fun e' => by cases e'
  have hk1 : ¬ (Rep.unicode = .ascii ∧ nrep = .unicode) := fun e' => by cases e'.1
  unfold fuzzyMatch at hres
  have h1 : ¬ ((n0 :: n1 :: ns).length > h.length) := by omega
  have h2 : ¬ ((n0 :: n1 :: ns).length = h.length) := by omega
  simp only [h1, if_false, List.isEmpty_cons, Bool.false_eq_true, h2, hp] at hres
  have hspec := prefilterNonAscii_spec cfg h n0 n1 ns
  rw [hp] at hspec
  simp only at hspec
  obtain ⟨p1, p2, _, _⟩ := hspec
  split at hres
  · rename_i hcont
    obtain ⟨_, _, hcs⟩ := C02_exactImpl_contiguous cfg ext .unicode nrep h n0 (n1 :: ns) start e hk1 hn hr sc is hres
    have hsome : (exactImpl cfg ext .unicode nrep h (n0 :: n1 :: ns) start e).isSome = true := by rw [hres]; rfl
    rw [exactImpl_window cfg ext .unicode nrep h _ _ _ hk1 hn] at hsome
    simp only [Bool.and_eq_true, decide_eq_true_eq, beq_iff_eq] at hsome
    have hwin : ((h.drop start).take (n0 :: n1 :: ns).length).map (cnorm cfg .unicode) = n0 :: n1 :: ns := by
      rw [map_cnorm_eq_map_norm cfg .unicode h _ hr (fun c hc => List.mem_of_mem_drop (List.mem_of_mem_take hc))]
      have := hsome.2
      unfold normHay at this
      rw [← List.map_drop, ← List.map_take] at this
      rw [hsome.1]; exact this
    have tw := tightWindow_of_exact cfg .unicode h n0 (n1 :: ns) start (by omega) hwin
    have he : start + (n0 :: n1 :: ns).length = e := by omega
    rw [he] at tw
    have hsc := C03_tight_score cfg ext .unicode h n0 (n1 :: ns) start e tw hw hdl hpp hshort
    rw [← hcs] at hsc
    exact hsc
  · rename_i hnc
    rcases hfit with hfit | hfit
    · exact absurd hfit hnc
    · unfold fuzzyOptimal at hres
      simp only [hfit, if_true] at hres
      exact C03_optimalDP_eq_alignScore cfg ext .unicode h _ start e hpp sc is hres

end NucleoVerif
