import NucleoVerif.Props.C03_Paths
/-! # C03 (companion file) — the `fuzzy_match_greedy` entry point returns the scheme's value of the alignment it reports

`C03_Paths` has the inner routine (`C03_greedy_ascii_score`, `C03_greedy_unicode_score`); this file adds the dispatch of
`fuzzy_match_greedy` / `fuzzy_indices_greedy` around it: length guards, the prefilter in its greedy-only mode, the
contiguous shortcut of the ASCII path, the inner routine. -/
namespace NucleoVerif
open Gen Spec Sub

theorem prefilterNonAscii_start_greedy (cfg : Cfg) (h : List Nat) (n0 : Nat) (ns : List Nat) (start e : Nat)
    (hp : prefilterNonAscii cfg h (n0 :: ns) true = some (start, e)) :
    findIdx (fun c => normChar cfg c = n0) (h.take (h.length - (n0 :: ns).length + 1)) = some start ∧ e = start + 1 := by
  unfold prefilterNonAscii at hp
  simp only at hp
  cases hf : findIdx (fun c => decide (normChar cfg c = n0)) (h.take (h.length - (n0 :: ns).length + 1)) with
  | none => rw [hf] at hp; cases hp
  | some st =>
    rw [hf] at hp
    simp only [if_true] at hp
    split at hp
    · cases hp
    · injection hp with hp; injection hp with h1 h2; rw [h1]; exact ⟨rfl, by rw [← h2, h1]⟩

/-- **`fuzzy_match_greedy` / `fuzzy_indices_greedy`, ASCII haystack and needle** -/
theorem C03_greedy_entry_ascii (cfg : Cfg) (ext : Ext) (h : List Nat) (n0 : Nat) (ns : List Nat)
    (hpp : cfg.preferPrefix = false) (hw : cfg.white ≤ 10) (hdl : cfg.delim ≤ 10)
    (hasc : ∀ c ∈ h, c < 128) (hn : ∀ c ∈ n0 :: ns, normAscii cfg c = c)
    (hlen : (n0 :: ns).length < h.length) (hshort : (n0 :: ns).length ≤ 2519)
    (sc : Nat) (is : List Nat) (hres : fuzzyGreedy cfg ext .ascii .ascii h (n0 :: ns) = some (sc, is)) :
    sc = alignScore cfg ext h is := by
  have hr : Rep.ascii = .ascii → ∀ c ∈ h, c < 128 := fun _ => hasc
  unfold fuzzyGreedy at hres
  have h1 : ¬ ((n0 :: ns).length > h.length) := by omega
  have h2 : ¬ ((n0 :: ns).length = h.length) := by omega
  simp only [h1, if_false, List.isEmpty_cons, Bool.false_eq_true, h2] at hres
  cases hp : prefilterAscii cfg h (n0 :: ns) true with
  | none => rw [hp] at hres; cases hres
  | some sge =>
    obtain ⟨start, ge, e⟩ := sge
    rw [hp] at hres
    simp only at hres
    obtain ⟨_, hspec⟩ := prefilterAscii_spec cfg h n0 ns true hn
    obtain ⟨s1, s2, s3, s4, s5⟩ := hspec start ge e hp
    split at hres
    · rename_i hcont
      have hge : ge = start + (n0 :: ns).length := by omega
      have hwinN : ((h.drop start).take (ge - start)).map (normAscii cfg) = n0 :: ns := by
        have hl : (((h.drop start).take (ge - start)).map (normAscii cfg)).length = (n0 :: ns).length := by
          simp only [List.length_map, List.length_take, List.length_drop]; omega
        have hsub := (subseqB_iff_sublist _ _).mp s5
        exact (hsub.eq_of_length hl.symm).symm
      have hwin : ((h.drop start).take (n0 :: ns).length).map (cnorm cfg .ascii) = n0 :: ns := by
        rw [map_cnorm_eq_map_norm cfg .ascii h _ hr (fun c hc => List.mem_of_mem_drop (List.mem_of_mem_take hc))]
        have : ge - start = (n0 :: ns).length := by omega
        rw [← this]; exact hwinN
      have tw := tightWindow_of_exact cfg .ascii h n0 ns start (by omega) hwin
      rw [← hge] at tw
      have hsc := C03_tight_score cfg ext .ascii h n0 ns start ge tw hw hdl hpp hshort
      have e0 := Option.some.inj hres
      rw [e0] at hsc
      exact hsc
    · exact C03_greedy_ascii_score cfg ext h n0 ns start ge e hasc hn hw hdl hpp hshort hp sc is hres

/-- **`fuzzy_match_greedy` / `fuzzy_indices_greedy`, code-point haystack** (needle in either representation) -/
theorem C03_greedy_entry_unicode (cfg : Cfg) (ext : Ext) (nrep : Rep) (h : List Nat) (n0 : Nat) (ns : List Nat)
    (hpp : cfg.preferPrefix = false) (hw : cfg.white ≤ 10) (hdl : cfg.delim ≤ 10)
    (hlen : (n0 :: ns).length < h.length) (hshort : (n0 :: ns).length ≤ 2519)
    (sc : Nat) (is : List Nat) (hres : fuzzyGreedy cfg ext .unicode nrep h (n0 :: ns) = some (sc, is)) :
    sc = alignScore cfg ext h is := by
  unfold fuzzyGreedy at hres
  have h1 : ¬ ((n0 :: ns).length > h.length) := by omega
  have h2 : ¬ ((n0 :: ns).length = h.length) := by omega
  simp only [h1, if_false, List.isEmpty_cons, Bool.false_eq_true, h2] at hres
  cases hp : prefilterNonAscii cfg h (n0 :: ns) true with
  | none => rw [hp] at hres; cases hres
  | some se =>
    obtain ⟨start, e⟩ := se
    rw [hp] at hres
    simp only at hres
    obtain ⟨hstart, _⟩ := prefilterNonAscii_start_greedy cfg h n0 ns start e hp
    have hfull := findIdx_of_take _ h start _ hstart
    obtain ⟨f1, ⟨x, f2, f3⟩, _⟩ := findIdx_some _ h start hfull
    have hx : x = h[start] := by rw [List.getElem?_eq_getElem f1] at f2; exact (Option.some.inj f2).symm
    have h0 : norm cfg .unicode h[start] = n0 := by rw [← hx]; show normChar cfg x = n0; simpa using f3
    exact C03_greedy_unicode_score cfg ext nrep h n0 ns start f1 h0 hw hdl hpp hshort sc is hres

/-- the hypotheses are met and the greedy alignment differs from the optimal one: `"ab"` in `"a_ab"` -/
example :
    let cfg : Cfg := { delims := [47], white := 10, delim := 9, initial := .whitespace, normalize := true, ignoreCase := true, preferPrefix := false }
    fuzzyGreedy cfg (fun _ => default) .ascii .ascii [97, 95, 97, 98] [97, 98] = some (alignScore cfg (fun _ => default) [97, 95, 97, 98] [2, 3], [2, 3]) := by
  decide

end NucleoVerif
