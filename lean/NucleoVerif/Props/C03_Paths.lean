import NucleoVerif.Props.C03_Entry
import NucleoVerif.Props.C02_Substring
import NucleoVerif.Props.C01
/-! # C03 (companion file) — the score is the scheme on the reported alignment: substring, greedy, and every path of `fuzzy_match`

With `C03_tight_score` (no side condition on a tight window) the remaining call sites of `calculate_score` follow: the
substring matchers (their window is an occurrence of the needle), the greedy matcher (its scans produce tight windows:
`C02_Greedy`), and so every path of `fuzzy_match` — contiguous shortcut, matrix, greedy fallback.  Needles of up to 2519
characters, prefix preference off, bonus values at most 10 (both presets). -/
namespace NucleoVerif
open Gen Spec Sub DP

/-- substring matching: the score is the scheme's value of the contiguous alignment it reports -/
theorem C03_substring_core (cfg : Cfg) (ext : Ext) (hrep : Rep) (h : List Nat) (n0 : Nat) (ns : List Nat) (P : Nat)
    (hr : hrep = .ascii → ∀ c ∈ h, c < 128) (hw : cfg.white ≤ 10) (hdl : cfg.delim ≤ 10) (hpp : cfg.preferPrefix = false)
    (hshort : (n0 :: ns).length ≤ 2519) (sc : Nat) (idx : List Nat)
    (hcs : calculateScore cfg ext hrep h (n0 :: ns) P (P + (n0 :: ns).length) = (sc, idx))
    (hhead : idx.head? = bestOccurrence cfg ext hrep h (n0 :: ns))
    (hne : occurrences cfg hrep h (n0 :: ns) ≠ []) : sc = alignScore cfg ext h idx := by
  obtain ⟨hidx, _⟩ := substring_witness_core cfg ext hrep h n0 ns P hr sc idx hcs hhead hne
  -- the window at `P` is the needle
  have hq : bestOccurrence cfg ext hrep h (n0 :: ns) = some P := by
    rw [← hhead, hidx]; simp [List.range'_succ]
  have hmem := bestOccurrence_mem cfg ext hrep h _ P hq
  obtain ⟨hfit, hwinN⟩ := occurrence_window cfg hrep h _ P hmem
  have hwin : ((h.drop P).take (n0 :: ns).length).map (cnorm cfg hrep) = n0 :: ns := by
    rw [map_cnorm_eq_map_norm cfg hrep h _ hr (fun c hc => List.mem_of_mem_drop (List.mem_of_mem_take hc))]
    exact hwinN
  have tw := tightWindow_of_exact cfg hrep h n0 ns P hfit hwin
  have := C03_tight_score cfg ext hrep h n0 ns P _ tw hw hdl hpp hshort
  rw [hcs] at this
  exact this

theorem C03_substring_ascii_score (cfg : Cfg) (ext : Ext) (h : List Nat) (n0 : Nat) (ns : List Nat)
    (hb : 8 ≤ maxBonus cfg) (hw : cfg.white ≤ 10) (hdl : cfg.delim ≤ 10) (hpp : cfg.preferPrefix = false)
    (hasc : ∀ x ∈ h, x < 128) (hn : ∀ c ∈ n0 :: ns, normAscii cfg c = c)
    (hlen : (n0 :: ns).length ≤ h.length) (hshort : (n0 :: ns).length ≤ 2519) (sc : Nat) (idx : List Nat)
    (hres : substringAscii cfg ext h (n0 :: ns) = some (sc, idx)) : sc = alignScore cfg ext h idx := by
  obtain ⟨hdec, hhead⟩ := C05_substring_ascii cfg ext h n0 ns hb hasc hn hlen
  have hh := hhead sc idx hres
  have hne : occurrences cfg .ascii h (n0 :: ns) ≠ [] := by
    rw [hres] at hdec
    intro e; rw [e] at hdec; cases hdec
  have hcs : ∃ P, calculateScore cfg ext .ascii h (n0 :: ns) P (P + (n0 :: ns).length) = (sc, idx) := by
    unfold substringAscii at hres
    simp only at hres
    split at hres
    · cases hres
    · exact ⟨_, Option.some.inj hres⟩
  obtain ⟨P, hcs⟩ := hcs
  exact C03_substring_core cfg ext .ascii h n0 ns P (fun _ => hasc) hw hdl hpp hshort sc idx hcs hh hne

theorem C03_substring_unicode_score (cfg : Cfg) (ext : Ext) (nrep : Rep) (h : List Nat) (n0 n1 : Nat) (ns : List Nat)
    (hb : 8 ≤ maxBonus cfg) (hw : cfg.white ≤ 10) (hdl : cfg.delim ≤ 10) (hpp : cfg.preferPrefix = false)
    (hlen : (n0 :: n1 :: ns).length ≤ h.length) (hshort : (n0 :: n1 :: ns).length ≤ 2519) (start e : Nat)
    (hp : prefilterNonAscii cfg h (n0 :: n1 :: ns) false = some (start, e)) (sc : Nat) (idx : List Nat)
    (hres : substringNonAscii cfg ext nrep h (n0 :: n1 :: ns) start = some (sc, idx)) : sc = alignScore cfg ext h idx := by
  obtain ⟨hdec, hhead⟩ := C05_substring_unicode cfg ext nrep h n0 n1 ns hb hlen
  rw [hp] at hdec hhead
  simp only at hdec hhead
  have hh := hhead sc idx hres
  have hne : occurrences cfg .unicode h (n0 :: n1 :: ns) ≠ [] := by
    rw [hres] at hdec
    intro e'; rw [e'] at hdec; cases hdec
  have hcs : ∃ P, calculateScore cfg ext .unicode h (n0 :: n1 :: ns) P (P + (n0 :: n1 :: ns).length) = (sc, idx) := by
    unfold substringNonAscii at hres
    simp only at hres
    split at hres
    · cases hres
    · exact ⟨_, Option.some.inj hres⟩
  obtain ⟨P, hcs⟩ := hcs
  exact C03_substring_core cfg ext .unicode h n0 (n1 :: ns) P (fun e' => by cases e') hw hdl hpp hshort sc idx hcs hh hne

/-- **the greedy matcher's score on an ASCII haystack is the scheme's value of the alignment it reports** (also the greedy
    fallback of `fuzzy_match` when the scratch layout does not fit) -/
theorem C03_greedy_ascii_score (cfg : Cfg) (ext : Ext) (h : List Nat) (n0 : Nat) (ns : List Nat) (start ge e : Nat)
    (hasc : ∀ c ∈ h, c < 128) (hn : ∀ c ∈ n0 :: ns, normAscii cfg c = c)
    (hw : cfg.white ≤ 10) (hdl : cfg.delim ≤ 10) (hpp : cfg.preferPrefix = false) (hshort : (n0 :: ns).length ≤ 2519)
    (hp : prefilterAscii cfg h (n0 :: ns) true = some (start, ge, e)) (sc : Nat) (is : List Nat)
    (hres : fuzzyGreedyInner cfg ext .ascii .ascii h (n0 :: ns) start ge = some (sc, is)) :
    sc = alignScore cfg ext h is := by
  have hr : Rep.ascii = .ascii → ∀ c ∈ h, c < 128 := fun _ => hasc
  -- what the prefilter did
  unfold prefilterAscii at hp
  simp only at hp
  cases hf : findIdx (asciiEq cfg.ignoreCase n0) (h.take (h.length - (n0 :: ns).length + 1)) with
  | none => rw [hf] at hp; cases hp
  | some st =>
    rw [hf] at hp
    simp only at hp
    cases hg : asciiGreedyScan cfg.ignoreCase ns (h.drop (st + 1)) (st + 1) with
    | none => rw [hg] at hp; cases hp
    | some gr =>
      obtain ⟨g, rest⟩ := gr
      rw [hg] at hp
      simp only [if_true, Option.some.injEq, Prod.mk.injEq] at hp
      obtain ⟨rfl, rfl, _⟩ := hp
      have hfull := findIdx_of_take _ h st _ hf
      obtain ⟨f1, ⟨x, f2, f3⟩, _⟩ := findIdx_some _ h st hfull
      have hx : x = h[st] := by rw [List.getElem?_eq_getElem f1] at f2; exact (Option.some.inj f2).symm
      have h0 : normAscii cfg h[st] = n0 := by rw [← hx]; exact (asciiEq_iff cfg n0 x (hn n0 (by simp))).mp f3
      have hch0 : chAt cfg .ascii h st = n0 := by
        simp only [chAt, List.getElem?_eq_getElem f1, Option.map_some, Option.getD_some]
        rw [C16_cnorm_eq_norm cfg .ascii _ (fun _ => hasc _ (List.getElem_mem f1))]; exact h0
      unfold fuzzyGreedyInner at hres
      simp only [and_self, if_true] at hres
      cases ns with
      | nil =>
        -- one character: the greedy end is right behind it
        simp only [asciiGreedyScan, Option.some.injEq, Prod.mk.injEq] at hg
        obtain ⟨rfl, _⟩ := hg
        have hd : h.drop st = h[st] :: h.drop (st + 1) := by rw [List.drop_eq_getElem_cons f1]
        have hwin : (h.drop st).take (st + 1 - st) = [h[st]] := by rw [hd, show st + 1 - st = 1 by omega]; rfl
        rw [hwin] at hres
        have hn0' : norm cfg .ascii h[st] = n0 := h0
        simp only [enumFrom, List.reverse_cons, List.reverse_nil, List.nil_append, greedyBwd, hn0', if_true, Nat.add_zero,
          Option.some.injEq] at hres
        have tw : TightWindow cfg .ascii h n0 [] st (st + 1) := ⟨by omega, by omega, hch0, rfl⟩
        have hsc := C03_tight_score cfg ext .ascii h n0 [] st (st + 1) tw hw hdl hpp hshort
        have e1 := congrArg Prod.fst hres
        have e2 := congrArg Prod.snd hres
        simp only at e1 e2
        rw [← e1, ← e2]; exact hsc
      | cons n1 r =>
        obtain ⟨j1, j2, j3⟩ := asciiGreedyScan_tight cfg (n1 :: r) (h.drop (st + 1)) (st + 1) g rest (fun c hc => hn c (by simp [hc])) (by simp) hg
        simp only [List.length_drop] at j2
        have tw0 : TightWindow cfg .ascii h n0 (n1 :: r) st g := by
          refine ⟨by omega, by omega, hch0, ?_⟩
          show Tight (n1 :: r) (((h.drop (st + 1)).take (g - (st + 1))).map (cnorm cfg .ascii))
          rw [map_cnorm_eq_map_norm cfg .ascii h _ hr (fun c hc => List.mem_of_mem_drop (List.mem_of_mem_take hc))]
          exact j3
        have tw := tight_after_bwd cfg .ascii h n0 n1 r st g hr tw0
        simp only [Option.some.injEq] at hres
        have hsc := C03_tight_score cfg ext .ascii h n0 (n1 :: r) _ g tw hw hdl hpp hshort
        have e1 := congrArg Prod.fst hres
        have e2 := congrArg Prod.snd hres
        simp only at e1 e2
        rw [← e1, ← e2]; exact hsc



/-- **the greedy matcher's score on a code-point haystack** -/
theorem C03_greedy_unicode_score (cfg : Cfg) (ext : Ext) (nrep : Rep) (h : List Nat) (n0 : Nat) (ns : List Nat) (start : Nat)
    (hs : start < h.length) (h0 : norm cfg .unicode h[start] = n0)
    (hw : cfg.white ≤ 10) (hdelim : cfg.delim ≤ 10) (hpp : cfg.preferPrefix = false) (hshort : (n0 :: ns).length ≤ 2519) (sc : Nat) (is : List Nat)
    (hres : fuzzyGreedyInner cfg ext .unicode nrep h (n0 :: ns) start (start + 1) = some (sc, is)) :
    sc = alignScore cfg ext h is := by
  have hcn : ∀ x, cnorm cfg .unicode x = norm cfg .unicode x := fun x => C16_cnorm_eq_norm cfg .unicode x (fun e => by cases e)
  have hmapcn : ∀ l : List Nat, l.map (cnorm cfg .unicode) = l.map (norm cfg .unicode) := fun l => List.map_congr_left (fun x _ => hcn x)
  have hr : Rep.unicode = .ascii → ∀ c ∈ h, c < 128 := fun e => by cases e
  have hd : h.drop start = h[start] :: h.drop (start + 1) := by rw [List.drop_eq_getElem_cons hs]
  have hch0 : chAt cfg .unicode h start = n0 := by simp [chAt, List.getElem?_eq_getElem hs, hcn, h0]
  unfold fuzzyGreedyInner at hres
  simp only [reduceCtorEq, false_and, if_false, List.drop_succ_cons, List.drop_zero] at hres
  cases ns with
  | nil =>
    simp only at hres
    -- a one-character needle: the window is the single character
    have hwin : (h.drop start).take (start + 1 - start) = [h[start]] := by
      rw [hd, show start + 1 - start = 1 by omega]; rfl
    rw [hwin] at hres
    simp only [enumFrom, List.reverse_cons, List.reverse_nil, List.nil_append, greedyBwd, h0, if_true, Nat.add_zero,
      Option.some.injEq, Prod.mk.injEq] at hres
    have tw : TightWindow cfg .unicode h n0 [] start (start + 1) := ⟨by omega, by omega, hch0, rfl⟩
    have := C03_tight_score cfg ext .unicode h n0 [] start (start + 1) tw hw hdelim hpp hshort
    have e1 := congrArg Prod.fst hres
    have e := congrArg Prod.snd hres
    simp only at e1 e
    rw [← e1, ← e]; exact this
  | cons n1 r =>
    simp only at hres
    cases hf : greedyFwd cfg .unicode (n1 :: r) (h.drop (start + 1)) 0 with
    | none => rw [hf] at hres; cases hres
    | some k =>
      rw [hf] at hres
      simp only [Option.map_some] at hres
      obtain ⟨k1, k2, k3⟩ := greedyFwd_tight cfg .unicode _ n1 r 0 k hf
      simp only [Nat.sub_zero, List.length_drop] at k2 k3
      generalize hW0 : (h.drop (start + 1)).take k = W0 at k3
      have hW0len : W0.length = k := by rw [← hW0]; simp [List.length_take]; omega
      have hwin : (h.drop start).take (start + 1 + k - start) = h[start] :: W0 := by
        rw [hd, show start + 1 + k - start = k + 1 by omega, List.take_succ_cons, hW0]
      rw [hwin] at hres
      -- the window in front of the backward scan
      have tw0 : TightWindow cfg .unicode h n0 (n1 :: r) start (start + 1 + k) := by
        refine ⟨by omega, by omega, hch0, ?_⟩
        show Tight (n1 :: r) (((h.drop (start + 1)).take (start + 1 + k - (start + 1))).map (cnorm cfg .unicode))
        rw [show start + 1 + k - (start + 1) = k by omega, hW0, hmapcn]; exact k3
      cases hb : greedyBwd cfg .unicode (n0 :: n1 :: r).reverse (enumFrom 0 (h[start] :: W0)).reverse with
      | none =>
        rw [hb] at hres
        simp only [Option.some.injEq, Prod.mk.injEq] at hres
        have e1 := congrArg Prod.fst hres
        have e := congrArg Prod.snd hres
        simp only at e1 e
        rw [← e1, ← e]; exact C03_tight_score cfg ext .unicode h n0 (n1 :: r) start (start + 1 + k) tw0 hw hdelim hpp hshort
      | some i =>
        rw [hb] at hres
        simp only [Option.some.injEq, Prod.mk.injEq] at hres
        have e1 := congrArg Prod.fst hres
        have eis := congrArg Prod.snd hres
        simp only at e1 eis
        rw [← e1, ← eis]
        -- what the backward scan found
        have hrev : (n0 :: n1 :: r).reverse = (n1 :: r).reverse ++ [n0] := by simp
        cases hR : (n0 :: n1 :: r).reverse with
        | nil => simp at hR
        | cons r0 rs =>
          rw [hR] at hb
          obtain ⟨P1, c, P2, e1, e2, e3⟩ := greedyBwd_spec cfg .unicode _ r0 rs i hb
          have hlast : (r0 :: rs).getLast (by simp) = n0 := by
            have : (r0 :: rs).getLast? = some n0 := by rw [← hR, hrev]; simp
            rw [List.getLast?_eq_getLast (by simp)] at this
            exact Option.some.inj this
          have hdl : (r0 :: rs).dropLast = (n1 :: r).reverse := by rw [← hR, hrev]; simp
          rw [hlast] at e2
          rw [hdl] at e3
          have e1' : enumFrom 0 (h[start] :: W0) = P2.reverse ++ (i, c) :: P1.reverse := by
            have := congrArg List.reverse e1
            simpa using this
          obtain ⟨s1, s2, s3⟩ := enumFrom_split _ 0 _ i c _ e1'
          simp only [Nat.zero_add, List.length_reverse] at s1 s2 s3
          rw [← s1] at s2 s3
          -- the rest of the needle lies behind position `i` of the window
          have hsub : subseqB (n1 :: r) (((h[start] :: W0).drop (i + 1)).map (norm cfg .unicode)) = true := by
            rw [subseqB_iff_sublist] at e3 ⊢
            have := List.reverse_sublist.mpr e3
            rw [List.reverse_reverse, ← List.map_reverse] at this
            have e4 : (P1.reverse).map (fun p => norm cfg .unicode p.2) = ((h[start] :: W0).drop (i + 1)).map (norm cfg .unicode) := by
              rw [← s3, List.map_map]; rfl
            rw [← e4]; exact this
          have hilt : i < (h[start] :: W0).length := by
            by_cases hlt : i < (h[start] :: W0).length
            · exact hlt
            · exfalso
              have hge : (h[start] :: W0).length ≤ i := Nat.le_of_not_lt hlt
              rw [List.getElem?_eq_none hge] at s2; cases s2
          simp only [List.length_cons, hW0len] at hilt
          have tw : TightWindow cfg .unicode h n0 (n1 :: r) (start + i) (start + 1 + k) := by
            refine ⟨by omega, by omega, ?_, ?_⟩
            · have := chAt_drop cfg .unicode h start (k + 1) i c (by
                rw [hd, List.take_succ_cons, hW0]; exact s2)
              rw [this, hcn]; exact e2
            · show Tight (n1 :: r) (((h.drop (start + i + 1)).take (start + 1 + k - (start + i + 1))).map (cnorm cfg .unicode))
              have e5 : (h.drop (start + i + 1)).take (start + 1 + k - (start + i + 1)) = W0.drop i := by
                rw [← hW0, List.drop_take, List.drop_drop]
                have hik : i ≤ k := by omega
                congr 1
                · omega
                · congr 1; omega
              rw [e5, hmapcn, List.map_drop]
              apply k3.drop i
              rw [← List.map_drop]
              simpa using hsub
          exact C03_tight_score cfg ext .unicode h n0 (n1 :: r) (start + i) (start + 1 + k) tw hw hdelim hpp hshort



/-! ## every path of `fuzzy_match` -/

/-- **`fuzzy_match` / `fuzzy_indices`, ASCII**: whichever path is taken — contiguous shortcut, matrix, greedy fallback — the
    score is the scheme's value of the reported alignment (needle of 2 to 2519 characters, normalized; prefix preference off) -/
theorem C03_fuzzy_all_paths_ascii (cfg : Cfg) (ext : Ext) (h : List Nat) (n0 n1 : Nat) (ns : List Nat)
    (hpp : cfg.preferPrefix = false) (hw : cfg.white ≤ 10) (hdl : cfg.delim ≤ 10)
    (hasc : ∀ c ∈ h, c < 128) (hn : ∀ c ∈ n0 :: n1 :: ns, normAscii cfg c = c)
    (hlen : (n0 :: n1 :: ns).length < h.length) (hshort : (n0 :: n1 :: ns).length ≤ 2519)
    (sc : Nat) (is : List Nat) (hres : fuzzyMatch cfg ext .ascii .ascii h (n0 :: n1 :: ns) = some (sc, is)) :
    sc = alignScore cfg ext h is := by
  cases hp : prefilterAscii cfg h (n0 :: n1 :: ns) false with
  | none =>
    exfalso
    unfold fuzzyMatch at hres
    have h1 : ¬ ((n0 :: n1 :: ns).length > h.length) := by omega
    have h2 : ¬ ((n0 :: n1 :: ns).length = h.length) := by omega
    simp only [h1, if_false, List.isEmpty_cons, Bool.false_eq_true, h2, hp] at hres
    cases hres
  | some sge =>
    obtain ⟨start, ge, e⟩ := sge
    by_cases hfit : (n0 :: n1 :: ns).length = e - start ∨ slabFits (charSize .ascii) (e - start) (n0 :: n1 :: ns).length = true
    · exact C03_fuzzy_entry_ascii cfg ext h n0 n1 ns hpp hw hdl hasc hn hlen hshort start ge e hp hfit sc is hres
    · -- greedy fallback
      have hf1 : ¬ ((n0 :: n1 :: ns).length = e - start) := fun e' => hfit (Or.inl e')
      have hf2 : slabFits (charSize .ascii) (e - start) (n0 :: n1 :: ns).length = false := by
        cases hs : slabFits (charSize .ascii) (e - start) (n0 :: n1 :: ns).length with
        | false => rfl
        | true => exact absurd (Or.inr hs) hfit
      unfold fuzzyMatch at hres
      have h1 : ¬ ((n0 :: n1 :: ns).length > h.length) := by omega
      have h2 : ¬ ((n0 :: n1 :: ns).length = h.length) := by omega
      simp only [h1, if_false, List.isEmpty_cons, Bool.false_eq_true, h2, hp, hf1] at hres
      unfold fuzzyOptimal at hres
      simp only [hf2, Bool.false_eq_true, if_false] at hres
      exact C03_greedy_ascii_score cfg ext h n0 (n1 :: ns) start ge ge hasc hn hw hdl hpp hshort
        (prefilterAscii_greedy_part cfg h _ start ge e hp) sc is hres

/-- **`fuzzy_match` / `fuzzy_indices`, code-point haystack** -/
theorem C03_fuzzy_all_paths_unicode (cfg : Cfg) (ext : Ext) (nrep : Rep) (h : List Nat) (n0 n1 : Nat) (ns : List Nat)
    (hpp : cfg.preferPrefix = false) (hw : cfg.white ≤ 10) (hdl : cfg.delim ≤ 10)
    (hn : (n0 :: n1 :: ns).map (norm cfg nrep) = n0 :: n1 :: ns)
    (hlen : (n0 :: n1 :: ns).length < h.length) (hshort : (n0 :: n1 :: ns).length ≤ 2519)
    (sc : Nat) (is : List Nat) (hres : fuzzyMatch cfg ext .unicode nrep h (n0 :: n1 :: ns) = some (sc, is)) :
    sc = alignScore cfg ext h is := by
  cases hp : prefilterNonAscii cfg h (n0 :: n1 :: ns) false with
  | none =>
    exfalso
    unfold fuzzyMatch at hres
    have h1 : ¬ ((n0 :: n1 :: ns).length > h.length) := by omega
    have h2 : ¬ ((n0 :: n1 :: ns).length = h.length) := by omega
    simp only [h1, if_false, List.isEmpty_cons, Bool.false_eq_true, h2, hp] at hres
    cases hres
  | some se =>
    obtain ⟨start, e⟩ := se
    by_cases hfit : (n0 :: n1 :: ns).length = e - start ∨ slabFits (charSize .unicode) (e - start) (n0 :: n1 :: ns).length = true
    · exact C03_fuzzy_entry_unicode cfg ext nrep h n0 n1 ns hpp hw hdl hn hlen hshort start e hp hfit sc is hres
    · have hf1 : ¬ ((n0 :: n1 :: ns).length = e - start) := fun e' => hfit (Or.inl e')
      have hf2 : slabFits (charSize .unicode) (e - start) (n0 :: n1 :: ns).length = false := by
        cases hs : slabFits (charSize .unicode) (e - start) (n0 :: n1 :: ns).length with
        | false => rfl
        | true => exact absurd (Or.inr hs) hfit
      unfold fuzzyMatch at hres
      have h1 : ¬ ((n0 :: n1 :: ns).length > h.length) := by omega
      have h2 : ¬ ((n0 :: n1 :: ns).length = h.length) := by omega
      simp only [h1, if_false, List.isEmpty_cons, Bool.false_eq_true, h2, hp, hf1] at hres
      unfold fuzzyOptimal at hres
      simp only [hf2, Bool.false_eq_true, if_false] at hres
      have hstart := prefilterNonAscii_start cfg h n0 (n1 :: ns) start e hp
      have hfull := findIdx_of_take _ h start _ hstart
      obtain ⟨f1, ⟨x, f2, f3⟩, _⟩ := findIdx_some _ h start hfull
      have hx : x = h[start] := by rw [List.getElem?_eq_getElem f1] at f2; exact (Option.some.inj f2).symm
      have h0 : norm cfg .unicode h[start] = n0 := by rw [← hx]; show normChar cfg x = n0; simpa using f3
      exact C03_greedy_unicode_score cfg ext nrep h n0 (n1 :: ns) start f1 h0 hw hdl hpp hshort sc is hres

/-! ## `fuzzy_match` in one statement (C01 + C02 + C03) -/

/-- **`fuzzy_match` / `fuzzy_indices` on a code-point haystack**: it matches exactly when the needle is a subsequence of the
    normalized haystack, and then the reported indices are a valid witness whose value under the scheme is the returned
    score (needle of 2 to 2519 characters, normalized, shorter than the haystack; prefix preference off) -/
theorem fuzzy_match_correct_unicode (cfg : Cfg) (ext : Ext) (nrep : Rep) (h : List Nat) (n0 n1 : Nat) (ns : List Nat)
    (hpp : cfg.preferPrefix = false) (hw : cfg.white ≤ 10) (hdl : cfg.delim ≤ 10)
    (hn : (n0 :: n1 :: ns).map (norm cfg nrep) = n0 :: n1 :: ns)
    (hlen : (n0 :: n1 :: ns).length < h.length) (hshort : (n0 :: n1 :: ns).length ≤ 2519) :
    (fuzzyMatch cfg ext .unicode nrep h (n0 :: n1 :: ns)).isSome = subseqB (n0 :: n1 :: ns) (normHay cfg .unicode h) ∧
    ∀ sc is, fuzzyMatch cfg ext .unicode nrep h (n0 :: n1 :: ns) = some (sc, is) →
      validWitnessB cfg .unicode h (n0 :: n1 :: ns) is = true ∧ sc = alignScore cfg ext h is :=
  ⟨C01_decision_unicode cfg ext nrep h _ hn, fun sc is hres =>
    ⟨C02_fuzzy_entry_unicode cfg ext nrep h n0 n1 ns hpp hn hlen sc is hres,
     C03_fuzzy_all_paths_unicode cfg ext nrep h n0 n1 ns hpp hw hdl hn hlen hshort sc is hres⟩⟩

/-- **`fuzzy_match` / `fuzzy_indices` on an ASCII haystack with an ASCII needle** -/
theorem fuzzy_match_correct_ascii (cfg : Cfg) (ext : Ext) (h : List Nat) (n0 n1 : Nat) (ns : List Nat)
    (hpp : cfg.preferPrefix = false) (hw : cfg.white ≤ 10) (hdl : cfg.delim ≤ 10)
    (hasc : ∀ c ∈ h, c < 128) (hn : ∀ c ∈ n0 :: n1 :: ns, normAscii cfg c = c)
    (hlen : (n0 :: n1 :: ns).length < h.length) (hshort : (n0 :: n1 :: ns).length ≤ 2519) :
    (fuzzyMatch cfg ext .ascii .ascii h (n0 :: n1 :: ns)).isSome = subseqB (n0 :: n1 :: ns) (normHay cfg .ascii h) ∧
    ∀ sc is, fuzzyMatch cfg ext .ascii .ascii h (n0 :: n1 :: ns) = some (sc, is) →
      validWitnessB cfg .ascii h (n0 :: n1 :: ns) is = true ∧ sc = alignScore cfg ext h is :=
  ⟨C01_decision_ascii cfg ext h _ hasc hn, fun sc is hres =>
    ⟨C02_fuzzy_entry_ascii cfg ext h n0 n1 ns hpp hasc hn hlen sc is hres,
     C03_fuzzy_all_paths_ascii cfg ext h n0 n1 ns hpp hw hdl hasc hn hlen hshort sc is hres⟩⟩

/-! ## one-character needles (from the one-character optimum of C04) -/

theorem C03_fuzzy_one_char_ascii (cfg : Cfg) (ext : Ext) (h : List Nat) (c : Nat) (hb : 8 ≤ maxBonus cfg)
    (hasc : ∀ x ∈ h, x < 128) (hc : normAscii cfg c = c) (hlen : 1 < h.length)
    (sc : Nat) (is : List Nat) (hres : fuzzyMatch cfg ext .ascii .ascii h [c] = some (sc, is)) :
    sc = alignScore cfg ext h is := by
  unfold fuzzyMatch at hres
  have h1 : ¬ (([c] : List Nat).length > h.length) := by simp only [List.length_singleton]; omega
  have h2 : ¬ (([c] : List Nat).length = h.length) := by simp only [List.length_singleton]; omega
  simp only [h1, if_false, List.isEmpty_cons, Bool.false_eq_true, h2] at hres
  have hone := C04_one_char_optimum_ascii cfg ext h c hb hasc hc
  rw [hres] at hone
  simp only at hone
  obtain ⟨_, p, rfl, _, hs, _⟩ := hone
  exact hs.symm

theorem C03_fuzzy_one_char_unicode (cfg : Cfg) (ext : Ext) (nrep : Rep) (h : List Nat) (c : Nat) (hb : 8 ≤ maxBonus cfg)
    (hlen : 1 < h.length) (sc : Nat) (is : List Nat) (hres : fuzzyMatch cfg ext .unicode nrep h [c] = some (sc, is)) :
    sc = alignScore cfg ext h is := by
  unfold fuzzyMatch at hres
  have h1 : ¬ (([c] : List Nat).length > h.length) := by simp only [List.length_singleton]; omega
  have h2 : ¬ (([c] : List Nat).length = h.length) := by simp only [List.length_singleton]; omega
  simp only [h1, if_false, List.isEmpty_cons, Bool.false_eq_true, h2] at hres
  have hone := C04_one_char_optimum_unicode cfg ext h c hb
  cases hp : prefilterNonAscii cfg h [c] true with
  | none => rw [hp] at hres; cases hres
  | some se =>
    obtain ⟨start, e⟩ := se
    rw [hp] at hres hone
    simp only at hres hone
    obtain ⟨_, p, hp2, _, hs, _⟩ := hone
    have e1 := congrArg Prod.fst (Option.some.inj hres)
    have e2 := congrArg Prod.snd (Option.some.inj hres)
    simp only at e1 e2
    rw [← e1, ← e2, hp2]
    exact hs.symm

end NucleoVerif
