import NucleoVerif.Model.Score
import NucleoVerif.Gen.ScoreLoop
/-! # C03 (companion file) — the scoring loop of `calculate_score`, translated from the source, is the model's state machine

`Gen/ScoreLoop.lean` is produced on every run from `matcher/src/score.rs` by symbolic execution of the statements of
`calculate_score`: the unrolled first iteration, the two branches of the loop body (`match_step`, `skip_step`) over the
mutable variables `bonus`, `first_bonus`, `score`, `in_gap`, `consecutive`, and the `prefer_prefix` tail.  The theorems
of C03 (`C03_calculateScore_eq_alignScore`, …) are about the hand-written state machine `stInit` / `stepMatch` /
`stepSkip` / `prefixBonusCs` of `Model/Score.lean`; this file proves that the two coincide, so a change of the bonus
bookkeeping in the source breaks a proof here (and the correspondence run then looks for the failing input). -/
namespace NucleoVerif
open Gen Gen.ScoreLoop

/-- the unrolled first iteration -/
theorem C03_translated_first (cfg : Cfg) (prev cls : CharClass) :
    (stInit cfg prev cls).score = first_score (bonusFor cfg prev cls) ∧
    (stInit cfg prev cls).inGap = init_in_gap ∧ (stInit cfg prev cls).consec = decide (init_consecutive ≠ 0) ∧
    (stInit cfg prev cls).firstBonus = bonusFor cfg prev cls := by
  refine ⟨rfl, rfl, rfl, rfl⟩

/-- the matching branch: the model's `consec` flag is `consecutive != 0` -/
theorem C03_translated_match (cfg : Cfg) (s : St) (cls : CharClass) (k : Nat) (hk : s.consec = decide (k ≠ 0)) :
    stepMatch cfg s cls =
      { score := (match_step (bonusFor cfg s.prev cls) s.firstBonus s.score s.inGap k).score, prev := cls,
        inGap := (match_step (bonusFor cfg s.prev cls) s.firstBonus s.score s.inGap k).in_gap,
        consec := decide ((match_step (bonusFor cfg s.prev cls) s.firstBonus s.score s.inGap k).consecutive ≠ 0),
        firstBonus := (match_step (bonusFor cfg s.prev cls) s.firstBonus s.score s.inGap k).first_bonus } := by
  unfold stepMatch match_step sat16
  by_cases hk0 : k = 0
  · subst hk0
    simp only [ne_eq, not_true_eq_false, decide_false] at hk
    simp [hk]
  · have : s.consec = true := by rw [hk]; simp [hk0]
    simp only [this, if_true, ne_eq, hk0, not_false_eq_true, decide_true, Bool.and_eq_true, decide_eq_true_eq]
    congr 1

/-- the non-matching branch -/
theorem C03_translated_skip (s : St) (cls : CharClass) (b k : Nat) :
    stepSkip s cls =
      { score := (skip_step b s.firstBonus s.score s.inGap k).score, prev := cls,
        inGap := (skip_step b s.firstBonus s.score s.inGap k).in_gap,
        consec := decide ((skip_step b s.firstBonus s.score s.inGap k).consecutive ≠ 0),
        firstBonus := (skip_step b s.firstBonus s.score s.inGap k).first_bonus } := by
  unfold stepSkip skip_step
  simp

/-- the `prefer_prefix` tail (the source saturates the intermediate products, the model does not: the results agree) -/
theorem C03_translated_prefix_tail (cfg : Cfg) (score start : Nat) (hs : score ≤ 65535) :
    sat16 (score + prefixBonusCs cfg start) =
      if cfg.preferPrefix then prefix_tail score start (min (start - 1) 65535) else score := by
  unfold prefixBonusCs prefix_tail sat16
  by_cases hp : cfg.preferPrefix = true
  · simp only [hp, if_true, MAX_PREFIX_BONUS, PENALTY_GAP_START, PREFIX_BONUS_SCALE]
    by_cases h0 : start = 0
    · simp [h0]
    · simp only [ne_eq, h0, not_false_eq_true, if_true]
      omega
  · simp only [hp, Bool.false_eq_true, if_false, Nat.add_zero]
    omega

end NucleoVerif
