import NucleoVerif.Model.Matcher
import NucleoVerif.Spec.Matcher
import NucleoVerif.Props.C03
import NucleoVerif.Props.C01
import NucleoVerif.Lemmas.Scan
/-! # C04 — ranking quality: bounded by the true optimum, no worse than the recurrence

Modelling level (DESIGN.md): `optimalDP` *is* the documented two-matrix recurrence evaluated
naively (lower-bound clause: the implementation equals it — correspondence check, every case).
Theorems here: the fact the "can't get better" early exit relies on (`bonusFor ≤ maxBonus`),
the single-candidate scan keeps the leftmost maximum (`Best.offer` invariants). -/
namespace NucleoVerif
open Gen Spec

/-- **no bonus exceeds the value the early exit waits for** — for every configuration whose
    largest boundary bonus is at least the non-word bonus (true for all three presets, below) -/
theorem C04_bonus_le_max (cfg : Cfg) (hb : 8 ≤ maxBonus cfg) (prev cls : CharClass) :
    bonusFor cfg prev cls ≤ maxBonus cfg := bonus_le_max cfg hb prev cls

theorem C04_presets_max :
    8 ≤ max presetDefault_white presetDefault_delim ∧ 8 ≤ max presetMatchPaths_white presetMatchPaths_delim ∧
    8 ≤ max presetSetMatchPaths_white presetSetMatchPaths_delim := by decide

open DP

/-! ## upper bound: never above the true optimum -/

theorem foldl_max_ge_init (l : List Nat) : ∀ (a : Nat), a ≤ l.foldl max a := by
  induction l with
  | nil => intro a; exact Nat.le_refl _
  | cons x t ih => intro a; simp only [List.foldl_cons]; exact Nat.le_trans (Nat.le_max_left a x) (ih _)

theorem foldl_max_ge_mem (l : List Nat) : ∀ (a : Nat) (x : Nat), x ∈ l → x ≤ l.foldl max a := by
  induction l with
  | nil => intro a x hx; simp at hx
  | cons y t ih =>
    intro a x hx
    simp only [List.foldl_cons]
    rcases List.mem_cons.mp hx with rfl | hx
    · exact Nat.le_trans (Nat.le_max_right a x) (foldl_max_ge_init t _)
    · exact ih _ x hx

/-- the normalized character at absolute index `x` of a haystack suffix `cs` that starts at `base` -/
def normAt (cfg : Cfg) (hrep : Rep) (cs : List Nat) (base x : Nat) : Nat := (cs[x - base]?.map (norm cfg hrep)).getD 0

/-- every strictly increasing in-range index list whose normalized characters spell the needle is one of
    the alignments the brute-force specification enumerates -/
theorem mem_allAlignments (cfg : Cfg) (hrep : Rep) :
    ∀ (cs : List Nat) (n : List Nat) (base : Nat) (is : List Nat),
      is.Pairwise (· < ·) → (∀ x ∈ is, base ≤ x ∧ x < base + cs.length) → is.map (normAt cfg hrep cs base) = n →
      is ∈ allAlignments cfg hrep n base cs := by
  intro cs
  induction cs with
  | nil =>
    intro n base is _ hin hmap
    cases is with
    | nil => cases n with
      | nil => simp [allAlignments]
      | cons _ _ => simp at hmap
    | cons i0 it => have := hin i0 (by simp); simp at this; omega
  | cons c cs ih =>
    intro n base is hpw hin hmap
    cases n with
    | nil =>
      have : is = [] := by cases is with
        | nil => rfl
        | cons _ _ => simp at hmap
      subst this; simp [allAlignments]
    | cons nc ns =>
      cases is with
      | nil => simp at hmap
      | cons i0 it =>
        have hpw' := List.pairwise_cons.mp hpw
        simp only [List.map_cons, List.cons.injEq] at hmap
        have hi0 := hin i0 (by simp)
        simp only [allAlignments, List.mem_append]
        -- shifting the suffix
        have shift : ∀ (l : List Nat), (∀ x ∈ l, base + 1 ≤ x) → l.map (normAt cfg hrep (c :: cs) base) = l.map (normAt cfg hrep cs (base + 1)) := by
          intro l hl
          apply List.map_congr_left
          intro x hx
          have := hl x hx
          unfold normAt
          have e : x - base = (x - (base + 1)) + 1 := by omega
          rw [e, List.getElem?_cons_succ]
        by_cases h0 : i0 = base
        · left
          subst h0
          have hc : norm cfg hrep c = nc := by
            have := hmap.1
            simpa [normAt] using this
          rw [if_pos hc]
          have hit : ∀ x ∈ it, i0 + 1 ≤ x := fun x hx => hpw'.1 x hx
          have := ih ns (i0 + 1) it hpw'.2
            (by intro x hx
                have h1 := hit x hx
                have h2 := hin x (by simp [hx])
                simp only [List.length_cons] at h2
                omega)
            (by rw [← shift it hit]; exact hmap.2)
          exact List.mem_map.mpr ⟨it, this, rfl⟩
        · right
          have hall : ∀ x ∈ i0 :: it, base + 1 ≤ x := by
            intro x hx
            rcases List.mem_cons.mp hx with rfl | hx
            · omega
            · have := hpw'.1 x hx; omega
          apply ih (nc :: ns) (base + 1) (i0 :: it) hpw
          · intro x hx
            have h1 := hall x hx
            have h2 := hin x hx
            simp only [List.length_cons] at h2
            omega
          · rw [← shift (i0 :: it) hall]
            simp only [List.map_cons, hmap.1, hmap.2]

/-- **the optimal matcher never scores above the true optimum**: the value its recurrence reports is the
    scheme's value of an alignment the brute-force specification enumerates, hence at most the maximum over
    all alignments — every configuration with prefix preference off, every haystack, needle and window -/
theorem C04_upper_bound (cfg : Cfg) (ext : Ext) (hrep : Rep) (h n : List Nat) (start end_ : Nat)
    (hr : hrep = .ascii → ∀ c ∈ h, c < 128) (hpp : cfg.preferPrefix = false) (sc : Nat) (path : List Nat)
    (hres : optimalDP cfg ext hrep h n start end_ = some (sc, path)) :
    sc ≤ maxAlignScore cfg ext hrep h n := by
  have inv := DP.optimalDP_eq_alignScore cfg ext hrep h n start end_ hpp sc path hres
  have hsp := C02_optimalDP_spells_needle cfg ext hrep h n start end_ sc path hres
  have hmem : path ∈ allAlignments cfg hrep n 0 h := by
    apply mem_allAlignments cfg hrep h n 0 path inv.2.1
    · intro x hx; have := (inv.2.2 x hx).2; omega
    · rw [← hsp]
      apply List.map_congr_left
      intro x hx
      have hlt := (inv.2.2 x hx).2
      simp only [normAt, chAt, Nat.sub_zero, List.getElem?_eq_getElem hlt, Option.map_some, Option.getD_some]
      exact (C16_cnorm_eq_norm cfg hrep h[x] (fun e => hr e _ (List.getElem_mem hlt))).symm
  unfold maxAlignScore
  rw [inv.1]
  exact foldl_max_ge_mem _ 0 _ (List.mem_map.mpr ⟨path, hmem, rfl⟩)



/-! ## one-character needles: the best-placed occurrence wins -/

/-- the one-character scan is the general candidate scan with an acceptance test on the current character -/
theorem scan1_inv (cfg : Cfg) (hb : 8 ≤ maxBonus cfg) (m : Nat → Bool) (cl : Nat → CharClass)
    (xs : List Nat) (b : Best) (prev : CharClass) (pos : Nat) (S : List (Nat × Nat))
    (h : ScanInv cfg b S) (hlt : ∀ ps ∈ S, ps.1 < pos) :
    ScanInv cfg (scan1 cfg m cl b prev pos xs) (S ++ cands1 cfg m cl prev pos xs) := by
  rw [scan1_eq_scanS, cands1_eq_candsS]
  exact scanS_inv cfg hb _ cl xs b prev pos S h hlt

/-- for a one-character needle the enumerated alignments are the candidates' positions -/
theorem allAlignments_single (cfg : Cfg) (hrep : Rep) (nc : Nat) (m : Nat → Bool) (cl : Nat → CharClass)
    (hm : ∀ x, m x = true ↔ norm cfg hrep x = nc) :
    ∀ (xs : List Nat) (prev : CharClass) (pos : Nat),
      allAlignments cfg hrep [nc] pos xs = (cands1 cfg m cl prev pos xs).map (fun ps => [ps.1]) := by
  intro xs
  induction xs with
  | nil => intro _ _; simp [allAlignments, cands1]
  | cons x xs ih =>
    intro prev pos
    simp only [allAlignments, cands1, List.map_append]
    rw [ih (cl x) (pos + 1)]
    congr 1
    by_cases hx : m x = true
    · have := (hm x).mp hx
      simp [hx, this]
    · have hx' : m x = false := by simpa using hx
      have : ¬ (norm cfg hrep x = nc) := fun e => hx ((hm x).mpr e)
      simp [hx', this]

/-- each candidate's score is the scheme's value of the one-index alignment at its position -/
theorem cands1_alignScore (cfg : Cfg) (ext : Ext) (h : List Nat) (m : Nat → Bool) (cl : Nat → CharClass) :
    ∀ (xs : List Nat) (prev : CharClass) (pos : Nat),
      (∀ k c, xs[k]? = some c → h[pos + k]? = some c) → prev = prevClassAt cfg ext h pos →
      (∀ x ∈ xs, cl x = charClass cfg ext x) →
      ∀ ps ∈ cands1 cfg m cl prev pos xs, ps.2 = alignScore cfg ext h [ps.1] := by
  intro xs
  induction xs with
  | nil => intro _ _ _ _ _ ps h; simp [cands1] at h
  | cons x xs ih =>
    intro prev pos hxs hprev hcl ps hps
    have h0 : h[pos]? = some x := by simpa using hxs 0 x (by simp)
    have hlt : pos < h.length := by
      rcases Nat.lt_or_ge pos h.length with hl | hl
      · exact hl
      · rw [List.getElem?_eq_none hl] at h0; cases h0
    simp only [cands1, List.mem_append] at hps
    rcases hps with hps | hps
    · split at hps
      · simp only [List.mem_singleton] at hps
        subst hps
        simp only
        unfold alignScore
        simp only [List.getLast?_singleton, Option.getD_some, Nat.sub_self, List.take_zero, sWalk]
        have hdrop : h.drop pos = x :: h.drop (pos + 1) := by
          rw [List.drop_eq_getElem_cons hlt]
          congr 1
          rw [List.getElem?_eq_getElem hlt] at h0
          exact Option.some.inj h0
        rw [hdrop]
        simp only [sInit, hcl x (by simp), hprev, C03_bonusFor_eq_spec, BONUS_FIRST_CHAR_MULTIPLIER, SCORE_MATCH]
        have : prevClassAt cfg ext h pos = (if pos = 0 then cfg.initial else (h[pos - 1]?.map (charClass cfg ext)).getD cfg.initial) := by
          unfold prevClassAt
          split
          · rfl
          · cases h[pos - 1]? <;> rfl
        rw [this]
        omega
      · simp at hps
    · apply ih (cl x) (pos + 1) _ _ (fun y hy => hcl y (by simp [hy])) ps hps
      · intro k c hk
        have := hxs (k + 1) c (by simpa using hk)
        have e : pos + (k + 1) = pos + 1 + k := by omega
        rw [e] at this; exact this
      · unfold prevClassAt
        simp only [Nat.add_sub_cancel, h0, hcl x (by simp)]
        simp

theorem foldl_max_eq_of_upper_attained (l : List Nat) (v : Nat) (hu : ∀ x ∈ l, x ≤ v) (ha : v ∈ l) : l.foldl max 0 = v := by
  have h1 : v ≤ l.foldl max 0 := foldl_max_ge_mem l 0 v ha
  have h2 : ∀ (l : List Nat) (a : Nat), a ≤ v → (∀ x ∈ l, x ≤ v) → l.foldl max a ≤ v := by
    intro l
    induction l with
    | nil => intro a ha _; simpa using ha
    | cons x t ih =>
      intro a ha hl
      simp only [List.foldl_cons]
      exact ih _ (Nat.max_le.mpr ⟨ha, hl x (by simp)⟩) (fun y hy => hl y (by simp [hy]))
  exact Nat.le_antisymm (h2 l 0 (Nat.zero_le _) hu) h1

/-- **for a one-character needle the ASCII matcher returns the true optimum, at the leftmost best-placed
    occurrence** — every configuration whose largest boundary bonus is at least 8 (all presets), every
    ASCII haystack, every already-normalized needle character.  (The early "cannot get better" exit is
    sound because no bonus exceeds `max_bonus`; the repaired defect F3 was exactly a wrong constant there.) -/
theorem C04_one_char_optimum_ascii (cfg : Cfg) (ext : Ext) (h : List Nat) (c : Nat)
    (hb : 8 ≤ maxBonus cfg) (hasc : ∀ x ∈ h, x < 128) (hc : normAscii cfg c = c) :
    match substring1Ascii cfg ext h c with
    | none => allAlignments cfg .ascii [c] 0 h = []
    | some (sc, is) =>
      sc = maxAlignScore cfg ext .ascii h [c] ∧
      ∃ p, is = [p] ∧ [p] ∈ allAlignments cfg .ascii [c] 0 h ∧ alignScore cfg ext h [p] = sc ∧
        ∀ q, [q] ∈ allAlignments cfg .ascii [c] 0 h → alignScore cfg ext h [q] = sc → p ≤ q := by
  have hm : ∀ x, asciiEq cfg.ignoreCase c x = true ↔ norm cfg .ascii x = c := fun x => asciiEq_iff_norm cfg c x hc
  have hall := allAlignments_single cfg .ascii c (asciiEq cfg.ignoreCase c) (charClassAscii cfg) hm h cfg.initial 0
  have hsc := cands1_alignScore cfg ext h (asciiEq cfg.ignoreCase c) (charClassAscii cfg) h cfg.initial 0
    (by intro k c hk; simpa using hk) (by simp [prevClassAt])
    (by intro x hx; simp [charClass, hasc x hx])
  have inv := scan1_inv cfg hb (asciiEq cfg.ignoreCase c) (charClassAscii cfg) h ⟨0, 0, false⟩ cfg.initial 0 []
    ⟨by simp, Or.inl rfl, by simp⟩ (by simp)
  simp only [List.nil_append] at inv
  unfold substring1Ascii
  simp only
  rw [substring1Ascii_go_eq]
  generalize scan1 cfg (asciiEq cfg.ignoreCase c) (charClassAscii cfg) ⟨0, 0, false⟩ cfg.initial 0 h = b at inv
  generalize hC : cands1 cfg (asciiEq cfg.ignoreCase c) (charClassAscii cfg) cfg.initial 0 h = C at *
  have hpos16 : ∀ ps ∈ C, 16 ≤ ps.2 := by
    intro ps hps
    have := (cands1_pos cfg (asciiEq cfg.ignoreCase c) (charClassAscii cfg) h cfg.initial 0 ps (by rw [hC]; exact hps)).2
    obtain ⟨p, c', e⟩ := this
    simp only [SCORE_MATCH] at e; omega
  by_cases hz : b.score = 0
  · -- score 0: no candidate at all
    rw [if_pos hz]
    show allAlignments cfg .ascii [c] 0 h = []
    rw [hall]
    cases C with
    | nil => rfl
    | cons ps t =>
      have := inv.upper ps (by simp)
      have := hpos16 ps (by simp)
      omega
  · rw [if_neg hz]
    show b.score = maxAlignScore cfg ext .ascii h [c] ∧ _
    rcases inv.attained with z | ⟨a1, a2⟩
    · exact absurd z hz
    · have hmaxeq : maxAlignScore cfg ext .ascii h [c] = b.score := by
        unfold maxAlignScore
        rw [hall, List.map_map]
        have : (C.map ((alignScore cfg ext h) ∘ fun ps => [ps.1])) = C.map (·.2) := by
          apply List.map_congr_left
          intro ps hps
          simp only [Function.comp]
          exact (hsc ps hps).symm
        rw [this]
        apply foldl_max_eq_of_upper_attained
        · intro x hx
          obtain ⟨ps, hps, rfl⟩ := List.mem_map.mp hx
          exact inv.upper ps hps
        · exact List.mem_map.mpr ⟨(b.pos, b.score), a1, rfl⟩
      refine ⟨hmaxeq.symm, b.pos, rfl, ?_, ?_, ?_⟩
      · rw [hall]; exact List.mem_map.mpr ⟨(b.pos, b.score), a1, rfl⟩
      · exact (hsc _ a1).symm
      · intro q hq hqs
        rw [hall] at hq
        obtain ⟨ps, hps, e⟩ := List.mem_map.mp hq
        have e' : ps.1 = q := by simpa using e
        have := a2 ps hps (by rw [hsc ps hps, e', hqs])
        omega


end NucleoVerif
