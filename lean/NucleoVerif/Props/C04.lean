import NucleoVerif.Model.Matcher
import NucleoVerif.Spec.Matcher
import NucleoVerif.Props.C03
/-! # C04 — ranking quality: bounded by the true optimum, no worse than the recurrence

Modelling level (DESIGN.md): `optimalDP` *is* the documented two-matrix recurrence evaluated
naively (lower-bound clause: the implementation equals it — correspondence check, every case).
Theorems here: the fact the "can't get better" early exit relies on (`bonusFor ≤ maxBonus`),
the single-candidate scan keeps the leftmost maximum (`Best.offer` invariants). -/
namespace NucleoVerif
open Gen Spec

/-- **no bonus exceeds the value the early exit waits for** — for every configuration whose
    largest boundary bonus is at least the non-word bonus (true for all three presets, below) -/
theorem C04_bonus_le_max (cfg : Cfg) (hb : 8 ≤ maxBonus cfg) (prev cls : CharClass) :
    bonusFor cfg prev cls ≤ maxBonus cfg := by
  rw [C03_bonusFor_eq_spec]
  unfold maxBonus at *
  simp only [specBonus]
  repeat' split
  all_goals omega

theorem C04_presets_max :
    8 ≤ max presetDefault_white presetDefault_delim ∧ 8 ≤ max presetMatchPaths_white presetMatchPaths_delim ∧
    8 ≤ max presetSetMatchPaths_white presetSetMatchPaths_delim := by decide

/-- a candidate scan never lowers the best score, and once it has seen the maximal bonus nothing changes -/
theorem Best.offer_mono (cfg : Cfg) (b : Best) (pos bonus : Nat) (ok : Bool) :
    b.score ≤ (b.offer cfg pos bonus ok).score := by
  unfold Best.offer
  split
  · exact Nat.le_refl _
  · split
    · rename_i h; exact Nat.le_of_lt h.1
    · exact Nat.le_refl _

theorem Best.offer_stopped (cfg : Cfg) (b : Best) (pos bonus : Nat) (ok : Bool) (h : b.stop = true) :
    b.offer cfg pos bonus ok = b := by
  simp [Best.offer, h]

/-- an accepted candidate scores `16 + 2·bonus`, a later candidate replaces it only with a strictly
    larger score: **the leftmost best-placed occurrence wins** -/
theorem Best.offer_score (cfg : Cfg) (b : Best) (pos bonus : Nat) (ok : Bool) :
    (b.offer cfg pos bonus ok = b) ∨
    ((b.offer cfg pos bonus ok).score = bonus * BONUS_FIRST_CHAR_MULTIPLIER + SCORE_MATCH ∧
     (b.offer cfg pos bonus ok).pos = pos ∧ b.score < bonus * BONUS_FIRST_CHAR_MULTIPLIER + SCORE_MATCH ∧ ok = true) := by
  unfold Best.offer
  split
  · exact Or.inl rfl
  · split
    · rename_i h; exact Or.inr ⟨rfl, rfl, h.1, h.2⟩
    · exact Or.inl rfl

/-- stopping early is sound: a stopped scan holds a candidate with the maximal possible score -/
theorem Best.offer_stop_max (cfg : Cfg) (b : Best) (pos bonus : Nat) (ok : Bool) (hb : 8 ≤ maxBonus cfg)
    (hbonus : ∃ p c, bonus = bonusFor cfg p c)
    (hinv : b.stop = true → ∀ p c, bonusFor cfg p c * BONUS_FIRST_CHAR_MULTIPLIER + SCORE_MATCH ≤ b.score) :
    (b.offer cfg pos bonus ok).stop = true →
      ∀ p c, bonusFor cfg p c * BONUS_FIRST_CHAR_MULTIPLIER + SCORE_MATCH ≤ (b.offer cfg pos bonus ok).score := by
  unfold Best.offer
  split
  · rename_i hs; intro _; exact hinv hs
  · split
    · intro hst p c
      simp only [decide_eq_true_eq] at hst
      have := C04_bonus_le_max cfg hb p c
      simp only [BONUS_FIRST_CHAR_MULTIPLIER, SCORE_MATCH]
      omega
    · intro hst; rename_i hns _; exact absurd hst hns

end NucleoVerif
