import NucleoVerif.Lemmas.OptFinish
import NucleoVerif.Props.C03_Bound
import NucleoVerif.Props.C04
/-! # C04 / C02 / C10 (companion file) — the single-row, offset-compressed matrix equals the recurrence

`Model/Matcher.lean: optimalDP` is the documented two-matrix affine-gap recurrence on full-width rows whose cells carry
their alignment; all theorems about the optimal matcher (valid witness C02, score = scheme C03, bounds C04) are about it.
`Model/OptImpl.lean: optimalImpl` models what `fuzzy_optimal.rs` does instead (see that file); its cell functions are
generated from the source on every run (`Gen/Optimal.lean`).  This file proves that the two agree for every input and
every prior content of the scratch memory, so the theorems about `optimalDP` are theorems about the code-level model,
and the result of the matrix path does not depend on the matcher's history.

Proof structure (`Lemmas/Opt*.lean`): cell functions (`next_m_cell_spec`, `p_score_fst/_snd`), the two column loops in
lockstep with the recurrence (`phase1_spec`, `phase2_spec`), one `score_row` call (`scoreRow_spec`), the greedy row
offsets (`rowOffs_greedy`, `good_of_greedy`), the loop of `populate_matrix` (`populate_spec`, invariant `Inv`), the best
cell (`maxBy_spec`), the segments split off the end (`segOf_eq`) and the traceback (`trace_spec`). -/
namespace NucleoVerif.OptImpl
open NucleoVerif NucleoVerif.Gen NucleoVerif.Gen.Opt NucleoVerif.DP NucleoVerif.Spec

/-- **the compressed matrix is the recurrence.**  For every window, every needle of two or more characters that fits the
    window, every configuration and — the scratch slab is never cleared — *every* prior content of the score row and of
    the back-pointer cells: the code-level model of `fuzzy_match_optimal` (one score row reused for all needle rows and
    shifted by the row offsets, `UNMATCHED` sentinels and zero-initialised P-scores instead of "no cell", two-bit
    back-pointer cells laid out row segment after row segment, the traceback of `reconstruct_optimal_path` over segments
    split off the end) returns exactly the score and the alignment of the two-matrix recurrence evaluated on full-width
    rows with alignment-carrying cells, `optimalDP`. -/
theorem optimalImpl_eq_optimalDP (cfg : Cfg) (ext : Ext) (hrep : Rep) (h n : List Nat) (start end_ : Nat)
    (cur0 : List ScoreCell) (cells0 : List MatrixCell)
    (hN : 2 ≤ n.length) (hNW : n.length ≤ (windowCols cfg ext hrep h start end_).length)
    (hwhite : cfg.white < 256) (hdelim : cfg.delim < 256)
    (hcur : cur0.length = (windowCols cfg ext hrep h start end_).length + 1 - n.length)
    (hcells : ((windowCols cfg ext hrep h start end_).length + 1 - n.length) * n.length ≤ cells0.length) :
    optimalImpl cfg (windowCols cfg ext hrep h start end_) n start cur0 cells0 = optimalDP cfg ext hrep h n start end_ := by
  generalize hcols : windowCols cfg ext hrep h start end_ = cols at *
  have hok := windowCols_ok cfg ext hrep h start end_
  rw [hcols] at hok
  have hidx : ∀ j x, cols[j]? = some x → x.idx = start + j := fun j x hx => (hok j x hx).1
  have hb : ∀ x ∈ cols, x.bonus < 256 := by
    intro x hx
    obtain ⟨j, hj, hget⟩ := List.getElem_of_mem hx
    have := (hok j x (by rw [← hget]; exact List.getElem?_eq_getElem hj)).2
    rw [this]
    unfold bonusAt
    have := specBonus_le cfg.white cfg.delim (pcls cfg.initial (clsOf cfg ext h) (start + j)) (clsOf cfg ext h (start + j))
    unfold bonusCap at this
    omega
  match n, hN, hNW, hcur, hcells with
  | [], hN, _, _, _ => simp at hN
  | [_], hN, _, _, _ => simp at hN
  | n0 :: n1 :: ns, hN, hNW, hcur, hcells =>
    unfold optimalDP optimalImpl
    simp only [hcols]
    by_cases hm : (rowOffs (n0 :: n1 :: ns) cols).length = (n0 :: n1 :: ns).length
    · have hsm : setupMatched (n0 :: n1 :: ns) cols = true := (setupMatched_iff cols _ 0).mpr hm
      simp only [hm, ne_eq, not_true_eq_false, if_false, hsm, Bool.not_true, Bool.false_eq_true]
      let c : Ctx := ⟨cols, n0 :: n1 :: ns, rowOffs (n0 :: n1 :: ns) cols, prefix_bonus_init cfg.preferPrefix start⟩
      have g : Good c := good_of_greedy c hN hb (rowOffs_greedy cols _ hm)
      have hseg : c.seg (c.n.length - 1) ≤ cells0.length := by
        have h1 := seg_le c g (c.n.length - 1) (by show (n0 :: n1 :: ns).length - 1 < (n0 :: n1 :: ns).length; simp)
        have h2 : c.width * (c.n.length - 1) ≤ c.width * c.n.length := Nat.mul_le_mul_left _ (Nat.sub_le _ _)
        exact Nat.le_trans h1 (Nat.le_trans h2 hcells)
      have inv1 := setup_spec c g hNW cells0.length hseg cur0 cells0 hcur rfl
      have invN : Inv c cells0.length (c.n.length - 1)
          (populateGo cols (cols.length + 1 - (n0 :: n1 :: ns).length) 1 (n1 :: ns) (rowOffs (n0 :: n1 :: ns) cols).tail
            (setupRow cols (cols.length + 1 - (n0 :: n1 :: ns).length) ((rowOffs (n0 :: n1 :: ns) cols).getD 1 0) n0 n1
              (prefix_bonus_init cfg.preferPrefix start) cur0 cells0)) := by
        cases ns with
        | nil =>
          have : ∀ (l : List Nat) (s : PState), populateGo cols (cols.length + 1 - [n0, n1].length) 1 [n1] l s = s := by
            intro l s; cases l with
            | nil => rfl
            | cons a l => cases l <;> rfl
          rw [this]
          exact inv1
        | cons n2 rest =>
          have hol : (rowOffs (n0 :: n1 :: n2 :: rest) cols).length = rest.length + 3 := by rw [hm]; simp
          match ho : rowOffs (n0 :: n1 :: n2 :: rest) cols, hol with
          | o0 :: o1 :: o2 :: os, _ =>
            have hoc : c.offs = o0 :: o1 :: o2 :: os := ho
            have := populate_spec c g cells0.length hseg rest 1 n1 n2 o1 o2 os _ (Nat.le_refl _) rfl (by rw [hoc]; rfl) inv1
            simp only [List.tail_cons]
            have e : (o0 :: o1 :: o2 :: os).getD 1 0 = c.so 1 := by unfold Ctx.so; rw [hoc]
            rw [e]
            exact this
      have fin := finish_spec c g start cells0.length _ invN hseg hidx
      have hrowN : c.row (c.n.length - 1) = allRows cols (n1 :: ns) (firstRow n0 cols (prefixStart cfg start)) := by
        show rowN cols (n0 :: n1 :: ns) (prefix_bonus_init cfg.preferPrefix start) ((n0 :: n1 :: ns).length - 1) = _
        unfold rowN
        rw [prefix_bonus_init_eq]
        simp
      rw [hrowN] at fin
      exact fin
    · have hsm : setupMatched (n0 :: n1 :: ns) cols = false := by
        cases h : setupMatched (n0 :: n1 :: ns) cols with
        | false => rfl
        | true => exact absurd ((setupMatched_iff cols _ 0).mp h) hm
      simp only [hm, ne_eq, not_false_eq_true, if_true, hsm, Bool.not_false]

/-- **C02 / C03 / C04 for the code-level model**: what the compressed matrix and its traceback return is a valid witness
    (one strictly increasing in-window index per needle character, each normalizing to it), its score is the scheme's
    value of that alignment, and it never exceeds the maximum over all alignments -/
theorem C04_compressed_matrix_correct (cfg : Cfg) (ext : Ext) (hrep : Rep) (h n : List Nat) (start end_ : Nat)
    (cur0 : List ScoreCell) (cells0 : List MatrixCell)
    (hN : 2 ≤ n.length) (hNW : n.length ≤ (windowCols cfg ext hrep h start end_).length)
    (hwhite : cfg.white < 256) (hdelim : cfg.delim < 256)
    (hcur : cur0.length = (windowCols cfg ext hrep h start end_).length + 1 - n.length)
    (hcells : ((windowCols cfg ext hrep h start end_).length + 1 - n.length) * n.length ≤ cells0.length)
    (hr : hrep = .ascii → ∀ c ∈ h, c < 128) (hpp : cfg.preferPrefix = false) (sc : Nat) (path : List Nat)
    (hres : optimalImpl cfg (windowCols cfg ext hrep h start end_) n start cur0 cells0 = some (sc, path)) :
    validWitnessB cfg hrep h n path = true ∧ (∀ x ∈ path, start ≤ x) ∧ sc = alignScore cfg ext h path ∧
      sc ≤ maxAlignScore cfg ext hrep h n := by
  rw [optimalImpl_eq_optimalDP cfg ext hrep h n start end_ cur0 cells0 hN hNW hwhite hdelim hcur hcells] at hres
  have w := C02_optimalDP_valid_witness cfg ext hrep h n start end_ hr hpp sc path hres
  exact ⟨w.1, w.2, C03_optimalDP_eq_alignScore cfg ext hrep h n start end_ hpp sc path hres,
    C04_upper_bound cfg ext hrep h n start end_ hr hpp sc path hres⟩

/-- the hypotheses are met by a non-trivial case and the result does depend on the back-pointers: `"abc"` in
    `"axbxcbxab_c"`, with arbitrary junk in the scratch memory -/
example :
    let cfg : Cfg := { delims := [47, 44, 58, 59, 124], white := 10, delim := 9, initial := .whitespace, normalize := true, ignoreCase := true, preferPrefix := false }
    let hay : List Nat := [97, 120, 98, 120, 99, 98, 120, 97, 98, 95, 99]
    let cols := windowCols cfg (fun _ => default) .ascii hay 0 11
    let junkRow : List ScoreCell := (List.range 9).map fun i => ⟨i * 37 % 500, i % 11, i % 2 == 0⟩
    let junkCells : List MatrixCell := (List.range 27).map fun i => ⟨i % 4⟩
    optimalImpl cfg cols [97, 98, 99] 0 junkRow junkCells = some (64, [0, 2, 10]) ∧
    optimalDP cfg (fun _ => default) .ascii hay [97, 98, 99] 0 11 = some (64, [0, 2, 10]) := by
  decide

end NucleoVerif.OptImpl
