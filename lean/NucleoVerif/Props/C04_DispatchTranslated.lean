import NucleoVerif.Props.C05_DispatchTranslated
/-! # C04 (companion file) — the theorems of C04 are about the dispatch the code has

`C01_DispatchTranslated` / `C05_DispatchTranslated` prove that the three `*_impl` entry points of `matcher/src/lib.rs`,
translated on every run (`Gen/Dispatch.lean`), are the model's `fuzzyMatch`, `fuzzyGreedy` and `substringMatch`; restated
here so that a change of a guard, a branch or a window argument is a broken obligation of C04 as well. -/
namespace NucleoVerif

theorem C04_translated_dispatch (cfg : Cfg) (ext : Ext) (hrep nrep : Rep) (h n : List Nat) :
    (Algo.fuzzy.run cfg ext hrep nrep h n =
      Gen.Dispatch.fuzzy_matcher_impl (modelCalls cfg ext hrep nrep h n) h.length n.length (hrep == .ascii) (nrep == .ascii)) ∧
    (Algo.greedy.run cfg ext hrep nrep h n =
      Gen.Dispatch.fuzzy_match_greedy_impl (modelCalls cfg ext hrep nrep h n) h.length n.length (hrep == .ascii) (nrep == .ascii)) ∧
    (Algo.substring.run cfg ext hrep nrep h n =
      Gen.Dispatch.substring_match_impl (modelCalls cfg ext hrep nrep h n) h.length n.length (hrep == .ascii) (nrep == .ascii)) :=
  ⟨C01_translated_fuzzy_dispatch .., C01_translated_greedy_dispatch .., C05_translated_substring_dispatch ..⟩

end NucleoVerif
