import NucleoVerif.Props.C04
import NucleoVerif.Props.C01
/-! # C04 (companion file) — the one-character optimum on code-point haystacks

`substring_match_1_non_ascii` behind the non-ASCII prefilter (the path `fuzzy_match` takes for a one-character needle
on a code-point haystack) returns the true optimum at the leftmost best-placed occurrence. -/
namespace NucleoVerif
open Gen Spec Sub

def Best.shift (k : Nat) (b : Best) : Best := { b with pos := b.pos + k }

theorem Best.offer_shift (cfg : Cfg) (b : Best) (pos bonus k : Nat) (ok : Bool) :
    (b.shift k).offer cfg (pos + k) bonus ok = (b.offer cfg pos bonus ok).shift k := by
  unfold Best.offer Best.shift
  simp only
  split
  · rfl
  · split <;> rfl

theorem scan1_shift (cfg : Cfg) (m : Nat → Bool) (cl : Nat → CharClass) (k : Nat) :
    ∀ (xs : List Nat) (b : Best) (prev : CharClass) (pos : Nat),
      scan1 cfg m cl (b.shift k) prev (pos + k) xs = (scan1 cfg m cl b prev pos xs).shift k := by
  intro xs
  induction xs with
  | nil => intro _ _ _; rfl
  | cons x xs ih =>
    intro b prev pos
    simp only [scan1]
    have e : pos + k + 1 = pos + 1 + k := by omega
    rw [e]
    by_cases hm : m x = true
    · simp only [hm, if_true]
      rw [Best.offer_shift, ih]
    · simp only [hm, Bool.false_eq_true, if_false]
      rw [ih]

theorem substring1NonAscii_go_eq (cfg : Cfg) (ext : Ext) (c : Nat) :
    ∀ (xs : List Nat) (b : Best) (prev : CharClass) (pos : Nat),
      substring1NonAscii.go cfg ext c b prev pos xs = scan1 cfg (fun x => decide (cnormChar cfg x = c)) (charClass cfg ext) b prev pos xs := by
  intro xs
  induction xs with
  | nil => intro _ _ _; rfl
  | cons x xs ih =>
    intro b prev pos
    simp only [substring1NonAscii.go, scan1]
    rw [ih]
    congr 1
    by_cases hx : cnormChar cfg x = c <;> simp [hx]

/-- no alignment of a one-character needle starts where the character does not occur -/
theorem allAlignments_skip (cfg : Cfg) (hrep : Rep) (c : Nat) : ∀ (xs : List Nat) (base k : Nat),
    (∀ x ∈ xs.take k, norm cfg hrep x ≠ c) → allAlignments cfg hrep [c] base xs = allAlignments cfg hrep [c] (base + k) (xs.drop k) := by
  intro xs
  induction xs with
  | nil => intro base k _; simp [allAlignments]
  | cons x xs ih =>
    intro base k hk
    cases k with
    | zero => rfl
    | succ k =>
      have hx : norm cfg hrep x ≠ c := hk x (by simp)
      simp only [allAlignments, hx, if_false, List.nil_append, List.drop_succ_cons]
      rw [ih (base + 1) k (fun y hy => hk y (by simp [hy]))]
      congr 1; omega

/-- **for a one-character needle on a code-point haystack the matcher returns the true optimum, at the leftmost
    best-placed occurrence** — every configuration whose largest boundary bonus is at least 8 (all presets), every
    haystack, every needle character -/
theorem C04_one_char_optimum_unicode (cfg : Cfg) (ext : Ext) (h : List Nat) (c : Nat) (hb : 8 ≤ maxBonus cfg) :
    match prefilterNonAscii cfg h [c] true with
    | none => allAlignments cfg .unicode [c] 0 h = []
    | some (start, _) =>
      (substring1NonAscii cfg ext h c start).1 = maxAlignScore cfg ext .unicode h [c] ∧
      ∃ p, (substring1NonAscii cfg ext h c start).2 = [p] ∧ [p] ∈ allAlignments cfg .unicode [c] 0 h ∧
        alignScore cfg ext h [p] = (substring1NonAscii cfg ext h c start).1 ∧
        ∀ q, [q] ∈ allAlignments cfg .unicode [c] 0 h → alignScore cfg ext h [q] = (substring1NonAscii cfg ext h c start).1 → p ≤ q := by
  have hcn : ∀ x, cnormChar cfg x = normChar cfg x := fun x => C16_cnorm_eq_norm cfg .unicode x (fun h => by cases h)
  have hm : ∀ x, (fun x => decide (cnormChar cfg x = c)) x = true ↔ norm cfg .unicode x = c := by
    intro x; simp only [decide_eq_true_eq, hcn]; rfl
  generalize hmdef : (fun x => decide (cnormChar cfg x = c)) = m at hm
  unfold prefilterNonAscii
  simp only [List.length_singleton, if_true]
  cases hf : findIdx (fun c_1 => decide (normChar cfg c_1 = c)) (h.take (h.length - 1 + 1)) with
  | none =>
    simp only
    have hnone := findIdx_none _ _ hf
    -- the searched prefix is the whole haystack
    have htk : h.take (h.length - 1 + 1) = h := List.take_of_length_le (by omega)
    rw [htk] at hnone
    rw [allAlignments_single cfg .unicode c m (charClass cfg ext) hm h cfg.initial 0]
    have : cands1 cfg m (charClass cfg ext) cfg.initial 0 h = [] := by
      have gen : ∀ (xs : List Nat) (prev : CharClass) (pos : Nat), (∀ x ∈ xs, m x = false) → cands1 cfg m (charClass cfg ext) prev pos xs = [] := by
        intro xs
        induction xs with
        | nil => intro _ _ _; rfl
        | cons x xs ih =>
          intro prev pos hx
          simp only [cands1, hx x (by simp), Bool.false_eq_true, if_false, List.nil_append]
          exact ih _ _ (fun y hy => hx y (by simp [hy]))
      apply gen
      intro x hx
      have := hnone x hx
      have h2 : ¬ (normChar cfg x = c) := by simpa using this
      cases hmx : m x with
      | false => rfl
      | true => exact absurd ((hm x).mp hmx) h2
    rw [this]; rfl
  | some start =>
    simp only
    obtain ⟨f1, ⟨x, f2, f3⟩, f4⟩ := findIdx_some _ _ _ hf
    have htk : h.take (h.length - 1 + 1) = h := List.take_of_length_le (by omega)
    rw [htk] at f1 f4 f2
    have hlt : ¬ (h.length - start < 1) := by omega
    simp only [hlt, if_false]
    -- the scan, in absolute positions
    have hbefore : ∀ y ∈ h.take start, norm cfg .unicode y ≠ c := by
      intro y hy
      have := f4 y hy
      show ¬ (normChar cfg y = c)
      simpa using this
    have hall0 : allAlignments cfg .unicode [c] 0 h = allAlignments cfg .unicode [c] start (h.drop start) := by
      have := allAlignments_skip cfg .unicode c h 0 start hbefore
      rwa [Nat.zero_add] at this
    have hall := allAlignments_single cfg .unicode c m (charClass cfg ext) hm (h.drop start) (prevClassAt cfg ext h start) start
    have hsc := cands1_alignScore cfg ext h m (charClass cfg ext) (h.drop start) (prevClassAt cfg ext h start) start
      (by intro k c hk; rw [List.getElem?_drop] at hk; exact hk) rfl (fun _ _ => rfl)
    have inv := scan1_inv cfg hb m (charClass cfg ext) (h.drop start) ⟨0, start, false⟩ (prevClassAt cfg ext h start) start []
      ⟨by simp, Or.inl rfl, by simp⟩ (by simp)
    simp only [List.nil_append] at inv
    -- the code scans with relative positions and adds `start` afterwards
    have hrel : (substring1NonAscii cfg ext h c start) =
        ((scan1 cfg m (charClass cfg ext) ⟨0, start, false⟩ (prevClassAt cfg ext h start) start (h.drop start)).score,
         [(scan1 cfg m (charClass cfg ext) ⟨0, start, false⟩ (prevClassAt cfg ext h start) start (h.drop start)).pos]) := by
      unfold substring1NonAscii
      simp only
      rw [substring1NonAscii_go_eq, hmdef]
      have := scan1_shift cfg m (charClass cfg ext) start (h.drop start) ⟨0, 0, false⟩ (prevClassAt cfg ext h start) 0
      simp only [Best.shift, Nat.zero_add] at this
      rw [this]
    rw [hrel]
    simp only
    generalize scan1 cfg m (charClass cfg ext) ⟨0, start, false⟩ (prevClassAt cfg ext h start) start (h.drop start) = b at inv
    generalize hC : cands1 cfg m (charClass cfg ext) (prevClassAt cfg ext h start) start (h.drop start) = C at *
    -- there is at least one candidate (the prefilter's hit), so the score is positive
    have hCne : C ≠ [] := by
      have hd : h.drop start = x :: h.drop (start + 1) := by
        have hx : h[start]? = some x := f2
        have hlt2 : start < h.length := f1
        rw [List.drop_eq_getElem_cons hlt2]
        congr 1
        rw [List.getElem?_eq_getElem hlt2] at hx
        exact Option.some.inj hx
      have hmx : m x = true := (hm x).mpr (by show normChar cfg x = c; simpa using f3)
      rw [← hC, hd]
      simp [cands1, hmx]
    have hpos16 : ∀ ps ∈ C, 16 ≤ ps.2 := by
      intro ps hps
      have := (cands1_pos cfg m (charClass cfg ext) (h.drop start) (prevClassAt cfg ext h start) start ps (by rw [hC]; exact hps)).2
      obtain ⟨p, c', e⟩ := this
      simp only [SCORE_MATCH] at e; omega
    have hz : b.score ≠ 0 := by
      intro hz
      cases C with
      | nil => exact hCne rfl
      | cons ps t =>
        have := inv.upper ps (by simp)
        have := hpos16 ps (by simp)
        omega
    rcases inv.attained with z | ⟨a1, a2⟩
    · exact absurd z hz
    · have hmaxeq : maxAlignScore cfg ext .unicode h [c] = b.score := by
        unfold maxAlignScore
        rw [hall0, hall, List.map_map]
        have : (C.map ((alignScore cfg ext h) ∘ fun ps => [ps.1])) = C.map (·.2) := by
          apply List.map_congr_left
          intro ps hps
          simp only [Function.comp]
          exact (hsc ps hps).symm
        rw [this]
        apply foldl_max_eq_of_upper_attained
        · intro x hx
          obtain ⟨ps, hps, rfl⟩ := List.mem_map.mp hx
          exact inv.upper ps hps
        · exact List.mem_map.mpr ⟨(b.pos, b.score), a1, rfl⟩
      refine ⟨hmaxeq.symm, b.pos, rfl, ?_, ?_, ?_⟩
      · rw [hall0, hall]; exact List.mem_map.mpr ⟨(b.pos, b.score), a1, rfl⟩
      · exact (hsc _ a1).symm
      · intro q hq hqs
        rw [hall0, hall] at hq
        obtain ⟨ps, hps, e⟩ := List.mem_map.mp hq
        have e' : ps.1 = q := by simpa using e
        have := a2 ps hps (by rw [hsc ps hps, e', hqs])
        omega

end NucleoVerif
