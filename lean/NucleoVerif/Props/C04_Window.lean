import NucleoVerif.Props.C01
import NucleoVerif.Props.C05_Unicode
import NucleoVerif.Lemmas.DPWindow
/-! # C04 (companion file) — the prefilter window loses nothing against the full matrix

"The score is never lower than the value of the two-matrix recurrence evaluated naively on the full matrix": the
matcher evaluates the recurrence only on the window `h[start..end]` the prefilter hands it.  `C04_window_is_full_matrix`
shows that this *is* the full-matrix value (score and alignment), provided the first needle character does not occur in
front of `start` and the last needle character does not occur at or behind `end` — which is what the prefilters
establish (`start` is the first occurrence of the first character, `end` is one past the last occurrence of the last). -/
namespace NucleoVerif
open Gen Spec DP Sub

/-! ### the subsequence test ignores the columns outside such a window -/

theorem subseqB_skip_pre (n0 : Nat) (ns : List Nat) : ∀ (pre L : List Nat), (∀ c ∈ pre, c ≠ n0) →
    subseqB (n0 :: ns) (pre ++ L) = subseqB (n0 :: ns) L := by
  intro pre
  induction pre with
  | nil => intro L _; rfl
  | cons c pre ih =>
    intro L h
    have hc : ¬ (n0 = c) := fun e => h c (by simp) e.symm
    simp only [List.cons_append, subseqB, hc, if_false]
    exact ih L (fun d hd => h d (by simp [hd]))

theorem subseqB_drop_post (n : List Nat) (nlast : Nat) (hl : n.getLast? = some nlast) (L post : List Nat)
    (hp : ∀ c ∈ post, c ≠ nlast) : subseqB n (L ++ post) = subseqB n L := by
  cases hR : subseqB n L with
  | true => exact subseqB_of_sublist_hay n L (L ++ post) hR (List.sublist_append_left L post)
  | false =>
    cases hF : subseqB n (L ++ post) with
    | false => rfl
    | true =>
      exfalso
      have hs := (subseqB_iff_sublist n (L ++ post)).mp hF
      obtain ⟨n1, n2, e, s1, s2⟩ := List.sublist_append_iff.mp hs
      cases n2 with
      | nil =>
        rw [List.append_nil] at e
        rw [e] at hR
        rw [(subseqB_iff_sublist n1 L).mpr s1] at hR
        cases hR
      | cons x xs =>
        have hlast : n.getLast? = (x :: xs).getLast? := by
          rw [e, List.getLast?_append]
          cases h : (x :: xs).getLast? with
          | none => simp at h
          | some v => rfl
        rw [hl] at hlast
        have hmem : nlast ∈ x :: xs := List.mem_of_getLast? hlast.symm
        exact hp nlast (s2.subset hmem) rfl

/-! ### the recurrence on `pre ++ window ++ post` -/

/-- the recurrence on a list of columns (prefix preference off): the best cell of the last row -/
def dpCols (cols : List Col) (n0 : Nat) (ns : List Nat) : Option Cell :=
  if !setupMatched (n0 :: ns) cols then none else bestCell (allRows cols ns (firstRow n0 cols 0)) none

theorem dpCols_window (pre : List Col) (w0 : Col) (W post : List Col) (n0 : Nat) (ns : List Nat) (nlast : Nat)
    (hl : (n0 :: ns).getLast? = some nlast) (hpre : ∀ c ∈ pre, c.ch ≠ n0) (hpost : ∀ c ∈ post, c.ch ≠ nlast) :
    dpCols (pre ++ ((w0 :: W) ++ post)) n0 ns = dpCols (w0 :: W) n0 ns := by
  unfold dpCols
  -- the greedy row-offset scan
  have hsm : setupMatched (n0 :: ns) (pre ++ ((w0 :: W) ++ post)) = setupMatched (n0 :: ns) (w0 :: W) := by
    rw [setupMatched_eq, setupMatched_eq, List.map_append, List.map_append]
    rw [subseqB_skip_pre n0 ns _ _ (by intro c hc; obtain ⟨d, hd, rfl⟩ := List.mem_map.mp hc; exact hpre d hd)]
    exact subseqB_drop_post (n0 :: ns) nlast hl _ _ (by intro c hc; obtain ⟨d, hd, rfl⟩ := List.mem_map.mp hc; exact hpost d hd)
  rw [hsm]
  split
  · rfl
  · -- the rows
    rw [firstRow_nones n0 pre _ hpre]
    rw [show (w0 :: W) ++ post = w0 :: (W ++ post) from rfl, allRows_nones pre w0 (W ++ post) ns, bestCell_nones]
    rw [show w0 :: (W ++ post) = (w0 :: W) ++ post from rfl]
    obtain ⟨pb', efr⟩ := firstRow_append n0 (w0 :: W) post 0
    rw [efr]
    -- split the needle tail at its last character
    by_cases hns : ns = []
    · -- one-character needle: the only row is the first one
      subst hns
      have : nlast = n0 := by simpa using hl.symm
      subst this
      simp only [allRows]
      rw [firstRow_none_of_ch nlast post pb' hpost, bestCell_append_nones]
    · have hdec : ns = ns.dropLast ++ [ns.getLast hns] := (List.dropLast_concat_getLast hns).symm
      have hnl : ns.getLast hns = nlast := by
        have h1 : (n0 :: ns).getLast? = ns.getLast? := by
          cases ns with
          | nil => exact absurd rfl hns
          | cons a t => rfl
        rw [h1, List.getLast?_eq_some_getLast hns] at hl
        exact Option.some.inj hl
      rw [hdec, hnl]
      rw [allRows_suffix w0 W post ns.dropLast nlast _ _ (firstRow_length n0 _ 0) (firstRow_length n0 post pb') (by simp) hpost]
      rw [bestCell_append_nones]

/-! ### the columns of the full haystack split at the window -/

/-- the class of the last character of `l` (or `prev`) -/
def lastCls (cfg : Cfg) (ext : Ext) (prev : CharClass) (l : List Nat) : CharClass := l.foldl (fun _ c => charClass cfg ext c) prev

theorem lastCls_eq (cfg : Cfg) (ext : Ext) : ∀ (l : List Nat) (prev : CharClass),
    lastCls cfg ext prev l = (l.getLast?.map (charClass cfg ext)).getD prev := by
  intro l
  induction l with
  | nil => intro prev; rfl
  | cons c l ih =>
    intro prev
    show lastCls cfg ext (charClass cfg ext c) l = _
    rw [ih]
    cases l with
    | nil => rfl
    | cons d l' =>
      rw [List.getLast?_cons_cons]
      cases hh : (d :: l').getLast? with
      | none => simp at hh
      | some v => rfl

theorem windowCols_go_append (cfg : Cfg) (ext : Ext) (hrep : Rep) : ∀ (l1 l2 : List Nat) (prev : CharClass) (idx : Nat),
    windowCols.go cfg ext hrep prev idx (l1 ++ l2) =
      windowCols.go cfg ext hrep prev idx l1 ++ windowCols.go cfg ext hrep (lastCls cfg ext prev l1) (idx + l1.length) l2 := by
  intro l1
  induction l1 with
  | nil => intro l2 prev idx; simp [windowCols.go, lastCls]
  | cons c l1 ih =>
    intro l2 prev idx
    simp only [List.cons_append, windowCols.go, List.length_cons]
    rw [ih l2 (charClass cfg ext c) (idx + 1)]
    have e : idx + 1 + l1.length = idx + (l1.length + 1) := by omega
    rw [e]
    rfl

theorem prevClassAt_take (cfg : Cfg) (ext : Ext) (h : List Nat) (s : Nat) (hs : s ≤ h.length) (prev : CharClass)
    (hprev : prev = prevClassAt cfg ext h 0) :
    (((h.take s).getLast?).map (charClass cfg ext)).getD prev = prevClassAt cfg ext h s := by
  unfold prevClassAt
  by_cases h0 : s = 0
  · subst h0; simp [hprev, prevClassAt]
  · simp only [h0, if_false]
    have hlast : (h.take s).getLast? = h[s - 1]? := by
      rw [List.getLast?_eq_getElem?, List.length_take, Nat.min_eq_left hs, List.getElem?_take]
      simp only [show s - 1 < s by omega, if_true]
    rw [hlast]
    have hlt : s - 1 < h.length := by omega
    rw [List.getElem?_eq_getElem hlt]
    rfl

/-- the full matrix's columns are the columns in front of the window, the window's, and those behind it -/
theorem windowCols_split (cfg : Cfg) (ext : Ext) (hrep : Rep) (h : List Nat) (s e : Nat) (hse : s ≤ e) (he : e ≤ h.length) :
    windowCols cfg ext hrep h 0 h.length =
      windowCols cfg ext hrep h 0 s ++ (windowCols cfg ext hrep h s e ++ windowCols cfg ext hrep h e h.length) := by
  have hsplit : h = h.take s ++ ((h.drop s).take (e - s) ++ h.drop e) := by
    have h1 : h = h.take s ++ h.drop s := (List.take_append_drop s h).symm
    have h2 : h.drop s = (h.drop s).take (e - s) ++ (h.drop s).drop (e - s) := (List.take_append_drop (e - s) (h.drop s)).symm
    have h3 : (h.drop s).drop (e - s) = h.drop e := by rw [List.drop_drop]; congr 1; omega
    rw [h3] at h2
    rw [← h2]; exact h1
  unfold windowCols
  simp only [Nat.sub_zero, List.drop_zero, List.take_length]
  have hl1 : (h.take s).length = s := by rw [List.length_take]; omega
  have hl2 : ((h.drop s).take (e - s)).length = e - s := by rw [List.length_take, List.length_drop]; omega
  have e4 : (h.drop e).take (h.length - e) = h.drop e := by
    rw [List.take_of_length_le]; rw [List.length_drop]; exact Nat.le_refl _
  rw [e4]
  have step1 := windowCols_go_append cfg ext hrep (h.take s) ((h.drop s).take (e - s) ++ h.drop e) (prevClassAt cfg ext h 0) 0
  have step2 := windowCols_go_append cfg ext hrep ((h.drop s).take (e - s)) (h.drop e) (lastCls cfg ext (prevClassAt cfg ext h 0) (h.take s)) (0 + (h.take s).length)
  rw [← hsplit] at step1
  rw [step1, step2, hl1, hl2, Nat.zero_add]
  have hc1 : lastCls cfg ext (prevClassAt cfg ext h 0) (h.take s) = prevClassAt cfg ext h s := by
    rw [lastCls_eq]; exact prevClassAt_take cfg ext h s (by omega) _ rfl
  rw [hc1]
  have hc2 : lastCls cfg ext (prevClassAt cfg ext h s) ((h.drop s).take (e - s)) = prevClassAt cfg ext h e := by
    rw [lastCls_eq]
    by_cases hes : e = s
    · subst hes; simp
    · have hlast : ((h.drop s).take (e - s)).getLast? = h[e - 1]? := by
        rw [List.getLast?_eq_getElem?, hl2, List.getElem?_take]
        simp only [show e - s - 1 < e - s by omega, if_true]
        rw [List.getElem?_drop]; congr 1; omega
      rw [hlast]
      unfold prevClassAt
      have h0 : ¬ e = 0 := by omega
      simp only [h0, if_false]
      have hlt : e - 1 < h.length := by omega
      rw [List.getElem?_eq_getElem hlt]
      rfl
  rw [hc2]
  have e3 : s + (e - s) = e := by omega
  rw [e3]

theorem optimalDP_eq_dpCols (cfg : Cfg) (ext : Ext) (hrep : Rep) (h : List Nat) (n0 : Nat) (ns : List Nat) (s e : Nat)
    (hpp : cfg.preferPrefix = false) :
    optimalDP cfg ext hrep h (n0 :: ns) s e = (dpCols (windowCols cfg ext hrep h s e) n0 ns).map (fun c => (c.score, c.path)) := by
  have hps : prefixStart cfg s = 0 := by simp [prefixStart, hpp]
  unfold optimalDP dpCols
  simp only [hps]
  split <;> rfl

theorem mem_cols_ch (cfg : Cfg) (ext : Ext) (hrep : Rep) (h : List Nat) (s e : Nat) (c : Col)
    (hc : c ∈ windowCols cfg ext hrep h s e) : ∃ x ∈ (h.drop s).take (e - s), c.ch = cnorm cfg hrep x := by
  have hm : c.ch ∈ (windowCols cfg ext hrep h s e).map (·.ch) := List.mem_map_of_mem hc
  rw [windowCols_map_ch] at hm
  obtain ⟨x, hx, e'⟩ := List.mem_map.mp hm
  exact ⟨x, hx, e'.symm⟩

/-- **the window is the full matrix**: when the first needle character does not occur in front of `start` and the last
    needle character does not occur at or behind `end`, the recurrence evaluated on the window `h[start..end]` returns
    exactly what it returns on all of `h` — the same score and the same alignment (prefix preference off) -/
theorem C04_window_is_full_matrix (cfg : Cfg) (ext : Ext) (hrep : Rep) (h : List Nat) (n0 : Nat) (ns : List Nat) (s e nlast : Nat)
    (hpp : cfg.preferPrefix = false) (hse : s < e) (he : e ≤ h.length) (hl : (n0 :: ns).getLast? = some nlast)
    (hpre : ∀ x ∈ h.take s, cnorm cfg hrep x ≠ n0) (hpost : ∀ x ∈ h.drop e, cnorm cfg hrep x ≠ nlast) :
    optimalDP cfg ext hrep h (n0 :: ns) s e = optimalDP cfg ext hrep h (n0 :: ns) 0 h.length := by
  rw [optimalDP_eq_dpCols cfg ext hrep h n0 ns s e hpp, optimalDP_eq_dpCols cfg ext hrep h n0 ns 0 h.length hpp]
  rw [windowCols_split cfg ext hrep h s e (by omega) he]
  -- the window has at least one column
  have hlen : (windowCols cfg ext hrep h s e).length = e - s := by
    unfold windowCols; rw [windowCols_go_length, List.length_take, List.length_drop]; omega
  cases hw : windowCols cfg ext hrep h s e with
  | nil => rw [hw] at hlen; simp at hlen; omega
  | cons w0 W =>
    rw [dpCols_window _ w0 W _ n0 ns nlast hl]
    · intro c hc
      obtain ⟨x, hx, e'⟩ := mem_cols_ch cfg ext hrep h 0 s c hc
      rw [e']
      exact hpre x (by simpa using hx)
    · intro c hc
      obtain ⟨x, hx, e'⟩ := mem_cols_ch cfg ext hrep h e h.length c hc
      rw [e']
      exact hpost x (List.mem_of_mem_take hx)

/-! ### the windows the prefilters choose -/

theorem findIdx_reverse_none_after (p : Nat → Bool) (l : List Nat) (k : Nat) (hk : findIdx p l.reverse = some k) :
    ∀ x ∈ l.drop (l.length - k), p x = false := by
  obtain ⟨hlt, _, hbefore⟩ := findIdx_some p l.reverse k hk
  intro x hx
  apply hbefore x
  rw [List.length_reverse] at hlt
  -- the last k elements of l are the first k of its reverse
  have : l.reverse.take k = (l.drop (l.length - k)).reverse := by
    rw [List.reverse_drop]
    congr 1
    omega
  rw [this]
  exact List.mem_reverse.mpr hx

/-- **code-point haystacks**: the window `prefilter_non_ascii` hands to the optimal matcher gives the full-matrix result -/
theorem C04_window_lossless_unicode (cfg : Cfg) (ext : Ext) (h : List Nat) (n0 n1 : Nat) (ns : List Nat) (start e : Nat)
    (hpp : cfg.preferPrefix = false)
    (hp : prefilterNonAscii cfg h (n0 :: n1 :: ns) false = some (start, e)) :
    optimalDP cfg ext .unicode h (n0 :: n1 :: ns) start e = optimalDP cfg ext .unicode h (n0 :: n1 :: ns) 0 h.length := by
  have hspec := prefilterNonAscii_spec cfg h n0 n1 ns
  rw [hp] at hspec
  simp only at hspec
  obtain ⟨h1, h2, _, _⟩ := hspec
  have hstart := prefilterNonAscii_start cfg h n0 (n1 :: ns) start e hp
  obtain ⟨_, _, hbefore⟩ := findIdx_some _ _ start hstart
  have hlast : ∃ nlast, (n0 :: n1 :: ns).getLast? = some nlast := by
    cases hh : (n0 :: n1 :: ns).getLast? with
    | none => simp at hh
    | some v => exact ⟨v, rfl⟩
  obtain ⟨nlast, hl⟩ := hlast
  have hlen : (n0 :: n1 :: ns).length = ns.length + 2 := by simp
  refine C04_window_is_full_matrix cfg ext .unicode h n0 (n1 :: ns) start e nlast hpp (by omega) h2 hl ?_ ?_
  · intro x hx
    have hx' : x ∈ (h.take (h.length - (n0 :: n1 :: ns).length + 1)).take start := by
      rw [List.take_take]
      have : min start (h.length - (n0 :: n1 :: ns).length + 1) = start := by omega
      rw [this]; exact hx
    have := hbefore x hx'
    simp only [decide_eq_false_iff_not] at this
    show cnormChar cfg x ≠ n0
    rw [cnormChar_eq]; exact this
  · -- the end of the window is one past the last occurrence of the last needle character
    unfold prefilterNonAscii at hp
    simp only at hp
    cases hf : findIdx (fun c => decide (normChar cfg c = n0)) (h.take (h.length - (n0 :: n1 :: ns).length + 1)) with
    | none => rw [hf] at hp; cases hp
    | some st =>
      rw [hf] at hp
      simp only [Bool.false_eq_true, if_false] at hp
      cases hr : findIdx (fun c => decide (normChar cfg c = (n0 :: n1 :: ns).getLast?.getD n0)) (h.drop (st + 1)).reverse with
      | none => rw [hr] at hp; cases hp
      | some p =>
        rw [hr] at hp
        simp only at hp
        split at hp
        · cases hp
        · have hse : st = start ∧ h.length - p = e := by
            have := Option.some.inj hp
            exact ⟨congrArg Prod.fst this, congrArg Prod.snd this⟩
          obtain ⟨rfl, rfl⟩ := hse
          have hafter := findIdx_reverse_none_after _ (h.drop (st + 1)) p hr
          have hpl : p < (h.drop (st + 1)).length := by
            have := (findIdx_some _ _ p hr).1; rwa [List.length_reverse] at this
          intro x hx
          have hx' : x ∈ (h.drop (st + 1)).drop ((h.drop (st + 1)).length - p) := by
            rw [List.drop_drop]
            rw [List.length_drop] at hpl ⊢
            have : st + 1 + (h.length - (st + 1) - p) = h.length - p := by omega
            rw [this]; exact hx
          have := hafter x hx'
          simp only [decide_eq_false_iff_not] at this
          rw [hl] at this
          show cnormChar cfg x ≠ nlast
          rw [cnormChar_eq]; exact this

/-- **ASCII haystacks**: the window `prefilter_ascii` hands to the optimal matcher gives the full-matrix result
    (the needle already normalized, as the matcher receives it) -/
theorem C04_window_lossless_ascii (cfg : Cfg) (ext : Ext) (h : List Nat) (n0 : Nat) (ns : List Nat) (start ge e : Nat)
    (hpp : cfg.preferPrefix = false) (hasc : ∀ c ∈ h, c < 128) (hn : ∀ c ∈ n0 :: ns, normAscii cfg c = c)
    (hp : prefilterAscii cfg h (n0 :: ns) false = some (start, ge, e)) :
    optimalDP cfg ext .ascii h (n0 :: ns) start e = optimalDP cfg ext .ascii h (n0 :: ns) 0 h.length := by
  obtain ⟨_, hspec⟩ := prefilterAscii_spec cfg h n0 ns false hn
  obtain ⟨s1, s2, s3, _, _⟩ := hspec start ge e hp
  have hlast : ∃ nlast, (n0 :: ns).getLast? = some nlast := by
    cases hh : (n0 :: ns).getLast? with
    | none => simp at hh
    | some v => exact ⟨v, rfl⟩
  obtain ⟨nlast, hl⟩ := hlast
  have hnl : normAscii cfg nlast = nlast := hn nlast (List.mem_of_getLast? hl)
  have hcn : ∀ x ∈ h, cnorm cfg .ascii x = normAscii cfg x := fun x hx => C16_cnorm_eq_norm cfg .ascii x (fun _ => hasc x hx)
  unfold prefilterAscii at hp
  simp only at hp
  cases hf : findIdx (asciiEq cfg.ignoreCase n0) (h.take (h.length - (n0 :: ns).length + 1)) with
  | none => rw [hf] at hp; cases hp
  | some st =>
    rw [hf] at hp
    simp only at hp
    cases hg : asciiGreedyScan cfg.ignoreCase ns (h.drop (st + 1)) (st + 1) with
    | none => rw [hg] at hp; cases hp
    | some gr =>
      obtain ⟨ge', rest⟩ := gr
      rw [hg] at hp
      simp only [Bool.false_eq_true, if_false] at hp
      have hinj := Option.some.inj hp
      have e1 : st = start := congrArg Prod.fst hinj
      have e2 : ge' = ge := congrArg (fun t => t.2.1) hinj
      have e3 : (ge' + match rfindIdx (asciiEq cfg.ignoreCase ((n0 :: ns).getLast?.getD n0)) rest with | some i => i + 1 | none => 0) = e :=
        congrArg (fun t => t.2.2) hinj
      subst e1 e2
      obtain ⟨k, hk1, hrest, hge, _, _⟩ := (asciiGreedyScan_spec cfg ns (h.drop (st + 1)) (st + 1) (fun c hc => hn c (by simp [hc]))).2 ge' rest hg
      -- `rest` is the haystack from the greedy end on
      have hrest' : rest = h.drop ge' := by rw [hrest, List.drop_drop, hge]
      obtain ⟨_, _, hbefore⟩ := findIdx_some _ _ st hf
      refine C04_window_is_full_matrix cfg ext .ascii h n0 ns st e nlast hpp (by omega) s3 hl ?_ ?_
      · intro x hx
        have hxh : x ∈ h := List.mem_of_mem_take hx
        have hx' : x ∈ (h.take (h.length - (n0 :: ns).length + 1)).take st := by
          rw [List.take_take]
          have hlt := (findIdx_some _ _ st hf).1
          rw [List.length_take] at hlt
          have : min st (h.length - (n0 :: ns).length + 1) = st := by omega
          rw [this]; exact hx
        have hne := hbefore x hx'
        rw [hcn x hxh]
        intro heq
        rw [(asciiEq_iff cfg n0 x (hn n0 (by simp))).mpr heq] at hne
        cases hne
      · intro x hx
        have hxh : x ∈ h := List.mem_of_mem_drop hx
        rw [hcn x hxh]
        intro heq
        have hx1 : asciiEq cfg.ignoreCase nlast x = true := (asciiEq_iff cfg nlast x hnl).mpr heq
        rw [hl] at e3
        simp only [Option.getD_some] at e3
        unfold rfindIdx at e3
        cases hr : findIdx (asciiEq cfg.ignoreCase nlast) rest.reverse with
        | none =>
          rw [hr] at e3
          simp only [Option.map_none, Nat.add_zero] at e3
          -- the last character does not occur behind the greedy end at all
          have hall := findIdx_none _ _ hr
          have hxr : x ∈ rest := by rw [hrest', e3]; exact hx
          have := hall x (List.mem_reverse.mpr hxr)
          rw [hx1] at this; cases this
        | some p =>
          rw [hr] at e3
          simp only [Option.map_some] at e3
          have e3' : ge' + (rest.length - 1 - p + 1) = e := e3
          have hafter := findIdx_reverse_none_after _ rest p hr
          have hpl : p < rest.length := by have := (findIdx_some _ _ p hr).1; rwa [List.length_reverse] at this
          have hxr : x ∈ rest.drop (rest.length - p) := by
            have hidx : ge' + (rest.length - p) = e := by
              have : rest.length - 1 - p + 1 = rest.length - p := by omega
              rw [← this]; exact e3'
            have hd : rest.drop (rest.length - p) = h.drop e := by
              rw [← hidx]
              generalize rest.length - p = m
              rw [hrest', List.drop_drop]
            rw [hd]; exact hx
          have := hafter x hxr
          rw [hx1] at this; cases this

/-! ### at the entry point -/

/-- **`fuzzy_match` on a code-point haystack, matrix path** (needle of at least two characters, window wider than the
    needle, scratch layout fits the slab): the result is the two-matrix recurrence evaluated on the full matrix -/
theorem C04_fuzzy_is_full_matrix_unicode (cfg : Cfg) (ext : Ext) (nrep : Rep) (h : List Nat) (n0 n1 : Nat) (ns : List Nat) (start e : Nat)
    (hpp : cfg.preferPrefix = false) (hlen : (n0 :: n1 :: ns).length < h.length)
    (hp : prefilterNonAscii cfg h (n0 :: n1 :: ns) false = some (start, e))
    (hw : (n0 :: n1 :: ns).length ≠ e - start) (hfit : slabFits (charSize .unicode) (e - start) (n0 :: n1 :: ns).length = true) :
    fuzzyMatch cfg ext .unicode nrep h (n0 :: n1 :: ns) = optimalDP cfg ext .unicode h (n0 :: n1 :: ns) 0 h.length := by
  rw [← C04_window_lossless_unicode cfg ext h n0 n1 ns start e hpp hp]
  unfold fuzzyMatch
  have h1 : ¬ ((n0 :: n1 :: ns).length > h.length) := by omega
  have h2 : ¬ ((n0 :: n1 :: ns).length = h.length) := by omega
  simp only [h1, if_false, List.isEmpty_cons, Bool.false_eq_true, h2, hp, hw]
  unfold fuzzyOptimal
  simp only [hfit, if_true]

/-- **`fuzzy_match` on an ASCII haystack, matrix path** -/
theorem C04_fuzzy_is_full_matrix_ascii (cfg : Cfg) (ext : Ext) (h : List Nat) (n0 n1 : Nat) (ns : List Nat) (start ge e : Nat)
    (hpp : cfg.preferPrefix = false) (hasc : ∀ c ∈ h, c < 128) (hn : ∀ c ∈ n0 :: n1 :: ns, normAscii cfg c = c)
    (hlen : (n0 :: n1 :: ns).length < h.length)
    (hp : prefilterAscii cfg h (n0 :: n1 :: ns) false = some (start, ge, e))
    (hw : (n0 :: n1 :: ns).length ≠ e - start) (hfit : slabFits (charSize .ascii) (e - start) (n0 :: n1 :: ns).length = true) :
    fuzzyMatch cfg ext .ascii .ascii h (n0 :: n1 :: ns) = optimalDP cfg ext .ascii h (n0 :: n1 :: ns) 0 h.length := by
  rw [← C04_window_lossless_ascii cfg ext h n0 (n1 :: ns) start ge e hpp hasc hn hp]
  unfold fuzzyMatch
  have h1 : ¬ ((n0 :: n1 :: ns).length > h.length) := by omega
  have h2 : ¬ ((n0 :: n1 :: ns).length = h.length) := by omega
  simp only [h1, if_false, List.isEmpty_cons, Bool.false_eq_true, h2, hp, hw]
  unfold fuzzyOptimal
  simp only [hfit, if_true]

/-- the hypotheses are met and the window is a proper part of the haystack: `"xabxcbx"` / `"abc"` (window `[1, 5)`) -/
example :
    let cfg : Cfg := { delims := [47, 44, 58, 59, 124], white := 10, delim := 9, initial := .whitespace, normalize := true, ignoreCase := true, preferPrefix := false }
    prefilterAscii cfg [120, 97, 98, 120, 99, 98, 120] [97, 98, 99] false = some (1, 5, 5) ∧
    (optimalDP cfg (fun _ => default) .ascii [120, 97, 98, 120, 99, 98, 120] [97, 98, 99] 1 5).isSome = true := by
  decide

end NucleoVerif
