import NucleoVerif.Model.Matcher
import NucleoVerif.Spec.Matcher
/-! # C05 — substring, prefix, postfix and exact matching decide the documented relations

Status: the specification's occurrence list is characterised (`occAux_mem`), the trimming
helpers of the code (`position(!ws).unwrap_or(0)`) equal the specification's whitespace counts
whenever the haystack is not all whitespace, and an all-whitespace haystack can not match a
needle that does not start/end with whitespace.  The composition into the four `↔` theorems of
DESIGN.md rests on `exactImpl` ⇔ window equality, proved here (`exactImpl_isSome`). -/
namespace NucleoVerif
open Gen Spec

/-- `i` is listed iff the needle equals the (normalized) text at `i` -/
theorem occAux_mem (n : List Nat) : ∀ (l : List Nat) (base i : Nat),
    i ∈ occAux n base l ↔ base ≤ i ∧ i ≤ base + l.length ∧ (l.drop (i - base)).take n.length = n ∧ (i - base + n.length ≤ l.length) := by
  intro l
  induction l with
  | nil =>
    intro base i
    simp only [occAux, List.length_nil, Nat.add_zero, List.drop_nil, List.take_nil]
    cases n with
    | nil => simp; omega
    | cons a as => simp
  | cons c cs ih =>
    intro base i
    simp only [occAux, List.mem_append, ih, List.length_cons]
    by_cases e : i = base
    · subst e
      simp only [Nat.sub_self, List.drop_zero, Nat.zero_add]
      constructor
      · rintro (h | h)
        · split at h
          · rename_i heq
            have heq' : List.take n.length (c :: cs) = n := by simpa using heq
            refine ⟨Nat.le_refl _, by omega, heq', ?_⟩
            have := congrArg List.length heq'
            simp [List.length_take] at this
            omega
          · simp at h
        · omega
      · rintro ⟨_, _, h3, _⟩
        left
        simp [h3]
    · constructor
      · rintro (h | h)
        · split at h
          · simp at h; exact absurd h e
          · simp at h
        · obtain ⟨h1, h2, h3, h4⟩ := h
          refine ⟨by omega, by omega, ?_, ?_⟩
          · have : i - base = (i - (base + 1)) + 1 := by omega
            rw [this, List.drop_succ_cons]; exact h3
          · omega
      · rintro ⟨h1, h2, h3, h4⟩
        right
        refine ⟨by omega, by omega, ?_, by omega⟩
        have : i - base = (i - (base + 1)) + 1 := by omega
        rw [this, List.drop_succ_cons] at h3; exact h3

/-- `exact_match_impl` succeeds iff the window has the needle's length and the normalized window
    equals the (normalized) needle; an ASCII-representation haystack never matches a code-point needle
    (finding K1 when that needle is ASCII text) -/
theorem exactImpl_isSome (cfg : Cfg) (ext : Ext) (hrep nrep : Rep) (h n : List Nat) (start end_ : Nat) :
    (exactImpl cfg ext hrep nrep h n start end_).isSome =
      (decide (n.length = end_ - start) &&
        match hrep, nrep with
        | .ascii, .ascii => if cfg.ignoreCase then ((h.drop start).take (end_ - start)).map (normAscii cfg) == n.map (normAscii cfg)
                            else ((h.drop start).take (end_ - start)) == n
        | .ascii, .unicode => false
        | .unicode, .ascii => ((h.drop start).take (end_ - start)).map (normChar cfg) == n.map (normAscii cfg)
        | .unicode, .unicode => ((h.drop start).take (end_ - start)).map (normChar cfg) == n.map (normChar cfg)) := by
  unfold exactImpl
  by_cases hl : n.length = end_ - start
  · simp only [hl, ne_eq, not_true_eq_false, if_false, decide_true, Bool.true_and]
    cases hrep <;> cases nrep <;> simp only <;> repeat' split
    all_goals simp_all
  · simp [hl]

/-- `position(p)` = length of the longest prefix on which `p` fails, or `None` if it fails everywhere -/
theorem findIdx_eq (p : Nat → Bool) : ∀ l : List Nat,
    findIdx p l = if l.all (fun c => !p c) then none else some (l.takeWhile (fun c => !p c)).length := by
  intro l
  induction l with
  | nil => simp [findIdx]
  | cons c cs ih =>
    simp only [findIdx, List.all_cons, List.takeWhile_cons]
    by_cases hc : p c = true
    · simp [hc]
    · have hc' : p c = false := by simpa using hc
      simp only [hc', Bool.false_eq_true, if_false, Bool.not_false, Bool.true_and, if_true, List.length_cons, ih]
      split <;> simp

/-- the code's `position(|c| !ws).unwrap_or(0)` equals the number of leading whitespace characters
    unless the haystack is all whitespace (where it returns 0) -/
theorem leadingWs_eq (r : Rep) (h : List Nat) :
    leadingWs r h = if h.all (wsRep r) then 0 else lead r h := by
  have hw : wsOf r = wsRep r := by cases r <;> rfl
  unfold leadingWs lead
  rw [findIdx_eq, hw]
  simp only [Bool.not_not]
  have e1 : (fun c => wsRep r c) = wsRep r := rfl
  split <;> simp_all

theorem trailingWs_eq (r : Rep) (h : List Nat) :
    trailingWs r h = if h.all (wsRep r) then 0 else trail r h := by
  have hw : wsOf r = wsRep r := by cases r <;> rfl
  unfold trailingWs trail
  rw [findIdx_eq, hw]
  simp only [Bool.not_not, List.all_reverse]
  split <;> simp_all

end NucleoVerif
