import NucleoVerif.Model.Matcher
import NucleoVerif.Spec.Matcher
import NucleoVerif.Props.C16
/-! # C05 — substring, prefix, postfix and exact matching decide the documented relations

Status: the specification's occurrence list is characterised (`occAux_mem`), the trimming
helpers of the code (`position(!ws).unwrap_or(0)`) equal the specification's whitespace counts
whenever the haystack is not all whitespace, and an all-whitespace haystack can not match a
needle that does not start/end with whitespace.  The composition into the four `↔` theorems of
DESIGN.md rests on `exactImpl` ⇔ window equality, proved here (`exactImpl_isSome`). -/
namespace NucleoVerif
open Gen Spec

/-- `i` is listed iff the needle equals the (normalized) text at `i` -/
theorem occAux_mem (n : List Nat) : ∀ (l : List Nat) (base i : Nat),
    i ∈ occAux n base l ↔ base ≤ i ∧ i ≤ base + l.length ∧ (l.drop (i - base)).take n.length = n ∧ (i - base + n.length ≤ l.length) := by
  intro l
  induction l with
  | nil =>
    intro base i
    simp only [occAux, List.length_nil, Nat.add_zero, List.drop_nil, List.take_nil]
    cases n with
    | nil => simp; omega
    | cons a as => simp
  | cons c cs ih =>
    intro base i
    simp only [occAux, List.mem_append, ih, List.length_cons]
    by_cases e : i = base
    · subst e
      simp only [Nat.sub_self, List.drop_zero, Nat.zero_add]
      constructor
      · rintro (h | h)
        · split at h
          · rename_i heq
            have heq' : List.take n.length (c :: cs) = n := by simpa using heq
            refine ⟨Nat.le_refl _, by omega, heq', ?_⟩
            have := congrArg List.length heq'
            simp [List.length_take] at this
            omega
          · simp at h
        · omega
      · rintro ⟨_, _, h3, _⟩
        left
        simp [h3]
    · constructor
      · rintro (h | h)
        · split at h
          · simp at h; exact absurd h e
          · simp at h
        · obtain ⟨h1, h2, h3, h4⟩ := h
          refine ⟨by omega, by omega, ?_, ?_⟩
          · have : i - base = (i - (base + 1)) + 1 := by omega
            rw [this, List.drop_succ_cons]; exact h3
          · omega
      · rintro ⟨h1, h2, h3, h4⟩
        right
        refine ⟨by omega, by omega, ?_, by omega⟩
        have : i - base = (i - (base + 1)) + 1 := by omega
        rw [this, List.drop_succ_cons] at h3; exact h3

/-- `exact_match_impl` succeeds iff the window has the needle's length and the normalized window
    equals the (normalized) needle; an ASCII-representation haystack never matches a code-point needle
    (finding K1 when that needle is ASCII text) -/
theorem exactImpl_isSome (cfg : Cfg) (ext : Ext) (hrep nrep : Rep) (h n : List Nat) (start end_ : Nat) :
    (exactImpl cfg ext hrep nrep h n start end_).isSome =
      (decide (n.length = end_ - start) &&
        match hrep, nrep with
        | .ascii, .ascii => if cfg.ignoreCase then ((h.drop start).take (end_ - start)).map (normAscii cfg) == n.map (normAscii cfg)
                            else ((h.drop start).take (end_ - start)) == n
        | .ascii, .unicode => false
        | .unicode, .ascii => ((h.drop start).take (end_ - start)).map (normChar cfg) == n.map (normAscii cfg)
        | .unicode, .unicode => ((h.drop start).take (end_ - start)).map (normChar cfg) == n.map (normChar cfg)) := by
  unfold exactImpl
  by_cases hl : n.length = end_ - start
  · simp only [hl, ne_eq, not_true_eq_false, if_false, decide_true, Bool.true_and]
    cases hrep <;> cases nrep <;> simp only <;> repeat' split
    all_goals simp_all
  · simp [hl]

/-- `position(p)` = length of the longest prefix on which `p` fails, or `None` if it fails everywhere -/
theorem findIdx_eq (p : Nat → Bool) : ∀ l : List Nat,
    findIdx p l = if l.all (fun c => !p c) then none else some (l.takeWhile (fun c => !p c)).length := by
  intro l
  induction l with
  | nil => simp [findIdx]
  | cons c cs ih =>
    simp only [findIdx, List.all_cons, List.takeWhile_cons]
    by_cases hc : p c = true
    · simp [hc]
    · have hc' : p c = false := by simpa using hc
      simp only [hc', Bool.false_eq_true, if_false, Bool.not_false, Bool.true_and, if_true, List.length_cons, ih]
      split <;> simp

/-- the code's `position(|c| !ws).unwrap_or(0)` equals the number of leading whitespace characters
    unless the haystack is all whitespace (where it returns 0) -/
theorem leadingWs_eq (r : Rep) (h : List Nat) :
    leadingWs r h = if h.all (wsRep r) then 0 else lead r h := by
  have hw : wsOf r = wsRep r := by cases r <;> rfl
  unfold leadingWs lead
  rw [findIdx_eq, hw]
  simp only [Bool.not_not]
  have e1 : (fun c => wsRep r c) = wsRep r := rfl
  split <;> simp_all

theorem trailingWs_eq (r : Rep) (h : List Nat) :
    trailingWs r h = if h.all (wsRep r) then 0 else trail r h := by
  have hw : wsOf r = wsRep r := by cases r <;> rfl
  unfold trailingWs trail
  rw [findIdx_eq, hw]
  simp only [Bool.not_not, List.all_reverse]
  split <;> simp_all


/-! ## prefix, postfix and exact matching: the decisions -/

def wsList : List Nat := [9, 10, 11, 12, 13, 32, 0x85, 0xA0, 0x1680, 0x2000, 0x2001, 0x2002, 0x2003, 0x2004, 0x2005, 0x2006, 0x2007,
  0x2008, 0x2009, 0x200A, 0x2028, 0x2029, 0x202F, 0x205F, 0x3000]

theorem isWs_mem (c : Nat) (h : isWs c = true) : c ∈ wsList := by
  unfold isWs at h
  simp only [Bool.or_eq_true, Bool.and_eq_true, decide_eq_true_eq] at h
  unfold wsList
  simp only [List.mem_cons, List.mem_nil_iff, or_false]
  omega

set_option maxRecDepth 100000 in
theorem ws_table : wsList.all (fun c => isWs (toLower c) && isWs (normalizeLatin c) && isWs (toLower (normalizeLatin c))) = true := by
  decide +kernel


/-- a whitespace character of the haystack is still whitespace after normalization (so it can not equal a
    non-whitespace needle character) -/
theorem ws_norm (cfg : Cfg) (r : Rep) (c : Nat) (h : wsRep r c = true) : isWs (norm cfg r c) = true := by
  cases r with
  | ascii =>
    simp only [wsRep, isAsciiWs, Bool.or_eq_true, decide_eq_true_eq] at h
    have hn : normAscii cfg c = c := by unfold normAscii; split <;> omega
    show isWs (normAscii cfg c) = true
    rw [hn]; unfold isWs
    simp only [Bool.or_eq_true, Bool.and_eq_true, decide_eq_true_eq]
    omega
  | unicode =>
    have hm := isWs_mem c h
    have ht := ws_table
    rw [List.all_eq_true] at ht
    have := ht c hm
    simp only [Bool.and_eq_true] at this
    show isWs (normChar cfg c) = true
    unfold normChar
    by_cases hz : cfg.normalize = true <;> by_cases hi : cfg.ignoreCase = true <;> simp only [hz, hi, if_true, if_false, Bool.false_eq_true]
    · exact this.2
    · exact this.1.2
    · exact this.1.1
    · exact h

/-- the window comparison of `exact_match_impl`, for a needle that is already normalized, is equality of the
    normalized haystack window with the needle — in every representation pair except ASCII haystack × code-point
    needle (known finding K1) -/
theorem exactImpl_window (cfg : Cfg) (ext : Ext) (hrep nrep : Rep) (h n : List Nat) (start end_ : Nat)
    (hk1 : ¬ (hrep = .ascii ∧ nrep = .unicode)) (hn : n.map (norm cfg nrep) = n) :
    (exactImpl cfg ext hrep nrep h n start end_).isSome =
      (decide (n.length = end_ - start) && (((normHay cfg hrep h).drop start).take (end_ - start) == n)) := by
  rw [exactImpl_isSome]
  congr 1
  unfold normHay
  rw [← List.map_drop, ← List.map_take]
  cases hrep <;> cases nrep
  · -- ascii / ascii
    simp only
    by_cases hi : cfg.ignoreCase = true
    · simp only [hi, if_true]
      have : n.map (normAscii cfg) = n := hn
      rw [this]; rfl
    · simp only [hi, Bool.false_eq_true, if_false]
      have hid : ∀ (l : List Nat), l.map (norm cfg .ascii) = l := by
        intro l
        induction l with
        | nil => rfl
        | cons a t ih => simp only [List.map_cons, ih]; congr 1; simp [norm, normAscii, hi]
      rw [hid]
  · exact absurd ⟨rfl, rfl⟩ hk1
  · simp only
    have : n.map (normAscii cfg) = n := hn
    rw [this]; rfl
  · simp only
    have : n.map (normChar cfg) = n := hn
    rw [this]; rfl

theorem takeWhile_length_eq_iff_all (p : Nat → Bool) : ∀ (l : List Nat), l.all p = true → (l.takeWhile p).length = l.length := by
  intro l
  induction l with
  | nil => intro _; rfl
  | cons a t ih =>
    intro h
    simp only [List.all_cons, Bool.and_eq_true] at h
    simp [h.1, ih h.2]

theorem lead_le (r : Rep) (h : List Nat) : lead r h ≤ h.length := by
  unfold lead; exact (List.takeWhile_sublist _).length_le

/-- **prefix matching** succeeds exactly when the needle equals the normalized haystack text at the start, where
    leading haystack whitespace is skipped unless the needle itself starts with whitespace -/
theorem C05_prefix (cfg : Cfg) (ext : Ext) (hrep nrep : Rep) (h : List Nat) (n0 : Nat) (ns : List Nat)
    (hk1 : ¬ (hrep = .ascii ∧ nrep = .unicode)) (hn : (n0 :: ns).map (norm cfg nrep) = n0 :: ns) :
    (prefixMatch cfg ext hrep nrep h (n0 :: ns)).isSome =
      (decide ((if isWs n0 then 0 else lead hrep h) + (n0 :: ns).length ≤ h.length) &&
        (((normHay cfg hrep h).drop (if isWs n0 then 0 else lead hrep h)).take (n0 :: ns).length == n0 :: ns)) := by
  have hw : wsOf hrep = wsRep hrep := by cases hrep <;> rfl
  unfold prefixMatch
  simp only
  generalize hL : (n0 :: ns).length = L
  have hLpos : 0 < L := by rw [← hL]; simp
  by_cases hws : isWs n0 = true
  · -- needle starts with whitespace: nothing is skipped
    simp only [hws, Bool.not_true, Bool.false_eq_true, if_false, if_true, Nat.sub_zero, Nat.zero_add, Nat.add_zero]
    by_cases hl : h.length < L
    · simp only [hl, if_true, Option.isSome_none]
      have : ¬ (L ≤ h.length) := by omega
      simp [this]
    · simp only [hl, if_false]
      rw [exactImpl_window cfg ext hrep nrep h _ _ _ hk1 hn]
      have : L ≤ h.length := by omega
      simp [this, hL]
  · have hws' : isWs n0 = false := by simpa using hws
    simp only [hws', Bool.not_false, if_true, Bool.false_eq_true, if_false]
    rw [leadingWs_eq]
    by_cases hall : h.all (wsRep hrep) = true
    · -- the haystack is all whitespace: the code skips nothing, but the first character can not match
      simp only [hall, if_true, Nat.sub_zero, Nat.add_zero]
      have hlead : lead hrep h = h.length := by
        unfold lead; rw [hw]; exact takeWhile_length_eq_iff_all _ h hall
      have hfalse : ¬ (lead hrep h + L ≤ h.length) := by rw [hlead]; omega
      simp only [hfalse, decide_false, Bool.false_and]
      by_cases hl : h.length < L
      · simp [hl]
      · simp only [hl, if_false]
        rw [exactImpl_window cfg ext hrep nrep h _ _ _ hk1 hn]
        simp only [Nat.sub_zero, hL, decide_true, Bool.true_and, List.drop_zero]
        -- first character of the window is whitespace after normalization, the needle's is not
        cases h with
        | nil => simp at hl; omega
        | cons c cs =>
          simp only [List.all_cons, Bool.and_eq_true] at hall
          have := ws_norm cfg hrep c hall.1
          obtain ⟨L', rfl⟩ : ∃ L', L = L' + 1 := ⟨L - 1, by omega⟩
          simp only [normHay, List.map_cons, List.take_succ_cons]
          cases hb : (norm cfg hrep c :: List.take L' (List.map (norm cfg hrep) cs) == n0 :: ns) with
          | false => rfl
          | true =>
            rw [beq_iff_eq] at hb
            simp only [List.cons.injEq] at hb
            rw [hb.1] at this; rw [this] at hws'; cases hws'
    · simp only [hall, Bool.false_eq_true, if_false]
      have hle := lead_le hrep h
      by_cases hl : h.length - lead hrep h < L
      · simp only [hl, if_true, Option.isSome_none]
        have : ¬ (lead hrep h + L ≤ h.length) := by omega
        simp [this]
      · simp only [hl, if_false]
        rw [exactImpl_window cfg ext hrep nrep h _ _ _ hk1 hn]
        have : lead hrep h + L ≤ h.length := by omega
        have e : L + lead hrep h - lead hrep h = L := by omega
        simp [this, hL, e]


theorem trail_le (r : Rep) (h : List Nat) : trail r h ≤ h.length := by
  unfold trail
  have := (List.takeWhile_sublist (l := h.reverse) (wsOf r)).length_le
  simpa using this

theorem takeWhile_length_lt_of_not_all (p : Nat → Bool) : ∀ (l : List Nat), l.all p = false → (l.takeWhile p).length < l.length := by
  intro l
  induction l with
  | nil => intro h; simp at h
  | cons a t ih =>
    intro h
    simp only [List.takeWhile_cons]
    by_cases ha : p a = true
    · simp only [ha, if_true, List.length_cons]
      have : t.all p = false := by simpa [List.all_cons, ha] using h
      have := ih this; omega
    · simp [ha]

/-- a haystack that is not all whitespace has a non-whitespace character between its leading and trailing blanks -/
theorem lead_add_trail_lt (p : Nat → Bool) : ∀ (l : List Nat), l.all p = false →
    (l.takeWhile p).length + (l.reverse.takeWhile p).length < l.length := by
  intro l
  induction l with
  | nil => intro h; simp at h
  | cons a t ih =>
    intro h
    simp only [List.reverse_cons, List.takeWhile_cons, List.length_cons]
    by_cases ha : p a = true
    · have ht : t.all p = false := by simpa [List.all_cons, ha] using h
      have hr : t.reverse.all p = false := by simpa using ht
      have hlt := takeWhile_length_lt_of_not_all p t.reverse hr
      rw [List.takeWhile_append]
      have hne : ¬ ((t.reverse.takeWhile p).length = t.reverse.length) := by omega
      simp only [hne, if_false, ha, if_true, List.length_cons]
      have := ih ht
      omega
    · simp only [ha, Bool.false_eq_true, if_false, List.length_nil, Nat.zero_add]
      rw [List.takeWhile_append]
      split
      · simp only [List.length_append, List.length_reverse, List.takeWhile_cons, ha, Bool.false_eq_true, if_false, List.length_nil]
        omega
      · have := (List.takeWhile_sublist (l := t.reverse) p).length_le
        simp only [List.length_reverse] at this
        omega

/-- if the last normalized haystack character of the window is whitespace and the needle's last character is not,
    the comparison fails -/
theorem ne_of_last_ws (w n : List Nat) (hw : ∃ c, w.getLast? = some c ∧ isWs c = true)
    (hn : ∃ c, n.getLast? = some c ∧ isWs c = false) : (w == n) = false := by
  cases hb : (w == n) with
  | false => rfl
  | true =>
    rw [beq_iff_eq] at hb
    obtain ⟨c, hc1, hc2⟩ := hw
    obtain ⟨d, hd1, hd2⟩ := hn
    rw [hb, hd1] at hc1
    injection hc1 with e
    rw [e, hc2] at hd2; cases hd2


theorem trail_eq_length_of_all (r : Rep) (h : List Nat) (hall : h.all (wsRep r) = true) : trail r h = h.length := by
  have hw : wsOf r = wsRep r := by cases r <;> rfl
  unfold trail; rw [hw]
  have := takeWhile_length_eq_iff_all (wsRep r) h.reverse (by simpa using hall)
  simpa using this

/-- the last character of an all-whitespace haystack suffix is whitespace after normalization -/
theorem last_ws_of_all (cfg : Cfg) (r : Rep) (h : List Nat) (hall : h.all (wsRep r) = true) (k : Nat) (hk : k < h.length) :
    ∃ c, ((normHay cfg r h).drop k).getLast? = some c ∧ isWs c = true := by
  have hne : h ≠ [] := by intro e; subst e; simp at hk
  have hl := List.getLast?_eq_some_getLast hne
  refine ⟨norm cfg r (h.getLast hne), ?_, ?_⟩
  · unfold normHay
    rw [List.getLast?_drop]
    simp only [List.length_map]
    have : ¬ (h.length ≤ k) := by omega
    simp only [this, if_false, List.getLast?_map, hl, Option.map_some]
  · apply ws_norm
    rw [List.all_eq_true] at hall
    exact hall _ (List.getLast_mem hne)

/-- **postfix matching** succeeds exactly when the needle equals the normalized haystack text at the end, where
    trailing haystack whitespace is skipped unless the needle itself ends with whitespace -/
theorem C05_postfix (cfg : Cfg) (ext : Ext) (hrep nrep : Rep) (h : List Nat) (n0 : Nat) (ns : List Nat)
    (hk1 : ¬ (hrep = .ascii ∧ nrep = .unicode)) (hn : (n0 :: ns).map (norm cfg nrep) = n0 :: ns) :
    (postfixMatch cfg ext hrep nrep h (n0 :: ns)).isSome =
      (decide ((if isWs ((n0 :: ns).getLast?.getD n0) then 0 else trail hrep h) + (n0 :: ns).length ≤ h.length) &&
        (((normHay cfg hrep h).drop (h.length - (if isWs ((n0 :: ns).getLast?.getD n0) then 0 else trail hrep h) - (n0 :: ns).length)).take
          (n0 :: ns).length == n0 :: ns)) := by
  unfold postfixMatch
  simp only
  have hlastSome : (n0 :: ns).getLast? = some ((n0 :: ns).getLast?.getD n0) := by
    rw [List.getLast?_eq_some_getLast (by simp)]; rfl
  generalize hlast : (n0 :: ns).getLast?.getD n0 = last at *
  generalize hL : (n0 :: ns).length = L
  have hLpos : 0 < L := by rw [← hL]; simp
  by_cases hws : isWs last = true
  · simp only [hws, Bool.not_true, Bool.false_eq_true, if_false, if_true, Nat.sub_zero, Nat.zero_add]
    by_cases hl : h.length < L
    · simp only [hl, if_true, Option.isSome_none]
      have : ¬ (L ≤ h.length) := by omega
      simp [this]
    · simp only [hl, if_false]
      rw [exactImpl_window cfg ext hrep nrep h _ _ _ hk1 hn]
      have : L ≤ h.length := by omega
      have e : h.length - (h.length - L) = L := by omega
      simp [this, hL, e]
  · have hws' : isWs last = false := by simpa using hws
    simp only [hws', Bool.not_false, if_true, Bool.false_eq_true, if_false]
    rw [trailingWs_eq]
    by_cases hall : h.all (wsRep hrep) = true
    · simp only [hall, if_true, Nat.sub_zero]
      have htr := trail_eq_length_of_all hrep h hall
      have hfalse : ¬ (trail hrep h + L ≤ h.length) := by rw [htr]; omega
      simp only [hfalse, decide_false, Bool.false_and]
      by_cases hl : h.length < L
      · simp [hl]
      · simp only [hl, if_false]
        rw [exactImpl_window cfg ext hrep nrep h _ _ _ hk1 hn]
        have e : h.length - (h.length - L) = L := by omega
        simp only [e, hL, decide_true, Bool.true_and]
        -- the window is the last L characters; its last character is whitespace, the needle's is not
        have hwin : ((normHay cfg hrep h).drop (h.length - L)).take L = (normHay cfg hrep h).drop (h.length - L) := by
          apply List.take_of_length_le
          simp [normHay]; omega
        rw [hwin]
        exact ne_of_last_ws _ _ (last_ws_of_all cfg hrep h hall (h.length - L) (by omega)) ⟨last, hlastSome, hws'⟩
    · simp only [hall, Bool.false_eq_true, if_false]
      have hle := trail_le hrep h
      by_cases hl : h.length - trail hrep h < L
      · simp only [hl, if_true, Option.isSome_none]
        have : ¬ (trail hrep h + L ≤ h.length) := by omega
        simp [this]
      · simp only [hl, if_false]
        rw [exactImpl_window cfg ext hrep nrep h _ _ _ hk1 hn]
        have : trail hrep h + L ≤ h.length := by omega
        have e2 : h.length - L - trail hrep h = h.length - trail hrep h - L := by omega
        have e : h.length - trail hrep h - (h.length - trail hrep h - L) = L := by omega
        simp [this, hL, e2, e]


theorem ne_of_first_ws (w n : List Nat) (hw : ∃ c, w.head? = some c ∧ isWs c = true)
    (hn : ∃ c, n.head? = some c ∧ isWs c = false) : (w == n) = false := by
  cases hb : (w == n) with
  | false => rfl
  | true =>
    rw [beq_iff_eq] at hb
    obtain ⟨c, hc1, hc2⟩ := hw
    obtain ⟨d, hd1, hd2⟩ := hn
    rw [hb, hd1] at hc1
    injection hc1 with e
    rw [e, hc2] at hd2; cases hd2

/-- **exact matching** succeeds exactly when the needle equals the whole normalized haystack text, where leading /
    trailing haystack whitespace is ignored unless the needle itself starts / ends with whitespace -/
theorem C05_exact (cfg : Cfg) (ext : Ext) (hrep nrep : Rep) (h : List Nat) (n0 : Nat) (ns : List Nat)
    (hk1 : ¬ (hrep = .ascii ∧ nrep = .unicode)) (hn : (n0 :: ns).map (norm cfg nrep) = n0 :: ns) :
    (exactMatch cfg ext hrep nrep h (n0 :: ns)).isSome =
      (decide ((if isWs n0 then 0 else lead hrep h) + (if isWs ((n0 :: ns).getLast?.getD n0) then 0 else trail hrep h) ≤ h.length) &&
        (((normHay cfg hrep h).drop (if isWs n0 then 0 else lead hrep h)).take
          (h.length - (if isWs n0 then 0 else lead hrep h) - (if isWs ((n0 :: ns).getLast?.getD n0) then 0 else trail hrep h)) == n0 :: ns) &&
        decide (h.length - (if isWs n0 then 0 else lead hrep h) - (if isWs ((n0 :: ns).getLast?.getD n0) then 0 else trail hrep h) = (n0 :: ns).length)) := by
  have hw : wsOf hrep = wsRep hrep := by cases hrep <;> rfl
  unfold exactMatch
  simp only
  have hlastSome : (n0 :: ns).getLast? = some ((n0 :: ns).getLast?.getD n0) := by
    rw [List.getLast?_eq_some_getLast (by simp)]; rfl
  generalize hlast : (n0 :: ns).getLast?.getD n0 = last at *
  generalize hL : (n0 :: ns).length = L
  have hLpos : 0 < L := by rw [← hL]; simp
  rw [leadingWs_eq, trailingWs_eq]
  by_cases hall : h.all (wsRep hrep) = true
  · -- all whitespace: the code trims nothing
    simp only [hall, if_true, ite_self, Nat.sub_zero]
    have hlead : lead hrep h = h.length := by
      unfold lead; rw [hw]; exact takeWhile_length_eq_iff_all _ h hall
    have htr := trail_eq_length_of_all hrep h hall
    rw [hlead, htr]
    by_cases hemp : h.length = 0
    · have : h = [] := List.length_eq_zero_iff.mp hemp
      subst this
      simp only [List.length_nil, if_true, ite_self, Option.isSome_none]
      have : ¬ (0 = L) := by omega
      simp [this]
    · have hne : ¬ (0 = h.length) := by omega
      simp only [hne, if_false]
      rw [exactImpl_window cfg ext hrep nrep h _ _ _ hk1 hn]
      simp only [Nat.sub_zero, List.drop_zero, hL]
      by_cases hw0 : isWs n0 = true
      · by_cases hwl : isWs last = true
        · simp only [hw0, hwl, if_true, Nat.zero_add, Nat.zero_le, decide_true, Bool.true_and, Nat.sub_zero, List.drop_zero]
          rw [Bool.and_comm]
          congr 1
          by_cases e : L = h.length <;> simp [e, eq_comm]
        · have hwl' : isWs last = false := by simpa using hwl
          simp only [hw0, hwl', if_true, Bool.false_eq_true, if_false, Nat.zero_add, Nat.le_refl, decide_true, Bool.true_and,
            Nat.sub_zero, Nat.sub_self, List.take_zero, List.drop_zero]
          have hf : (([] : List Nat) == n0 :: ns) = false := rfl
          rw [hf, Bool.false_and]
          by_cases e : L = h.length
          · simp only [e, decide_true, Bool.true_and]
            have hwin : (normHay cfg hrep h).take h.length = (normHay cfg hrep h).drop 0 := by
              simp [normHay, List.take_of_length_le]
            rw [hwin]
            exact ne_of_last_ws _ _ (last_ws_of_all cfg hrep h hall 0 (by omega)) ⟨last, hlastSome, hwl'⟩
          · simp [e]
      · have hw0' : isWs n0 = false := by simpa using hw0
        simp only [hw0', Bool.false_eq_true, if_false]
        -- specification side is false: take 0 (or an impossible bound)
        have hspec : (decide (h.length + (if isWs last = true then 0 else h.length) ≤ h.length) &&
            (List.take (h.length - h.length - (if isWs last = true then 0 else h.length)) (List.drop h.length (normHay cfg hrep h)) == n0 :: ns) &&
            decide (h.length - h.length - (if isWs last = true then 0 else h.length) = L)) = false := by
          have : h.length - h.length - (if isWs last = true then 0 else h.length) = 0 := by omega
          rw [this]
          have hne' : ¬ (0 = L) := by omega
          simp [hne']
        rw [hspec]
        by_cases e : L = h.length
        · simp only [e, decide_true, Bool.true_and]
          cases h with
          | nil => simp at hemp
          | cons c cs =>
            simp only [List.all_cons, Bool.and_eq_true] at hall
            have hc := ws_norm cfg hrep c hall.1
            apply ne_of_first_ws
            · exact ⟨norm cfg hrep c, by simp [normHay], hc⟩
            · exact ⟨n0, rfl, hw0'⟩
        · simp [e]
  · -- some non-whitespace character: the helpers are the specification's counts
    have hall' : h.all (wsRep hrep) = false := by simpa using hall
    simp only [hall', Bool.false_eq_true, if_false]
    have hsum : lead hrep h + trail hrep h < h.length := by
      have := lead_add_trail_lt (wsRep hrep) h hall'
      unfold lead trail; rw [hw]; exact this
    have e1 : (if (!isWs n0) = true then lead hrep h else 0) = (if isWs n0 = true then 0 else lead hrep h) := by
      cases isWs n0 <;> simp
    have e2 : (if (!isWs last) = true then trail hrep h else 0) = (if isWs last = true then 0 else trail hrep h) := by
      cases isWs last <;> simp
    rw [e1, e2]
    generalize hl : (if isWs n0 = true then 0 else lead hrep h) = l
    generalize ht : (if isWs last = true then 0 else trail hrep h) = t
    have hl' : l ≤ lead hrep h := by rw [← hl]; split <;> omega
    have ht' : t ≤ trail hrep h := by rw [← ht]; split <;> omega
    have hne : ¬ (t = h.length) := by omega
    simp only [hne, if_false]
    rw [exactImpl_window cfg ext hrep nrep h _ _ _ hk1 hn]
    have hle : l + t ≤ h.length := by omega
    have e3 : h.length - t - l = h.length - l - t := by omega
    simp only [hle, decide_true, Bool.true_and, hL, e3]
    rw [Bool.and_comm]
    congr 1
    by_cases e : L = h.length - l - t <;> simp [e, eq_comm]


end NucleoVerif
