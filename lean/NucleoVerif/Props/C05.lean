import NucleoVerif.Model.Matcher
import NucleoVerif.Spec.Matcher
import NucleoVerif.Props.C16
import NucleoVerif.Props.C03
import NucleoVerif.Lemmas.Scan
import NucleoVerif.Lemmas.Subseq
/-! # C05 — substring, prefix, postfix and exact matching decide the documented relations

Status: the specification's occurrence list is characterised (`occAux_mem`), the trimming
helpers of the code (`position(!ws).unwrap_or(0)`) equal the specification's whitespace counts
whenever the haystack is not all whitespace, and an all-whitespace haystack can not match a
needle that does not start/end with whitespace.  The composition into the four `↔` theorems of
DESIGN.md rests on `exactImpl` ⇔ window equality, proved here (`exactImpl_isSome`). -/
namespace NucleoVerif
open Gen Spec

/-- `i` is listed iff the needle equals the (normalized) text at `i` -/
theorem occAux_mem (n : List Nat) : ∀ (l : List Nat) (base i : Nat),
    i ∈ occAux n base l ↔ base ≤ i ∧ i ≤ base + l.length ∧ (l.drop (i - base)).take n.length = n ∧ (i - base + n.length ≤ l.length) := by
  intro l
  induction l with
  | nil =>
    intro base i
    simp only [occAux, List.length_nil, Nat.add_zero, List.drop_nil, List.take_nil]
    cases n with
    | nil => simp; omega
    | cons a as => simp
  | cons c cs ih =>
    intro base i
    simp only [occAux, List.mem_append, ih, List.length_cons]
    by_cases e : i = base
    · subst e
      simp only [Nat.sub_self, List.drop_zero, Nat.zero_add]
      constructor
      · rintro (h | h)
        · split at h
          · rename_i heq
            have heq' : List.take n.length (c :: cs) = n := by simpa using heq
            refine ⟨Nat.le_refl _, by omega, heq', ?_⟩
            have := congrArg List.length heq'
            simp [List.length_take] at this
            omega
          · simp at h
        · omega
      · rintro ⟨_, _, h3, _⟩
        left
        simp [h3]
    · constructor
      · rintro (h | h)
        · split at h
          · simp at h; exact absurd h e
          · simp at h
        · obtain ⟨h1, h2, h3, h4⟩ := h
          refine ⟨by omega, by omega, ?_, ?_⟩
          · have : i - base = (i - (base + 1)) + 1 := by omega
            rw [this, List.drop_succ_cons]; exact h3
          · omega
      · rintro ⟨h1, h2, h3, h4⟩
        right
        refine ⟨by omega, by omega, ?_, by omega⟩
        have : i - base = (i - (base + 1)) + 1 := by omega
        rw [this, List.drop_succ_cons] at h3; exact h3

/-- `exact_match_impl` succeeds iff the window has the needle's length and the normalized window
    equals the (normalized) needle; an ASCII-representation haystack never matches a code-point needle
    (finding K1 when that needle is ASCII text) -/
theorem exactImpl_isSome (cfg : Cfg) (ext : Ext) (hrep nrep : Rep) (h n : List Nat) (start end_ : Nat) :
    (exactImpl cfg ext hrep nrep h n start end_).isSome =
      (decide (n.length = end_ - start) &&
        match hrep, nrep with
        | .ascii, .ascii => if cfg.ignoreCase then ((h.drop start).take (end_ - start)).map (normAscii cfg) == n.map (normAscii cfg)
                            else ((h.drop start).take (end_ - start)) == n
        | .ascii, .unicode => false
        | .unicode, .ascii => ((h.drop start).take (end_ - start)).map (normChar cfg) == n.map (normAscii cfg)
        | .unicode, .unicode => ((h.drop start).take (end_ - start)).map (normChar cfg) == n.map (normChar cfg)) := by
  unfold exactImpl
  by_cases hl : n.length = end_ - start
  · simp only [hl, ne_eq, not_true_eq_false, if_false, decide_true, Bool.true_and]
    cases hrep <;> cases nrep <;> simp only <;> repeat' split
    all_goals simp_all
  · simp [hl]

/-- `position(p)` = length of the longest prefix on which `p` fails, or `None` if it fails everywhere -/
theorem findIdx_eq (p : Nat → Bool) : ∀ l : List Nat,
    findIdx p l = if l.all (fun c => !p c) then none else some (l.takeWhile (fun c => !p c)).length := by
  intro l
  induction l with
  | nil => simp [findIdx]
  | cons c cs ih =>
    simp only [findIdx, List.all_cons, List.takeWhile_cons]
    by_cases hc : p c = true
    · simp [hc]
    · have hc' : p c = false := by simpa using hc
      simp only [hc', Bool.false_eq_true, if_false, Bool.not_false, Bool.true_and, if_true, List.length_cons, ih]
      split <;> simp

/-- the code's `position(|c| !ws).unwrap_or(0)` equals the number of leading whitespace characters
    unless the haystack is all whitespace (where it returns 0) -/
theorem leadingWs_eq (r : Rep) (h : List Nat) :
    leadingWs r h = if h.all (wsRep r) then 0 else lead r h := by
  have hw : wsOf r = wsRep r := by cases r <;> rfl
  unfold leadingWs lead
  rw [findIdx_eq, hw]
  simp only [Bool.not_not]
  have e1 : (fun c => wsRep r c) = wsRep r := rfl
  split <;> simp_all

theorem trailingWs_eq (r : Rep) (h : List Nat) :
    trailingWs r h = if h.all (wsRep r) then 0 else trail r h := by
  have hw : wsOf r = wsRep r := by cases r <;> rfl
  unfold trailingWs trail
  rw [findIdx_eq, hw]
  simp only [Bool.not_not, List.all_reverse]
  split <;> simp_all


/-! ## prefix, postfix and exact matching: the decisions -/

def wsList : List Nat := [9, 10, 11, 12, 13, 32, 0x85, 0xA0, 0x1680, 0x2000, 0x2001, 0x2002, 0x2003, 0x2004, 0x2005, 0x2006, 0x2007,
  0x2008, 0x2009, 0x200A, 0x2028, 0x2029, 0x202F, 0x205F, 0x3000]

theorem isWs_mem (c : Nat) (h : isWs c = true) : c ∈ wsList := by
  unfold isWs at h
  simp only [Bool.or_eq_true, Bool.and_eq_true, decide_eq_true_eq] at h
  unfold wsList
  simp only [List.mem_cons, List.mem_nil_iff, or_false]
  omega

set_option maxRecDepth 100000 in
theorem ws_table : wsList.all (fun c => isWs (toLower c) && isWs (normalizeLatin c) && isWs (toLower (normalizeLatin c))) = true := by
  decide +kernel


/-- a whitespace character of the haystack is still whitespace after normalization (so it can not equal a
    non-whitespace needle character) -/
theorem ws_norm (cfg : Cfg) (r : Rep) (c : Nat) (h : wsRep r c = true) : isWs (norm cfg r c) = true := by
  cases r with
  | ascii =>
    simp only [wsRep, isAsciiWs, Bool.or_eq_true, decide_eq_true_eq] at h
    have hn : normAscii cfg c = c := by unfold normAscii; split <;> omega
    show isWs (normAscii cfg c) = true
    rw [hn]; unfold isWs
    simp only [Bool.or_eq_true, Bool.and_eq_true, decide_eq_true_eq]
    omega
  | unicode =>
    have hm := isWs_mem c h
    have ht := ws_table
    rw [List.all_eq_true] at ht
    have := ht c hm
    simp only [Bool.and_eq_true] at this
    show isWs (normChar cfg c) = true
    unfold normChar
    by_cases hz : cfg.normalize = true <;> by_cases hi : cfg.ignoreCase = true <;> simp only [hz, hi, if_true, if_false, Bool.false_eq_true]
    · exact this.2
    · exact this.1.2
    · exact this.1.1
    · exact h

/-- the window comparison of `exact_match_impl`, for a needle that is already normalized, is equality of the
    normalized haystack window with the needle — in every representation pair except ASCII haystack × code-point
    needle (known finding K1) -/
theorem exactImpl_window (cfg : Cfg) (ext : Ext) (hrep nrep : Rep) (h n : List Nat) (start end_ : Nat)
    (hk1 : ¬ (hrep = .ascii ∧ nrep = .unicode)) (hn : n.map (norm cfg nrep) = n) :
    (exactImpl cfg ext hrep nrep h n start end_).isSome =
      (decide (n.length = end_ - start) && (((normHay cfg hrep h).drop start).take (end_ - start) == n)) := by
  rw [exactImpl_isSome]
  congr 1
  unfold normHay
  rw [← List.map_drop, ← List.map_take]
  cases hrep <;> cases nrep
  · -- ascii / ascii
    simp only
    by_cases hi : cfg.ignoreCase = true
    · simp only [hi, if_true]
      have : n.map (normAscii cfg) = n := hn
      rw [this]; rfl
    · simp only [hi, Bool.false_eq_true, if_false]
      have hid : ∀ (l : List Nat), l.map (norm cfg .ascii) = l := by
        intro l
        induction l with
        | nil => rfl
        | cons a t ih => simp only [List.map_cons, ih]; congr 1; simp [norm, normAscii, hi]
      rw [hid]
  · exact absurd ⟨rfl, rfl⟩ hk1
  · simp only
    have : n.map (normAscii cfg) = n := hn
    rw [this]; rfl
  · simp only
    have : n.map (normChar cfg) = n := hn
    rw [this]; rfl

theorem takeWhile_length_eq_iff_all (p : Nat → Bool) : ∀ (l : List Nat), l.all p = true → (l.takeWhile p).length = l.length := by
  intro l
  induction l with
  | nil => intro _; rfl
  | cons a t ih =>
    intro h
    simp only [List.all_cons, Bool.and_eq_true] at h
    simp [h.1, ih h.2]

theorem lead_le (r : Rep) (h : List Nat) : lead r h ≤ h.length := by
  unfold lead; exact (List.takeWhile_sublist _).length_le

/-- **prefix matching** succeeds exactly when the needle equals the normalized haystack text at the start, where
    leading haystack whitespace is skipped unless the needle itself starts with whitespace -/
theorem C05_prefix (cfg : Cfg) (ext : Ext) (hrep nrep : Rep) (h : List Nat) (n0 : Nat) (ns : List Nat)
    (hk1 : ¬ (hrep = .ascii ∧ nrep = .unicode)) (hn : (n0 :: ns).map (norm cfg nrep) = n0 :: ns) :
    (prefixMatch cfg ext hrep nrep h (n0 :: ns)).isSome =
      (decide ((if isWs n0 then 0 else lead hrep h) + (n0 :: ns).length ≤ h.length) &&
        (((normHay cfg hrep h).drop (if isWs n0 then 0 else lead hrep h)).take (n0 :: ns).length == n0 :: ns)) := by
  have hw : wsOf hrep = wsRep hrep := by cases hrep <;> rfl
  unfold prefixMatch
  simp only
  generalize hL : (n0 :: ns).length = L
  have hLpos : 0 < L := by rw [← hL]; simp
  by_cases hws : isWs n0 = true
  · -- needle starts with whitespace: nothing is skipped
    simp only [hws, Bool.not_true, Bool.false_eq_true, if_false, if_true, Nat.sub_zero, Nat.zero_add, Nat.add_zero]
    by_cases hl : h.length < L
    · simp only [hl, if_true, Option.isSome_none]
      have : ¬ (L ≤ h.length) := by omega
      simp [this]
    · simp only [hl, if_false]
      rw [exactImpl_window cfg ext hrep nrep h _ _ _ hk1 hn]
      have : L ≤ h.length := by omega
      simp [this, hL]
  · have hws' : isWs n0 = false := by simpa using hws
    simp only [hws', Bool.not_false, if_true, Bool.false_eq_true, if_false]
    rw [leadingWs_eq]
    by_cases hall : h.all (wsRep hrep) = true
    · -- the haystack is all whitespace: the code skips nothing, but the first character can not match
      simp only [hall, if_true, Nat.sub_zero, Nat.add_zero]
      have hlead : lead hrep h = h.length := by
        unfold lead; rw [hw]; exact takeWhile_length_eq_iff_all _ h hall
      have hfalse : ¬ (lead hrep h + L ≤ h.length) := by rw [hlead]; omega
      simp only [hfalse, decide_false, Bool.false_and]
      by_cases hl : h.length < L
      · simp [hl]
      · simp only [hl, if_false]
        rw [exactImpl_window cfg ext hrep nrep h _ _ _ hk1 hn]
        simp only [Nat.sub_zero, hL, decide_true, Bool.true_and, List.drop_zero]
        -- first character of the window is whitespace after normalization, the needle's is not
        cases h with
        | nil => simp at hl; omega
        | cons c cs =>
          simp only [List.all_cons, Bool.and_eq_true] at hall
          have := ws_norm cfg hrep c hall.1
          obtain ⟨L', rfl⟩ : ∃ L', L = L' + 1 := ⟨L - 1, by omega⟩
          simp only [normHay, List.map_cons, List.take_succ_cons]
          cases hb : (norm cfg hrep c :: List.take L' (List.map (norm cfg hrep) cs) == n0 :: ns) with
          | false => rfl
          | true =>
            rw [beq_iff_eq] at hb
            simp only [List.cons.injEq] at hb
            rw [hb.1] at this; rw [this] at hws'; cases hws'
    · simp only [hall, Bool.false_eq_true, if_false]
      have hle := lead_le hrep h
      by_cases hl : h.length - lead hrep h < L
      · simp only [hl, if_true, Option.isSome_none]
        have : ¬ (lead hrep h + L ≤ h.length) := by omega
        simp [this]
      · simp only [hl, if_false]
        rw [exactImpl_window cfg ext hrep nrep h _ _ _ hk1 hn]
        have : lead hrep h + L ≤ h.length := by omega
        have e : L + lead hrep h - lead hrep h = L := by omega
        simp [this, hL, e]


theorem trail_le (r : Rep) (h : List Nat) : trail r h ≤ h.length := by
  unfold trail
  have := (List.takeWhile_sublist (l := h.reverse) (wsOf r)).length_le
  simpa using this

theorem takeWhile_length_lt_of_not_all (p : Nat → Bool) : ∀ (l : List Nat), l.all p = false → (l.takeWhile p).length < l.length := by
  intro l
  induction l with
  | nil => intro h; simp at h
  | cons a t ih =>
    intro h
    simp only [List.takeWhile_cons]
    by_cases ha : p a = true
    · simp only [ha, if_true, List.length_cons]
      have : t.all p = false := by simpa [List.all_cons, ha] using h
      have := ih this; omega
    · simp [ha]

/-- a haystack that is not all whitespace has a non-whitespace character between its leading and trailing blanks -/
theorem lead_add_trail_lt (p : Nat → Bool) : ∀ (l : List Nat), l.all p = false →
    (l.takeWhile p).length + (l.reverse.takeWhile p).length < l.length := by
  intro l
  induction l with
  | nil => intro h; simp at h
  | cons a t ih =>
    intro h
    simp only [List.reverse_cons, List.takeWhile_cons, List.length_cons]
    by_cases ha : p a = true
    · have ht : t.all p = false := by simpa [List.all_cons, ha] using h
      have hr : t.reverse.all p = false := by simpa using ht
      have hlt := takeWhile_length_lt_of_not_all p t.reverse hr
      rw [List.takeWhile_append]
      have hne : ¬ ((t.reverse.takeWhile p).length = t.reverse.length) := by omega
      simp only [hne, if_false, ha, if_true, List.length_cons]
      have := ih ht
      omega
    · simp only [ha, Bool.false_eq_true, if_false, List.length_nil, Nat.zero_add]
      rw [List.takeWhile_append]
      split
      · simp only [List.length_append, List.length_reverse, List.takeWhile_cons, ha, Bool.false_eq_true, if_false, List.length_nil]
        omega
      · have := (List.takeWhile_sublist (l := t.reverse) p).length_le
        simp only [List.length_reverse] at this
        omega

/-- if the last normalized haystack character of the window is whitespace and the needle's last character is not,
    the comparison fails -/
theorem ne_of_last_ws (w n : List Nat) (hw : ∃ c, w.getLast? = some c ∧ isWs c = true)
    (hn : ∃ c, n.getLast? = some c ∧ isWs c = false) : (w == n) = false := by
  cases hb : (w == n) with
  | false => rfl
  | true =>
    rw [beq_iff_eq] at hb
    obtain ⟨c, hc1, hc2⟩ := hw
    obtain ⟨d, hd1, hd2⟩ := hn
    rw [hb, hd1] at hc1
    injection hc1 with e
    rw [e, hc2] at hd2; cases hd2


theorem trail_eq_length_of_all (r : Rep) (h : List Nat) (hall : h.all (wsRep r) = true) : trail r h = h.length := by
  have hw : wsOf r = wsRep r := by cases r <;> rfl
  unfold trail; rw [hw]
  have := takeWhile_length_eq_iff_all (wsRep r) h.reverse (by simpa using hall)
  simpa using this

/-- the last character of an all-whitespace haystack suffix is whitespace after normalization -/
theorem last_ws_of_all (cfg : Cfg) (r : Rep) (h : List Nat) (hall : h.all (wsRep r) = true) (k : Nat) (hk : k < h.length) :
    ∃ c, ((normHay cfg r h).drop k).getLast? = some c ∧ isWs c = true := by
  have hne : h ≠ [] := by intro e; subst e; simp at hk
  have hl := List.getLast?_eq_some_getLast hne
  refine ⟨norm cfg r (h.getLast hne), ?_, ?_⟩
  · unfold normHay
    rw [List.getLast?_drop]
    simp only [List.length_map]
    have : ¬ (h.length ≤ k) := by omega
    simp only [this, if_false, List.getLast?_map, hl, Option.map_some]
  · apply ws_norm
    rw [List.all_eq_true] at hall
    exact hall _ (List.getLast_mem hne)

/-- **postfix matching** succeeds exactly when the needle equals the normalized haystack text at the end, where
    trailing haystack whitespace is skipped unless the needle itself ends with whitespace -/
theorem C05_postfix (cfg : Cfg) (ext : Ext) (hrep nrep : Rep) (h : List Nat) (n0 : Nat) (ns : List Nat)
    (hk1 : ¬ (hrep = .ascii ∧ nrep = .unicode)) (hn : (n0 :: ns).map (norm cfg nrep) = n0 :: ns) :
    (postfixMatch cfg ext hrep nrep h (n0 :: ns)).isSome =
      (decide ((if isWs ((n0 :: ns).getLast?.getD n0) then 0 else trail hrep h) + (n0 :: ns).length ≤ h.length) &&
        (((normHay cfg hrep h).drop (h.length - (if isWs ((n0 :: ns).getLast?.getD n0) then 0 else trail hrep h) - (n0 :: ns).length)).take
          (n0 :: ns).length == n0 :: ns)) := by
  unfold postfixMatch
  simp only
  have hlastSome : (n0 :: ns).getLast? = some ((n0 :: ns).getLast?.getD n0) := by
    rw [List.getLast?_eq_some_getLast (by simp)]; rfl
  generalize hlast : (n0 :: ns).getLast?.getD n0 = last at *
  generalize hL : (n0 :: ns).length = L
  have hLpos : 0 < L := by rw [← hL]; simp
  by_cases hws : isWs last = true
  · simp only [hws, Bool.not_true, Bool.false_eq_true, if_false, if_true, Nat.sub_zero, Nat.zero_add]
    by_cases hl : h.length < L
    · simp only [hl, if_true, Option.isSome_none]
      have : ¬ (L ≤ h.length) := by omega
      simp [this]
    · simp only [hl, if_false]
      rw [exactImpl_window cfg ext hrep nrep h _ _ _ hk1 hn]
      have : L ≤ h.length := by omega
      have e : h.length - (h.length - L) = L := by omega
      simp [this, hL, e]
  · have hws' : isWs last = false := by simpa using hws
    simp only [hws', Bool.not_false, if_true, Bool.false_eq_true, if_false]
    rw [trailingWs_eq]
    by_cases hall : h.all (wsRep hrep) = true
    · simp only [hall, if_true, Nat.sub_zero]
      have htr := trail_eq_length_of_all hrep h hall
      have hfalse : ¬ (trail hrep h + L ≤ h.length) := by rw [htr]; omega
      simp only [hfalse, decide_false, Bool.false_and]
      by_cases hl : h.length < L
      · simp [hl]
      · simp only [hl, if_false]
        rw [exactImpl_window cfg ext hrep nrep h _ _ _ hk1 hn]
        have e : h.length - (h.length - L) = L := by omega
        simp only [e, hL, decide_true, Bool.true_and]
        -- the window is the last L characters; its last character is whitespace, the needle's is not
        have hwin : ((normHay cfg hrep h).drop (h.length - L)).take L = (normHay cfg hrep h).drop (h.length - L) := by
          apply List.take_of_length_le
          simp [normHay]; omega
        rw [hwin]
        exact ne_of_last_ws _ _ (last_ws_of_all cfg hrep h hall (h.length - L) (by omega)) ⟨last, hlastSome, hws'⟩
    · simp only [hall, Bool.false_eq_true, if_false]
      have hle := trail_le hrep h
      by_cases hl : h.length - trail hrep h < L
      · simp only [hl, if_true, Option.isSome_none]
        have : ¬ (trail hrep h + L ≤ h.length) := by omega
        simp [this]
      · simp only [hl, if_false]
        rw [exactImpl_window cfg ext hrep nrep h _ _ _ hk1 hn]
        have : trail hrep h + L ≤ h.length := by omega
        have e2 : h.length - L - trail hrep h = h.length - trail hrep h - L := by omega
        have e : h.length - trail hrep h - (h.length - trail hrep h - L) = L := by omega
        simp [this, hL, e2, e]


theorem ne_of_first_ws (w n : List Nat) (hw : ∃ c, w.head? = some c ∧ isWs c = true)
    (hn : ∃ c, n.head? = some c ∧ isWs c = false) : (w == n) = false := by
  cases hb : (w == n) with
  | false => rfl
  | true =>
    rw [beq_iff_eq] at hb
    obtain ⟨c, hc1, hc2⟩ := hw
    obtain ⟨d, hd1, hd2⟩ := hn
    rw [hb, hd1] at hc1
    injection hc1 with e
    rw [e, hc2] at hd2; cases hd2

/-- **exact matching** succeeds exactly when the needle equals the whole normalized haystack text, where leading /
    trailing haystack whitespace is ignored unless the needle itself starts / ends with whitespace -/
theorem C05_exact (cfg : Cfg) (ext : Ext) (hrep nrep : Rep) (h : List Nat) (n0 : Nat) (ns : List Nat)
    (hk1 : ¬ (hrep = .ascii ∧ nrep = .unicode)) (hn : (n0 :: ns).map (norm cfg nrep) = n0 :: ns) :
    (exactMatch cfg ext hrep nrep h (n0 :: ns)).isSome =
      (decide ((if isWs n0 then 0 else lead hrep h) + (if isWs ((n0 :: ns).getLast?.getD n0) then 0 else trail hrep h) ≤ h.length) &&
        (((normHay cfg hrep h).drop (if isWs n0 then 0 else lead hrep h)).take
          (h.length - (if isWs n0 then 0 else lead hrep h) - (if isWs ((n0 :: ns).getLast?.getD n0) then 0 else trail hrep h)) == n0 :: ns) &&
        decide (h.length - (if isWs n0 then 0 else lead hrep h) - (if isWs ((n0 :: ns).getLast?.getD n0) then 0 else trail hrep h) = (n0 :: ns).length)) := by
  have hw : wsOf hrep = wsRep hrep := by cases hrep <;> rfl
  unfold exactMatch
  simp only
  have hlastSome : (n0 :: ns).getLast? = some ((n0 :: ns).getLast?.getD n0) := by
    rw [List.getLast?_eq_some_getLast (by simp)]; rfl
  generalize hlast : (n0 :: ns).getLast?.getD n0 = last at *
  generalize hL : (n0 :: ns).length = L
  have hLpos : 0 < L := by rw [← hL]; simp
  rw [leadingWs_eq, trailingWs_eq]
  by_cases hall : h.all (wsRep hrep) = true
  · -- all whitespace: the code trims nothing
    simp only [hall, if_true, ite_self, Nat.sub_zero]
    have hlead : lead hrep h = h.length := by
      unfold lead; rw [hw]; exact takeWhile_length_eq_iff_all _ h hall
    have htr := trail_eq_length_of_all hrep h hall
    rw [hlead, htr]
    by_cases hemp : h.length = 0
    · have : h = [] := List.length_eq_zero_iff.mp hemp
      subst this
      simp only [List.length_nil, if_true, ite_self, Option.isSome_none]
      have : ¬ (0 = L) := by omega
      simp [this]
    · have hne : ¬ (0 = h.length) := by omega
      simp only [hne, if_false]
      rw [exactImpl_window cfg ext hrep nrep h _ _ _ hk1 hn]
      simp only [Nat.sub_zero, List.drop_zero, hL]
      by_cases hw0 : isWs n0 = true
      · by_cases hwl : isWs last = true
        · simp only [hw0, hwl, if_true, Nat.zero_add, Nat.zero_le, decide_true, Bool.true_and, Nat.sub_zero, List.drop_zero]
          rw [Bool.and_comm]
          congr 1
          by_cases e : L = h.length <;> simp [e, eq_comm]
        · have hwl' : isWs last = false := by simpa using hwl
          simp only [hw0, hwl', if_true, Bool.false_eq_true, if_false, Nat.zero_add, Nat.le_refl, decide_true, Bool.true_and,
            Nat.sub_zero, Nat.sub_self, List.take_zero, List.drop_zero]
          have hf : (([] : List Nat) == n0 :: ns) = false := rfl
          rw [hf, Bool.false_and]
          by_cases e : L = h.length
          · simp only [e, decide_true, Bool.true_and]
            have hwin : (normHay cfg hrep h).take h.length = (normHay cfg hrep h).drop 0 := by
              simp [normHay, List.take_of_length_le]
            rw [hwin]
            exact ne_of_last_ws _ _ (last_ws_of_all cfg hrep h hall 0 (by omega)) ⟨last, hlastSome, hwl'⟩
          · simp [e]
      · have hw0' : isWs n0 = false := by simpa using hw0
        simp only [hw0', Bool.false_eq_true, if_false]
        -- specification side is false: take 0 (or an impossible bound)
        have hspec : (decide (h.length + (if isWs last = true then 0 else h.length) ≤ h.length) &&
            (List.take (h.length - h.length - (if isWs last = true then 0 else h.length)) (List.drop h.length (normHay cfg hrep h)) == n0 :: ns) &&
            decide (h.length - h.length - (if isWs last = true then 0 else h.length) = L)) = false := by
          have : h.length - h.length - (if isWs last = true then 0 else h.length) = 0 := by omega
          rw [this]
          have hne' : ¬ (0 = L) := by omega
          simp [hne']
        rw [hspec]
        by_cases e : L = h.length
        · simp only [e, decide_true, Bool.true_and]
          cases h with
          | nil => simp at hemp
          | cons c cs =>
            simp only [List.all_cons, Bool.and_eq_true] at hall
            have hc := ws_norm cfg hrep c hall.1
            apply ne_of_first_ws
            · exact ⟨norm cfg hrep c, by simp [normHay], hc⟩
            · exact ⟨n0, rfl, hw0'⟩
        · simp [e]
  · -- some non-whitespace character: the helpers are the specification's counts
    have hall' : h.all (wsRep hrep) = false := by simpa using hall
    simp only [hall', Bool.false_eq_true, if_false]
    have hsum : lead hrep h + trail hrep h < h.length := by
      have := lead_add_trail_lt (wsRep hrep) h hall'
      unfold lead trail; rw [hw]; exact this
    have e1 : (if (!isWs n0) = true then lead hrep h else 0) = (if isWs n0 = true then 0 else lead hrep h) := by
      cases isWs n0 <;> simp
    have e2 : (if (!isWs last) = true then trail hrep h else 0) = (if isWs last = true then 0 else trail hrep h) := by
      cases isWs last <;> simp
    rw [e1, e2]
    generalize hl : (if isWs n0 = true then 0 else lead hrep h) = l
    generalize ht : (if isWs last = true then 0 else trail hrep h) = t
    have hl' : l ≤ lead hrep h := by rw [← hl]; split <;> omega
    have ht' : t ≤ trail hrep h := by rw [← ht]; split <;> omega
    have hne : ¬ (t = h.length) := by omega
    simp only [hne, if_false]
    rw [exactImpl_window cfg ext hrep nrep h _ _ _ hk1 hn]
    have hle : l + t ≤ h.length := by omega
    have e3 : h.length - t - l = h.length - l - t := by omega
    simp only [hle, decide_true, Bool.true_and, hL, e3]
    rw [Bool.and_comm]
    congr 1
    by_cases e : L = h.length - l - t <;> simp [e, eq_comm]



/-! ## substring matching (ASCII haystack): leftmost occurrence with the best first-character bonus -/

theorem Best.offer_ok (cfg : Cfg) (b : Best) (pos bonus : Nat) (ok : Bool) :
    b.offer cfg pos bonus ok = if ok then b.offer cfg pos bonus true else b := by
  cases ok <;> simp [Best.offer]

theorem ite_and_bool {α : Type} (c r : Bool) (A B : α) :
    (if c = true then (if r = true then A else B) else B) = (if (c && r) = true then A else B) := by
  cases c <;> cases r <;> rfl

/-- the acceptance test of `substring_match_ascii` at one position: prefilter hit, then the rest of the needle -/
def subAcc (cfg : Cfg) (n : List Nat) (limit k : Nat) (ic : Bool) (pos : Nat) (s : List Nat) : Bool :=
  (decide (pos < limit) && (if ic then asciiEq true (n.headD 0) (s.headD 0) else (s.take k == n.take k))) && restEqAscii cfg s n k

theorem substringAscii_go_eq (cfg : Cfg) (n : List Nat) (limit k : Nat) (ic : Bool) :
    ∀ (xs : List Nat) (b : Best) (prev : CharClass) (pos : Nat),
      substringAscii.go cfg n k ic limit b prev pos xs = scanS cfg (subAcc cfg n limit k ic) (charClassAscii cfg) b prev pos xs := by
  intro xs
  induction xs with
  | nil => intro _ _ _; rfl
  | cons x xs ih =>
    intro b prev pos
    simp only [substringAscii.go, scanS]
    rw [ih]
    congr 1
    rw [Best.offer_ok]
    unfold subAcc
    simp only [List.headD_cons]
    exact ite_and_bool _ _ _ _

open NucleoVerif.Sub in
/-- a needle character that is already normalized and is not a lower-case letter under case folding is matched
    by raw equality -/
theorem norm_eq_iff_raw (cfg : Cfg) (c : Nat) (hc : normAscii cfg c = c) (hl : ¬ (cfg.ignoreCase = true ∧ 97 ≤ c ∧ c ≤ 122)) (x : Nat) :
    normAscii cfg x = c ↔ x = c := by
  unfold normAscii at *
  by_cases hi : cfg.ignoreCase = true
  · simp only [hi, true_and] at hc hl ⊢
    constructor
    · intro h
      split at h
      · split at hc <;> omega
      · exact h
    · intro h; subst h; exact hc
  · simp [hi]

theorem map_norm_eq_iff_raw (cfg : Cfg) : ∀ (p q : List Nat), (∀ c ∈ q, normAscii cfg c = c) →
    (∀ c ∈ q, ¬ (cfg.ignoreCase = true ∧ 97 ≤ c ∧ c ≤ 122)) → ((p.map (normAscii cfg) == q) = (p == q)) := by
  intro p
  induction p with
  | nil => intro q _ _; cases q <;> rfl
  | cons x xs ih =>
    intro q hq hl
    cases q with
    | nil => rfl
    | cons c cs =>
      have h1 := norm_eq_iff_raw cfg c (hq c (by simp)) (hl c (by simp)) x
      have h2 := ih cs (fun d hd => hq d (by simp [hd])) (fun d hd => hl d (by simp [hd]))
      simp only [List.map_cons, List.cons_beq_cons]
      rw [h2]
      congr 1
      by_cases e : x = c
      · have := h1.mpr e
        rw [beq_iff_eq.mpr this, beq_iff_eq.mpr e]
      · have hne : ¬ (normAscii cfg x = c) := fun h => e (h1.mp h)
        have b1 : (normAscii cfg x == c) = false := by simpa using hne
        have b2 : (x == c) = false := by simpa using e
        rw [b1, b2]

/-- splitting a prefix comparison at `k` -/
theorem take_eq_split (a n : List Nat) (k : Nat) : (a == n) = ((a.take k == n.take k) && (a.drop k == n.drop k)) := by
  by_cases h : a = n
  · subst h; simp
  · have : ¬ (a.take k = n.take k ∧ a.drop k = n.drop k) := by
      intro ⟨h1, h2⟩
      apply h
      rw [← List.take_append_drop k a, ← List.take_append_drop k n, h1, h2]
    have b0 : (a == n) = false := by simpa using h
    rw [b0]
    by_cases h1 : a.take k = n.take k
    · have h2 : ¬ (a.drop k = n.drop k) := fun e => this ⟨h1, e⟩
      have b2 : (a.drop k == n.drop k) = false := by simpa using h2
      rw [b2, Bool.and_false]
    · have b1 : (a.take k == n.take k) = false := by simpa using h1
      rw [b1, Bool.false_and]

open NucleoVerif.Sub in
/-- **the acceptance test of `substring_match_ascii` is "the needle occurs here"** — for an already-normalized needle,
    whatever prefilter shape (`memchr` on one character case-insensitively, raw comparison of the leading non-letters,
    raw comparison of the whole needle) the code selected -/
theorem subAcc_eq_occ (cfg : Cfg) (n0 : Nat) (ns : List Nat) (hn : ∀ c ∈ n0 :: ns, normAscii cfg c = c)
    (limit pos : Nat) (s : List Nat) (hlim : pos < limit ↔ (n0 :: ns).length ≤ s.length) :
    subAcc cfg (n0 :: ns) limit (substringKIC cfg (n0 :: ns)).1 (substringKIC cfg (n0 :: ns)).2 pos s =
      ((s.take (n0 :: ns).length).map (normAscii cfg) == n0 :: ns) := by
  generalize hN : n0 :: ns = n at *
  have hnpos : 0 < n.length := by rw [← hN]; simp
  -- the right-hand side already implies the length condition
  have hrhs : ((s.take n.length).map (normAscii cfg) == n) = true → pos < limit := by
    intro h
    rw [beq_iff_eq] at h
    have := congrArg List.length h
    simp only [List.length_map, List.length_take] at this
    exact hlim.mpr (by omega)
  -- general shape: raw comparison of the first k characters (all non-letters), normalized comparison of the rest
  have general : ∀ k, k ≤ n.length → (∀ c ∈ n.take k, ¬ (cfg.ignoreCase = true ∧ 97 ≤ c ∧ c ≤ 122)) →
      subAcc cfg n limit k false pos s = ((s.take n.length).map (normAscii cfg) == n) := by
    intro k hk hnl
    unfold subAcc restEqAscii
    simp only [Bool.false_eq_true, if_false]
    have hsplit := take_eq_split ((s.take n.length).map (normAscii cfg)) n k
    have e1 : ((s.take n.length).map (normAscii cfg)).take k = (s.take k).map (normAscii cfg) := by
      rw [← List.map_take, List.take_take]; congr 2; omega
    have e2 : ((s.take n.length).map (normAscii cfg)).drop k = ((s.drop k).take (n.length - k)).map (normAscii cfg) := by
      rw [← List.map_drop, List.drop_take]
    rw [e1, e2] at hsplit
    have hraw := map_norm_eq_iff_raw cfg (s.take k) (n.take k)
      (fun c hc => hn c (by rw [← hN] at *; exact (List.take_subset k _ hc))) hnl
    rw [hraw] at hsplit
    rw [hsplit]
    by_cases hb : ((s.take k == n.take k) && (((s.drop k).take (n.length - k)).map (normAscii cfg) == n.drop k)) = true
    · have : pos < limit := hrhs (by rw [hsplit]; exact hb)
      simp only [this, decide_true, Bool.true_and]
    · have hb' : ((s.take k == n.take k) && (((s.drop k).take (n.length - k)).map (normAscii cfg) == n.drop k)) = false := by simpa using hb
      rw [hb']
      cases decide (pos < limit)
      · simp
      · simpa using hb'
  unfold substringKIC
  by_cases hi : cfg.ignoreCase = true
  · simp only [hi, if_true]
    cases hf : findIdx (fun c => 97 ≤ c && c ≤ 122) n with
    | none =>
      -- no lower-case letter at all: the whole needle is compared raw
      simp only
      apply general n.length (Nat.le_refl _)
      intro c hc hl
      have := findIdx_none _ n hf c (List.take_subset _ _ hc)
      simp at this; omega
    | some len =>
      have hfs := findIdx_some _ n len hf
      have hnl : ∀ c ∈ n.take len, ¬ (cfg.ignoreCase = true ∧ 97 ≤ c ∧ c ≤ 122) := by
        intro c hc hl
        have := hfs.2.2 c hc
        simp at this; omega
      match len, hfs, hnl with
      | 0, _, _ =>
        -- the first character is a letter: case-insensitive single-character prefilter
        simp only
        unfold subAcc restEqAscii
        simp only [if_true]
        have hsplit := take_eq_split ((s.take n.length).map (normAscii cfg)) n 1
        have e1 : ((s.take n.length).map (normAscii cfg)).take 1 = (s.take 1).map (normAscii cfg) := by
          rw [← List.map_take, List.take_take]; congr 2; omega
        have e2 : ((s.take n.length).map (normAscii cfg)).drop 1 = ((s.drop 1).take (n.length - 1)).map (normAscii cfg) := by
          rw [← List.map_drop, List.drop_take]
        rw [e1, e2] at hsplit
        rw [hsplit]
        have hn0 : normAscii cfg n0 = n0 := hn n0 (by rw [← hN]; simp)
        have hhead : n.headD 0 = n0 := by rw [← hN]; rfl
        have htake : n.take 1 = [n0] := by rw [← hN]; rfl
        rw [hhead, htake]
        cases s with
        | nil =>
          have : ¬ (pos < limit) := by
            intro hp
            have h0 := hlim.mp hp
            have hz : ([] : List Nat).length = 0 := rfl
            rw [hz] at h0
            omega
          simp [this]
        | cons x xs =>
          simp only [List.headD_cons, List.take_succ_cons, List.take_zero, List.map_cons, List.map_nil]
          have hx : asciiEq true n0 x = (normAscii cfg x == n0) := by
            have := asciiEq_iff cfg n0 x hn0
            rw [hi] at this
            by_cases e : normAscii cfg x = n0
            · rw [this.mpr e, beq_iff_eq.mpr e]
            · have : asciiEq true n0 x = false := by
                cases ha : asciiEq true n0 x with
                | false => rfl
                | true => exact absurd (this.mp ha) e
              rw [this]; symm; simpa using e
          rw [hx]
          have hcons : ([normAscii cfg x] == [n0]) = (normAscii cfg x == n0) := by simp
          rw [hcons]
          by_cases hb : ((normAscii cfg x == n0) && (((x :: xs).drop 1).take (n.length - 1)).map (normAscii cfg) == n.drop 1) = true
          · have : pos < limit := hrhs (by rw [hsplit, htake]; simpa using hb)
            simp only [this, decide_true, Bool.true_and]
          · have hb' : ((normAscii cfg x == n0) && (((x :: xs).drop 1).take (n.length - 1)).map (normAscii cfg) == n.drop 1) = false := by simpa using hb
            rw [hb']
            cases decide (pos < limit)
            · simp
            · simpa using hb'
      | 1, hfs, hnl => exact general 1 (by omega) hnl
      | len + 2, hfs, hnl => exact general (len + 2) (by have := hfs.1; omega) hnl
  · -- case is respected: raw comparison of the whole needle
    simp only [hi, Bool.false_eq_true, if_false]
    apply general n.length (Nat.le_refl _)
    intro c _ hl; exact hi hl.1

/-- the positions accepted by the scan are exactly the specification's occurrence list -/
theorem candsS_positions (cfg : Cfg) (h : List Nat) (n0 : Nat) (ns : List Nat) (hn : ∀ c ∈ n0 :: ns, normAscii cfg c = c)
    (hlen : (n0 :: ns).length ≤ h.length) (cl : Nat → CharClass) :
    ∀ (xs : List Nat) (prev : CharClass) (pos : Nat), pos + xs.length = h.length →
      (candsS cfg (subAcc cfg (n0 :: ns) (h.length - (n0 :: ns).length + 1) (substringKIC cfg (n0 :: ns)).1 (substringKIC cfg (n0 :: ns)).2)
        cl prev pos xs).map (·.1) = occAux (n0 :: ns) pos (xs.map (normAscii cfg)) := by
  intro xs
  induction xs with
  | nil => intro _ _ _; simp [candsS, occAux]
  | cons x xs ih =>
    intro prev pos hp
    simp only [candsS, List.map_append, List.map_cons, occAux]
    rw [ih (cl x) (pos + 1) (by simp at hp; omega)]
    congr 1
    have hacc := subAcc_eq_occ cfg n0 ns hn (h.length - (n0 :: ns).length + 1) pos (x :: xs)
      (by simp only [List.length_cons] at hp hlen ⊢; omega)
    rw [hacc]
    have : ((x :: xs).take (n0 :: ns).length).map (normAscii cfg) = (normAscii cfg x :: xs.map (normAscii cfg)).take (n0 :: ns).length := by
      rw [List.map_take]; rfl
    rw [this]
    split <;> simp

/-- each candidate's score is `16 + 2 ·` the specification's first-character bonus at its position -/
theorem candsS_score (cfg : Cfg) (ext : Ext) (h : List Nat) (acc : Nat → List Nat → Bool) (cl : Nat → CharClass) :
    ∀ (xs : List Nat) (prev : CharClass) (pos : Nat),
      (∀ k c, xs[k]? = some c → h[pos + k]? = some c) → prev = prevClassAt cfg ext h pos →
      (∀ x ∈ xs, cl x = charClass cfg ext x) →
      ∀ ps ∈ candsS cfg acc cl prev pos xs, ps.2 = firstBonus cfg ext h ps.1 * 2 + 16 := by
  intro xs
  induction xs with
  | nil => intro _ _ _ _ _ ps h; simp [candsS] at h
  | cons x xs ih =>
    intro prev pos hxs hprev hcl ps hps
    have h0 : h[pos]? = some x := by simpa using hxs 0 x (by simp)
    simp only [candsS, List.mem_append] at hps
    rcases hps with hps | hps
    · split at hps
      · simp only [List.mem_singleton] at hps
        subst hps
        simp only [firstBonus, h0, Option.map_some, Option.getD_some, hcl x (by simp), hprev, C03_bonusFor_eq_spec,
          BONUS_FIRST_CHAR_MULTIPLIER, SCORE_MATCH]
        have : prevClassAt cfg ext h pos = (if pos = 0 then cfg.initial else (h[pos - 1]?.map (charClass cfg ext)).getD cfg.initial) := by
          unfold prevClassAt
          split
          · rfl
          · cases h[pos - 1]? <;> rfl
        rw [this]
      · simp at hps
    · apply ih (cl x) (pos + 1) _ _ (fun y hy => hcl y (by simp [hy])) ps hps
      · intro k c hk
        have := hxs (k + 1) c (by simpa using hk)
        have e : pos + (k + 1) = pos + 1 + k := by omega
        rw [e] at this; exact this
      · unfold prevClassAt
        simp only [Nat.add_sub_cancel, h0, hcl x (by simp)]
        simp

/-- the occurrence list is strictly increasing and starts at `base` or later -/
theorem occAux_sorted (n : List Nat) : ∀ (l : List Nat) (base : Nat),
    (occAux n base l).Pairwise (· < ·) ∧ ∀ i ∈ occAux n base l, base ≤ i := by
  intro l
  induction l with
  | nil => intro base; simp only [occAux]; split <;> simp
  | cons c cs ih =>
    intro base
    have ih' := ih (base + 1)
    simp only [occAux]
    refine ⟨?_, ?_⟩
    · rw [List.pairwise_append]
      refine ⟨by split <;> simp, ih'.1, ?_⟩
      intro a ha b hb
      split at ha
      · simp only [List.mem_singleton] at ha; subst ha; have := ih'.2 b hb; omega
      · simp at ha
    · intro i hi
      simp only [List.mem_append] at hi
      rcases hi with hi | hi
      · split at hi
        · simp only [List.mem_singleton] at hi; omega
        · simp at hi
      · have := ih'.2 i hi; omega

/-- one step of the specification's fold -/
def bestStep (f : Nat → Nat) (best : Option Nat) (i : Nat) : Option Nat :=
  match best with
  | none => some i
  | some b => if f i > f b then some i else some b

theorem bestOccurrence_eq_fold (cfg : Cfg) (ext : Ext) (hrep : Rep) (h n : List Nat) :
    bestOccurrence cfg ext hrep h n = (occurrences cfg hrep h n).foldl (bestStep (firstBonus cfg ext h)) none := by
  unfold bestOccurrence
  congr 1

/-- what the specification's fold over a strictly increasing candidate list returns: nothing for the empty list,
    otherwise the leftmost candidate with the maximal value -/
theorem bestFold_spec (f : Nat → Nat) :
    ∀ (l : List Nat) (b0 : Nat), l.Pairwise (· < ·) → (∀ i ∈ l, b0 < i) →
      ∀ (P : List Nat), b0 ∈ P → (∀ i ∈ P, f i ≤ f b0 ∧ (f i = f b0 → b0 ≤ i)) → (∀ i ∈ P, i ≤ b0 ∨ True) →
      ∃ b, l.foldl (bestStep f) (some b0) = some b ∧
        b ∈ P ++ l ∧ ∀ i ∈ P ++ l, f i ≤ f b ∧ (f i = f b → b ≤ i) := by
  intro l
  induction l with
  | nil => intro b0 _ _ P hb hP _; exact ⟨b0, rfl, by simpa using hb, by simpa using hP⟩
  | cons x xs ih =>
    intro b0 hpw hgt P hb hP _
    have hpw' := List.pairwise_cons.mp hpw
    have hx := hgt x (by simp)
    simp only [List.foldl_cons, bestStep]
    by_cases hfx : f x > f b0
    · simp only [hfx, if_true]
      have := ih x hpw'.2 (fun i hi => hpw'.1 i hi) (P ++ [x]) (by simp)
        (by intro i hi
            simp only [List.mem_append, List.mem_singleton] at hi
            rcases hi with hi | hi
            · have := hP i hi; exact ⟨by omega, by omega⟩
            · subst hi; exact ⟨Nat.le_refl _, fun _ => Nat.le_refl _⟩)
        (fun _ _ => Or.inr trivial)
      simpa using this
    · simp only [hfx, if_false]
      have := ih b0 hpw'.2 (fun i hi => by have := hpw'.1 i hi; omega) (P ++ [x]) (by simp [hb])
        (by intro i hi
            simp only [List.mem_append, List.mem_singleton] at hi
            rcases hi with hi | hi
            · exact hP i hi
            · subst hi; exact ⟨by omega, fun _ => by omega⟩)
        (fun _ _ => Or.inr trivial)
      simpa using this

/-- the first index `calculate_score` reports is the window's start -/
theorem calculateScore_head (cfg : Cfg) (ext : Ext) (hrep : Rep) (h : List Nat) (n0 : Nat) (nrest : List Nat) (start end_ : Nat)
    (hst : start < h.length) : (calculateScore cfg ext hrep h (n0 :: nrest) start end_).2.head? = some start := by
  unfold calculateScore
  have hd : h.drop start = h[start] :: h.drop (start + 1) := by rw [List.drop_eq_getElem_cons hst]
  rw [hd]
  simp only
  unfold csRun
  obtain ⟨new, hnew⟩ := csLoop_idx_suffix cfg ext hrep ((h.drop (start + 1)).take (end_ - (start + 1)))
    { st := stInit cfg (prevClassAt cfg ext h start) (charClass cfg ext h[start]),
      needleChar := (needleAfterFirst n0 nrest).1, rest := (needleAfterFirst n0 nrest).2, idxRev := [start] } (start + 1)
  rw [hnew]
  simp

/-- **substring matching on an ASCII haystack succeeds exactly when the needle occurs contiguously in the normalized
    haystack, and reports the leftmost occurrence whose first character earns the highest bonus** — every
    configuration whose largest boundary bonus is at least 8 (all presets), every ASCII haystack, every
    already-normalized needle no longer than the haystack -/
theorem C05_substring_ascii (cfg : Cfg) (ext : Ext) (h : List Nat) (n0 : Nat) (ns : List Nat)
    (hb : 8 ≤ maxBonus cfg) (hasc : ∀ x ∈ h, x < 128) (hn : ∀ c ∈ n0 :: ns, normAscii cfg c = c)
    (hlen : (n0 :: ns).length ≤ h.length) :
    (substringAscii cfg ext h (n0 :: ns)).isSome = !(occurrences cfg .ascii h (n0 :: ns)).isEmpty ∧
    ∀ sc idx, substringAscii cfg ext h (n0 :: ns) = some (sc, idx) → idx.head? = bestOccurrence cfg ext .ascii h (n0 :: ns) := by
  generalize hacc : subAcc cfg (n0 :: ns) (h.length - (n0 :: ns).length + 1) (substringKIC cfg (n0 :: ns)).1 (substringKIC cfg (n0 :: ns)).2 = acc
  have hposn := candsS_positions cfg h n0 ns hn hlen (charClassAscii cfg) h cfg.initial 0 (by simp)
  rw [hacc] at hposn
  have hsc := candsS_score cfg ext h acc (charClassAscii cfg) h cfg.initial 0
    (by intro k c hk; simpa using hk) (by simp [prevClassAt]) (by intro x hx; simp [charClass, hasc x hx])
  have inv := scanS_inv cfg hb acc (charClassAscii cfg) h ⟨0, 0, false⟩ cfg.initial 0 []
    ⟨by simp, Or.inl rfl, by simp⟩ (by simp)
  simp only [List.nil_append] at inv
  have hocc : occurrences cfg .ascii h (n0 :: ns) = (candsS cfg acc (charClassAscii cfg) cfg.initial 0 h).map (·.1) := by
    rw [hposn]; rfl
  unfold substringAscii
  simp only
  rw [substringAscii_go_eq, hacc]
  generalize scanS cfg acc (charClassAscii cfg) ⟨0, 0, false⟩ cfg.initial 0 h = b at inv
  generalize hC : candsS cfg acc (charClassAscii cfg) cfg.initial 0 h = C at *
  have hpos16 : ∀ ps ∈ C, 16 ≤ ps.2 := by
    intro ps hps; rw [hsc ps hps]; omega
  by_cases hz : b.score = 0
  · -- nothing accepted
    rw [if_pos hz]
    have hCnil : C = [] := by
      cases C with
      | nil => rfl
      | cons ps t =>
        have := inv.upper ps (by simp)
        have := hpos16 ps (by simp)
        omega
    refine ⟨by rw [hocc, hCnil]; rfl, by intro _ _ hh; cases hh⟩
  · rw [if_neg hz]
    rcases inv.attained with z | ⟨a1, a2⟩
    · exact absurd z hz
    · have hne : C ≠ [] := by intro e; rw [e] at a1; simp at a1
      refine ⟨?_, ?_⟩
      · rw [hocc]
        cases C with
        | nil => exact absurd rfl hne
        | cons _ _ => rfl
      · intro sc idx hh
        simp only [Option.some.injEq] at hh
        -- the reported first index is the scan's position
        have hbpos : b.pos < h.length := by
          have hm : b.pos ∈ occurrences cfg .ascii h (n0 :: ns) := by
            rw [hocc]; exact List.mem_map.mpr ⟨(b.pos, b.score), a1, rfl⟩
          unfold occurrences at hm
          have := (occAux_mem (n0 :: ns) (normHay cfg .ascii h) 0 b.pos).mp hm
          simp only [normHay, List.length_map, List.length_cons, Nat.sub_zero] at this
          omega
        have hhead := calculateScore_head cfg ext .ascii h n0 ns b.pos (b.pos + (n0 :: ns).length) hbpos
        rw [hh] at hhead
        simp only at hhead
        rw [hhead]
        -- the specification's fold picks the same position
        rw [bestOccurrence_eq_fold, hocc]
        have hsorted := occAux_sorted (n0 :: ns) (normHay cfg .ascii h) 0
        have hsrt : (C.map (·.1)).Pairwise (· < ·) := by rw [← hocc]; exact hsorted.1
        cases hCl : C.map (·.1) with
        | nil => simp at hCl; exact absurd hCl hne
        | cons i0 rest =>
          rw [hCl] at hsrt
          have hpw' := List.pairwise_cons.mp hsrt
          simp only [List.foldl_cons, bestStep]
          obtain ⟨r, hr1, hr2, hr3⟩ := bestFold_spec (firstBonus cfg ext h) rest i0 hpw'.2 (fun i hi => hpw'.1 i hi) [i0] (by simp)
            (by intro i hi; simp only [List.mem_singleton] at hi; subst hi; exact ⟨Nat.le_refl _, fun _ => Nat.le_refl _⟩)
            (fun _ _ => Or.inr trivial)
          rw [hr1]
          congr 1
          -- both are the leftmost maximiser of the first-character bonus among the occurrences
          have hall : ∀ i, i ∈ [i0] ++ rest ↔ ∃ ps ∈ C, ps.1 = i := by
            intro i
            have : [i0] ++ rest = C.map (·.1) := by rw [hCl]; rfl
            rw [this, List.mem_map]
          obtain ⟨psr, hpsr, hpsr1⟩ := (hall r).mp hr2
          have hbm : b.pos ∈ [i0] ++ rest := (hall b.pos).mpr ⟨(b.pos, b.score), a1, rfl⟩
          have fb_b : b.score = firstBonus cfg ext h b.pos * 2 + 16 := hsc _ a1
          have fb_r : psr.2 = firstBonus cfg ext h r * 2 + 16 := by rw [hsc _ hpsr, hpsr1]
          have h1 := hr3 b.pos hbm          -- f b.pos ≤ f r, and equality ⇒ r ≤ b.pos
          have h2 := inv.upper psr hpsr      -- psr.2 ≤ b.score
          have hfeq : firstBonus cfg ext h r = firstBonus cfg ext h b.pos := by omega
          have h3 := a2 psr hpsr (by rw [fb_r, fb_b, hfeq])   -- b.pos ≤ psr.1 = r
          have h4 := h1.2 hfeq.symm
          rw [hpsr1] at h3
          omega


end NucleoVerif
