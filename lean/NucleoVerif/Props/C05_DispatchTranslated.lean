import NucleoVerif.Props.C01_DispatchTranslated
/-! # C05 (companion file) — the dispatch of `substring_match_impl`, translated from the source

See `C01_DispatchTranslated`: `Gen/Dispatch.lean` is regenerated from `matcher/src/lib.rs` on every run; with the model's
routines as callees the translated `substring_match_impl` is the model's `substringMatch`, so the decision theorems of C05
(one-character needles, the ASCII `memmem` branch, the non-ASCII scan behind the prefilter) are about the branches the code
takes now. -/
namespace NucleoVerif

/-- **`substring_match` / `substring_indices`**: the model's entry point is the translated dispatch -/
theorem C05_translated_substring_dispatch (cfg : Cfg) (ext : Ext) (hrep nrep : Rep) (h n : List Nat) :
    substringMatch cfg ext hrep nrep h n =
      Gen.Dispatch.substring_match_impl (modelCalls cfg ext hrep nrep h n) h.length n.length (hrep == .ascii) (nrep == .ascii) := by
  unfold substringMatch Gen.Dispatch.substring_match_impl modelCalls
  rcases n with _ | ⟨c, _ | ⟨d, t⟩⟩ <;> cases hrep <;> cases nrep <;> simp <;> (repeat' split) <;> simp_all

/-! ## `exact_match`, `prefix_match`, `postfix_match` (and their `_indices` twins, which the translator requires to have the same body up
to the index vector): the trimming rules and the window handed to `exact_match_impl`, translated from the source -/

/-- **`exact_match` / `exact_indices`**: empty-needle guard, whitespace trimming on both sides, wrap-around guard, window -/
theorem C05_translated_exact_wrapper (cfg : Cfg) (ext : Ext) (hrep nrep : Rep) (h n : List Nat) :
    exactMatch cfg ext hrep nrep h n =
      Gen.Dispatch.exact_match (modelCalls cfg ext hrep nrep h n) h.length n.length (isWs (n.headD 0))
        (isWs (n.getLast?.getD (n.headD 0))) (leadingWs hrep h) (trailingWs hrep h) := by
  unfold exactMatch Gen.Dispatch.exact_match modelCalls
  rcases n with _ | ⟨c, t⟩ <;> simp

/-- **`prefix_match` / `prefix_indices`** -/
theorem C05_translated_prefix_wrapper (cfg : Cfg) (ext : Ext) (hrep nrep : Rep) (h n : List Nat) :
    prefixMatch cfg ext hrep nrep h n =
      Gen.Dispatch.prefix_match (modelCalls cfg ext hrep nrep h n) h.length n.length (isWs (n.headD 0))
        (isWs (n.getLast?.getD (n.headD 0))) (leadingWs hrep h) (trailingWs hrep h) := by
  unfold prefixMatch Gen.Dispatch.prefix_match modelCalls
  rcases n with _ | ⟨c, t⟩ <;> simp

/-- **`postfix_match` / `postfix_indices`** -/
theorem C05_translated_postfix_wrapper (cfg : Cfg) (ext : Ext) (hrep nrep : Rep) (h n : List Nat) :
    postfixMatch cfg ext hrep nrep h n =
      Gen.Dispatch.postfix_match (modelCalls cfg ext hrep nrep h n) h.length n.length (isWs (n.headD 0))
        (isWs (n.getLast?.getD (n.headD 0))) (leadingWs hrep h) (trailingWs hrep h) := by
  unfold postfixMatch Gen.Dispatch.postfix_match modelCalls
  rcases n with _ | ⟨c, t⟩ <;> simp

end NucleoVerif
