import NucleoVerif.Props.C01_DispatchTranslated
/-! # C05 (companion file) — the dispatch of `substring_match_impl`, translated from the source

See `C01_DispatchTranslated`: `Gen/Dispatch.lean` is regenerated from `matcher/src/lib.rs` on every run; with the model's
routines as callees the translated `substring_match_impl` is the model's `substringMatch`, so the decision theorems of C05
(one-character needles, the ASCII `memmem` branch, the non-ASCII scan behind the prefilter) are about the branches the code
takes now. -/
namespace NucleoVerif

/-- **`substring_match` / `substring_indices`**: the model's entry point is the translated dispatch -/
theorem C05_translated_substring_dispatch (cfg : Cfg) (ext : Ext) (hrep nrep : Rep) (h n : List Nat) :
    substringMatch cfg ext hrep nrep h n =
      Gen.Dispatch.substring_match_impl (modelCalls cfg ext hrep nrep h n) h.length n.length (hrep == .ascii) (nrep == .ascii) := by
  unfold substringMatch Gen.Dispatch.substring_match_impl modelCalls
  rcases n with _ | ⟨c, _ | ⟨d, t⟩⟩ <;> cases hrep <;> cases nrep <;> simp <;> (repeat' split) <;> simp_all

end NucleoVerif
