import NucleoVerif.Props.C05_Unicode
/-! # C05 (companion file) — `substring_match` at the entry point

The dispatch in front of the two substring routines (needle longer than the haystack, equal lengths → `exact_match_impl`,
otherwise the ASCII scan or the code-point scan behind its prefilter) decides, in every branch, whether the needle occurs
contiguously in the normalized haystack. -/
namespace NucleoVerif
open Gen Spec Sub DP

theorem mem_occurrences (cfg : Cfg) (hrep : Rep) (h n : List Nat) (i : Nat) :
    i ∈ occurrences cfg hrep h n ↔ i + n.length ≤ h.length ∧ ((normHay cfg hrep h).drop i).take n.length = n := by
  unfold occurrences
  rw [occAux_mem]
  simp only [Nat.zero_le, true_and, Nat.zero_add, Nat.sub_zero, normHay, List.length_map]
  constructor
  · rintro ⟨_, h2, h3⟩; exact ⟨h3, h2⟩
  · rintro ⟨h1, h2⟩; exact ⟨by omega, h2, h1⟩

theorem occurrences_empty_of_long (cfg : Cfg) (hrep : Rep) (h n : List Nat) (hl : n.length > h.length) :
    occurrences cfg hrep h n = [] := by
  cases ho : occurrences cfg hrep h n with
  | nil => rfl
  | cons i t =>
    have : i ∈ occurrences cfg hrep h n := by rw [ho]; simp
    have := ((mem_occurrences cfg hrep h n i).mp this).1
    omega

/-- equal lengths: the only possible occurrence is at 0 -/
theorem occurrences_eq_len (cfg : Cfg) (hrep : Rep) (h n : List Nat) (hl : n.length = h.length) :
    (!(occurrences cfg hrep h n).isEmpty) = (normHay cfg hrep h == n) := by
  cases hb : (normHay cfg hrep h == n) with
  | true =>
    have he : normHay cfg hrep h = n := by simpa using hb
    have : 0 ∈ occurrences cfg hrep h n := by
      rw [mem_occurrences]
      refine ⟨by omega, ?_⟩
      rw [List.drop_zero, he, List.take_length]
    cases ho : occurrences cfg hrep h n with
    | nil => rw [ho] at this; cases this
    | cons _ _ => rfl
  | false =>
    cases ho : occurrences cfg hrep h n with
    | nil => rfl
    | cons i t =>
      exfalso
      have hm : i ∈ occurrences cfg hrep h n := by rw [ho]; simp
      obtain ⟨h1, h2⟩ := (mem_occurrences cfg hrep h n i).mp hm
      have hi : i = 0 := by omega
      subst hi
      rw [List.drop_zero] at h2
      have hlen : (normHay cfg hrep h).length = n.length := by simp [normHay, hl]
      rw [← hlen, List.take_length] at h2
      rw [h2] at hb
      simp at hb

/-- **`substring_match` on a code-point haystack decides "the needle occurs contiguously in the normalized haystack"** — every
    needle of at least two characters (normalized), whatever its length relative to the haystack -/
theorem C05_substring_entry_unicode (cfg : Cfg) (ext : Ext) (nrep : Rep) (h : List Nat) (n0 n1 : Nat) (ns : List Nat)
    (hb : 8 ≤ maxBonus cfg) (hn : (n0 :: n1 :: ns).map (norm cfg nrep) = n0 :: n1 :: ns) :
    (substringMatch cfg ext .unicode nrep h (n0 :: n1 :: ns)).isSome = !(occurrences cfg .unicode h (n0 :: n1 :: ns)).isEmpty := by
  have hk1 : ¬ (Rep.unicode = .ascii ∧ nrep = .unicode) := fun e => by cases e.1
  unfold substringMatch
  by_cases hlong : (n0 :: n1 :: ns).length > h.length
  · simp only [hlong, if_true, Option.isSome_none]
    rw [occurrences_empty_of_long cfg .unicode h _ hlong]; rfl
  · simp only [hlong, if_false, List.isEmpty_cons, Bool.false_eq_true]
    by_cases heq : (n0 :: n1 :: ns).length = h.length
    · simp only [heq, if_true]
      rw [exactImpl_window cfg ext .unicode nrep h _ _ _ hk1 hn, occurrences_eq_len cfg .unicode h _ heq]
      simp only [Nat.sub_zero, heq, decide_true, Bool.true_and, List.drop_zero]
      have : (normHay cfg .unicode h).length = h.length := by simp [normHay]
      rw [← this, List.take_length]
    · simp only [heq, if_false]
      exact (C05_substring_unicode cfg ext nrep h n0 n1 ns hb (by omega)).1

/-- **`substring_match` on an ASCII haystack with an ASCII needle** -/
theorem C05_substring_entry_ascii (cfg : Cfg) (ext : Ext) (h : List Nat) (n0 n1 : Nat) (ns : List Nat)
    (hb : 8 ≤ maxBonus cfg) (hasc : ∀ x ∈ h, x < 128) (hn : ∀ c ∈ n0 :: n1 :: ns, normAscii cfg c = c) :
    (substringMatch cfg ext .ascii .ascii h (n0 :: n1 :: ns)).isSome = !(occurrences cfg .ascii h (n0 :: n1 :: ns)).isEmpty := by
  have hk1 : ¬ (Rep.ascii = .ascii ∧ Rep.ascii = .unicode) := fun e => by cases e.2
  have hmapid : ∀ l : List Nat, (∀ c ∈ l, normAscii cfg c = c) → l.map (norm cfg .ascii) = l := by
    intro l
    induction l with
    | nil => intro _; rfl
    | cons c t ih =>
      intro hl
      simp only [List.map_cons]
      rw [ih (fun d hd => hl d (by simp [hd]))]
      congr 1
      exact hl c (by simp)
  have hn' : (n0 :: n1 :: ns).map (norm cfg .ascii) = n0 :: n1 :: ns := hmapid _ hn
  unfold substringMatch
  by_cases hlong : (n0 :: n1 :: ns).length > h.length
  · simp only [hlong, if_true, Option.isSome_none]
    rw [occurrences_empty_of_long cfg .ascii h _ hlong]; rfl
  · simp only [hlong, if_false, List.isEmpty_cons, Bool.false_eq_true]
    by_cases heq : (n0 :: n1 :: ns).length = h.length
    · simp only [heq, if_true]
      rw [exactImpl_window cfg ext .ascii .ascii h _ _ _ hk1 hn', occurrences_eq_len cfg .ascii h _ heq]
      simp only [Nat.sub_zero, heq, decide_true, Bool.true_and, List.drop_zero]
      have : (normHay cfg .ascii h).length = h.length := by simp [normHay]
      rw [← this, List.take_length]
    · simp only [heq, if_false]
      exact (C05_substring_ascii cfg ext h n0 (n1 :: ns) hb hasc hn (by omega)).1

end NucleoVerif
