import NucleoVerif.Props.C05_Entry
/-! # C05 (companion file) — one-character needles of `substring_match`

`C05_substring_entry_*` decide substring matching for needles of at least two characters.  A one-character needle takes
`substring_match_1_ascii` / `substring_match_1_non_ascii` (behind the greedy-only prefilter) or the equal-length shortcut:
this file proves that all of them succeed exactly when the character occurs in the normalized haystack. -/
namespace NucleoVerif
open Gen Spec

/-- a stopped scan holds a candidate -/
def Best.Ok (b : Best) : Prop := b.stop = true → b.score ≠ 0

theorem Best.offer_ok' (cfg : Cfg) (b : Best) (pos bonus : Nat) (ok : Bool) (hb : b.Ok) :
    (b.offer cfg pos bonus ok).Ok ∧ (b.score ≠ 0 → (b.offer cfg pos bonus ok).score ≠ 0) ∧
    (ok = true → (b.offer cfg pos bonus ok).score ≠ 0) := by
  unfold Best.offer Best.Ok at *
  by_cases hs : b.stop = true
  · simp only [hs, if_true]
    exact ⟨fun _ => hb hs, fun h => h, fun _ => hb hs⟩
  · simp only [hs, Bool.false_eq_true, if_false]
    split
    · rename_i h
      refine ⟨fun _ => ?_, fun _ => ?_, fun _ => ?_⟩ <;> simp [SCORE_MATCH]
    · rename_i h
      refine ⟨hb, fun h => h, fun hok => ?_⟩
      intro h0
      apply h
      rw [h0]
      exact ⟨by simp [SCORE_MATCH], hok⟩

theorem substring1Ascii_go_score (cfg : Cfg) (c : Nat) : ∀ (xs : List Nat) (b : Best) (prev : CharClass) (pos : Nat), b.Ok →
    ((substring1Ascii.go cfg c b prev pos xs).score ≠ 0 ↔ (b.score ≠ 0 ∨ ∃ x ∈ xs, asciiEq cfg.ignoreCase c x = true)) := by
  intro xs
  induction xs with
  | nil => intro b prev pos _; simp [substring1Ascii.go]
  | cons x xs ih =>
    intro b prev pos hb
    unfold substring1Ascii.go
    simp only
    by_cases hx : asciiEq cfg.ignoreCase c x = true
    · simp only [hx, if_true]
      have ho := Best.offer_ok' cfg b pos (bonusFor cfg prev (charClassAscii cfg x)) true hb
      rw [ih _ _ _ ho.1]
      constructor
      · intro _; exact Or.inr ⟨x, by simp, hx⟩
      · intro _; exact Or.inl (ho.2.2 rfl)
    · simp only [hx, Bool.false_eq_true, if_false]
      rw [ih _ _ _ hb]
      constructor
      · rintro (h | ⟨y, hy, hy'⟩)
        · exact Or.inl h
        · exact Or.inr ⟨y, by simp [hy], hy'⟩
      · rintro (h | ⟨y, hy, hy'⟩)
        · exact Or.inl h
        · rcases List.mem_cons.mp hy with e | e
          · subst e; exact absurd hy' hx
          · exact Or.inr ⟨y, e, hy'⟩

/-- **`substring_match_1_ascii` succeeds exactly when the (normalized) character occurs in the normalized haystack** -/
theorem substring1Ascii_isSome (cfg : Cfg) (ext : Ext) (h : List Nat) (c : Nat) (hc : normAscii cfg c = c) :
    (substring1Ascii cfg ext h c).isSome = decide (c ∈ normHay cfg .ascii h) := by
  unfold substring1Ascii
  simp only
  have := substring1Ascii_go_score cfg c h ⟨0, 0, false⟩ cfg.initial 0 (by simp [Best.Ok])
  simp only [ne_eq, not_true_eq_false, false_or] at this
  have e : (∃ x ∈ h, asciiEq cfg.ignoreCase c x = true) ↔ c ∈ normHay cfg .ascii h := by
    unfold normHay
    simp only [List.mem_map]
    constructor
    · rintro ⟨x, hx, hx'⟩; exact ⟨x, hx, (asciiEq_iff_norm cfg c x hc).mp hx'⟩
    · rintro ⟨x, hx, hx'⟩; exact ⟨x, hx, (asciiEq_iff_norm cfg c x hc).mpr hx'⟩
  rw [e] at this
  by_cases hm : c ∈ normHay cfg .ascii h
  · have := this.mpr hm
    simp [this, hm]
  · have h0 : (substring1Ascii.go cfg c ⟨0, 0, false⟩ cfg.initial 0 h).score = 0 :=
      Decidable.byContradiction (fun h0 => hm (this.mp h0))
    simp [h0, hm]

theorem findIdx_isSome_iff (p : Nat → Bool) : ∀ (l : List Nat), (findIdx p l).isSome = l.any p := by
  intro l
  induction l with
  | nil => rfl
  | cons x xs ih =>
    simp only [findIdx, List.any_cons]
    by_cases hx : p x = true
    · simp [hx]
    · have : p x = false := by simpa using hx
      simp [this, ih]

/-- **one-character needles** (`substring_match_1_ascii`, `substring_match_1_non_ascii` behind the greedy-only prefilter,
    and the equal-length shortcut): the match succeeds exactly when the character occurs in the normalized haystack -/
theorem C05_substring_one_char (cfg : Cfg) (ext : Ext) (hrep nrep : Rep) (h : List Nat) (c : Nat)
    (hk1 : ¬ (hrep = .ascii ∧ nrep = .unicode)) (hn : norm cfg nrep c = c) :
    (substringMatch cfg ext hrep nrep h [c]).isSome = decide (c ∈ normHay cfg hrep h) := by
  unfold substringMatch
  cases h with
  | nil => simp [normHay]
  | cons x xs =>
    cases xs with
    | nil =>
      simp only [List.length_cons, List.length_nil, Nat.lt_irrefl, if_false, List.isEmpty_cons, Bool.false_eq_true, if_true]
      rw [exactImpl_window cfg ext hrep nrep [x] [c] 0 1 hk1 (by simp [hn])]
      simp only [normHay, List.map_cons, List.map_nil, List.mem_singleton]
      rw [Bool.eq_iff_iff]
      simp only [List.length_cons, List.length_nil, List.drop_zero, List.take_succ_cons, List.take_zero, Nat.sub_zero, decide_true, Bool.true_and,
        beq_iff_eq, decide_eq_true_eq, List.cons.injEq, and_true]
      exact eq_comm
    | cons y ys =>
      have hl1 : ¬ ([c].length > (x :: y :: ys).length) := by simp
      have hl2 : ¬ ([c].length = (x :: y :: ys).length) := by simp
      simp only [hl1, hl2, if_false, List.isEmpty_cons, Bool.false_eq_true]
      cases hrep with
      | ascii =>
        cases nrep with
        | unicode => exact absurd ⟨rfl, rfl⟩ hk1
        | ascii =>
          simp only
          exact substring1Ascii_isSome cfg ext _ c hn
      | unicode =>
        simp only
        unfold prefilterNonAscii
        simp only [List.length_cons, List.length_nil, if_true]
        have ht : (x :: y :: ys).take ((ys.length + 1 + 1) - (0 + 1) + 1) = x :: y :: ys := by
          apply List.take_of_length_le; simp
        rw [ht]
        have hany : (findIdx (fun d => decide (normChar cfg d = c)) (x :: y :: ys)).isSome = decide (c ∈ normHay cfg .unicode (x :: y :: ys)) := by
          rw [findIdx_isSome_iff]
          unfold normHay
          rw [Bool.eq_iff_iff]
          simp only [List.any_eq_true, decide_eq_true_eq, List.mem_map, norm]
        rw [← hany]
        cases hf : findIdx (fun d => decide (normChar cfg d = c)) (x :: y :: ys) with
        | none => rfl
        | some start =>
          have hlt := (Sub.findIdx_some _ _ _ hf).1
          simp only
          have : ¬ ((ys.length + 1 + 1) - start < 0 + 1) := by
            simp only [List.length_cons] at hlt; omega
          simp [this]

end NucleoVerif
