import NucleoVerif.Props.C05
import NucleoVerif.Props.C01
/-! # C05 (companion file) — substring matching on code-point haystacks

`substring_match_non_ascii` behind the non-ASCII prefilter: succeeds exactly when the needle occurs contiguously in the
normalized haystack, and reports the leftmost occurrence whose first character earns the highest bonus. -/
namespace NucleoVerif
open Gen Spec Sub

/-- the acceptance test of `substring_match_non_ascii` at one position -/
def subAccU (cfg : Cfg) (n : List Nat) (limit : Nat) (pos : Nat) (s : List Nat) : Bool :=
  (decide (pos < limit) && decide (cnormChar cfg (s.headD 0) = n.headD 0)) &&
    ((s.tail.take (n.length - 1)).map (normChar cfg) == n.drop 1)

theorem substringNonAscii_go_eq (cfg : Cfg) (ext : Ext) (n : List Nat) (limit : Nat) :
    ∀ (xs : List Nat) (b : Best) (prev : CharClass) (pos : Nat),
      substringNonAscii.go cfg ext n limit b prev pos xs = scanS cfg (subAccU cfg n limit) (charClass cfg ext) b prev pos xs := by
  intro xs
  induction xs with
  | nil => intro _ _ _; rfl
  | cons x xs ih =>
    intro b prev pos
    simp only [substringNonAscii.go, scanS]
    rw [ih]
    congr 1
    rw [Best.offer_ok]
    unfold subAccU
    simp only [List.headD_cons, List.tail_cons]
    exact ite_and_bool _ _ _ _

theorem cnormChar_eq (cfg : Cfg) (c : Nat) : cnormChar cfg c = normChar cfg c :=
  C16_cnorm_eq_norm cfg .unicode c (fun h => by cases h)

/-- the acceptance test is "the needle occurs here" -/
theorem subAccU_eq_occ (cfg : Cfg) (n0 : Nat) (ns : List Nat) (limit pos : Nat) (s : List Nat)
    (hlim : pos < limit ↔ (n0 :: ns).length ≤ s.length) :
    subAccU cfg (n0 :: ns) limit pos s = ((s.take (n0 :: ns).length).map (normChar cfg) == n0 :: ns) := by
  unfold subAccU
  cases s with
  | nil =>
    have : ¬ pos < limit := by rw [hlim]; simp
    simp [this]
  | cons x xs =>
    simp only [List.headD_cons, List.tail_cons, List.length_cons, Nat.add_sub_cancel, List.drop_succ_cons, List.drop_zero,
      List.take_succ_cons, List.map_cons, cnormChar_eq]
    by_cases hl : pos < limit
    · simp only [hl, decide_true, Bool.true_and]
      by_cases hx : normChar cfg x = n0
      · simp [hx]
      · simp [hx]
    · -- too close to the end: the window is shorter than the needle
      have hshort : ¬ ((n0 :: ns).length ≤ (x :: xs).length) := fun h => hl (hlim.mpr h)
      simp only [hl, decide_false, Bool.false_and]
      symm
      apply Bool.eq_false_iff.mpr
      intro heq
      have : (normChar cfg x :: (xs.take ns.length).map (normChar cfg)) = n0 :: ns := by simpa using heq
      have hlen := congrArg List.length this
      simp only [List.length_cons, List.length_map, List.length_take] at hlen hshort
      omega

theorem candsU_positions (cfg : Cfg) (h : List Nat) (n0 : Nat) (ns : List Nat) (hlen : (n0 :: ns).length ≤ h.length) (cl : Nat → CharClass) :
    ∀ (xs : List Nat) (prev : CharClass) (pos : Nat), pos + xs.length = h.length →
      (candsS cfg (subAccU cfg (n0 :: ns) (h.length - (n0 :: ns).length + 1)) cl prev pos xs).map (·.1) =
        occAux (n0 :: ns) pos (xs.map (normChar cfg)) := by
  intro xs
  induction xs with
  | nil => intro _ _ _; simp [candsS, occAux]
  | cons x xs ih =>
    intro prev pos hp
    simp only [candsS, List.map_append, List.map_cons, occAux]
    rw [ih (cl x) (pos + 1) (by simp at hp; omega)]
    congr 1
    have hacc := subAccU_eq_occ cfg n0 ns (h.length - (n0 :: ns).length + 1) pos (x :: xs)
      (by simp only [List.length_cons] at hp hlen ⊢; omega)
    rw [hacc]
    have : ((x :: xs).take (n0 :: ns).length).map (normChar cfg) = (normChar cfg x :: xs.map (normChar cfg)).take (n0 :: ns).length := by
      rw [List.map_take]; rfl
    rw [this]
    split <;> simp

/-- no occurrence starts where the first needle character does not occur -/
theorem occAux_skip (n0 : Nat) (ns : List Nat) : ∀ (L : List Nat) (base k : Nat), (∀ x ∈ L.take k, x ≠ n0) →
    occAux (n0 :: ns) base L = occAux (n0 :: ns) (base + k) (L.drop k) := by
  intro L
  induction L with
  | nil => intro base k _; simp [occAux]
  | cons c cs ih =>
    intro base k hk
    cases k with
    | zero => rfl
    | succ k =>
      have hc : c ≠ n0 := hk c (by simp)
      simp only [occAux, List.drop_succ_cons]
      have : ((c :: cs).take (n0 :: ns).length == n0 :: ns) = false := by
        simp only [List.length_cons, List.take_succ_cons]
        apply Bool.eq_false_iff.mpr
        intro h
        have : c :: cs.take ns.length = n0 :: ns := by simpa using h
        exact hc (List.cons.inj this).1
      rw [this]
      simp only [Bool.false_eq_true, if_false, List.nil_append]
      rw [ih (base + 1) k (fun x hx => hk x (by simp [hx]))]
      congr 1; omega


theorem occ_subseq (n L : List Nat) (base i : Nat) (hi : i ∈ occAux n base L) : subseqB n L = true := by
  obtain ⟨_, _, h3, _⟩ := (occAux_mem n L base i).mp hi
  rw [subseqB_iff_sublist, ← h3]
  exact (List.take_sublist _ _).trans (List.drop_sublist _ _)

/-- from a scan whose candidates are the occurrences with their first-character scores: what it reports -/
theorem best_of_scan (cfg : Cfg) (ext : Ext) (hrep : Rep) (h n : List Nat) (C : List (Nat × Nat)) (b : Best)
    (hocc : occurrences cfg hrep h n = C.map (·.1)) (hsc : ∀ ps ∈ C, ps.2 = firstBonus cfg ext h ps.1 * 2 + 16)
    (inv : ScanInv cfg b C) :
    (b.score = 0 → occurrences cfg hrep h n = []) ∧
    (b.score ≠ 0 → occurrences cfg hrep h n ≠ [] ∧ bestOccurrence cfg ext hrep h n = some b.pos ∧ b.pos ∈ occurrences cfg hrep h n) := by
  have hpos16 : ∀ ps ∈ C, 16 ≤ ps.2 := by intro ps hps; rw [hsc ps hps]; omega
  refine ⟨fun hz => ?_, fun hz => ?_⟩
  · have hCnil : C = [] := by
      cases C with
      | nil => rfl
      | cons ps t =>
        have := inv.upper ps (by simp)
        have := hpos16 ps (by simp)
        omega
    rw [hocc, hCnil]; rfl
  · rcases inv.attained with z | ⟨a1, a2⟩
    · exact absurd z hz
    · have hne : C ≠ [] := by intro e; rw [e] at a1; simp at a1
      have hbm0 : b.pos ∈ occurrences cfg hrep h n := by rw [hocc]; exact List.mem_map.mpr ⟨(b.pos, b.score), a1, rfl⟩
      refine ⟨by rw [hocc]; intro e; exact hne (List.map_eq_nil_iff.mp e), ?_, hbm0⟩
      rw [bestOccurrence_eq_fold, hocc]
      have hsorted := occAux_sorted n (normHay cfg hrep h) 0
      have hsrt : (C.map (·.1)).Pairwise (· < ·) := by rw [← hocc]; exact hsorted.1
      cases hCl : C.map (·.1) with
      | nil => simp at hCl; exact absurd hCl hne
      | cons i0 rest =>
        rw [hCl] at hsrt
        have hpw' := List.pairwise_cons.mp hsrt
        simp only [List.foldl_cons, bestStep]
        obtain ⟨r, hr1, hr2, hr3⟩ := bestFold_spec (firstBonus cfg ext h) rest i0 hpw'.2 (fun i hi => hpw'.1 i hi) [i0] (by simp)
          (by intro i hi; simp only [List.mem_singleton] at hi; subst hi; exact ⟨Nat.le_refl _, fun _ => Nat.le_refl _⟩)
          (fun _ _ => Or.inr trivial)
        rw [hr1]
        congr 1
        have hall : ∀ i, i ∈ [i0] ++ rest ↔ ∃ ps ∈ C, ps.1 = i := by
          intro i
          have : [i0] ++ rest = C.map (·.1) := by rw [hCl]; rfl
          rw [this, List.mem_map]
        obtain ⟨psr, hpsr, hpsr1⟩ := (hall r).mp hr2
        have hbm : b.pos ∈ [i0] ++ rest := (hall b.pos).mpr ⟨(b.pos, b.score), a1, rfl⟩
        have fb_b : b.score = firstBonus cfg ext h b.pos * 2 + 16 := hsc _ a1
        have fb_r : psr.2 = firstBonus cfg ext h r * 2 + 16 := by rw [hsc _ hpsr, hpsr1]
        have h1 := hr3 b.pos hbm
        have h2 := inv.upper psr hpsr
        have hfeq : firstBonus cfg ext h r = firstBonus cfg ext h b.pos := by omega
        have h3 := a2 psr hpsr (by rw [fb_r, fb_b, hfeq])
        have h4 := h1.2 hfeq.symm
        rw [hpsr1] at h3
        omega

theorem prefilterNonAscii_start (cfg : Cfg) (h : List Nat) (n0 : Nat) (ns : List Nat) (start e : Nat)
    (hp : prefilterNonAscii cfg h (n0 :: ns) false = some (start, e)) :
    findIdx (fun c => normChar cfg c = n0) (h.take (h.length - (n0 :: ns).length + 1)) = some start := by
  unfold prefilterNonAscii at hp
  simp only at hp
  cases hf : findIdx (fun c => decide (normChar cfg c = n0)) (h.take (h.length - (n0 :: ns).length + 1)) with
  | none => rw [hf] at hp; cases hp
  | some st =>
    rw [hf] at hp
    simp only [Bool.false_eq_true, if_false] at hp
    split at hp
    · cases hp
    · split at hp
      · cases hp
      · injection hp with hp; injection hp with h1 h2; rw [h1]

/-- **substring matching on a code-point haystack succeeds exactly when the needle occurs contiguously in the
    normalized haystack, and reports the leftmost occurrence whose first character earns the highest bonus** — every
    configuration whose largest boundary bonus is at least 8 (all presets), every haystack, every needle of at least two
    characters no longer than the haystack (one-character needles take `substring_match_1_non_ascii`) -/
theorem C05_substring_unicode (cfg : Cfg) (ext : Ext) (nrep : Rep) (h : List Nat) (n0 n1 : Nat) (ns' : List Nat)
    (hb : 8 ≤ maxBonus cfg) (hlen : (n0 :: n1 :: ns').length ≤ h.length) :
    ((match prefilterNonAscii cfg h (n0 :: n1 :: ns') false with
      | none => none
      | some (start, _) => substringNonAscii cfg ext nrep h (n0 :: n1 :: ns') start).isSome =
        !(occurrences cfg .unicode h (n0 :: n1 :: ns')).isEmpty) ∧
    ∀ sc idx, (match prefilterNonAscii cfg h (n0 :: n1 :: ns') false with
      | none => none
      | some (start, _) => substringNonAscii cfg ext nrep h (n0 :: n1 :: ns') start) = some (sc, idx) →
        idx.head? = bestOccurrence cfg ext .unicode h (n0 :: n1 :: ns') := by
  generalize hN : n0 :: n1 :: ns' = n at *
  have hNl : 2 ≤ n.length := by rw [← hN]; simp
  have hspec := prefilterNonAscii_spec cfg h n0 n1 ns'
  rw [hN] at hspec
  have hnorm : normHay cfg .unicode h = h.map (normChar cfg) := rfl
  cases hp : prefilterNonAscii cfg h n false with
  | none =>
    rw [hp] at hspec
    simp only at hspec
    have hnil : occurrences cfg .unicode h n = [] := by
      cases ho : occurrences cfg .unicode h n with
      | nil => rfl
      | cons i t =>
        have : i ∈ occAux n 0 (normHay cfg .unicode h) := by unfold occurrences at ho; rw [ho]; simp
        have := occ_subseq n _ 0 i this
        rw [hnorm, hspec] at this; cases this
    refine ⟨by simp [hnil], fun sc idx hh => by cases hh⟩
  | some se =>
    obtain ⟨start, e⟩ := se
    simp only
    have hfi := prefilterNonAscii_start cfg h n0 (n1 :: ns') start e (by rw [hN]; exact hp)
    rw [hN] at hfi
    obtain ⟨f1, ⟨x, f2, f3⟩, f4⟩ := findIdx_some _ _ _ hfi
    have hstart : start < h.length - n.length + 1 := by
      have : start < (h.take (h.length - n.length + 1)).length := f1
      rw [List.length_take] at this; omega
    -- nothing before `start` normalizes to the first needle character
    have hbefore : ∀ y ∈ (h.map (normChar cfg)).take start, y ≠ n0 := by
      intro y hy
      rw [← List.map_take] at hy
      obtain ⟨c, hc, rfl⟩ := List.mem_map.mp hy
      have hc' : c ∈ (h.take (h.length - n.length + 1)).take start := by
        rw [List.take_take, Nat.min_eq_left (by omega)]; exact hc
      have := f4 c hc'
      simpa using this
    have hoccs : occurrences cfg .unicode h n = occAux n start ((h.drop start).map (normChar cfg)) := by
      unfold occurrences
      rw [hnorm, ← hN, occAux_skip n0 (n1 :: ns') _ 0 start hbefore, Nat.zero_add, List.map_drop]
    have hposn := candsU_positions cfg h n0 (n1 :: ns') (by rw [hN]; exact hlen) (charClass cfg ext) (h.drop start)
      (prevClassAt cfg ext h start) start (by simp; omega)
    rw [hN] at hposn
    generalize hacc : subAccU cfg n (h.length - n.length + 1) = acc at hposn
    have hsc := candsS_score cfg ext h acc (charClass cfg ext) (h.drop start) (prevClassAt cfg ext h start) start
      (by intro k c hk; rw [List.getElem?_drop] at hk; exact hk) rfl (fun _ _ => rfl)
    have inv := scanS_inv cfg hb acc (charClass cfg ext) (h.drop start) ⟨0, 0, false⟩ (prevClassAt cfg ext h start) start []
      ⟨by simp, Or.inl rfl, by simp⟩ (by simp)
    simp only [List.nil_append] at inv
    have hocc : occurrences cfg .unicode h n = (candsS cfg acc (charClass cfg ext) (prevClassAt cfg ext h start) start (h.drop start)).map (·.1) := by
      rw [hposn, hoccs]
    have hrun : substringNonAscii cfg ext nrep h n start =
        (if (scanS cfg acc (charClass cfg ext) ⟨0, 0, false⟩ (prevClassAt cfg ext h start) start (h.drop start)).score = 0 then none
         else some (calculateScore cfg ext .unicode h n
           (scanS cfg acc (charClass cfg ext) ⟨0, 0, false⟩ (prevClassAt cfg ext h start) start (h.drop start)).pos
           ((scanS cfg acc (charClass cfg ext) ⟨0, 0, false⟩ (prevClassAt cfg ext h start) start (h.drop start)).pos + n.length))) := by
      unfold substringNonAscii
      simp only
      rw [substringNonAscii_go_eq, hacc]
    rw [hrun]
    generalize scanS cfg acc (charClass cfg ext) ⟨0, 0, false⟩ (prevClassAt cfg ext h start) start (h.drop start) = b at inv
    obtain ⟨k1, k2⟩ := best_of_scan cfg ext .unicode h n _ b hocc hsc inv
    by_cases hz : b.score = 0
    · rw [if_pos hz]
      refine ⟨by simp [k1 hz], fun sc idx hh => by cases hh⟩
    · rw [if_neg hz]
      obtain ⟨m1, m2, m3⟩ := k2 hz
      refine ⟨?_, fun sc idx hh => ?_⟩
      · cases ho : occurrences cfg .unicode h n with
        | nil => exact absurd ho m1
        | cons _ _ => rfl
      · simp only [Option.some.injEq] at hh
        have hbpos : b.pos < h.length := by
          unfold occurrences at m3
          have := (occAux_mem n (normHay cfg .unicode h) 0 b.pos).mp m3
          simp only [normHay, List.length_map, Nat.sub_zero] at this
          omega
        have hhead := calculateScore_head cfg ext .unicode h n0 (n1 :: ns') b.pos (b.pos + n.length) hbpos
        rw [hN, hh] at hhead
        simp only at hhead
        rw [hhead, m2]

end NucleoVerif
