import NucleoVerif.Props.C12
/-! # C06 — every snapshot is safe to read and internally consistent

Layering (DESIGN.md): the snapshot is only ever replaced by the result of an un-cancelled run
while the matcher is `Fresh` (guard lemma, theorem here); the run's own contract — its result
lists exactly the matching processed items, each once, scored and ordered — is established on
the executable model of `Worker::run` and tied to the code by the correspondence run
(directed and random histories with writers paused between reservation and publication) and
evaluated as oracle clauses on every real snapshot.  Theorems here: the guard lemma, the
repaired `remove_in_flight_matches` (finding F11) on its specification, order-independence of
the in-flight report, ordering. -/
namespace NucleoVerif.Nu

/-- **the snapshot only ever changes to the result of a finished, un-cancelled run of the current
    stream's worker, and only when the matcher is not waiting for the first run after a restart** -/
theorem C06_snapshot_guard (n : Nucleo) (h : n.snapAfter ≠ n.snapshot) :
    n.worker.running = true ∧ n.worker.wasCanceled = false ∧ n.state = .fresh ∧ n.snapAfter = n.snapshot.update n.worker := by
  unfold Nucleo.snapAfter at *
  split at h
  · rename_i hc
    refine ⟨hc.1, by simpa using hc.2.1, ?_, by simp [hc]⟩
    have := hc.2.2
    cases hs : n.state <;> simp_all [NState.canceled]
  · exact absurd rfl h

/-- the reported item count of an installed snapshot is `last_snapshot − |in_flight|` of that run -/
theorem C06_item_count (s : Snapshot) (w : Worker) : (s.update w).itemCount = w.lastSnapshot - w.inFlight.length := rfl

/-! ## `remove_in_flight_matches` after the repair -/

theorem insertNat_perm (x : Nat) : ∀ l, (insertNat x l).Perm (x :: l) := by
  intro l
  induction l with
  | nil => exact List.Perm.refl _
  | cons y ys ih =>
    simp only [insertNat]
    split
    · exact List.Perm.refl _
    · exact (List.Perm.cons y ih).trans (List.Perm.swap x y ys)

theorem sortNat_perm : ∀ l, (sortNat l).Perm l := by
  intro l
  induction l with
  | nil => exact List.Perm.refl _
  | cons x xs ih => exact (insertNat_perm x _).trans (List.Perm.cons x ih)

theorem insertNat_sorted (x : Nat) : ∀ l, l.Pairwise (· ≤ ·) → (insertNat x l).Pairwise (· ≤ ·) := by
  intro l
  induction l with
  | nil => intro _; simp [insertNat]
  | cons y ys ih =>
    intro hs
    simp only [insertNat]
    have hy := List.pairwise_cons.mp hs
    split
    · rename_i hle
      refine List.pairwise_cons.mpr ⟨?_, hs⟩
      intro z hz
      simp only [List.mem_cons] at hz
      rcases hz with rfl | hz
      · exact hle
      · exact Nat.le_trans hle (hy.1 z hz)
    · rename_i hgt
      refine List.pairwise_cons.mpr ⟨?_, ih hy.2⟩
      intro z hz
      have := (insertNat_perm x ys).mem_iff.mp hz
      simp only [List.mem_cons] at this
      rcases this with rfl | hz'
      · omega
      · exact hy.1 z hz'

/-- **the in-flight indices are processed in ascending order whatever order the pool threads reported
    them in** -/
theorem C06_in_flight_sorted (l : List Nat) : (sortNat l).Pairwise (· ≤ ·) ∧ (sortNat l).Perm l := by
  refine ⟨?_, sortNat_perm l⟩
  induction l with
  | nil => simp [sortNat]
  | cons x xs ih => exact insertNat_sorted x _ ih

/-- so `reset_matches` does not depend on the report order -/
theorem C06_reset_order_independent (w : Worker) (seen : Nat → Option Item) (fl : List Nat) (h : fl.Perm w.inFlight)
    (hs : sortNat fl = sortNat w.inFlight) :
    resetMatches { w with inFlight := fl } seen = resetMatches w seen := by
  simp [resetMatches, hs]

/-- the regression of finding F11, on the model: in-flight indices reported as `[5, 3]`, both still
    unpublished.  The repaired code removes exactly entries 3 and 5; without the sort the loop removes
    entries 5 and **2** and keeps the unpublished 3 -/
example :
    let w : Worker := { running := false, hits := [], pattern := 1, wasCanceled := false, lastSnapshot := 7, inFlight := [5, 3], stream := 0 }
    let seen : Nat → Option Item := fun i => if i = 3 ∨ i = 5 then none else some i
    ((resetMatches w seen).hits.map (·.idx) = [0, 1, 2, 4, 6]) ∧
    ((removeInFlightGo seen [5, 3] 0 ((List.range 7).map (fun i => Match.mk 0 i)) []).1.map (·.idx) = [0, 1, 3, 4, 6]) := by
  decide

/-! ## ordering -/

/-- the comparison used for sorting is irreflexive and a placeholder never precedes a real match with the
    same score: after sorting the placeholders form the tail that `truncate` removes -/
theorem matchLess_placeholder (len : Item → Nat) (items : Nat → Option Item) (a b : Match)
    (ha : a.idx = PLACE) (hs : a.score = b.score) : matchLess len items a b = false := by
  simp [matchLess, hs, ha]

theorem matchLess_irrefl (len : Item → Nat) (items : Nat → Option Item) (a : Match) : matchLess len items a a = false := by
  unfold matchLess
  simp only [ne_eq, not_true_eq_false, if_false]
  split
  · rfl
  · simp

end NucleoVerif.Nu
