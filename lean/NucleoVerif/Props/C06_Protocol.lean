import NucleoVerif.Props.C07_Protocol
/-! # C06 (companion file) — every snapshot, after every event, is a completed run's result

The run contracts of `C06_RunContract` speak about one completed run.  Here they are carried through the tick protocol
(`Model/Nucleo.lean`, the invariant `P07` of `C07_Protocol`): the snapshot a reader sees is only ever replaced by
`restart(true)` (emptied) or by `tick_inner` copying the worker after a run that completed without seeing the cancel
flag — never by a run that was cancelled, never while the matcher waits for the first run on a new stream.  So after
every history of injector / clone / drop / reparse / restart / tick events, whatever the lock outcomes and wherever runs
were cancelled, the snapshot's match list is exactly the matches (with their scores) of the snapshot's pattern among a
duplicate-free set of initialised items of the snapshot's stream whose size is the reported item count, in sorted order.
For the empty pattern (`emp`, as in `C07_Protocol`) the order is insertion order instead. -/
namespace NucleoVerif.Nu

variable (score : Nat → Item → Option Nat) (len : Item → Nat)
variable (S : Nat → Nat → Option Item)
variable (emp : Nat → Bool)

/-! ## what a completed run leaves: right, and sorted by the items' true lengths -/

theorem matchLess_congr (it1 it2 : Nat → Option Item) (a b : Match) (ha : it1 a.idx = it2 a.idx) (hb : it1 b.idx = it2 b.idx) :
    matchLess len it1 a b = matchLess len it2 a b := by
  unfold matchLess; rw [ha, hb]

/-- every index a completed run accounts for was observed as what the stream really holds there -/
theorem run_seen (Sx : Nat → Option Item) (w : Worker) (st : PStatus) (o : Obs) (bk : BK w) (env : RunEnv Sx w o) :
    ∀ i ∈ processed (Worker.run score len w st false false o).1, o.seen1 i = Sx i := by
  obtain ⟨old, hcov, hperm, hlast⟩ := run_inFlight score len w st false o bk env.countGe env.order
  intro i hi
  unfold processed at hi
  rw [mem_keepIdx, hlast] at hi
  obtain ⟨hlt, hnot⟩ := hi
  have hnot' : i ∉ old ∧ i ∉ ((List.range (o.count - w.lastSnapshot)).map (· + w.lastSnapshot)).filter (fun i => (o.seen1 i).isNone) := by
    constructor
    · intro h; exact hnot (hperm.symm.subset (List.mem_append_left _ h))
    · intro h; exact hnot (hperm.symm.subset (List.mem_append_right _ h))
  have of_some : ∀ it, o.seen1 i = some it → o.seen1 i = Sx i := fun it h => by rw [h, env.sound1 i it h]
  by_cases hold : i < w.lastSnapshot
  · by_cases hfl : i ∈ w.inFlight
    · have := hcov i hfl hnot'.1
      cases h0 : o.seen0 i with
      | none => rw [h0] at this; cases this
      | some it => exact of_some it (env.mono i it h0)
    · exact env.processed i hold hfl
  · have hmem : i ∈ (List.range (o.count - w.lastSnapshot)).map (· + w.lastSnapshot) :=
      (new_range_mem w.lastSnapshot o.count env.countGe i).mpr ⟨by omega, hlt⟩
    cases h1 : o.seen1 i with
    | some it => exact (env.sound1 i it h1).symm
    | none => exact absurd (List.mem_filter.mpr ⟨hmem, by simp [h1]⟩) hnot'.2

/-- a worker that holds a completed result -/
structure Res (Sx : Nat → Option Item) (w : Worker) : Prop where
  good : Good score Sx w
  /-- a non-empty pattern: sorted by (score desc, true item length asc, index asc) -/
  sorted : emp w.pattern = false → w.hits.Pairwise (mle len Sx)
  /-- the empty pattern: every accounted item, in insertion order -/
  insertion : emp w.pattern = true → w.hits = (processed w).map mk0

theorem idealHits_mem_idx (Sx : Nat → Option Item) (p : Nat) (P : List Nat) (m : Match) (h : m ∈ idealHits score Sx p P) : m.idx ∈ P := by
  have : m.idx ∈ (idealHits score Sx p P).map (·.idx) := List.mem_map_of_mem h
  rw [idealHits_idx] at this
  exact (List.mem_filter.mp this).1

/-- **a completed run leaves a result** (from each of the three start conditions) -/
theorem run_res (Sx : Nat → Option Item) (w : Worker) (st : PStatus) (o : Obs)
    (hstart : (st = .rescore ∧ BK w) ∨ (st = .update ∧ Loose score Sx w.pattern w) ∨ (st = .unchanged ∧ Good score Sx w))
    (renv : RunEnv Sx w o) (hne : emp w.pattern = false) : Res score len emp Sx (Worker.run score len w st false false o).1 := by
  have hbk : BK w := by
    rcases hstart with ⟨_, b⟩ | ⟨_, l⟩ | ⟨_, g⟩
    · exact b
    · exact l.bk
    · exact g.bk
  have hc : (Worker.run score len w st false false o).1.hits.Perm
        (idealHits score Sx (Worker.run score len w st false false o).1.pattern (processed (Worker.run score len w st false false o).1)) ∧
      (Worker.run score len w st false false o).1.hits.Pairwise (mle len o.seen1) ∧ BK (Worker.run score len w st false false o).1 := by
    rcases hstart with ⟨rfl, bk⟩ | ⟨rfl, l⟩ | ⟨rfl, g⟩
    · have h := C06_rescore_run_contract score len Sx w o bk renv
      exact ⟨h.1, h.2.1, h.2.2.1⟩
    · have h := C06_update_run_contract_loose score len Sx w o renv l _ rfl
      exact ⟨h.1, h.2.1, h.2.2.1⟩
    · have h := C06_unchanged_run_contract score len Sx w o g.bk renv g.right
      exact ⟨h.1, h.2.1, h.2.2.1⟩
  obtain ⟨h1, h2, h3⟩ := hc
  have hpat : (Worker.run score len w st false false o).1.pattern = w.pattern := (Worker.run_runLike score len st false false o).pattern w
  refine ⟨⟨h1, h3⟩, fun _ => ?_, fun he => by rw [hpat, hne] at he; cases he⟩
  have hseen := run_seen score len Sx w st o hbk renv
  have hm : ∀ m ∈ (Worker.run score len w st false false o).1.hits, o.seen1 m.idx = Sx m.idx :=
    fun m hm => hseen _ (idealHits_mem_idx score Sx _ _ m (h1.subset hm))
  refine h2.imp_of_mem ?_
  intro a b ha hb hab
  unfold mle at hab ⊢
  rw [← matchLess_congr len o.seen1 Sx b a (hm b hb) (hm a ha)]
  exact hab

theorem Res.congr {Sx : Nat → Option Item} {w w' : Worker} (r : Res score len emp Sx w) (h1 : w'.hits = w.hits) (h2 : w'.inFlight = w.inFlight)
    (h3 : w'.lastSnapshot = w.lastSnapshot) (h4 : w'.pattern = w.pattern) : Res score len emp Sx w' :=
  ⟨r.good.congr score h1 h2 h3 h4, fun he => by rw [h1]; exact r.sorted (by rw [← h4]; exact he),
   fun he => by
    have : processed w' = processed w := by unfold processed; rw [h2, h3]
    rw [h1, this]; exact r.insertion (by rw [← h4]; exact he)⟩

/-- **joining a run that was not cancelled**: the worker holds a result -/
theorem join_res (hemp : EmpOk score emp) (p : Pending) (w w' : Worker) (mc : Bool) (hs : StartOk score S p w)
    (hpub : p.cleared = false → Pub (S w.stream) w) (hr : RunsAs score len S emp p w w' mc)
    (hnc : w'.wasCanceled = false) : Res score len emp (S w.stream) w' ∧ w'.stream = w.stream := by
  obtain ⟨o, hw', ho⟩ := hr
  have rl := Worker.run_runLike score len p.status p.cleared (emp w.pattern) o
  have hstr : w'.stream = w.stream := by rw [hw']; exact rl.stream w
  have hpat : w'.pattern = w.pattern := by rw [hw']; exact rl.pattern w
  obtain ⟨w0, e0, e1, e2, e3, e4, e5⟩ := startWorker score len S p w (emp w.pattern) o hs hpub
  rw [← e0] at ho
  by_cases he : emp w.pattern = true
  · rw [he] at e3 hw'
    obtain ⟨g, _, _, hh⟩ := run_emp_good score len emp hemp (S w0.stream) w0 p.status o (e4.bk score S) ho.env e5 (by rw [e2]; exact he)
    rw [← e3, ← hw'] at g hh
    rw [e1] at g
    exact ⟨⟨g, fun h => (by rw [hpat, he] at h; cases h), fun _ => hh⟩, hstr⟩
  · have he' : emp w.pattern = false := by simpa using he
    rw [he'] at e3 hw'
    have hstart : (p.status = .rescore ∧ BK w0) ∨ (p.status = .update ∧ Loose score (S w0.stream) w0.pattern w0) ∨
        (p.status = .unchanged ∧ Good score (S w0.stream) w0) := e4
    rcases ho.cancel with ⟨_, hcan⟩ | renv
    · have hlt : w0.lastSnapshot < PLACE := by have := ho.env.countGe; have := ho.env.countLt; omega
      have hs' : (p.status = .rescore ∧ BK w0) ∨ Loose score (S w0.stream) w0.pattern w0 := by
        rcases hstart with ⟨h1, h2⟩ | ⟨_, l⟩ | ⟨_, g⟩
        · exact Or.inl ⟨h1, h2⟩
        · exact Or.inr l
        · exact Or.inr (g.loose score hlt)
      obtain ⟨_, hwc, _⟩ := C06_cancelled_run_loose score len (S w0.stream) w0 p.status o ho.env hs' hcan
      rw [← e3, ← hw', hnc] at hwc
      cases hwc
    · have r := run_res score len emp (S w0.stream) w0 p.status o hstart renv (by rw [e2]; exact he')
      rw [← e3, ← hw', e1] at r
      exact ⟨r, hstr⟩

/-! ## the snapshot through the protocol -/

/-- the snapshot is a copy of a worker that held a completed result (the emptied snapshot of `restart(true)` and the
    initial one are copies of an empty worker) -/
def SnapOk (snap : Snapshot) : Prop := ∃ w : Worker, Res score len emp (S w.stream) w ∧ snap = Snapshot.update snap w

structure Q06 (n : Nucleo) : Prop where
  p : P07 score S n
  snap : SnapOk score len S emp n.snapshot
  res : n.pending = none → n.worker.wasCanceled = false → Res score len emp (S n.worker.stream) n.worker

theorem Res.of_empty (Sx : Nat → Option Item) (w : Worker) (h1 : w.hits = []) (h2 : w.lastSnapshot = 0) (h3 : w.inFlight = []) :
    Res score len emp Sx w :=
  ⟨Good.of_empty score Sx w h1 h2 h3, fun _ => by rw [h1]; exact List.Pairwise.nil, fun _ => by
    have : processed w = [] := by unfold processed keepIdx; rw [h2]; rfl
    rw [h1, this]; rfl⟩

theorem Q06.new : Q06 score len S emp Nucleo.new :=
  ⟨P07.new score S, ⟨Nucleo.new.worker, Res.of_empty score len emp _ _ rfl rfl rfl, rfl⟩, fun _ _ => Res.of_empty score len emp _ _ rfl rfl rfl⟩

theorem Q06.restart {n : Nucleo} (h : Q06 score len S emp n) (c : Bool) : Q06 score len S emp (n.restart c) := by
  refine ⟨h.p.restart score S c, ?_, h.res⟩
  cases c with
  | false => exact h.snap
  | true =>
    exact ⟨{ running := false, hits := [], pattern := n.snapshot.pattern, wasCanceled := false, lastSnapshot := 0, inFlight := [], stream := n.nextStream },
      Res.of_empty score len emp _ _ rfl rfl rfl, rfl⟩

/-- `tick_inner` with the lock held, from a joined state -/
theorem locked_snap (m : Nucleo) (c : Bool) (st : PStatus) (k : Nat) (hp : m.pending = none) (hsnap : SnapOk score len S emp m.snapshot)
    (hres : m.worker.wasCanceled = false → Res score len emp (S m.worker.stream) m.worker) :
    SnapOk score len S emp (tickInnerLocked m c st k).1.snapshot ∧
    ((tickInnerLocked m c st k).1.pending = none → (tickInnerLocked m c st k).1.worker.wasCanceled = false →
      Res score len emp (S (tickInnerLocked m c st k).1.worker.stream) (tickInnerLocked m c st k).1.worker) := by
  have hsa : SnapOk score len S emp m.snapAfter := by
    unfold Nucleo.snapAfter
    split
    · rename_i hh
      exact ⟨m.worker, hres (by simpa using hh.2.1), rfl⟩
    · exact hsnap
  have hwa : m.workerAfter.hits = m.worker.hits ∧ m.workerAfter.inFlight = m.worker.inFlight ∧
      m.workerAfter.lastSnapshot = m.worker.lastSnapshot ∧ m.workerAfter.pattern = m.worker.pattern ∧
      m.workerAfter.wasCanceled = m.worker.wasCanceled ∧ m.workerAfter.stream = m.worker.stream := by
    unfold Nucleo.workerAfter; split <;> exact ⟨rfl, rfl, rfl, rfl, rfl, rfl⟩
  obtain ⟨a1, a2, a3, a4, a5, a6⟩ := hwa
  unfold tickInnerLocked
  split
  · exact ⟨hsa, fun h => by simp at h⟩
  · refine ⟨hsa, fun _ hwc => ?_⟩
    show Res score len emp (S m.workerAfter.stream) m.workerAfter
    rw [a6]
    exact (hres (by rw [← a5]; exact hwc)).congr score len emp a1 a2 a3 a4

/-- joining the run in flight (if any) -/
theorem join_snap (hemp : EmpOk score emp) (n : Nucleo) (run : Worker → Worker) (mc : Bool)
    (hres : n.pending = none → n.worker.wasCanceled = false → Res score len emp (S n.worker.stream) n.worker)
    (hsta : ∀ p, n.pending = some p → StartOk score S p n.worker)
    (hpub : (∃ st, n.pending = some ⟨st, true⟩) ∨ Pub (S n.worker.stream) n.worker)
    (hr : ∀ p, n.pending = some p → RunsAs score len S emp p n.worker (run n.worker) mc) :
    (n.joinRun run).pending = none ∧ (n.joinRun run).snapshot = n.snapshot ∧
    ((n.joinRun run).worker.wasCanceled = false → Res score len emp (S (n.joinRun run).worker.stream) (n.joinRun run).worker) := by
  have hf := joinRun_fields n run
  refine ⟨hf.2.2.2.1, hf.2.2.2.2.1, ?_⟩
  unfold Nucleo.joinRun
  cases hp : n.pending with
  | none =>
    simp only [Option.isSome_none, Bool.false_eq_true, if_false]
    exact hres hp
  | some p =>
    simp only [Option.isSome_some, if_true]
    intro hwc
    have hpub' : p.cleared = false → Pub (S n.worker.stream) n.worker := by
      intro hc
      rcases hpub with ⟨st, h⟩ | h
      · rw [hp] at h
        have : p = ⟨st, true⟩ := Option.some.inj h
        rw [this] at hc; cases hc
      · exact h
    obtain ⟨r, hs⟩ := join_res score len S emp hemp p n.worker (run n.worker) mc (hsta p hp) hpub' (hr p hp) hwc
    rw [hs]; exact r

/-- the first `tick_inner` of a cancelling tick -/
theorem cancelFirst_snap (hemp : EmpOk score emp) (n : Nucleo) (o : TickOracle) (hsnap : SnapOk score len S emp n.snapshot)
    (hres : n.pending = none → n.worker.wasCanceled = false → Res score len emp (S n.worker.stream) n.worker)
    (hsta : ∀ p, n.pending = some p → StartOk score S p n.worker)
    (hpub : (∃ st, n.pending = some ⟨st, true⟩) ∨ Pub (S n.worker.stream) n.worker)
    (hr : ∀ p, n.pending = some p → RunsAs score len S emp p n.worker (o.run0 n.worker) true) :
    SnapOk score len S emp (n.tickCancelFirst o).1.snapshot := by
  have j := join_snap score len S emp hemp ({ n with status := .unchanged, cancelFlag := true } : Nucleo) o.run0 true hres hsta hpub hr
  show SnapOk score len S emp (tickInnerLocked (({ n with status := .unchanged, cancelFlag := true } : Nucleo).joinRun o.run0) true n.status o.count1).1.snapshot
  exact (locked_snap score len S emp _ true n.status o.count1 j.1 (by rw [j.2.1]; exact hsnap) j.2.2).1

/-- **one `tick`** preserves the invariant -/
theorem Q06.tick (hemp : EmpOk score emp) {n : Nucleo} (h : Q06 score len S emp n) (o : TickOracle) (env : TickEnv07 score len S emp n o) :
    Q06 score len S emp (n.tick o).1 := by
  have hP := (h.p.tick score len S emp hemp o env).1
  have key : SnapOk score len S emp (n.tick o).1.snapshot ∧
      ((n.tick o).1.pending = none → (n.tick o).1.worker.wasCanceled = false →
        Res score len emp (S (n.tick o).1.worker.stream) (n.tick o).1.worker) := by
    unfold Nucleo.tick
    simp only
    have hc0 : ({ n with shouldNotify := false } : Nucleo).tickCancels = n.tickCancels := rfl
    rw [hc0]
    have h0 : P07 score S ({ n with shouldNotify := false } : Nucleo) := ⟨h.p.idle, h.p.mirror, h.p.pat, h.p.upd, h.p.str, h.p.btw, h.p.sta, h.p.pub⟩
    by_cases hc : n.tickCancels = true
    · simp only [hc, if_true]
      have hr0 : ∀ p, ({ n with shouldNotify := false } : Nucleo).pending = some p →
          RunsAs score len S emp p ({ n with shouldNotify := false } : Nucleo).worker (o.run0 ({ n with shouldNotify := false } : Nucleo).worker) true := by
        intro p hp
        have := env.run0 p hp
        rw [hc] at this; exact this
      obtain ⟨_, f2, _, _, _, _, _, f8, f9⟩ := cancelFirst07 score len S emp hemp _ h0 o hr0 hc
      have s1 := cancelFirst_snap score len S emp hemp ({ n with shouldNotify := false } : Nucleo) o h.snap h.res h.p.sta h.p.pub hr0
      have hrun1 := env.run1 hc
      generalize ({ n with shouldNotify := false } : Nucleo).tickCancelFirst o = r1 at f2 f8 f9 s1 hrun1
      unfold Nucleo.tickSecond
      by_cases hl : o.lock2 = true
      · simp only [hl, if_true]
        have hpubd : (∃ st, r1.1.pending = some ⟨st, true⟩) ∨ Pub (S r1.1.worker.stream) r1.1.worker := by
          cases hcl : n.state.canceled with
          | true => exact Or.inl ⟨n.status, by rw [f2, hcl]⟩
          | false => exact Or.inr (f9 hcl)
        have j := join_snap score len S emp hemp r1.1 o.run1 false (fun hp' => by rw [f2] at hp'; cases hp')
          (fun q hq => by rw [f2] at hq; cases hq; exact f8) hpubd hrun1
        exact locked_snap score len S emp _ false .unchanged o.count2 j.1 (by rw [j.2.1]; exact s1) j.2.2
      · simp only [hl, Bool.false_eq_true, if_false]
        unfold tickInnerTimeout
        exact ⟨s1, fun hp => by rw [f2] at hp; cases hp⟩
    · have hc' : n.tickCancels = false := by simpa using hc
      simp only [hc', Bool.false_eq_true, if_false]
      have hr0 : ∀ p, ({ n with shouldNotify := false } : Nucleo).pending = some p →
          RunsAs score len S emp p ({ n with shouldNotify := false } : Nucleo).worker (o.run0 ({ n with shouldNotify := false } : Nucleo).worker) false := by
        intro p hp
        have := env.run0 p hp
        rw [hc'] at this; exact this
      unfold Nucleo.tickPlain
      split
      · unfold tickInnerTimeout
        exact ⟨h.snap, h.res⟩
      · have j := join_snap score len S emp hemp ({ n with shouldNotify := false } : Nucleo) o.run0 false h.res h.p.sta h.p.pub hr0
        exact locked_snap score len S emp _ false .unchanged o.count1 j.1 (by rw [j.2.1]; exact h.snap) j.2.2
  exact ⟨hP, key.1, key.2⟩

theorem Q06.step (hemp : EmpOk score emp) {n : Nucleo} (h : Q06 score len S emp n) (e : Ev) (hok : EvOk07 score len S emp n e) : Q06 score len S emp (Nu.applyEv n e) := by
  cases e with
  | inj k => exact ⟨h.p.addInjector score S k, h.snap, h.res⟩
  | clone a b =>
    have hf : (n.cloneInjector a b).worker = n.worker ∧ (n.cloneInjector a b).pending = n.pending ∧
        (n.cloneInjector a b).snapshot = n.snapshot := by
      unfold Nucleo.cloneInjector; split <;> exact ⟨rfl, rfl, rfl⟩
    refine ⟨h.p.cloneInjector score S a b, ?_, ?_⟩
    · show SnapOk score len S emp (n.cloneInjector a b).snapshot
      rw [hf.2.2]; exact h.snap
    · show (n.cloneInjector a b).pending = none → (n.cloneInjector a b).worker.wasCanceled = false →
        Res score len emp (S (n.cloneInjector a b).worker.stream) (n.cloneInjector a b).worker
      rw [hf.1, hf.2.1]; exact h.res
  | drop k => exact ⟨h.p.dropInjector score S k, h.snap, h.res⟩
  | restart c => exact h.restart score len S emp c
  | reparse p s => exact ⟨h.p.reparse score S p s hok, h.snap, h.res⟩
  | tick o => exact h.tick score len S emp hemp o hok

theorem Q06.history (hemp : EmpOk score emp) : ∀ (evs : List Ev) (n : Nucleo), Q06 score len S emp n → okHist07 score len S emp n evs →
    Q06 score len S emp (evs.foldl Nu.applyEv n) := by
  intro evs
  induction evs with
  | nil => intro n h _; exact h
  | cons e es ih =>
    intro n h hok
    simp only [List.foldl_cons]
    exact ih _ (h.step score len S emp hemp e hok.1) hok.2

/-- what a reader of a snapshot can rely on -/
structure SnapshotConsistent (snap : Snapshot) (P : List Nat) : Prop where
  /-- `P` is a duplicate-free set of indices of the snapshot's stream, and the reported item count is its size -/
  nodup : P.Nodup
  count : snap.itemCount = P.length
  /-- the matches are exactly the items of `P` the snapshot's pattern matches, each once, with that pattern's score -/
  exact : snap.hits.Perm (idealHits score (S snap.stream) snap.pattern P)
  /-- every match refers to an initialised item of the snapshot's stream, scored by the snapshot's pattern -/
  item : ∀ m ∈ snap.hits, ∃ it, S snap.stream m.idx = some it ∧ score snap.pattern it = some m.score ∧ m.idx ∈ P
  /-- no item appears twice -/
  once : (snap.hits.map (·.idx)).Nodup
  /-- a non-empty pattern: descending score, then ascending length of the item, then ascending index -/
  order : emp snap.pattern = false → snap.hits.Pairwise (mle len (S snap.stream))
  /-- the empty pattern: every item of `P` with score 0, in insertion (index) order -/
  insertion : emp snap.pattern = true → (snap.hits.map (·.idx)).Pairwise (· < ·) ∧ ∀ m ∈ snap.hits, m.score = 0

theorem idealHits_mem (Sx : Nat → Option Item) (p : Nat) (P : List Nat) (m : Match) (h : m ∈ idealHits score Sx p P) :
    ∃ it, Sx m.idx = some it ∧ score p it = some m.score ∧ m.idx ∈ P := by
  unfold idealHits at h
  obtain ⟨i, hi, he⟩ := List.mem_filterMap.mp h
  cases hs : Sx i with
  | none => rw [hs] at he; cases he
  | some it =>
    rw [hs] at he
    simp only [Option.bind_some] at he
    cases hsc : score p it with
    | none => rw [hsc] at he; cases he
    | some sc =>
      rw [hsc] at he
      simp only [Option.map_some, Option.some.injEq] at he
      subst he
      exact ⟨it, hs, hsc, hi⟩

theorem SnapOk.consistent {snap : Snapshot} (h : SnapOk score len S emp snap) : ∃ P, SnapshotConsistent score len S emp snap P := by
  obtain ⟨w, r, e⟩ := h
  have e1 : snap.hits = w.hits := by rw [e]; rfl
  have e2 : snap.pattern = w.pattern := by rw [e]; rfl
  have e3 : snap.stream = w.stream := by rw [e]; rfl
  have e4 : snap.itemCount = w.itemCount := by rw [e]; rfl
  refine ⟨processed w, keepIdx_nodup _ _, ?_, by rw [e1, e2, e3]; exact r.good.right, ?_, ?_,
    fun he => by rw [e1, e3]; exact r.sorted (by rw [← e2]; exact he), fun he => ?_⟩
  · rw [e4]; unfold Worker.itemCount processed
    rw [keepIdx_length _ _ r.good.bk.below r.good.bk.nodup]
  · intro m hm
    rw [e1] at hm
    rw [e2, e3]
    exact idealHits_mem score _ _ _ m (r.good.right.subset hm)
  · rw [e1]
    have := (r.good.right.map (·.idx)).nodup_iff.mpr (by rw [idealHits_idx]; exact (keepIdx_nodup _ _).filter _)
    exact this
  · have hh := r.insertion (by rw [← e2]; exact he)
    rw [e1, hh]
    refine ⟨?_, fun m hm => ?_⟩
    · rw [List.map_map]
      have : (fun m : Match => m.idx) ∘ mk0 = id := rfl
      rw [this, List.map_id]
      unfold processed keepIdx
      exact List.pairwise_lt_range.filter _
    · obtain ⟨i, _, rfl⟩ := List.mem_map.mp hm
      rfl

/-- **C06 at the level of the protocol**: after every history of injector(), clone, drop, reparse, restart(true|false) and
    tick events — ticks that complete or time out, runs that complete or are cancelled at an arbitrary point, every lock
    outcome — the snapshot is consistent: its matches are exactly the items its pattern matches (with that pattern's
    scores) among a duplicate-free set of initialised items of its stream whose size is the reported item count, no item
    twice, in sorted order. -/
theorem C06_protocol (hemp : EmpOk score emp) (evs : List Ev) (hok : okHist07 score len S emp Nucleo.new evs) :
    ∃ P, SnapshotConsistent score len S emp (evs.foldl applyEv Nucleo.new).snapshot P :=
  (Q06.history score len S emp hemp evs Nucleo.new (Q06.new score len S emp) hok).snap.consistent score len S emp

/-- the hypotheses can be met by a history that produces a non-empty snapshot: two items (7 and 9) are published on the
    first stream, the first tick's run sees them, completes in time, and the snapshot lists both with the pattern's score,
    the shorter item first -/
example :
    let score : Nat → Item → Option Nat := fun _ _ => some 5
    let emp : Nat → Bool := fun _ => false
    let len : Item → Nat := fun it => it
    let S : Nat → Nat → Option Item := fun _ i => if i = 0 then some 9 else if i = 1 then some 7 else none
    let obs : Obs := { seen0 := fun _ => none, seen1 := S 0, count := 2, inFlightOrder := id, sawCancel := fun _ => false,
                       sortCanceled := false, shouldNotify := false }
    let run : Worker → Worker := fun w => (Worker.run score len w .unchanged true false obs).1
    let o : TickOracle := { count1 := 2, count2 := 2, lock1 := true, lock2 := true, run0 := run, run1 := run }
    EmpOk score emp ∧ okHist07 score len S emp Nucleo.new [.tick o] ∧
      ([Ev.tick o].foldl applyEv Nucleo.new).snapshot.hits = [⟨5, 1⟩, ⟨5, 0⟩] ∧ ([Ev.tick o].foldl applyEv Nucleo.new).snapshot.itemCount = 2 := by
  intro score emp len S obs run o
  refine ⟨fun p it h => by simp [emp] at h, ⟨⟨fun p hp => by simp [Nucleo.new] at hp, fun _ p hp => ?_⟩, trivial⟩, by decide, by decide⟩
  have hp' : p = ⟨.unchanged, true⟩ := by
    have : (({ Nucleo.new with shouldNotify := false } : Nucleo).tickCancelFirst o).1.pending = some ⟨.unchanged, true⟩ := by decide
    rw [this] at hp; exact (Option.some.inj hp).symm
  subst hp'
  refine ⟨obs, rfl, ?_⟩
  have renv : ∀ w : Worker, RunEnv (S w.stream) w.clearedState obs := by
    intro w
    refine ⟨fun i it h => ?_, fun i it h => h, fun i h _ => ?_, Nat.zero_le _, ?_, fun _ => ⟨rfl, rfl⟩, rfl, fun l => List.Perm.refl l⟩
    · cases h
    · simp [Worker.clearedState] at h
    · show 2 < PLACE; simp [PLACE]
  exact ⟨(renv _).obsEnv, Or.inr (renv _)⟩

/-- the same history when pattern 0 is the empty pattern (as it is on a new matcher): the run takes the trivial path and the
    snapshot lists both items with score 0 in insertion order (the longer item 9 first) -/
example :
    let score : Nat → Item → Option Nat := fun p _ => if p = 0 then some 0 else some 5
    let emp : Nat → Bool := fun p => p == 0
    let len : Item → Nat := fun it => it
    let S : Nat → Nat → Option Item := fun _ i => if i = 0 then some 9 else if i = 1 then some 7 else none
    let obs : Obs := { seen0 := fun _ => none, seen1 := S 0, count := 2, inFlightOrder := id, sawCancel := fun _ => false,
                       sortCanceled := false, shouldNotify := false }
    let run : Worker → Worker := fun w => (Worker.run score len w .unchanged true (emp w.pattern) obs).1
    let o : TickOracle := { count1 := 2, count2 := 2, lock1 := true, lock2 := true, run0 := run, run1 := run }
    EmpOk score emp ∧ okHist07 score len S emp Nucleo.new [.tick o] ∧
      ([Ev.tick o].foldl applyEv Nucleo.new).snapshot.hits = [⟨0, 0⟩, ⟨0, 1⟩] ∧ ([Ev.tick o].foldl applyEv Nucleo.new).snapshot.itemCount = 2 := by
  intro score emp len S obs run o
  refine ⟨fun p it h => by simp [emp] at h; simp [score, h], ⟨⟨fun p hp => by simp [Nucleo.new] at hp, fun _ p hp => ?_⟩, trivial⟩, by decide, by decide⟩
  have hp' : p = ⟨.unchanged, true⟩ := by
    have : (({ Nucleo.new with shouldNotify := false } : Nucleo).tickCancelFirst o).1.pending = some ⟨.unchanged, true⟩ := by decide
    rw [this] at hp; exact (Option.some.inj hp).symm
  subst hp'
  refine ⟨obs, rfl, ?_⟩
  have renv : ∀ w : Worker, RunEnv (S w.stream) w.clearedState obs := by
    intro w
    refine ⟨fun i it h => ?_, fun i it h => h, fun i h _ => ?_, Nat.zero_le _, ?_, fun _ => ⟨rfl, rfl⟩, rfl, fun l => List.Perm.refl l⟩
    · cases h
    · simp [Worker.clearedState] at h
    · show 2 < PLACE; simp [PLACE]
  exact ⟨(renv _).obsEnv, Or.inr (renv _)⟩

end NucleoVerif.Nu
