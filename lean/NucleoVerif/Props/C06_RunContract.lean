import NucleoVerif.Lemmas.MatchSort
import NucleoVerif.Lemmas.ResetMatches
/-! # C06 (companion file) — the run contract

What a background run that is not cancelled leaves behind, for the two kinds of run that rebuild the match list from
the worker's bookkeeping alone (and therefore do not depend on what earlier completed, timed-out or cancelled runs
left in the list): a full rescoring run (`C06_rescore_run_contract`) and a run with the empty pattern
(`C06_trivial_run_contract`).  Both also cover the first run on a fresh stream (`run_cleared`).  The incremental paths
(`C06_unchanged_run_contract`, `C06_update_run_contract`) assume the list was right for the items accounted so far. -/
namespace NucleoVerif.Nu

variable (score : Nat → Item → Option Nat) (len : Item → Nat)

theorem processTrivial_spec (w : Worker) (seen : Nat → Option Item) (count : Nat) (hc : w.lastSnapshot ≤ count) :
    (processTrivial w seen count).hits =
      w.hits ++ (((List.range (count - w.lastSnapshot)).map (· + w.lastSnapshot)).filter (fun i => (seen i).isSome)).map mk0 ∧
    (processTrivial w seen count).inFlight =
      w.inFlight ++ ((List.range (count - w.lastSnapshot)).map (· + w.lastSnapshot)).filter (fun i => (seen i).isNone) ∧
    (processTrivial w seen count).lastSnapshot = count ∧ (processTrivial w seen count).pattern = w.pattern := by
  unfold processTrivial
  by_cases h : count ≠ w.lastSnapshot
  · simp only [h, ne_eq, not_false_eq_true, if_true]
    exact ⟨by trivial, by trivial, by trivial, by trivial⟩
  · have h' : count = w.lastSnapshot := by simpa using h
    simp only [h', ne_eq, not_true_eq_false, if_false, Nat.sub_self, List.range_zero, List.map_nil, List.filter_nil, List.append_nil]
    exact ⟨by trivial, by trivial, by trivial, by trivial⟩

theorem zipIdx_map_uncancelled (f : Nat → Bool) (g : Match → Match) :
    ∀ (l : List Match) (k : Nat), (∀ pos, k ≤ pos → pos < k + l.length → f pos = false) →
      (l.zipIdx k).map (fun x => if f x.2 then x.1 else g x.1) = l.map g := by
  intro l
  induction l with
  | nil => intro _ _; rfl
  | cons a t ih =>
    intro k h
    simp only [List.zipIdx_cons, List.map_cons, List.length_cons] at h ⊢
    rw [ih (k + 1) (fun pos h1 h2 => h pos (by omega) (by omega))]
    simp [h k (Nat.le_refl _) (by omega)]

theorem rescore_uncancelled (w : Worker) (o : Obs) (h : ∀ pos < w.hits.length, o.sawCancelRescore pos = false) :
    (rescore score w o).1.hits = w.hits.map (rescoreOne score w.pattern o.seen1) ∧
    (rescore score w o).2 = countPlace (w.hits.map (rescoreOne score w.pattern o.seen1)) ∧
    (rescore score w o).1.inFlight = w.inFlight ∧ (rescore score w o).1.lastSnapshot = w.lastSnapshot ∧
    (rescore score w o).1.pattern = w.pattern := by
  have key := zipIdx_map_uncancelled o.sawCancelRescore (rescoreOne score w.pattern o.seen1) w.hits 0
      (fun pos _ h2 => h pos (by omega))
  unfold rescore
  simp only [key]
  exact ⟨by trivial, by trivial, by trivial, by trivial, by trivial⟩

/-- what a run may assume about its observations: slots only ever go from unpublished to published, what it sees is
    the stream's content, the items it processed earlier are readable, the reservation counter does not go back and
    stays below the placeholder index, and (for the completed runs considered here) the cancel flag was never seen -/
structure RunEnv (S : Nat → Option Item) (w : Worker) (o : Obs) : Prop where
  mono : ∀ i it, o.seen0 i = some it → o.seen1 i = some it
  sound1 : ∀ i it, o.seen1 i = some it → S i = some it
  processed : ∀ i, i < w.lastSnapshot → i ∉ w.inFlight → o.seen1 i = S i
  countGe : w.lastSnapshot ≤ o.count
  countLt : o.count < PLACE
  noCancel : ∀ k, o.sawCancel k = false ∧ o.sawCancelRescore k = false
  noCancelSort : o.sortCanceled = false
  order : ∀ l, (o.inFlightOrder l).Perm l

/-- bookkeeping invariant of the worker -/
structure BK (w : Worker) : Prop where
  nodup : w.inFlight.Nodup
  below : ∀ i ∈ w.inFlight, i < w.lastSnapshot

theorem RunEnv.notCanceled {S : Nat → Option Item} {w : Worker} {o : Obs} (e : RunEnv S w o) (n : Nat) : o.canceled n = false := by
  unfold Obs.canceled
  simp only [e.noCancelSort, Bool.false_or, Bool.or_eq_false_iff, List.any_eq_false]
  exact ⟨fun k _ => by simp [(e.noCancel k).1], fun k _ => by simp [(e.noCancel k).2]⟩

/-- the matches of pattern `p` among the indices `P` of stream `S` -/
def idealHits (S : Nat → Option Item) (p : Nat) (P : List Nat) : List Match :=
  P.filterMap (fun i => ((S i).bind (score p)).map (fun s => Match.mk s i))

/-- rescoring fresh entries and dropping the placeholders leaves exactly the matches -/
theorem rescore_fresh_filter (p : Nat) (seen : Nat → Option Item) : ∀ (P : List Nat), (∀ i ∈ P, i ≠ PLACE) →
    (((P.map mk0).map (rescoreOne score p seen)).filter (fun m => !isPlace m)) = idealHits score seen p P := by
  intro P
  induction P with
  | nil => intro _; rfl
  | cons i t ih =>
    intro h
    have hi := h i (by simp)
    simp only [List.map_cons, idealHits, List.filterMap_cons]
    have iht := ih (fun j hj => h j (by simp [hj]))
    unfold idealHits at iht
    cases hs : (seen i).bind (score p) with
    | none =>
      have : rescoreOne score p seen (mk0 i) = ⟨0, PLACE⟩ := by simp [rescoreOne, mk0, hi, hs]
      rw [this]
      simp only [List.filter_cons, isPlace, beq_self_eq_true, Bool.not_true, Bool.false_eq_true, if_false, Option.map_none]
      exact iht
    | some s =>
      have : rescoreOne score p seen (mk0 i) = ⟨s, i⟩ := by simp [rescoreOne, mk0, hi, hs]
      rw [this]
      have hnp : isPlace ⟨s, i⟩ = false := by simp [isPlace, hi]
      simp only [List.filter_cons, hnp, Bool.not_false, if_true, Option.map_some]
      rw [iht]

theorem idealHits_congr (S S' : Nat → Option Item) (p : Nat) (P : List Nat) (h : ∀ i ∈ P, S i = S' i) :
    idealHits score S p P = idealHits score S' p P := by
  unfold idealHits
  induction P with
  | nil => rfl
  | cons i t ih =>
    simp only [List.filterMap_cons, h i (by simp)]
    rw [ih (fun j hj => h j (by simp [hj]))]

/-- the sort-and-truncate end of an un-cancelled run keeps exactly the non-placeholder entries, sorted -/
theorem finish_uncancelled (w : Worker) (unmatched passLen : Nat) (o : Obs) (hc : o.canceled passLen = false)
    (hu : unmatched = countPlace w.hits) (h0 : ∀ m ∈ w.hits, isPlace m = true → m.score = 0) :
    (Worker.finish len w unmatched passLen o).1.hits = (sortMatches len o.seen1 w.hits).filter (fun m => !isPlace m) ∧
    (Worker.finish len w unmatched passLen o).1.inFlight = w.inFlight ∧
    (Worker.finish len w unmatched passLen o).1.lastSnapshot = w.lastSnapshot ∧
    (Worker.finish len w unmatched passLen o).1.wasCanceled = w.wasCanceled ∧
    (Worker.finish len w unmatched passLen o).1.pattern = w.pattern := by
  unfold Worker.finish
  simp only [hc, Bool.false_eq_true, if_false]
  refine ⟨?_, by trivial, by trivial, by trivial, by trivial⟩
  have hp := sortMatches_perm len o.seen1 w.hits
  have hcount : unmatched = ((sortMatches len o.seen1 w.hits).filter isPlace).length := by
    rw [hu, countPlace_eq]; exact (hp.filter _).length_eq.symm
  rw [hcount]
  exact take_drops_places len o.seen1 _ (sortMatches_sorted len o.seen1 w.hits)
    (fun m hm => h0 m (hp.subset hm))

theorem keepIdx_lt (last : Nat) (R : List Nat) : ∀ i ∈ keepIdx last R, i < last := by
  intro i hi
  unfold keepIdx at hi
  exact List.mem_range.mp (List.mem_filter.mp hi).1

theorem sorted_filter_notPlace (items : Nat → Option Item) (l : List Match) :
    ((sortMatches len items l).filter (fun m => !isPlace m)).Perm (l.filter (fun m => !isPlace m)) ∧
    ((sortMatches len items l).filter (fun m => !isPlace m)).Pairwise (mle len items) :=
  ⟨(sortMatches_perm len items l).filter _, (sortMatches_sorted len items l).filter _⟩

/-- what `process_new_items` does to one new slot when the run is not interrupted -/
def scoreNewOne (p : Nat) (seen : Nat → Option Item) (i : Nat) : Match :=
  match seen i with
  | none => Match.mk 0 PLACE
  | some it => scoreNewItem score p it i

theorem scoreNew_filter (p : Nat) (seen : Nat → Option Item) : ∀ (l : List Nat), (∀ i ∈ l, i ≠ PLACE) →
    ((l.map (scoreNewOne score p seen)).filter (fun m => !isPlace m)) =
      idealHits score seen p (l.filter (fun i => (seen i).isSome)) := by
  intro l
  induction l with
  | nil => intro _; rfl
  | cons i t ih =>
    intro h
    have hi := h i (by simp)
    have iht := ih (fun j hj => h j (by simp [hj]))
    simp only [List.map_cons, List.filter_cons]
    cases hs : seen i with
    | none =>
      have : scoreNewOne score p seen i = ⟨0, PLACE⟩ := by simp [scoreNewOne, hs]
      simp only [this, isPlace, beq_self_eq_true, Bool.not_true, Bool.false_eq_true, if_false, Option.isSome_none]
      exact iht
    | some it =>
      cases hsc : score p it with
      | none =>
        have : scoreNewOne score p seen i = ⟨0, PLACE⟩ := by simp [scoreNewOne, scoreNewItem, hs, hsc]
        simp only [this, isPlace, beq_self_eq_true, Bool.not_true, Bool.false_eq_true, if_false, Option.isSome_some, if_true]
        unfold idealHits
        simp only [List.filterMap_cons, hs, Option.bind_some, hsc, Option.map_none]
        exact iht
      | some sc =>
        have : scoreNewOne score p seen i = ⟨sc, i⟩ := by simp [scoreNewOne, scoreNewItem, hs, hsc]
        have hnp : isPlace ⟨sc, i⟩ = false := by simp [isPlace, hi]
        simp only [this, hnp, Bool.not_false, if_true, Option.isSome_some]
        unfold idealHits
        simp only [List.filterMap_cons, hs, Option.bind_some, hsc, Option.map_some]
        rw [iht]; rfl

/-- `process_new_items` on a worker with no hits whose in-flight indices are all still unpublished, not interrupted -/
theorem processNew_fresh (w : Worker) (o : Obs) (hh : w.hits = []) (hfl : ∀ i ∈ w.inFlight, (o.seen0 i).isNone = true)
    (hnc : ∀ k, o.sawCancel k = false) (hord : ∀ l, (o.inFlightOrder l).Perm l) (hc : w.lastSnapshot ≤ o.count) :
    (processNew score w o).1.hits = ((List.range (o.count - w.lastSnapshot)).map (· + w.lastSnapshot)).map (scoreNewOne score w.pattern o.seen1) ∧
    (processNew score w o).2 = countPlace (((List.range (o.count - w.lastSnapshot)).map (· + w.lastSnapshot)).map (scoreNewOne score w.pattern o.seen1)) ∧
    (processNew score w o).1.inFlight.Perm (w.inFlight ++ ((List.range (o.count - w.lastSnapshot)).map (· + w.lastSnapshot)).filter (fun i => (o.seen1 i).isNone)) ∧
    (processNew score w o).1.lastSnapshot = o.count ∧ (processNew score w o).1.pattern = w.pattern ∧
    (processNew score w o).1.wasCanceled = w.wasCanceled := by
  have hstill : w.inFlight.filter (fun i => (o.seen0 i).isNone) = w.inFlight := List.filter_eq_self.mpr hfl
  have hnow : w.inFlight.filter (fun i => (o.seen0 i).isSome) = [] := by
    apply List.filter_eq_nil_iff.mpr
    intro i hi
    have := hfl i hi
    cases h0 : o.seen0 i with
    | none => simp
    | some it => rw [h0] at this; cases this
  unfold processNew
  simp only [hstill, hnow, hh, List.filterMap_nil, List.append_nil, List.nil_append]
  by_cases hcount : o.count ≠ w.lastSnapshot
  · simp only [hcount, ne_eq, not_false_eq_true, if_true]
    have hmap : ∀ (pp : Nat → Nat) (l : List Nat), l.map (scoreNewSlot score w.pattern o pp) = l.map (scoreNewOne score w.pattern o.seen1) := by
      intro pp l
      apply List.map_congr_left
      intro i _
      unfold scoreNewSlot scoreNewOne
      cases o.seen1 i with
      | none => rfl
      | some it => simp only [hnc, Bool.false_eq_true, if_false]
    simp only [hmap]
    exact ⟨by trivial, by trivial, List.Perm.append_left _ (hord _), by trivial, by trivial, by trivial⟩
  · have hcount' : o.count = w.lastSnapshot := by simpa using hcount
    simp only [hcount', ne_eq, not_true_eq_false, if_false, Nat.sub_self, List.range_zero, List.map_nil, List.filter_nil,
      List.append_nil]
    exact ⟨by trivial, by trivial, List.Perm.refl _, by trivial, by trivial, by trivial⟩

theorem scorePass_rescore_nonempty (w : Worker) (o : Obs)
    (h : (resetMatches w o.seen0).hits.isEmpty = false) :
    Worker.scorePass score w .rescore o =
      ((rescore score (processTrivial (resetMatches w o.seen0) o.seen1 o.count) o).1,
       (rescore score (processTrivial (resetMatches w o.seen0) o.seen1 o.count) o).2,
       (processTrivial (resetMatches w o.seen0) o.seen1 o.count).hits.length) := by
  unfold Worker.scorePass
  simp [h]

theorem scorePass_rescore_empty (w : Worker) (o : Obs)
    (h : (resetMatches w o.seen0).hits.isEmpty = true) :
    Worker.scorePass score w .rescore o =
      ((processNew score (resetMatches w o.seen0) o).1, (processNew score (resetMatches w o.seen0) o).2,
       o.count - (resetMatches w o.seen0).lastSnapshot) := by
  unfold Worker.scorePass
  simp [h]

/-- **the run contract for a full rescoring run** (pattern changed in a way that is not an appended edit — or any
    first run): whatever the worker's match list looked like before (left by completed, timed-out or cancelled runs),
    provided its bookkeeping (`BK`) is intact, a run that is not cancelled ends with exactly the matches of the current
    pattern among the processed items — the earlier processed ones plus the newly published ones — in sorted order, and
    with the still-unpublished indices recorded as in flight -/
theorem C06_rescore_run (S : Nat → Option Item) (w : Worker) (o : Obs) (bk : BK w) (env : RunEnv S w o)
    (still new P : List Nat) (w' : Worker)
    (hstill : still = (sortNat w.inFlight).filter (fun i => (o.seen0 i).isNone))
    (hnew : new = (List.range (o.count - w.lastSnapshot)).map (· + w.lastSnapshot))
    (hP : P = keepIdx w.lastSnapshot still ++ new.filter (fun i => (o.seen1 i).isSome))
    (hw' : w' = (Worker.run score len w .rescore false false o).1) :
    w'.hits.Perm (idealHits score S w.pattern P) ∧ w'.hits.Pairwise (mle len o.seen1) ∧
    w'.lastSnapshot = o.count ∧ w'.inFlight.Perm (still ++ new.filter (fun i => (o.seen1 i).isNone)) ∧
    w'.wasCanceled = false ∧ w'.pattern = w.pattern := by
  -- the reset
  have hb : (w.begin false) = { w with running := true, wasCanceled := false } := by simp [Worker.begin]
  have rs := resetMatches_spec (w.begin false) o.seen0 (by rw [hb]; exact bk.below) (by rw [hb]; exact bk.nodup)
  rw [hb] at rs
  simp only at rs
  rw [← hstill] at rs
  obtain ⟨r1, r2, r3, r4⟩ := rs
  -- all indices involved are real indices
  have hnewlt : ∀ i ∈ new, i < o.count := by
    intro i hi
    rw [hnew] at hi
    simp only [List.mem_map, List.mem_range] at hi
    obtain ⟨k, hk, rfl⟩ := hi
    have := env.countGe; omega
  have hPne : ∀ i ∈ P, i ≠ PLACE := by
    intro i hi
    rw [hP] at hi
    simp only [List.mem_append, List.mem_filter] at hi
    have := env.countLt; have := env.countGe
    rcases hi with hi | hi
    · have := keepIdx_lt _ _ i hi; omega
    · have := hnewlt i hi.1; omega
  -- what is seen of the indices in P is the stream's content
  have hPS : ∀ i ∈ P, o.seen1 i = S i := by
    intro i hi
    rw [hP] at hi
    simp only [List.mem_append, List.mem_filter] at hi
    rcases hi with hi | hi
    · have hlt := keepIdx_lt _ _ i hi
      unfold keepIdx at hi
      have hns : i ∉ still := by simpa using (List.mem_filter.mp hi).2
      by_cases hin : i ∈ w.inFlight
      · -- in flight before, published by the time of `seen0`
        have hin' : i ∈ sortNat w.inFlight := (C06_in_flight_sorted w.inFlight).2.symm.subset hin
        have hsome : (o.seen0 i).isNone = false := by
          cases hh : (o.seen0 i).isNone with
          | false => rfl
          | true => exact absurd (by rw [hstill]; exact List.mem_filter.mpr ⟨hin', hh⟩) hns
        cases h0 : o.seen0 i with
        | none => rw [h0] at hsome; cases hsome
        | some it => rw [env.mono i it h0, env.sound1 i it (env.mono i it h0)]
      · exact env.processed i hlt hin
    · cases h1 : o.seen1 i with
      | none => rw [h1] at hi; simp at hi
      | some it => rw [env.sound1 i it h1]
  have hcan : ∀ n, o.canceled n = false := env.notCanceled
  subst hw'
  unfold Worker.run
  simp only [Bool.false_eq_true, if_false]
  rw [hb]
  generalize hwb : ({ w with running := true, wasCanceled := false } : Worker) = wb at r1 r2 r3 r4
  have hwbc : wb.wasCanceled = false := by rw [← hwb]
  by_cases hemp : (resetMatches wb o.seen0).hits.isEmpty = true
  · -- nothing processed so far: the pass over the new slots does the scoring
    rw [scorePass_rescore_empty score wb o hemp]
    simp only
    generalize hw1 : resetMatches wb o.seen0 = w1 at r1 r2 r3 r4 hemp
    have hh : w1.hits = [] := List.isEmpty_iff.mp hemp
    have hkeep : keepIdx w.lastSnapshot still = [] := by
      rw [r1] at hh
      exact List.map_eq_nil_iff.mp hh
    have hfl : ∀ i ∈ w1.inFlight, (o.seen0 i).isNone = true := by
      intro i hi
      rw [r2, hstill] at hi
      exact (List.mem_filter.mp hi).2
    have pn := processNew_fresh score w1 o hh hfl (fun k => (env.noCancel k).1) env.order (by rw [r3]; exact env.countGe)
    rw [r3, ← hnew, r4, r2] at pn
    obtain ⟨n1, n2, n3, n4, n5, n6⟩ := pn
    have hnewne : ∀ i ∈ new, i ≠ PLACE := by
      intro i hi; have := hnewlt i hi; have := env.countLt; omega
    have h0 : ∀ m ∈ (processNew score w1 o).1.hits, isPlace m = true → m.score = 0 := by
      intro m hm hp
      rw [n1] at hm
      simp only [List.mem_map] at hm
      obtain ⟨i, hi, rfl⟩ := hm
      have hi' := hnewne i hi
      unfold scoreNewOne scoreNewItem at hp ⊢
      cases hs1 : o.seen1 i with
      | none => rfl
      | some it =>
        rw [hs1] at hp
        simp only at hp ⊢
        cases hsc : score w.pattern it with
        | none => rfl
        | some sc => rw [hsc] at hp; simp [isPlace, hi'] at hp
    have fu := finish_uncancelled len (processNew score w1 o).1 (processNew score w1 o).2 (o.count - w1.lastSnapshot) o (hcan _)
      (by rw [n2, n1]) h0
    obtain ⟨f1, f2, f3, f4, f5⟩ := fu
    have hsf := sorted_filter_notPlace len o.seen1 (processNew score w1 o).1.hits
    have hPeq : P = new.filter (fun i => (o.seen1 i).isSome) := by rw [hP, hkeep]; rfl
    refine ⟨?_, ?_, ?_, ?_, ?_, ?_⟩
    · rw [f1]
      refine hsf.1.trans ?_
      rw [n1, scoreNew_filter score w.pattern o.seen1 new hnewne, ← hPeq,
        idealHits_congr score o.seen1 S w.pattern P hPS]
    · rw [f1]; exact hsf.2
    · rw [f3, n4]
    · rw [f2]; exact n3
    · rw [f4, n6, ← hw1, (resetMatches_fields wb o.seen0).2.2]; exact hwbc
    · rw [f5, n5]
  · have hemp' : (resetMatches wb o.seen0).hits.isEmpty = false := by simpa using hemp
    rw [scorePass_rescore_nonempty score wb o hemp']
    simp only
    generalize hw1 : resetMatches wb o.seen0 = w1 at r1 r2 r3 r4
    have pt := processTrivial_spec w1 o.seen1 o.count (by rw [r3]; exact env.countGe)
    rw [r3, ← hnew] at pt
    obtain ⟨p1, p2, p3, p4⟩ := pt
    generalize hw2 : processTrivial w1 o.seen1 o.count = w2 at p1 p2 p3 p4
    have hH : w2.hits = P.map mk0 := by rw [p1, r1, hP]; simp only [List.map_append]
    have ru := rescore_uncancelled score w2 o (fun pos _ => (env.noCancel pos).2)
    obtain ⟨u1, u2, u3, u4, u5⟩ := ru
    have h0 : ∀ m ∈ (rescore score w2 o).1.hits, isPlace m = true → m.score = 0 := by
      intro m hm hp
      rw [u1, hH] at hm
      simp only [List.mem_map] at hm
      obtain ⟨m0, ⟨i, hi, rfl⟩, rfl⟩ := hm
      have hi' := hPne i hi
      unfold rescoreOne mk0 at hp ⊢
      simp only [hi', if_false] at hp ⊢
      split
      · rename_i s hs; rw [hs] at hp; simp [isPlace, hi'] at hp
      · rfl
    have fu := finish_uncancelled len (rescore score w2 o).1 (rescore score w2 o).2 w2.hits.length o (hcan _)
      (by rw [u2, u1]) h0
    obtain ⟨f1, f2, f3, f4, f5⟩ := fu
    have hsf := sorted_filter_notPlace len o.seen1 (rescore score w2 o).1.hits
    refine ⟨?_, ?_, ?_, ?_, ?_, ?_⟩
    · rw [f1]
      refine hsf.1.trans ?_
      rw [u1, hH, p4, r4, rescore_fresh_filter score w.pattern o.seen1 P hPne,
        idealHits_congr score o.seen1 S w.pattern P hPS]
    · rw [f1]; exact hsf.2
    · rw [f3, u4, p3]
    · rw [f2, u3, p2, r2]
    · rw [f4]
      unfold rescore
      simp only
      rw [← hw2, (processTrivial_fields w1 o.seen1 o.count).2.2, ← hw1, (resetMatches_fields wb o.seen0).2.2]
      exact hwbc
    · rw [f5, u5, p4, r4]

/-- the indices the worker has accounted for: everything below its snapshot end that is not recorded as in flight -/
def processed (w : Worker) : List Nat := keepIdx w.lastSnapshot w.inFlight

theorem idealHits_perm (S : Nat → Option Item) (p : Nat) (P P' : List Nat) (h : P.Perm P') :
    (idealHits score S p P).Perm (idealHits score S p P') := by
  unfold idealHits
  exact h.filterMap _

theorem mem_keepIdx (last : Nat) (R : List Nat) (i : Nat) : i ∈ keepIdx last R ↔ i < last ∧ i ∉ R := by
  unfold keepIdx
  simp [List.mem_filter]

theorem keepIdx_nodup (last : Nat) (R : List Nat) : (keepIdx last R).Nodup := by
  unfold keepIdx
  exact (List.nodup_range).filter _

/-- **after a completed rescoring run the worker's state is exactly right**: its match list is a sorted permutation
    of the current pattern's matches among the items it has accounted for, its bookkeeping invariant holds again, and
    the item count it reports is the number of accounted items -/
theorem C06_rescore_run_contract (S : Nat → Option Item) (w : Worker) (o : Obs) (bk : BK w) (env : RunEnv S w o) :
    let w' := (Worker.run score len w .rescore false false o).1
    w'.hits.Perm (idealHits score S w'.pattern (processed w')) ∧ w'.hits.Pairwise (mle len o.seen1) ∧
    BK w' ∧ w'.itemCount = (processed w').length ∧ w'.lastSnapshot = o.count ∧ w'.wasCanceled = false := by
  intro w'
  obtain ⟨c1, c2, c3, c4, c5, c6⟩ := C06_rescore_run score len S w o bk env _ _ _ w' rfl rfl rfl rfl
  generalize hstill : (sortNat w.inFlight).filter (fun i => (o.seen0 i).isNone) = still at *
  generalize hnew : (List.range (o.count - w.lastSnapshot)).map (· + w.lastSnapshot) = new at *
  have hsortp := (C06_in_flight_sorted w.inFlight).2
  have hstill_sub : ∀ i ∈ still, i ∈ w.inFlight := by
    intro i hi; rw [← hstill] at hi; exact hsortp.subset (List.mem_filter.mp hi).1
  have hstill_nd : still.Nodup := by rw [← hstill]; exact (hsortp.nodup_iff.mpr bk.nodup).filter _
  have hnew_mem : ∀ i, i ∈ new ↔ w.lastSnapshot ≤ i ∧ i < o.count := by
    intro i
    rw [← hnew]
    simp only [List.mem_map, List.mem_range]
    constructor
    · rintro ⟨k, hk, rfl⟩; have := env.countGe; omega
    · intro ⟨h1, h2⟩; exact ⟨i - w.lastSnapshot, by omega, by omega⟩
  have hnew_nd : new.Nodup := by
    rw [← hnew]
    have : (List.range (o.count - w.lastSnapshot)).Pairwise (fun a b => a + w.lastSnapshot ≠ b + w.lastSnapshot) :=
      (List.nodup_range (n := o.count - w.lastSnapshot)).imp (fun h => by omega)
    exact List.pairwise_map.mpr this
  -- bookkeeping
  have hbk : BK w' := by
    refine ⟨c4.nodup_iff.mpr ?_, ?_⟩
    · rw [List.nodup_append]
      refine ⟨hstill_nd, hnew_nd.filter _, ?_⟩
      intro a ha b hb
      have h1 := bk.below a (hstill_sub a ha)
      have h2 := (hnew_mem b).mp (List.mem_filter.mp hb).1
      omega
    · intro i hi
      rw [c3]
      have := c4.subset hi
      simp only [List.mem_append, List.mem_filter] at this
      rcases this with h | h
      · have := bk.below i (hstill_sub i h); have := env.countGe; omega
      · exact ((hnew_mem i).mp h.1).2
  -- the accounted indices
  have hproc : (keepIdx w.lastSnapshot still ++ new.filter (fun i => (o.seen1 i).isSome)).Perm (processed w') := by
    rw [List.perm_ext_iff_of_nodup]
    · intro i
      unfold processed
      rw [mem_keepIdx, c3, List.mem_append, mem_keepIdx, List.mem_filter]
      have hin : i ∈ w'.inFlight ↔ (i ∈ still ∨ (i ∈ new ∧ (o.seen1 i).isNone = true)) := by
        rw [c4.mem_iff, List.mem_append, List.mem_filter]
      rw [hin, hnew_mem]
      constructor
      · rintro (⟨h1, h2⟩ | ⟨⟨h1, h2⟩, h3⟩)
        · refine ⟨by have := env.countGe; omega, ?_⟩
          rintro (h | ⟨⟨h, _⟩, _⟩)
          · exact h2 h
          · omega
        · refine ⟨h2, ?_⟩
          rintro (h | ⟨_, h⟩)
          · have := bk.below i (hstill_sub i h); omega
          · cases hs : o.seen1 i with
            | none => rw [hs] at h3; cases h3
            | some it => rw [hs] at h; cases h
      · intro ⟨h1, h2⟩
        by_cases hlt : i < w.lastSnapshot
        · left; exact ⟨hlt, fun h => h2 (Or.inl h)⟩
        · right
          refine ⟨⟨by omega, h1⟩, ?_⟩
          cases hs : o.seen1 i with
          | none => exact absurd (Or.inr ⟨⟨by omega, h1⟩, by rw [hs]; rfl⟩) h2
          | some it => rfl
    · rw [List.nodup_append]
      refine ⟨keepIdx_nodup _ _, hnew_nd.filter _, ?_⟩
      intro a ha b hb
      have h1 := ((mem_keepIdx _ _ a).mp ha).1
      have h2 := (hnew_mem b).mp (List.mem_filter.mp hb).1
      omega
    · exact keepIdx_nodup _ _
  refine ⟨?_, c2, hbk, ?_, c3, c5⟩
  · rw [c6]
    exact c1.trans (idealHits_perm score S w.pattern _ _ hproc)
  · unfold Worker.itemCount processed
    rw [keepIdx_length _ _ hbk.below hbk.nodup]


/-- a run on a cleared worker (first run after `restart`) is a run from the empty state -/
def Worker.clearedState (w : Worker) : Worker := { w with lastSnapshot := 0, inFlight := [], hits := [] }

theorem run_cleared (w : Worker) (st : PStatus) (pe : Bool) (o : Obs) :
    Worker.run score len w st true pe o = Worker.run score len w.clearedState st false pe o := by
  unfold Worker.run Worker.begin Worker.clearedState
  simp

theorem BK_cleared (w : Worker) : BK w.clearedState := ⟨List.nodup_nil, by intro i hi; cases hi⟩

/-- **a completed run with the empty pattern lists every accounted item, with score 0, in insertion (index) order** —
    from any state whose bookkeeping is intact -/
theorem C06_trivial_run_contract (w : Worker) (o : Obs) (bk : BK w) (hc : w.lastSnapshot ≤ o.count) :
    let w' := (Worker.run score len w .unchanged false true o).1
    w'.hits = (processed w').map mk0 ∧ BK w' ∧ w'.itemCount = (processed w').length ∧ w'.lastSnapshot = o.count := by
  intro w'
  have hb : (w.begin false) = { w with running := true, wasCanceled := false } := by simp [Worker.begin]
  have rs := resetMatches_spec (w.begin false) o.seen0 (by rw [hb]; exact bk.below) (by rw [hb]; exact bk.nodup)
  rw [hb] at rs
  simp only at rs
  obtain ⟨r1, r2, r3, r4⟩ := rs
  have hw' : w' = processTrivial (resetMatches { w with running := true, wasCanceled := false } o.seen0) o.seen1 o.count := by
    show (Worker.run score len w .unchanged false true o).1 = _
    unfold Worker.run
    simp only [if_true]
    rw [hb]
  generalize hw1 : resetMatches { w with running := true, wasCanceled := false } o.seen0 = w1 at r1 r2 r3 r4 hw'
  have pt := processTrivial_spec w1 o.seen1 o.count (by rw [r3]; exact hc)
  rw [r3, ← hw'] at pt
  obtain ⟨p1, p2, p3, p4⟩ := pt
  generalize hstill : (sortNat w.inFlight).filter (fun i => (o.seen0 i).isNone) = still at *
  generalize hnew : (List.range (o.count - w.lastSnapshot)).map (· + w.lastSnapshot) = new at *
  have hsortp := (C06_in_flight_sorted w.inFlight).2
  have hstill_sub : ∀ i ∈ still, i ∈ w.inFlight := by
    intro i hi; rw [← hstill] at hi; exact hsortp.subset (List.mem_filter.mp hi).1
  have hstill_nd : still.Nodup := by rw [← hstill]; exact (hsortp.nodup_iff.mpr bk.nodup).filter _
  have hnew_mem : ∀ i, i ∈ new ↔ w.lastSnapshot ≤ i ∧ i < o.count := by
    intro i
    rw [← hnew]
    simp only [List.mem_map, List.mem_range]
    constructor
    · rintro ⟨k, hk, rfl⟩; omega
    · intro ⟨h1, h2⟩; exact ⟨i - w.lastSnapshot, by omega, by omega⟩
  have hnew_sorted : new.Pairwise (· < ·) := by
    rw [← hnew]
    have : (List.range (o.count - w.lastSnapshot)).Pairwise (fun a b => a + w.lastSnapshot < b + w.lastSnapshot) :=
      (List.pairwise_lt_range (n := o.count - w.lastSnapshot)).imp (fun h => by omega)
    exact List.pairwise_map.mpr this
  have hbk : BK w' := by
    refine ⟨?_, ?_⟩
    · rw [p2, r2, List.nodup_append]
      refine ⟨hstill_nd, (hnew_sorted.imp (fun h => Nat.ne_of_lt h)).filter _, ?_⟩
      intro a ha b hb'
      have h1 := bk.below a (hstill_sub a ha)
      have h2 := (hnew_mem b).mp (List.mem_filter.mp hb').1
      omega
    · intro i hi
      rw [p3]
      rw [p2, r2] at hi
      simp only [List.mem_append, List.mem_filter] at hi
      rcases hi with h | h
      · have := bk.below i (hstill_sub i h); omega
      · exact ((hnew_mem i).mp h.1).2
  -- both index lists are strictly increasing and have the same members
  have hP_sorted : (keepIdx w.lastSnapshot still ++ new.filter (fun i => (o.seen1 i).isSome)).Pairwise (· < ·) := by
    rw [List.pairwise_append]
    refine ⟨?_, hnew_sorted.filter _, ?_⟩
    · unfold keepIdx; exact (List.pairwise_lt_range).filter _
    · intro a ha b hb'
      have h1 := ((mem_keepIdx _ _ a).mp ha).1
      have h2 := (hnew_mem b).mp (List.mem_filter.mp hb').1
      omega
  have hproc_sorted : (processed w').Pairwise (· < ·) := by
    unfold processed keepIdx; exact (List.pairwise_lt_range).filter _
  have hmem : ∀ i, i ∈ keepIdx w.lastSnapshot still ++ new.filter (fun i => (o.seen1 i).isSome) ↔ i ∈ processed w' := by
    intro i
    unfold processed
    rw [mem_keepIdx, p3, List.mem_append, mem_keepIdx, List.mem_filter, p2, r2, List.mem_append, List.mem_filter, hnew_mem]
    constructor
    · rintro (⟨h1, h2⟩ | ⟨⟨h1, h2⟩, h3⟩)
      · refine ⟨by omega, ?_⟩
        rintro (h | ⟨⟨h, _⟩, _⟩)
        · exact h2 h
        · omega
      · refine ⟨h2, ?_⟩
        rintro (h | ⟨_, h⟩)
        · have := bk.below i (hstill_sub i h); omega
        · cases hs : o.seen1 i with
          | none => rw [hs] at h3; cases h3
          | some it => rw [hs] at h; cases h
    · intro ⟨h1, h2⟩
      by_cases hlt : i < w.lastSnapshot
      · left; exact ⟨hlt, fun h => h2 (Or.inl h)⟩
      · right
        refine ⟨⟨by omega, h1⟩, ?_⟩
        cases hs : o.seen1 i with
        | none => exact absurd (Or.inr ⟨⟨by omega, h1⟩, by rw [hs]; rfl⟩) h2
        | some it => rfl
  have heq : keepIdx w.lastSnapshot still ++ new.filter (fun i => (o.seen1 i).isSome) = processed w' := by
    apply PS.sorted_perm_unique (fun a b => decide (a < b)) (by intro a b h; simp only [decide_eq_true_eq]; omega)
    · exact hP_sorted.imp (fun h => by simp only [decide_eq_false_iff_not]; omega)
    · exact hproc_sorted.imp (fun h => by simp only [decide_eq_false_iff_not]; omega)
    · rw [List.perm_ext_iff_of_nodup (hP_sorted.imp (fun h => Nat.ne_of_lt h)) (hproc_sorted.imp (fun h => Nat.ne_of_lt h))]
      exact hmem
  refine ⟨?_, hbk, ?_, p3⟩
  · rw [p1, r1, ← heq, List.map_append]
  · unfold Worker.itemCount processed
    rw [keepIdx_length _ _ hbk.below hbk.nodup]


/-! ## the incremental paths: unchanged pattern, appended edit -/

theorem idealHits_append (S : Nat → Option Item) (p : Nat) (P Q : List Nat) :
    idealHits score S p (P ++ Q) = idealHits score S p P ++ idealHits score S p Q := by
  unfold idealHits; simp

theorem idealHits_notPlace (S : Nat → Option Item) (p : Nat) (P : List Nat) (hP : ∀ i ∈ P, i ≠ PLACE) :
    ∀ m ∈ idealHits score S p P, isPlace m = false := by
  intro m hm
  unfold idealHits at hm
  simp only [List.mem_filterMap] at hm
  obtain ⟨i, hi, hmi⟩ := hm
  cases hs : (S i).bind (score p) with
  | none => rw [hs] at hmi; simp at hmi
  | some s =>
    rw [hs] at hmi
    simp only [Option.map_some, Option.some.injEq] at hmi
    subst hmi
    simp [isPlace, hP i hi]

/-- the general form of `process_new_items` when it is not interrupted -/
theorem processNew_uncancelled (w : Worker) (o : Obs) (hnc : ∀ k, o.sawCancel k = false) (hord : ∀ l, (o.inFlightOrder l).Perm l) :
    (processNew score w o).1.hits =
      w.hits ++ idealHits score o.seen0 w.pattern (w.inFlight.filter (fun i => (o.seen0 i).isSome)) ++
        ((List.range (o.count - w.lastSnapshot)).map (· + w.lastSnapshot)).map (scoreNewOne score w.pattern o.seen1) ∧
    (processNew score w o).2 = countPlace (((List.range (o.count - w.lastSnapshot)).map (· + w.lastSnapshot)).map (scoreNewOne score w.pattern o.seen1)) ∧
    (processNew score w o).1.inFlight.Perm (w.inFlight.filter (fun i => (o.seen0 i).isNone) ++
      ((List.range (o.count - w.lastSnapshot)).map (· + w.lastSnapshot)).filter (fun i => (o.seen1 i).isNone)) ∧
    (processNew score w o).1.lastSnapshot = o.count ∧ (processNew score w o).1.pattern = w.pattern ∧
    (processNew score w o).1.wasCanceled = w.wasCanceled := by
  have hideal : (w.inFlight.filter (fun i => (o.seen0 i).isSome)).filterMap
      (fun i => (o.seen0 i).bind (fun it => (score w.pattern it).map (fun s => Match.mk s i))) =
      idealHits score o.seen0 w.pattern (w.inFlight.filter (fun i => (o.seen0 i).isSome)) := by
    unfold idealHits
    have : (fun i => (o.seen0 i).bind (fun it => (score w.pattern it).map (fun s => Match.mk s i))) =
        (fun i => ((o.seen0 i).bind (score w.pattern)).map (fun s => Match.mk s i)) := by
      funext i; cases o.seen0 i <;> rfl
    rw [this]
  have hmap : ∀ (pp : Nat → Nat) (l : List Nat), l.map (scoreNewSlot score w.pattern o pp) = l.map (scoreNewOne score w.pattern o.seen1) := by
    intro pp l
    apply List.map_congr_left
    intro i _
    unfold scoreNewSlot scoreNewOne
    cases o.seen1 i with
    | none => rfl
    | some it => simp only [hnc, Bool.false_eq_true, if_false]
  unfold processNew
  simp only [hideal, hmap]
  by_cases hcount : o.count ≠ w.lastSnapshot
  · simp only [hcount, ne_eq, not_false_eq_true, if_true]
    exact ⟨by trivial, by trivial, List.Perm.append_left _ (hord _), by trivial, by trivial, by trivial⟩
  · have hcount' : o.count = w.lastSnapshot := by simpa using hcount
    simp only [hcount', ne_eq, not_true_eq_false, if_false, Nat.sub_self, List.range_zero, List.map_nil, List.filter_nil,
      List.append_nil]
    exact ⟨by trivial, by trivial, List.Perm.refl _, by trivial, by trivial, by trivial⟩

theorem scorePass_unchanged (w : Worker) (o : Obs) :
    Worker.scorePass score w .unchanged o = ((processNew score w o).1, (processNew score w o).2, o.count - w.lastSnapshot) := by
  unfold Worker.scorePass
  simp

theorem filter_notPlace_of_all (l : List Match) (h : ∀ m ∈ l, isPlace m = false) : l.filter (fun m => !isPlace m) = l := by
  apply List.filter_eq_self.mpr
  intro m hm; simp [h m hm]

theorem filter_place_of_none (l : List Match) (h : ∀ m ∈ l, isPlace m = false) : l.filter isPlace = [] := by
  apply List.filter_eq_nil_iff.mpr
  intro m hm; simp [h m hm]

/-- **the run contract for a run with an unchanged pattern** (new items arrive, in-flight items complete): if the
    match list was right for the items accounted so far, a run that is not cancelled makes it right for the items
    accounted afterwards -/
theorem C06_unchanged_run_contract (S : Nat → Option Item) (w : Worker) (o : Obs) (bk : BK w) (env : RunEnv S w o)
    (hW : w.hits.Perm (idealHits score S w.pattern (processed w))) :
    let w' := (Worker.run score len w .unchanged false false o).1
    w'.hits.Perm (idealHits score S w'.pattern (processed w')) ∧ w'.hits.Pairwise (mle len o.seen1) ∧
    BK w' ∧ w'.itemCount = (processed w').length ∧ w'.lastSnapshot = o.count ∧ w'.wasCanceled = false := by
  intro w'
  have hb : (w.begin false) = { w with running := true, wasCanceled := false } := by simp [Worker.begin]
  have hw' : w' = (Worker.finish len (processNew score { w with running := true, wasCanceled := false } o).1
      (processNew score { w with running := true, wasCanceled := false } o).2 (o.count - w.lastSnapshot) o).1 := by
    show (Worker.run score len w .unchanged false false o).1 = _
    unfold Worker.run
    simp only [Bool.false_eq_true, if_false]
    rw [hb, scorePass_unchanged]
  generalize hwb : ({ w with running := true, wasCanceled := false } : Worker) = wb at hw'
  have e_hits : wb.hits = w.hits := by rw [← hwb]
  have e_fl : wb.inFlight = w.inFlight := by rw [← hwb]
  have e_last : wb.lastSnapshot = w.lastSnapshot := by rw [← hwb]
  have e_pat : wb.pattern = w.pattern := by rw [← hwb]
  have e_wc : wb.wasCanceled = false := by rw [← hwb]
  have pn := processNew_uncancelled score wb o (fun k => (env.noCancel k).1) env.order
  rw [e_hits, e_fl, e_last, e_pat] at pn
  obtain ⟨n1, n2, n3, n4, n5, n6⟩ := pn
  generalize hnew : (List.range (o.count - w.lastSnapshot)).map (· + w.lastSnapshot) = new at *
  generalize hnow : w.inFlight.filter (fun i => (o.seen0 i).isSome) = nowPub at *
  generalize hstill : w.inFlight.filter (fun i => (o.seen0 i).isNone) = still at *
  have hnew_mem : ∀ i, i ∈ new ↔ w.lastSnapshot ≤ i ∧ i < o.count := by
    intro i
    rw [← hnew]
    simp only [List.mem_map, List.mem_range]
    constructor
    · rintro ⟨k, hk, rfl⟩; have := env.countGe; omega
    · intro ⟨h1, h2⟩; exact ⟨i - w.lastSnapshot, by omega, by omega⟩
  have hnew_nd : new.Nodup := by
    rw [← hnew]
    have : (List.range (o.count - w.lastSnapshot)).Pairwise (fun a b => a + w.lastSnapshot ≠ b + w.lastSnapshot) :=
      (List.nodup_range (n := o.count - w.lastSnapshot)).imp (fun h => by omega)
    exact List.pairwise_map.mpr this
  have hnewne : ∀ i ∈ new, i ≠ PLACE := by
    intro i hi; have := ((hnew_mem i).mp hi).2; have := env.countLt; omega
  have hnow_sub : ∀ i ∈ nowPub, i ∈ w.inFlight ∧ (o.seen0 i).isSome = true := by
    intro i hi; rw [← hnow] at hi; exact List.mem_filter.mp hi
  have hstill_sub : ∀ i ∈ still, i ∈ w.inFlight ∧ (o.seen0 i).isNone = true := by
    intro i hi; rw [← hstill] at hi; exact List.mem_filter.mp hi
  have hprocne : ∀ i ∈ processed w, i ≠ PLACE := by
    intro i hi
    have := ((mem_keepIdx _ _ i).mp hi).1
    have := env.countGe; have := env.countLt; omega
  have hnowne : ∀ i ∈ nowPub, i ≠ PLACE := by
    intro i hi
    have := bk.below i (hnow_sub i hi).1
    have := env.countGe; have := env.countLt; omega
  -- the three parts of the list before sorting
  have hA : ∀ m ∈ w.hits, isPlace m = false := fun m hm => idealHits_notPlace score S w.pattern _ hprocne m (hW.subset hm)
  have hB : ∀ m ∈ idealHits score o.seen0 w.pattern nowPub, isPlace m = false := idealHits_notPlace score o.seen0 w.pattern _ hnowne
  have h0 : ∀ m ∈ (processNew score wb o).1.hits, isPlace m = true → m.score = 0 := by
    intro m hm hp
    rw [n1] at hm
    simp only [List.mem_append] at hm
    rcases hm with (hm | hm) | hm
    · rw [hA m hm] at hp; cases hp
    · rw [hB m hm] at hp; cases hp
    · simp only [List.mem_map] at hm
      obtain ⟨i, hi, rfl⟩ := hm
      have hi' := hnewne i hi
      unfold scoreNewOne scoreNewItem at hp ⊢
      cases hs1 : o.seen1 i with
      | none => rfl
      | some it =>
        rw [hs1] at hp
        simp only at hp ⊢
        cases hsc : score w.pattern it with
        | none => rfl
        | some sc => rw [hsc] at hp; simp [isPlace, hi'] at hp
  have hcountP : (processNew score wb o).2 = countPlace (processNew score wb o).1.hits := by
    rw [n2, n1, countPlace_eq, countPlace_eq]
    simp only [List.filter_append, List.length_append, filter_place_of_none _ hA, filter_place_of_none _ hB,
      List.length_nil, Nat.zero_add]
  have fu := finish_uncancelled len (processNew score wb o).1 (processNew score wb o).2 (o.count - w.lastSnapshot) o
    (env.notCanceled _) hcountP h0
  rw [← hw'] at fu
  obtain ⟨f1, f2, f3, f4, f5⟩ := fu
  have hsf := sorted_filter_notPlace len o.seen1 (processNew score wb o).1.hits
  -- bookkeeping
  have hbk : BK w' := by
    refine ⟨?_, ?_⟩
    · rw [f2, n3.nodup_iff, List.nodup_append]
      refine ⟨by rw [← hstill]; exact bk.nodup.filter _, hnew_nd.filter _, ?_⟩
      intro a ha b hb'
      have h1 := bk.below a (hstill_sub a ha).1
      have h2 := (hnew_mem b).mp (List.mem_filter.mp hb').1
      omega
    · intro i hi
      rw [f3, n4]
      rw [f2] at hi
      have := n3.subset hi
      simp only [List.mem_append, List.mem_filter] at this
      rcases this with h | h
      · have := bk.below i (hstill_sub i h).1; have := env.countGe; omega
      · exact ((hnew_mem i).mp h.1).2
  -- the accounted indices afterwards
  have hproc : (processed w ++ nowPub ++ new.filter (fun i => (o.seen1 i).isSome)).Perm (processed w') := by
    rw [List.perm_ext_iff_of_nodup]
    · intro i
      have hin : i ∈ w'.inFlight ↔ (i ∈ still ∨ (i ∈ new ∧ (o.seen1 i).isNone = true)) := by
        rw [f2, n3.mem_iff, List.mem_append, List.mem_filter]
      unfold processed
      rw [mem_keepIdx, f3, n4, hin, List.mem_append, List.mem_append, mem_keepIdx, List.mem_filter, hnew_mem]
      constructor
      · rintro ((⟨h1, h2⟩ | h) | ⟨⟨h1, h2⟩, h3⟩)
        · refine ⟨by have := env.countGe; omega, ?_⟩
          rintro (h | ⟨⟨h, _⟩, _⟩)
          · exact h2 (hstill_sub i h).1
          · omega
        · have hh := hnow_sub i h
          refine ⟨by have := bk.below i hh.1; have := env.countGe; omega, ?_⟩
          rintro (h' | ⟨⟨h', _⟩, _⟩)
          · have := (hstill_sub i h').2
            cases hs : o.seen0 i with
            | none => rw [hs] at hh; cases hh.2
            | some it => rw [hs] at this; cases this
          · have := bk.below i hh.1; omega
        · refine ⟨h2, ?_⟩
          rintro (h | ⟨_, h⟩)
          · have := bk.below i (hstill_sub i h).1; omega
          · cases hs : o.seen1 i with
            | none => rw [hs] at h3; cases h3
            | some it => rw [hs] at h; cases h
      · intro ⟨h1, h2⟩
        by_cases hlt : i < w.lastSnapshot
        · by_cases hin' : i ∈ w.inFlight
          · left; right
            rw [← hnow, List.mem_filter]
            refine ⟨hin', ?_⟩
            cases hs : o.seen0 i with
            | some it => rfl
            | none => exact absurd (Or.inl (by rw [← hstill, List.mem_filter]; exact ⟨hin', by rw [hs]; rfl⟩)) h2
          · left; left; exact ⟨hlt, hin'⟩
        · right
          refine ⟨⟨by omega, h1⟩, ?_⟩
          cases hs : o.seen1 i with
          | none => exact absurd (Or.inr ⟨⟨by omega, h1⟩, by rw [hs]; rfl⟩) h2
          | some it => rfl
    · rw [List.nodup_append]
      refine ⟨?_, hnew_nd.filter _, ?_⟩
      · rw [List.nodup_append]
        refine ⟨keepIdx_nodup _ _, by rw [← hnow]; exact bk.nodup.filter _, ?_⟩
        intro a ha b hb' e
        subst e
        exact ((mem_keepIdx _ _ a).mp ha).2 (hnow_sub a hb').1
      · intro a ha b hb'
        have h2 := (hnew_mem b).mp (List.mem_filter.mp hb').1
        simp only [List.mem_append] at ha
        rcases ha with ha | ha
        · have := ((mem_keepIdx _ _ a).mp ha).1; omega
        · have := bk.below a (hnow_sub a ha).1; omega
    · exact keepIdx_nodup _ _
  -- observations agree with the stream on what they show
  have hS0 : ∀ i ∈ nowPub, o.seen0 i = S i := by
    intro i hi
    have := (hnow_sub i hi).2
    cases hs : o.seen0 i with
    | none => rw [hs] at this; cases this
    | some it => rw [env.sound1 i it (env.mono i it hs)]
  have hS1 : ∀ i ∈ new.filter (fun i => (o.seen1 i).isSome), o.seen1 i = S i := by
    intro i hi
    have := (List.mem_filter.mp hi).2
    cases hs : o.seen1 i with
    | none => rw [hs] at this; cases this
    | some it => rw [env.sound1 i it hs]
  refine ⟨?_, ?_, hbk, ?_, by rw [f3, n4], by rw [f4, n6]; exact e_wc⟩
  · rw [f1, f5, n5]
    refine hsf.1.trans ?_
    rw [n1]
    simp only [List.filter_append, filter_notPlace_of_all _ hA, filter_notPlace_of_all _ hB]
    rw [scoreNew_filter score w.pattern o.seen1 new hnewne, idealHits_congr score o.seen0 S w.pattern nowPub hS0,
      idealHits_congr score o.seen1 S w.pattern _ hS1]
    refine (List.Perm.append_right _ (List.Perm.append_right _ hW)).trans ?_
    rw [← idealHits_append, ← idealHits_append]
    exact idealHits_perm score S w.pattern _ _ hproc
  · rw [f1]; exact hsf.2
  · unfold Worker.itemCount processed
    rw [keepIdx_length _ _ hbk.below hbk.nodup]

/-! ### appended edits: the rescoring path -/

theorem rescoreOne_idx (p : Nat) (seen : Nat → Option Item) (m : Match) (hm : m.idx ≠ PLACE) :
    rescoreOne score p seen m = rescoreOne score p seen (mk0 m.idx) := by
  unfold rescoreOne mk0; simp only [hm, if_false]

theorem idealHits_idx (S : Nat → Option Item) (p : Nat) : ∀ (P : List Nat),
    (idealHits score S p P).map (·.idx) = P.filter (fun i => ((S i).bind (score p)).isSome) := by
  intro P
  induction P with
  | nil => rfl
  | cons i t ih =>
    unfold idealHits at ih ⊢
    simp only [List.filterMap_cons, List.filter_cons]
    cases hs : (S i).bind (score p) with
    | none => simp only [Option.map_none, Option.isSome_none, Bool.false_eq_true, if_false]; exact ih
    | some s => simp only [Option.map_some, List.map_cons, Option.isSome_some, if_true, ih]

/-- restricting to the items an earlier, weaker pattern matched loses nothing -/
theorem idealHits_filter_of_sound (S : Nat → Option Item) (pOld pNew : Nat)
    (hsound : ∀ it, (score pNew it).isSome = true → (score pOld it).isSome = true) : ∀ (P : List Nat),
    idealHits score S pNew (P.filter (fun i => ((S i).bind (score pOld)).isSome)) = idealHits score S pNew P := by
  intro P
  induction P with
  | nil => rfl
  | cons i t ih =>
    unfold idealHits at ih ⊢
    simp only [List.filter_cons, List.filterMap_cons]
    by_cases hq : ((S i).bind (score pOld)).isSome = true
    · simp only [hq, if_true, List.filterMap_cons]
      rw [ih]
    · have hq' : ((S i).bind (score pOld)).isSome = false := by simpa using hq
      simp only [hq', Bool.false_eq_true, if_false]
      have hnone : (S i).bind (score pNew) = none := by
        cases hS : S i with
        | none => rfl
        | some it =>
          rw [hS] at hq'
          simp only [Option.bind_some] at hq' ⊢
          cases hn : score pNew it with
          | none => rfl
          | some sn => have := hsound it (by rw [hn]; rfl); rw [this] at hq'; cases hq'
      rw [hnone]
      simp only [Option.map_none]
      exact ih

theorem scorePass_update_nonempty (w : Worker) (o : Obs) (h : w.hits.isEmpty = false) :
    Worker.scorePass score w .update o =
      ((rescore score (processTrivial w o.seen1 o.count) o).1, (rescore score (processTrivial w o.seen1 o.count) o).2,
       (processTrivial w o.seen1 o.count).hits.length) := by
  unfold Worker.scorePass
  simp [h]

theorem scorePass_update_empty (w : Worker) (o : Obs) (h : w.hits.isEmpty = true) :
    Worker.scorePass score w .update o = Worker.scorePass score w .unchanged o := by
  unfold Worker.scorePass
  simp [h]

/-- **the run contract for a run after an appended edit** (`Status::Update`): the existing matches are rescored under
    the new pattern, which can only match what the old one matched (`hsound`); if the list was right for the old
    pattern, a run that is not cancelled makes it right for the new one -/
theorem C06_update_run_contract (S : Nat → Option Item) (w : Worker) (o : Obs) (bk : BK w) (env : RunEnv S w o) (pOld : Nat)
    (hsound : ∀ it, (score w.pattern it).isSome = true → (score pOld it).isSome = true)
    (hW : w.hits.Perm (idealHits score S pOld (processed w)))
    (w' : Worker) (hw'def : w' = (Worker.run score len w .update false false o).1) :
    w'.hits.Perm (idealHits score S w'.pattern (processed w')) ∧ w'.hits.Pairwise (mle len o.seen1) ∧
    BK w' ∧ w'.itemCount = (processed w').length ∧ w'.lastSnapshot = o.count ∧ w'.wasCanceled = false := by
  have hprocne : ∀ i ∈ processed w, i ≠ PLACE := by
    intro i hi
    have := ((mem_keepIdx _ _ i).mp hi).1
    have := env.countGe; have := env.countLt; omega
  by_cases hemp : w.hits.isEmpty = true
  · -- nothing matched the old pattern: this is the pass over new slots, as for an unchanged pattern
    have hnil : w.hits = [] := List.isEmpty_iff.mp hemp
    have hold : idealHits score S pOld (processed w) = [] := by rw [hnil] at hW; exact hW.symm.eq_nil
    have hnone : idealHits score S w.pattern (processed w) = [] := by
      rw [← idealHits_filter_of_sound score S pOld w.pattern hsound (processed w)]
      have : (processed w).filter (fun i => ((S i).bind (score pOld)).isSome) = [] := by
        rw [← idealHits_idx, hold]; rfl
      rw [this]; rfl
    have hrun : Worker.run score len w .update false false o = Worker.run score len w .unchanged false false o := by
      unfold Worker.run
      simp only [Bool.false_eq_true, if_false]
      have hb : (w.begin false) = { w with running := true, wasCanceled := false } := by simp [Worker.begin]
      rw [hb, scorePass_update_empty score _ o (by simpa using hemp)]
    rw [hw'def, hrun]
    exact C06_unchanged_run_contract score len S w o bk env (by rw [hnil, hnone])
  · have hemp' : w.hits.isEmpty = false := by simpa using hemp
    have hb : (w.begin false) = { w with running := true, wasCanceled := false } := by simp [Worker.begin]
    generalize hwb : ({ w with running := true, wasCanceled := false } : Worker) = wb at hb
    have e_hits : wb.hits = w.hits := by rw [← hwb]
    have e_fl : wb.inFlight = w.inFlight := by rw [← hwb]
    have e_last : wb.lastSnapshot = w.lastSnapshot := by rw [← hwb]
    have e_pat : wb.pattern = w.pattern := by rw [← hwb]
    have e_wc : wb.wasCanceled = false := by rw [← hwb]
    have hw' : w' = (Worker.finish len (rescore score (processTrivial wb o.seen1 o.count) o).1
        (rescore score (processTrivial wb o.seen1 o.count) o).2 (processTrivial wb o.seen1 o.count).hits.length o).1 := by
      rw [hw'def]
      unfold Worker.run
      simp only [Bool.false_eq_true, if_false]
      rw [hb, scorePass_update_nonempty score wb o (by rw [e_hits]; exact hemp')]
    have pt := processTrivial_spec wb o.seen1 o.count (by rw [e_last]; exact env.countGe)
    rw [e_hits, e_fl, e_last, e_pat] at pt
    obtain ⟨p1, p2, p3, p4⟩ := pt
    generalize hw2 : processTrivial wb o.seen1 o.count = w2 at p1 p2 p3 p4 hw'
    generalize hnew : (List.range (o.count - w.lastSnapshot)).map (· + w.lastSnapshot) = new at *
    have hnew_mem : ∀ i, i ∈ new ↔ w.lastSnapshot ≤ i ∧ i < o.count := by
      intro i
      rw [← hnew]
      simp only [List.mem_map, List.mem_range]
      constructor
      · rintro ⟨k, hk, rfl⟩; have := env.countGe; omega
      · intro ⟨h1, h2⟩; exact ⟨i - w.lastSnapshot, by omega, by omega⟩
    have hnew_nd : new.Nodup := by
      rw [← hnew]
      have : (List.range (o.count - w.lastSnapshot)).Pairwise (fun a b => a + w.lastSnapshot ≠ b + w.lastSnapshot) :=
        (List.nodup_range (n := o.count - w.lastSnapshot)).imp (fun h => by omega)
      exact List.pairwise_map.mpr this
    -- the indices in the list before rescoring
    generalize hQ : w.hits.map (·.idx) ++ new.filter (fun i => (o.seen1 i).isSome) = Q
    have hQhits : w2.hits.map (rescoreOne score w.pattern o.seen1) = (Q.map mk0).map (rescoreOne score w.pattern o.seen1) := by
      rw [p1, ← hQ]
      simp only [List.map_append, List.map_map]
      congr 1
      · apply List.map_congr_left
        intro m hm
        simp only [Function.comp]
        have hnp := idealHits_notPlace score S pOld _ hprocne m (hW.subset hm)
        exact rescoreOne_idx score w.pattern o.seen1 m (by simpa [isPlace] using hnp)
    have hidx : (w.hits.map (·.idx)).Perm ((processed w).filter (fun i => ((S i).bind (score pOld)).isSome)) := by
      rw [← idealHits_idx]; exact hW.map _
    have hQne : ∀ i ∈ Q, i ≠ PLACE := by
      intro i hi
      rw [← hQ] at hi
      simp only [List.mem_append, List.mem_filter] at hi
      rcases hi with hi | hi
      · exact hprocne i (List.mem_filter.mp (hidx.subset hi)).1
      · have := ((hnew_mem i).mp hi.1).2; have := env.countLt; omega
    have hQS : ∀ i ∈ Q, o.seen1 i = S i := by
      intro i hi
      rw [← hQ] at hi
      simp only [List.mem_append, List.mem_filter] at hi
      rcases hi with hi | hi
      · have hp := (List.mem_filter.mp (hidx.subset hi)).1
        have := (mem_keepIdx _ _ i).mp hp
        exact env.processed i this.1 this.2
      · cases h1 : o.seen1 i with
        | none => rw [h1] at hi; simp at hi
        | some it => rw [env.sound1 i it h1]
    have ru := rescore_uncancelled score w2 o (fun pos _ => (env.noCancel pos).2)
    rw [p4] at ru
    obtain ⟨u1, u2, u3, u4, u5⟩ := ru
    have h0 : ∀ m ∈ (rescore score w2 o).1.hits, isPlace m = true → m.score = 0 := by
      intro m hm hp
      rw [u1, hQhits] at hm
      simp only [List.mem_map] at hm
      obtain ⟨m0, ⟨i, hi, rfl⟩, rfl⟩ := hm
      have hi' := hQne i hi
      unfold rescoreOne mk0 at hp ⊢
      simp only [hi', if_false] at hp ⊢
      split
      · rename_i s hs; rw [hs] at hp; simp [isPlace, hi'] at hp
      · rfl
    have fu := finish_uncancelled len (rescore score w2 o).1 (rescore score w2 o).2 w2.hits.length o (env.notCanceled _)
      (by rw [u2, u1]) h0
    rw [← hw'] at fu
    obtain ⟨f1, f2, f3, f4, f5⟩ := fu
    have hsf := sorted_filter_notPlace len o.seen1 (rescore score w2 o).1.hits
    have hbk : BK w' := by
      refine ⟨?_, ?_⟩
      · rw [f2, u3, p2, List.nodup_append]
        refine ⟨bk.nodup, hnew_nd.filter _, ?_⟩
        intro a ha b hb'
        have h1 := bk.below a ha
        have h2 := (hnew_mem b).mp (List.mem_filter.mp hb').1
        omega
      · intro i hi
        rw [f3, u4, p3]
        rw [f2, u3, p2] at hi
        simp only [List.mem_append, List.mem_filter] at hi
        rcases hi with h | h
        · have := bk.below i h; have := env.countGe; omega
        · exact ((hnew_mem i).mp h.1).2
    have hproc : (processed w ++ new.filter (fun i => (o.seen1 i).isSome)).Perm (processed w') := by
      rw [List.perm_ext_iff_of_nodup]
      · intro i
        unfold processed
        rw [mem_keepIdx, f3, u4, p3, f2, u3, p2, List.mem_append, mem_keepIdx, List.mem_filter, List.mem_append, List.mem_filter, hnew_mem]
        constructor
        · rintro (⟨h1, h2⟩ | ⟨⟨h1, h2⟩, h3⟩)
          · refine ⟨by have := env.countGe; omega, ?_⟩
            rintro (h | ⟨⟨h, _⟩, _⟩)
            · exact h2 h
            · omega
          · refine ⟨h2, ?_⟩
            rintro (h | ⟨_, h⟩)
            · have := bk.below i h; omega
            · cases hs : o.seen1 i with
              | none => rw [hs] at h3; cases h3
              | some it => rw [hs] at h; cases h
        · intro ⟨h1, h2⟩
          by_cases hlt : i < w.lastSnapshot
          · left; exact ⟨hlt, fun h => h2 (Or.inl h)⟩
          · right
            refine ⟨⟨by omega, h1⟩, ?_⟩
            cases hs : o.seen1 i with
            | none => exact absurd (Or.inr ⟨⟨by omega, h1⟩, by rw [hs]; rfl⟩) h2
            | some it => rfl
      · rw [List.nodup_append]
        refine ⟨keepIdx_nodup _ _, hnew_nd.filter _, ?_⟩
        intro a ha b hb'
        have h1 := ((mem_keepIdx _ _ a).mp ha).1
        have h2 := (hnew_mem b).mp (List.mem_filter.mp hb').1
        omega
      · exact keepIdx_nodup _ _
    refine ⟨?_, ?_, hbk, ?_, by rw [f3, u4, p3], by rw [f4]; unfold rescore; simp only; rw [← hw2, (processTrivial_fields wb o.seen1 o.count).2.2]; exact e_wc⟩
    · rw [f1, f5, u5]
      refine hsf.1.trans ?_
      rw [u1, hQhits, rescore_fresh_filter score w.pattern o.seen1 Q hQne, idealHits_congr score o.seen1 S w.pattern Q hQS, ← hQ,
        idealHits_append]
      refine (List.Perm.append_right _ (idealHits_perm score S w.pattern _ _ hidx)).trans ?_
      rw [idealHits_filter_of_sound score S pOld w.pattern hsound, ← idealHits_append]
      exact idealHits_perm score S w.pattern _ _ hproc
    · rw [f1]; exact hsf.2
    · unfold Worker.itemCount processed
      rw [keepIdx_length _ _ hbk.below hbk.nodup]


/-- **with nothing in flight, a right match list is the from-scratch result**: the matches of the pattern among all
    items below the snapshot end (what a fresh matcher fed the same items computes, up to the unique sorted order) -/
theorem C06_quiescent (S : Nat → Option Item) (w : Worker) (hW : w.hits.Perm (idealHits score S w.pattern (processed w)))
    (hfl : w.inFlight = []) : w.hits.Perm (idealHits score S w.pattern (List.range w.lastSnapshot)) := by
  have : processed w = List.range w.lastSnapshot := by
    unfold processed keepIdx
    rw [hfl]
    apply List.filter_eq_self.mpr
    intro i _; simp
  rw [this] at hW; exact hW


/-! ## bookkeeping survives every run, cancelled or not -/

/-- the bookkeeping fields after `process_new_items`, whatever the run observes of the cancel flag -/
theorem processNew_bookkeeping (w : Worker) (o : Obs) (hord : ∀ l, (o.inFlightOrder l).Perm l) :
    (processNew score w o).1.inFlight.Perm (w.inFlight.filter (fun i => (o.seen0 i).isNone) ++
      ((List.range (o.count - w.lastSnapshot)).map (· + w.lastSnapshot)).filter (fun i => (o.seen1 i).isNone)) ∧
    (processNew score w o).1.lastSnapshot = o.count := by
  unfold processNew
  by_cases hcount : o.count ≠ w.lastSnapshot
  · simp only [hcount, ne_eq, not_false_eq_true, if_true]
    exact ⟨List.Perm.append_left _ (hord _), by trivial⟩
  · have hcount' : o.count = w.lastSnapshot := by simpa using hcount
    simp only [hcount', ne_eq, not_true_eq_false, if_false, Nat.sub_self, List.range_zero, List.map_nil, List.filter_nil,
      List.append_nil]
    exact ⟨List.Perm.refl _, by trivial⟩

theorem finish_bookkeeping (w : Worker) (u p : Nat) (o : Obs) :
    (Worker.finish len w u p o).1.inFlight = w.inFlight ∧ (Worker.finish len w u p o).1.lastSnapshot = w.lastSnapshot := by
  unfold Worker.finish; split <;> exact ⟨rfl, rfl⟩

theorem new_range_mem (last count : Nat) (h : last ≤ count) (i : Nat) :
    i ∈ (List.range (count - last)).map (· + last) ↔ last ≤ i ∧ i < count := by
  simp only [List.mem_map, List.mem_range]
  constructor
  · rintro ⟨k, hk, rfl⟩; omega
  · intro ⟨h1, h2⟩; exact ⟨i - last, by omega, by omega⟩

theorem new_range_nodup (last count : Nat) : ((List.range (count - last)).map (· + last)).Nodup := by
  have : (List.range (count - last)).Pairwise (fun a b => a + last ≠ b + last) :=
    (List.nodup_range (n := count - last)).imp (fun h => by omega)
  exact List.pairwise_map.mpr this

/-- in-flight list = kept old ones ++ new unpublished ones: the invariant follows -/
theorem BK_of_parts (w' : Worker) (old : List Nat) (last count : Nat) (seen : Nat → Option Item) (hle : last ≤ count)
    (hold_nd : old.Nodup) (hold_lt : ∀ i ∈ old, i < last)
    (hfl : w'.inFlight.Perm (old ++ ((List.range (count - last)).map (· + last)).filter (fun i => (seen i).isNone)))
    (hlast : w'.lastSnapshot = count) : BK w' := by
  refine ⟨hfl.nodup_iff.mpr ?_, ?_⟩
  · rw [List.nodup_append]
    refine ⟨hold_nd, (new_range_nodup last count).filter _, ?_⟩
    intro a ha b hb
    have h1 := hold_lt a ha
    have h2 := (new_range_mem last count hle b).mp (List.mem_filter.mp hb).1
    omega
  · intro i hi
    rw [hlast]
    have := hfl.subset hi
    simp only [List.mem_append, List.mem_filter] at this
    rcases this with h | h
    · have := hold_lt i h; omega
    · exact ((new_range_mem last count hle i).mp h.1).2

/-- **the bookkeeping invariant survives every run** — any status, empty or non-empty pattern, completed or cancelled
    at any point: a cancelled run may leave the match list half-rescored, but never loses track of which indices are
    accounted for and which are in flight -/
theorem BK_run (w : Worker) (st : PStatus) (pe : Bool) (o : Obs) (bk : BK w) (hc : w.lastSnapshot ≤ o.count)
    (hord : ∀ l, (o.inFlightOrder l).Perm l) : BK (Worker.run score len w st false pe o).1 := by
  have hb : (w.begin false) = { w with running := true, wasCanceled := false } := by simp [Worker.begin]
  have hsortp := (C06_in_flight_sorted w.inFlight).2
  -- the reset keeps a sub-list of the old in-flight indices
  have rs := resetMatches_spec (w.begin false) o.seen0 (by rw [hb]; exact bk.below) (by rw [hb]; exact bk.nodup)
  rw [hb] at rs
  simp only at rs
  obtain ⟨_, r2, r3, _⟩ := rs
  have hstill_nd : ((sortNat w.inFlight).filter (fun i => (o.seen0 i).isNone)).Nodup := (hsortp.nodup_iff.mpr bk.nodup).filter _
  have hstill_lt : ∀ i ∈ (sortNat w.inFlight).filter (fun i => (o.seen0 i).isNone), i < w.lastSnapshot :=
    fun i hi => bk.below i (hsortp.subset (List.mem_filter.mp hi).1)
  unfold Worker.run
  by_cases hpe : pe = true
  · -- empty pattern
    simp only [hpe, if_true]
    rw [hb]
    have pt := processTrivial_spec (resetMatches { w with running := true, wasCanceled := false } o.seen0) o.seen1 o.count (by rw [r3]; exact hc)
    rw [r2, r3] at pt
    exact BK_of_parts _ _ w.lastSnapshot o.count o.seen1 hc hstill_nd hstill_lt (by rw [pt.2.1]) pt.2.2.1
  · simp only [hpe, Bool.false_eq_true, if_false]
    rw [hb]
    have fb := finish_bookkeeping len (Worker.scorePass score { w with running := true, wasCanceled := false } st o).1
      (Worker.scorePass score { w with running := true, wasCanceled := false } st o).2.1
      (Worker.scorePass score { w with running := true, wasCanceled := false } st o).2.2 o
    -- the scoring pass
    have key : ∃ old : List Nat, old.Nodup ∧ (∀ i ∈ old, i < w.lastSnapshot) ∧
        (Worker.scorePass score { w with running := true, wasCanceled := false } st o).1.inFlight.Perm
          (old ++ ((List.range (o.count - w.lastSnapshot)).map (· + w.lastSnapshot)).filter (fun i => (o.seen1 i).isNone)) ∧
        (Worker.scorePass score { w with running := true, wasCanceled := false } st o).1.lastSnapshot = o.count := by
      unfold Worker.scorePass
      simp only
      by_cases hst : st = .rescore
      · simp only [hst, if_true]
        generalize hw1 : resetMatches { w with running := true, wasCanceled := false } o.seen0 = w1 at r2 r3
        split
        · have pt := processTrivial_spec w1 o.seen1 o.count (by rw [r3]; exact hc)
          rw [r2, r3] at pt
          refine ⟨_, hstill_nd, hstill_lt, ?_, ?_⟩
          · show (rescore score _ o).1.inFlight.Perm _
            unfold rescore; simp only; rw [pt.2.1]
          · show (rescore score _ o).1.lastSnapshot = _
            unfold rescore; simp only; exact pt.2.2.1
        · have pn := processNew_bookkeeping score w1 o hord
          rw [r2, r3] at pn
          refine ⟨_, (hstill_nd.filter _), (fun i hi => hstill_lt i (List.mem_filter.mp hi).1), pn.1, pn.2⟩
      · simp only [hst, if_false]
        split
        · have pt := processTrivial_spec { w with running := true, wasCanceled := false } o.seen1 o.count hc
          refine ⟨w.inFlight, bk.nodup, bk.below, ?_, ?_⟩
          · show (rescore score _ o).1.inFlight.Perm _
            unfold rescore; simp only; rw [pt.2.1]
          · show (rescore score _ o).1.lastSnapshot = _
            unfold rescore; simp only; exact pt.2.2.1
        · have pn := processNew_bookkeeping score { w with running := true, wasCanceled := false } o hord
          exact ⟨_, bk.nodup.filter _, (fun i hi => bk.below i (List.mem_filter.mp hi).1), pn.1, pn.2⟩
    obtain ⟨old, h1, h2, h3, h4⟩ := key
    exact BK_of_parts _ old w.lastSnapshot o.count o.seen1 hc h1 h2 (by rw [fb.1]; exact h3) (by rw [fb.2]; exact h4)


end NucleoVerif.Nu
