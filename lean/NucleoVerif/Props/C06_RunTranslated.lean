import NucleoVerif.Gen.RunPlan
import NucleoVerif.Model.Nucleo
/-! # C06 / C07 (companion file) — the plan of `Worker::run`, translated from the source, is the model's

`Gen/RunPlan.lean` is regenerated on every run from `src/worker.rs`: the order of the steps of `Worker::run` and the
conditions that select them (trivial path for the empty pattern, `reset_matches` for a rescoring edit, the cancellable
rescoring pass over the previous matches for a changed pattern with matches, `process_new_items` otherwise, what a
cancelled sort leaves).  The run contracts of C06 and the history theorems of C07 / C12 / C19 are about `Worker.run`. -/
namespace NucleoVerif.Nu

variable (score : Nat → Item → Option Nat) (len : Item → Nat)

/-- **`Worker::run` takes the branches the model's `Worker.run` takes** -/
theorem C06_translated_run_plan (w : Worker) (status : PStatus) (cleared patternEmpty : Bool) (o : Obs) :
    Worker.run score len w status cleared patternEmpty o =
      if Gen.RunPlan.trivial_path patternEmpty then
        (processTrivial (resetMatches (w.begin cleared) o.seen0) o.seen1 o.count, o.shouldNotify)
      else
        let w1 := if Gen.RunPlan.resets status.rank then resetMatches (w.begin cleared) o.seen0 else w.begin cleared
        let pass : Worker × Nat × Nat :=
          if Gen.RunPlan.rescoring_pass status.rank w1.hits.isEmpty then
            ((rescore score (processTrivial w1 o.seen1 o.count) o).1, (rescore score (processTrivial w1 o.seen1 o.count) o).2,
              (processTrivial w1 o.seen1 o.count).hits.length)
          else ((processNew score w1 o).1, (processNew score w1 o).2, o.count - w1.lastSnapshot)
        Worker.finish len pass.1 pass.2.1 pass.2.2 o := by
  unfold Worker.run Gen.RunPlan.trivial_path
  cases patternEmpty
  · simp only [Bool.false_eq_true, if_false]
    unfold Worker.scorePass Gen.RunPlan.resets Gen.RunPlan.rescoring_pass
    cases status <;> simp [PStatus.rank]
  · simp

end NucleoVerif.Nu
