import NucleoVerif.Model.Nucleo
import NucleoVerif.Gen.Worker
/-! # C06 (companion file) — the comparison the worker sorts by, translated from the source, is the model's `matchLess`

The order clause of C06 (descending score, then ascending total haystack length, then ascending index; placeholders
last among equal scores) is proved about `Nu.matchLess`.  `Gen/Worker.lean` holds the closure handed to `par_quicksort`
in `Worker::run`, translated statement by statement on every run; the two are the same function. -/
namespace NucleoVerif.Nu

theorem C06_translated_comparison (len : Item → Nat) (items : Nat → Option Item) (a b : Match) :
    matchLess len items a b =
      Gen.Worker.match_less ⟨a.score, a.idx⟩ ⟨b.score, b.idx⟩ ((items a.idx).map len |>.getD 0) ((items b.idx).map len |>.getD 0) := by
  unfold matchLess Gen.Worker.match_less PLACE
  simp only [ne_eq, decide_not, gt_iff_lt]
  by_cases h1 : a.score = b.score
  · simp only [h1, not_true_eq_false, if_false, decide_true, Bool.not_true, Bool.false_eq_true]
    by_cases h2 : a.idx = 4294967295
    · simp [h2]
    · by_cases h3 : b.idx = 4294967295
      · simp [h2, h3]
      · simp only [h2, h3, if_false, decide_false, Bool.false_eq_true]
        split <;> simp_all
  · simp [h1]

end NucleoVerif.Nu
