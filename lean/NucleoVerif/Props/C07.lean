import NucleoVerif.Props.C06
import NucleoVerif.Model.Pattern
/-! # C07 — a quiescent matcher converges to the from-scratch result

Layering (DESIGN.md): convergence is (i) the protocol facts of C19/C12 (a tick that reports
"not running" holds the result of an un-cancelled run over the whole current stream with the
current pattern), (ii) the run contract of C06 and (iii) the soundness of the `Update`
shortcut: reusing the previous matches is only allowed when every item matched by the new
pattern was matched by the old one.  This file proves the decision rule of (iii) — what the
repaired `MultiPattern::reparse` excludes (finding F9) — on the parser model; the end-to-end
statement is evaluated on every generated history against a fresh `Nucleo` (oracle C07). -/
namespace NucleoVerif

/-- `Update` is chosen only for a truthful append onto a column that was not already due for a
    rescore and whose last atom can only be narrowed by more text -/
theorem C07_update_rule (old : PStatus) (atoms newAtoms : List Atom) (append : Bool) (h : reparseStatus old atoms newAtoms append = .update) :
    append = true ∧ old ≠ .rescore ∧ (∀ a, atoms.getLast? = some a → lastAtomAllowsUpdate a = true) ∧ normKept atoms newAtoms = true := by
  unfold reparseStatus at h
  simp at h
  refine ⟨h.1, h.2.1, ?_, h.2.2.2⟩
  intro a ha
  simpa [ha] using h.2.2.1

/-- the last atom keeps normalizing unless it did not before (repair of F16: appended text that switches smart
    normalization off must not take the shortcut) -/
theorem C07_update_keeps_normalization (old : PStatus) (atoms newAtoms : List Atom) (append : Bool) (a b : Atom)
    (h : reparseStatus old atoms newAtoms append = .update) (ha : atoms.getLast? = some a) (hb : newAtoms[atoms.length - 1]? = some b)
    (hn : a.normalize = true) : b.normalize = true := by
  have := (C07_update_rule old atoms newAtoms append h).2.2.2
  unfold normKept at this
  rw [ha, hb] at this
  simp only [hn, Bool.true_and, Bool.not_not] at this
  exact this

/-- what the rule excludes: negated atoms, postfix/exact atoms (`foo$`), a text ending in a backslash,
    and a non-fuzzy atom ending in an escaped `\$` -/
theorem C07_last_atom_rule (a : Atom) (h : lastAtomAllowsUpdate a = true) :
    a.negative = false ∧ a.kind ≠ .postfix ∧ a.kind ≠ .exact ∧ a.needle.getLast? ≠ some 92 ∧
    (a.needle.getLast? = some 36 → a.kind = .fuzzy) := by
  unfold lastAtomAllowsUpdate at h
  simp only [Bool.and_eq_true, Bool.not_eq_true', bne_iff_ne, ne_eq] at h
  obtain ⟨⟨⟨h1, h2⟩, h3⟩, h4⟩ := h
  refine ⟨h1, h2, h3, ?_, ?_⟩
  · intro hl; simp [hl] at h4
  · intro hl; simpa [hl] using h4

/-! why each class must be excluded — the new parse is not a narrowing of the old one (parser model;
    segmentation irrelevant for ASCII) -/

/-- `foo$` → `foo$b`: the postfix atom "foo" becomes the fuzzy atom "foo$b" -/
example :
    (parsePattern (fun c => c.map (fun _ => 1)) [102, 111, 111, 36] .smart .smart).map (fun a => (a.kind, a.needle)) = [(.postfix, [102, 111, 111])] ∧
    (parsePattern (fun c => c.map (fun _ => 1)) [102, 111, 111, 36, 98] .smart .smart).map (fun a => (a.kind, a.needle)) = [(.fuzzy, [102, 111, 111, 36, 98])] := by
  decide

/-- `a\` → `a\ b`: the atom `a\` becomes the atom `a b` (the backslash now escapes the space) -/
example :
    (parsePattern (fun c => c.map (fun _ => 1)) [97, 92] .smart .smart).map (·.needle) = [[97, 92]] ∧
    (parsePattern (fun c => c.map (fun _ => 1)) [97, 92, 32, 98] .smart .smart).map (·.needle) = [[97, 32, 98]] := by
  decide

/-- `\` → `\!a`: the atom `\` becomes the atom `!a` -/
example :
    (parsePattern (fun c => c.map (fun _ => 1)) [92] .smart .smart).map (·.needle) = [[92]] ∧
    (parsePattern (fun c => c.map (fun _ => 1)) [92, 33, 97] .smart .smart).map (·.needle) = [[33, 97]] := by
  decide

/-- `^a\$` → `^a\$b`: the prefix "a$" becomes the prefix `a\$b` -/
example :
    (parsePattern (fun c => c.map (fun _ => 1)) [94, 97, 92, 36] .smart .smart).map (fun a => (a.kind, a.needle)) = [(.prefix, [97, 36])] ∧
    (parsePattern (fun c => c.map (fun _ => 1)) [94, 97, 92, 36, 98] .smart .smart).map (fun a => (a.kind, a.needle)) = [(.prefix, [97, 92, 36, 98])] := by
  decide

/-- a cancelling tick always hands the worker the matcher's current pattern -/
theorem C07_run_gets_current_pattern (n : Nu.Nucleo) (o : Nu.TickOracle) :
    (n.tickCancelFirst o).1.worker.pattern = n.pattern ∧ (n.tickCancelFirst o).1.pending.isSome = true := by
  unfold Nu.Nucleo.tickCancelFirst
  simp only
  have hp : (({ n with status := .unchanged, cancelFlag := true } : Nu.Nucleo).joinRun o.run0).pattern = n.pattern := by
    unfold Nu.Nucleo.joinRun; split <;> rfl
  unfold Nu.tickInnerLocked
  simp [hp]

end NucleoVerif
