import NucleoVerif.Props.C07
import NucleoVerif.Props.C01
/-! # C07 (companion file) — appending text changes only the last atom

`MultiPattern::reparse` reports `Update` only for an appended text (`C07_update_rule`).  The splitter works left to
right with one bit of state, so every piece of the old text except the last one is a piece of the new text, at the same
place: the atoms parsed from them are unchanged, and the `Update` shortcut (rescoring the previous matches only) has to be
justified for the last atom alone — which is what `can_append_to` / `lastAtomAllowsUpdate` looks at. -/
namespace NucleoVerif

/-- the splitter's run over `s`: the pieces it has completed, and its state at the end (`saw_backslash`, the piece being
    collected, reversed) -/
def splitRun : List Nat → Bool → List Nat → List (List Nat) × Bool × List Nat
  | [], saw, cur => ([], saw, cur)
  | c :: cs, saw, cur =>
    if isWs c ∧ !saw then ((cur.reverse :: (splitRun cs saw []).1), (splitRun cs saw []).2)
    else splitRun cs (c = 92) (c :: cur)

theorem patternAtomsGo_append : ∀ (s t : List Nat) (saw : Bool) (cur : List Nat),
    patternAtomsGo (s ++ t) saw cur =
      (splitRun s saw cur).1 ++ patternAtomsGo t (splitRun s saw cur).2.1 (splitRun s saw cur).2.2 := by
  intro s
  induction s with
  | nil => intro t saw cur; simp [splitRun]
  | cons c cs ih =>
    intro t saw cur
    simp only [List.cons_append, patternAtomsGo, splitRun]
    split
    · simp only [List.cons_append]
      rw [ih t saw []]
    · exact ih t (decide (c = 92)) (c :: cur)

theorem patternAtomsGo_eq_run (s : List Nat) (saw : Bool) (cur : List Nat) :
    patternAtomsGo s saw cur = (splitRun s saw cur).1 ++ [(splitRun s saw cur).2.2.reverse] := by
  have := patternAtomsGo_append s [] saw cur
  rw [List.append_nil] at this
  rw [this]; rfl

/-- **the pieces of an appended text**: all pieces of the old text but its last one, then whatever the splitter makes of the
    old last piece continued by the new characters -/
theorem C07_append_pieces (old new : List Nat) :
    patternAtoms (old ++ new) =
      (patternAtoms old).dropLast ++ patternAtomsGo new (splitRun old false []).2.1 (splitRun old false []).2.2 ∧
    (patternAtoms old).getLast? = some (splitRun old false []).2.2.reverse := by
  unfold patternAtoms
  rw [patternAtomsGo_append old new false [], patternAtomsGo_eq_run old false []]
  simp

/-- **the atoms of an appended text**: the atoms parsed from every old piece but the last are the first atoms of the new
    pattern, unchanged and in order -/
theorem C07_append_keeps_earlier_atoms (seg : Seg) (old new : List Nat) (case : CaseMatching) (norm : Normalization) :
    ∃ lastOld lastNew : List Atom,
      parsePattern seg old case norm =
        (((patternAtoms old).dropLast.map (fun raw => parseAtom seg raw case norm)).filter (fun a => !a.needle.isEmpty)) ++ lastOld ∧
      parsePattern seg (old ++ new) case norm =
        (((patternAtoms old).dropLast.map (fun raw => parseAtom seg raw case norm)).filter (fun a => !a.needle.isEmpty)) ++ lastNew ∧
      lastOld.length ≤ 1 := by
  obtain ⟨h1, h2⟩ := C07_append_pieces old new
  have hne : patternAtoms old ≠ [] := by
    intro e; rw [e] at h2; cases h2
  have hdec : patternAtoms old = (patternAtoms old).dropLast ++ [(splitRun old false []).2.2.reverse] := by
    have := List.dropLast_concat_getLast hne
    have hl : (patternAtoms old).getLast hne = (splitRun old false []).2.2.reverse := by
      have := List.getLast?_eq_some_getLast hne
      rw [h2] at this; exact (Option.some.inj this).symm
    rw [hl] at this; exact this.symm
  refine ⟨([(splitRun old false []).2.2.reverse].map (fun raw => parseAtom seg raw case norm)).filter (fun a => !a.needle.isEmpty),
    ((patternAtomsGo new (splitRun old false []).2.1 (splitRun old false []).2.2).map (fun raw => parseAtom seg raw case norm)).filter (fun a => !a.needle.isEmpty), ?_, ?_, ?_⟩
  · unfold parsePattern
    conv => lhs; rw [hdec]
    rw [List.map_append, List.filter_append]
  · unfold parsePattern
    rw [h1, List.map_append, List.filter_append]
  · simp only [List.map_cons, List.map_nil]
    exact Nat.le_trans (List.length_filter_le _ _) (by simp)

/-- e.g. `foo b` → `foo ba`: the atom `foo` stays, the last atom `b` becomes `ba` -/
example :
    (parsePattern (fun c => c.map (fun _ => 1)) [102, 111, 111, 32, 98] .smart .smart).map (·.needle) = [[102, 111, 111], [98]] ∧
    (parsePattern (fun c => c.map (fun _ => 1)) ([102, 111, 111, 32, 98] ++ [97]) .smart .smart).map (·.needle) = [[102, 111, 111], [98, 97]] := by
  decide

/-! ## a longer fuzzy needle matches less (the kinds `can_append_to` admits narrow; here the fuzzy kind, through the
decision theorems of C01, for a fixed configuration) -/

open Spec Sub in
theorem subseqB_of_append (n s L : List Nat) (h : subseqB (n ++ s) L = true) : subseqB n L = true := by
  rw [subseqB_iff_sublist] at h ⊢
  exact (List.sublist_append_left n s).trans h

open Spec in
/-- code-point haystacks: whatever the fuzzy matcher finds for `n ++ s` it finds for `n` -/
theorem C07_fuzzy_append_narrows_unicode (cfg : Cfg) (ext : Ext) (nrep : Rep) (h n s : List Nat)
    (hn : (n ++ s).map (norm cfg nrep) = n ++ s)
    (hm : (fuzzyMatch cfg ext .unicode nrep h (n ++ s)).isSome = true) : (fuzzyMatch cfg ext .unicode nrep h n).isSome = true := by
  have hn' : n.map (norm cfg nrep) = n := by
    rw [List.map_append] at hn
    exact (List.append_inj hn (by simp)).1
  rw [C01_decision_unicode cfg ext nrep h (n ++ s) hn] at hm
  rw [C01_decision_unicode cfg ext nrep h n hn']
  exact subseqB_of_append n s _ hm

open Spec in
/-- ASCII haystacks and needles -/
theorem C07_fuzzy_append_narrows_ascii (cfg : Cfg) (ext : Ext) (h n s : List Nat) (hasc : ∀ x ∈ h, x < 128)
    (hn : ∀ c ∈ n ++ s, normAscii cfg c = c)
    (hm : (fuzzyMatch cfg ext .ascii .ascii h (n ++ s)).isSome = true) : (fuzzyMatch cfg ext .ascii .ascii h n).isSome = true := by
  rw [C01_decision_ascii cfg ext h (n ++ s) hasc hn] at hm
  rw [C01_decision_ascii cfg ext h n hasc (fun c hc => hn c (List.mem_append_left s hc))]
  exact subseqB_of_append n s _ hm

end NucleoVerif
