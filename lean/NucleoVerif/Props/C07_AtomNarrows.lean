import NucleoVerif.Props.C15_AtomDecision
import NucleoVerif.Props.C07_SmartCase
import NucleoVerif.Props.C16
/-! # C07 (companion file) — the continued last atom narrows, for every kind at once

`C07_Narrows`, `C07_SmartCase` and `C07_Sublist` prove, kind by kind and under per-kind side conditions, that the atom
parsed from a continued piece of pattern text matches less than the atom parsed from the piece.  This file proves it once:
`kindDec_narrows` is the list fact (on the decision predicates of `C15_atom_decision`), `AtomRel` the relation between the two
atoms, `C07_atom_narrows` the statement on the matcher model — including the changes of kind that appended text can
cause (`foo` → `foo$`: fuzzy → postfix; `'foo` → `'foo$`, `^foo` → `^foo$`: → exact), an upper-case letter that switches
smart case off, and one-character needles. -/
namespace NucleoVerif
open Gen Spec NucleoVerif.Sub

/-- `n` occurs in `L` at `i` -/
def Occ (n L : List Nat) (i : Nat) : Prop := i + n.length ≤ L.length ∧ (L.drop i).take n.length = n

theorem occ_nonempty_iff (n L : List Nat) : (!(occAux n 0 L).isEmpty) = true ↔ ∃ i, Occ n L i := by
  constructor
  · intro hne
    cases ho : occAux n 0 L with
    | nil => rw [ho] at hne; cases hne
    | cons i l =>
      have hi : i ∈ occAux n 0 L := by rw [ho]; simp
      have := (occAux_mem n L 0 i).mp hi
      simp only [Nat.sub_zero] at this
      exact ⟨i, this.2.2.2, this.2.2.1⟩
  · rintro ⟨i, h1, h2⟩
    have : i ∈ occAux n 0 L := (occAux_mem n L 0 i).mpr ⟨Nat.zero_le _, by omega, by simpa using h2, by simpa using h1⟩
    cases ho : occAux n 0 L with
    | nil => rw [ho] at this; cases this
    | cons _ _ => rfl

theorem Occ.map {n L : List Nat} {i : Nat} (g : Nat → Nat) (h : Occ n L i) : Occ (n.map g) (L.map g) i := by
  refine ⟨by simpa using h.1, ?_⟩
  rw [← List.map_drop, List.length_map, ← List.map_take, h.2]

theorem Occ.of_prefix {na nb L : List Nat} {i : Nat} (hp : na <+: nb) (h : Occ nb L i) : Occ na L i := by
  obtain ⟨s, rfl⟩ := hp
  refine ⟨by have := h.1; rw [List.length_append] at this; omega, ?_⟩
  have := congrArg (List.take na.length) h.2
  rw [List.take_take, List.length_append, Nat.min_eq_left (Nat.le_add_right _ _), List.take_left' rfl] at this
  exact this

theorem Occ.sublist {n L : List Nat} {i : Nat} (h : Occ n L i) : n.Sublist L := by
  rw [← h.2]
  exact (List.take_sublist _ _).trans (List.drop_sublist _ _)

theorem head_of_prefix {na nb : List Nat} (hp : na <+: nb) (hne : na ≠ []) : nb.head?.getD 0 = na.head?.getD 0 := by
  obtain ⟨s, rfl⟩ := hp
  cases na with
  | nil => exact absurd rfl hne
  | cons x xs => rfl

/-- **the list fact behind every narrowing**: `L` is the haystack as the new atom normalizes it, `g` takes it to the
    haystack as the old atom normalizes it and leaves the old needle alone -/
theorem kindDec_narrows (ka kb : AtomKind) (hrep : Rep) (h L na nb : List Nat) (g : Nat → Nat) (hL : L.length = h.length)
    (hkinds : (ka = kb ∧ ka ≠ .postfix ∧ ka ≠ .exact) ∨ (ka = .fuzzy ∧ kb = .postfix) ∨ (ka = .substring ∧ kb = .exact) ∨ (ka = .prefix ∧ kb = .exact))
    (hneedle : na <+: nb ∨ (ka = .fuzzy ∧ na.Sublist nb)) (hne : na ≠ []) (hg : na.map g = na)
    (hm : kindDec kb hrep h L nb = true) : kindDec ka hrep h (L.map g) na = true := by
  have hsub : na.Sublist nb := by
    rcases hneedle with hp | ⟨_, hs⟩
    · exact hp.sublist
    · exact hs
  -- a fuzzy old atom: any occurrence or embedding of the new needle will do
  have fuzzy_of_sub : nb.Sublist L → kindDec .fuzzy hrep h (L.map g) na = true := by
    intro hs
    show subseqB na (L.map g) = true
    rw [subseqB_iff_sublist, ← hg]
    exact (hsub.map g).trans (hs.map g)
  have hLg : (L.map g).length = h.length := by simpa using hL
  rcases hkinds with ⟨rfl, hk1, hk2⟩ | ⟨rfl, rfl⟩ | ⟨rfl, rfl⟩ | ⟨rfl, rfl⟩
  · cases ka with
    | fuzzy =>
      apply fuzzy_of_sub
      exact (subseqB_iff_sublist _ _).mp hm
    | substring =>
      have hp : na <+: nb := by
        rcases hneedle with hp | ⟨hk, _⟩
        · exact hp
        · cases hk
      show (!(occAux na 0 (L.map g)).isEmpty) = true
      rw [occ_nonempty_iff]
      obtain ⟨i, hi⟩ := (occ_nonempty_iff nb L).mp hm
      have := (hi.of_prefix hp).map g
      rw [hg] at this
      exact ⟨i, this⟩
    | «prefix» =>
      have hp : na <+: nb := by
        rcases hneedle with hp | ⟨hk, _⟩
        · exact hp
        · cases hk
      have hh := head_of_prefix hp hne
      simp only [kindDec, Bool.and_eq_true, decide_eq_true_eq, beq_iff_eq, hh] at hm ⊢
      have ho : Occ nb L (if isWs (na.head?.getD 0) = true then 0 else lead hrep h) := ⟨by rw [hL]; exact hm.1, hm.2⟩
      have := (ho.of_prefix hp).map g
      rw [hg] at this
      exact ⟨by have := this.1; rw [hLg] at this; exact this, this.2⟩
    | «postfix» => exact absurd rfl hk1
    | «exact» => exact absurd rfl hk2
  · -- fuzzy ← postfix
    apply fuzzy_of_sub
    simp only [kindDec, Bool.and_eq_true, decide_eq_true_eq, beq_iff_eq] at hm
    have ho : Occ nb L (h.length - (if isWs (nb.getLast?.getD 0) = true then 0 else trail hrep h) - nb.length) :=
      ⟨by rw [hL]; omega, hm.2⟩
    exact ho.sublist
  · -- substring ← exact
    have hp : na <+: nb := by
      rcases hneedle with hp | ⟨hk, _⟩
      · exact hp
      · cases hk
    simp only [kindDec, Bool.and_eq_true, decide_eq_true_eq, beq_iff_eq] at hm
    obtain ⟨⟨h1, h2⟩, h3⟩ := hm
    rw [h3] at h2
    have ho : Occ nb L (if isWs (nb.head?.getD 0) = true then 0 else lead hrep h) := ⟨by rw [hL]; omega, h2⟩
    show (!(occAux na 0 (L.map g)).isEmpty) = true
    rw [occ_nonempty_iff]
    have := (ho.of_prefix hp).map g
    rw [hg] at this
    exact ⟨_, this⟩
  · -- prefix ← exact
    have hp : na <+: nb := by
      rcases hneedle with hp | ⟨hk, _⟩
      · exact hp
      · cases hk
    have hh := head_of_prefix hp hne
    simp only [kindDec, Bool.and_eq_true, decide_eq_true_eq, beq_iff_eq, hh] at hm ⊢
    obtain ⟨⟨h1, h2⟩, h3⟩ := hm
    rw [h3] at h2
    have ho : Occ nb L (if isWs (na.head?.getD 0) = true then 0 else lead hrep h) := ⟨by rw [hL]; omega, h2⟩
    have := (ho.of_prefix hp).map g
    rw [hg] at this
    exact ⟨by have := this.1; rw [hLg] at this; exact this, this.2⟩

/-! ## atoms -/

/-- how the atom `b` parsed from a continued piece of ASCII pattern text relates to the atom `a` parsed from the piece
    (`C07_parse_append_rel` proves that the parser produces exactly this) -/
structure AtomRel (a b : Atom) : Prop where
  negA : a.negative = false
  negB : b.negative = false
  repA : a.needleRep = .ascii
  repB : b.needleRep = .ascii
  nz : a.normalize = b.normalize
  kinds : (a.kind = b.kind ∧ a.kind ≠ .postfix ∧ a.kind ≠ .exact) ∨ (a.kind = .fuzzy ∧ b.kind = .postfix) ∨
          (a.kind = .substring ∧ b.kind = .exact) ∨ (a.kind = .prefix ∧ b.kind = .exact)
  needle : a.needle <+: b.needle ∨ (a.kind = .fuzzy ∧ a.needle.Sublist b.needle)
  ne : a.needle ≠ []
  icase : a.ignoreCase = b.ignoreCase ∨ (a.ignoreCase = true ∧ b.ignoreCase = false)
  lowA : a.ignoreCase = true → ∀ c ∈ a.needle, ¬ (65 ≤ c ∧ c ≤ 90)
  lowB : b.ignoreCase = true → ∀ c ∈ b.needle, ¬ (65 ≤ c ∧ c ≤ 90)
  ascA : ∀ c ∈ a.needle, c < 128

theorem needle_normalized (a : Atom) (cfg : Cfg) (low : a.ignoreCase = true → ∀ c ∈ a.needle, ¬ (65 ≤ c ∧ c ≤ 90)) :
    a.needle.map (norm (a.cfg cfg) .ascii) = a.needle := by
  apply map_eq_self
  intro c hc
  show normAscii (a.cfg cfg) c = c
  unfold normAscii
  split
  · rename_i h; exact absurd h.2 (low h.1 c hc)
  · rfl

theorem normHay_ascii_flip (cfg : Cfg) (h : List Nat) :
    (normHay { cfg with ignoreCase := false } .ascii h).map lowerA = normHay { cfg with ignoreCase := true } .ascii h := by
  unfold normHay
  rw [List.map_map]
  apply List.map_congr_left
  intro c _
  simp [norm, normAscii, lowerA]

/-- **the continued atom matches only what the atom matched** — every configuration whose largest boundary bonus is at least
    8, every haystack in either representation -/
theorem C07_atom_narrows (a b : Atom) (r : AtomRel a b) (cfg : Cfg) (ext : Ext) (hrep : Rep) (h : List Nat)
    (hasc : hrep = .ascii → ∀ x ∈ h, x < 128) (hb : 8 ≤ maxBonus cfg)
    (hm : (b.eval cfg ext hrep h).isSome = true) : (a.eval cfg ext hrep h).isSome = true := by
  have hsub : a.needle.Sublist b.needle := by
    rcases r.needle with hp | ⟨_, hs⟩
    · exact hp.sublist
    · exact hs
  obtain ⟨a0, as, hna⟩ : ∃ a0 as, a.needle = a0 :: as := by
    cases hn : a.needle with
    | nil => exact absurd hn r.ne
    | cons x xs => exact ⟨x, xs, rfl⟩
  obtain ⟨b0, bs, hnb⟩ : ∃ b0 bs, b.needle = b0 :: bs := by
    cases hn : b.needle with
    | nil => rw [hn, hna] at hsub; cases hsub
    | cons x xs => exact ⟨x, xs, rfl⟩
  have ea : a.eval cfg ext hrep h = a.innerMatch cfg ext hrep h := by
    unfold Atom.eval; rw [r.negA]; cases a.innerMatch cfg ext hrep h <;> rfl
  have eb : b.eval cfg ext hrep h = b.innerMatch cfg ext hrep h := by
    unfold Atom.eval; rw [r.negB]; cases b.innerMatch cfg ext hrep h <;> rfl
  rw [eb, C15_atom_decision b cfg ext hrep h b0 bs hnb (by rw [r.repB]; exact fun e => by cases e.2) hasc hb
    (by rw [r.repB]; exact needle_normalized b cfg r.lowB)] at hm
  rw [ea, C15_atom_decision a cfg ext hrep h a0 as hna (by rw [r.repA]; exact fun e => by cases e.2) hasc hb
    (by rw [r.repA]; exact needle_normalized a cfg r.lowA)]
  have hLb : (normHay (b.cfg cfg) hrep h).length = h.length := by simp [normHay]
  rcases r.icase with hic | ⟨hia, hib⟩
  · have ecfg : a.cfg cfg = b.cfg cfg := by unfold Atom.cfg; rw [hic, r.nz]
    rw [ecfg]
    have := kindDec_narrows a.kind b.kind hrep h (normHay (b.cfg cfg) hrep h) a.needle b.needle id hLb r.kinds r.needle r.ne (by simp) hm
    simpa using this
  · have ecfgb : b.cfg cfg = { (b.cfg cfg) with ignoreCase := false } := by unfold Atom.cfg; rw [hib]
    have ecfga : a.cfg cfg = { (b.cfg cfg) with ignoreCase := true } := by unfold Atom.cfg; rw [hia, r.nz]
    cases hrep with
    | ascii =>
      have hg : a.needle.map lowerA = a.needle := by
        apply map_eq_self
        intro c hc
        unfold lowerA
        rw [if_neg (r.lowA hia c hc)]
      have := kindDec_narrows a.kind b.kind .ascii h (normHay (b.cfg cfg) .ascii h) a.needle b.needle lowerA hLb r.kinds r.needle r.ne hg hm
      rw [ecfga, ← normHay_ascii_flip, ← ecfgb]
      exact this
    | unicode =>
      have hg : a.needle.map toLower = a.needle := by
        apply map_eq_self
        intro c hc
        rw [C16_fold_ascii c (r.ascA c hc), if_neg (r.lowA hia c hc)]
      have := kindDec_narrows a.kind b.kind .unicode h (normHay (b.cfg cfg) .unicode h) a.needle b.needle toLower hLb r.kinds r.needle r.ne hg hm
      rw [ecfga, ← normHay_ignoreCase, ← ecfgb]
      exact this

end NucleoVerif
