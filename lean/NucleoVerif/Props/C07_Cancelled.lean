import NucleoVerif.Props.C07_Quiescent
/-! # C07/C06 (companion file) — runs that are cancelled part-way

A cancelled run leaves the match list half-processed.  `Loose` is what is still true then: bookkeeping intact, the
real (non-placeholder) entries are distinct accounted items, and *every accounted item that matches the worker's
pattern is still listed* (possibly with a stale score, possibly among left-over placeholders).  Every run — any
status, cancelled at any point or not — ends in a `Loose` state for its pattern; a completed run after an appended
edit turns a `Loose` state for the old pattern into the exactly right list for the new one; so an appended edit that
arrives while the previous run is being cancelled is handled correctly. -/
namespace NucleoVerif.Nu

variable (score : Nat → Item → Option Nat) (len : Item → Nat)

/-- the indices of the real (non-placeholder) entries -/
def realIdx (hits : List Match) : List Nat := (hits.filter (fun m => !isPlace m)).map (·.idx)

theorem realIdx_append (a b : List Match) : realIdx (a ++ b) = realIdx a ++ realIdx b := by
  unfold realIdx; simp [List.filter_append]

theorem realIdx_cons (m : Match) (t : List Match) :
    realIdx (m :: t) = if isPlace m then realIdx t else m.idx :: realIdx t := by
  unfold realIdx
  cases h : isPlace m <;> simp [List.filter_cons, h]

theorem realIdx_map_mk0 (l : List Nat) (h : ∀ i ∈ l, i ≠ PLACE) : realIdx (l.map mk0) = l := by
  induction l with
  | nil => rfl
  | cons i t ih =>
    have hi : isPlace (mk0 i) = false := by simp [isPlace, mk0, h i (by simp)]
    rw [List.map_cons, realIdx_cons, hi]
    simp only [Bool.false_eq_true, if_false]
    rw [ih (fun j hj => h j (by simp [hj]))]; rfl

theorem mem_realIdx (hits : List Match) (i : Nat) : i ∈ realIdx hits ↔ ∃ m ∈ hits, isPlace m = false ∧ m.idx = i := by
  unfold realIdx
  simp only [List.mem_map, List.mem_filter, Bool.not_eq_true']
  constructor
  · rintro ⟨m, ⟨h1, h2⟩, h3⟩; exact ⟨m, h1, h2, h3⟩
  · rintro ⟨m, h1, h2, h3⟩; exact ⟨m, ⟨h1, h2⟩, h3⟩

/-- what survives a cancelled run (see the file header) -/
structure Loose (S : Nat → Option Item) (p : Nat) (w : Worker) : Prop where
  bk : BK w
  nodup : (realIdx w.hits).Nodup
  sub : ∀ i ∈ realIdx w.hits, i ∈ processed w
  sup : ∀ i ∈ processed w, ((S i).bind (score p)).isSome = true → i ∈ realIdx w.hits
  place0 : ∀ m ∈ w.hits, isPlace m = true → m.score = 0

theorem realIdx_idealHits (S : Nat → Option Item) (p : Nat) (P : List Nat) (hP : ∀ i ∈ P, i ≠ PLACE) :
    realIdx (idealHits score S p P) = P.filter (fun i => ((S i).bind (score p)).isSome) := by
  unfold realIdx
  rw [filter_notPlace_of_all _ (fun m hm => idealHits_notPlace score S p P hP m hm), idealHits_idx]

/-- a right list is in particular a loose one -/
theorem Good.loose {S : Nat → Option Item} {w : Worker} (g : Good score S w) (hlt : w.lastSnapshot < PLACE) :
    Loose score S w.pattern w := by
  have hne : ∀ i ∈ processed w, i ≠ PLACE := fun i hi => by
    have := ((mem_keepIdx _ _ i).mp hi).1; omega
  have hperm : (realIdx w.hits).Perm ((processed w).filter (fun i => ((S i).bind (score w.pattern)).isSome)) := by
    rw [← realIdx_idealHits score S w.pattern _ hne]
    unfold realIdx
    exact (g.right.filter _).map _
  refine ⟨g.bk, hperm.nodup_iff.mpr ((keepIdx_nodup _ _).filter _), fun i hi => (List.mem_filter.mp (hperm.subset hi)).1,
    fun i hi hm => hperm.symm.subset (List.mem_filter.mpr ⟨hi, hm⟩), fun m hm hp => ?_⟩
  have := idealHits_notPlace score S w.pattern _ hne m (g.right.subset hm)
  rw [this] at hp; cases hp

/-- a pattern that matches less needs less -/
theorem Loose.narrow {S : Nat → Option Item} {pOld pNew : Nat} {w : Worker} (l : Loose score S pOld w)
    (hsound : ∀ it, (score pNew it).isSome = true → (score pOld it).isSome = true) : Loose score S pNew w := by
  refine ⟨l.bk, l.nodup, l.sub, fun i hi hm => l.sup i hi ?_, l.place0⟩
  cases hS : S i with
  | none => rw [hS] at hm; cases hm
  | some it => rw [hS] at hm; exact hsound it hm

/-- rescoring every entry and dropping the placeholders depends only on the real indices -/
theorem filter_rescore_realIdx (p : Nat) (seen : Nat → Option Item) : ∀ (hits : List Match),
    (hits.map (rescoreOne score p seen)).filter (fun m => !isPlace m) =
    (((realIdx hits).map mk0).map (rescoreOne score p seen)).filter (fun m => !isPlace m) := by
  intro hits
  induction hits with
  | nil => rfl
  | cons m t ih =>
    rw [realIdx_cons]
    cases hp : isPlace m with
    | true =>
      simp only [if_true, List.map_cons, List.filter_cons]
      have hm : m.idx = PLACE := by simpa [isPlace] using hp
      have : rescoreOne score p seen m = m := by unfold rescoreOne; simp [hm]
      rw [this, hp]
      simp only [Bool.not_true, Bool.false_eq_true, if_false]
      exact ih
    | false =>
      simp only [Bool.false_eq_true, if_false, List.map_cons, List.filter_cons]
      have hm : m.idx ≠ PLACE := by simpa [isPlace] using hp
      rw [rescoreOne_idx score p seen m hm, ih]


/-- the matches among a sub-list that contains every matching index are the matches of the whole list -/
theorem idealHits_sandwich (S : Nat → Option Item) (p : Nat) (Q P : List Nat) (hQ : Q.Nodup) (hP : P.Nodup)
    (hsub : ∀ i ∈ Q, i ∈ P) (hsup : ∀ i ∈ P, ((S i).bind (score p)).isSome = true → i ∈ Q) :
    (idealHits score S p Q).Perm (idealHits score S p P) := by
  rw [← idealHits_filter_of_sound score S p p (fun _ h => h) Q, ← idealHits_filter_of_sound score S p p (fun _ h => h) P]
  apply idealHits_perm
  rw [List.perm_ext_iff_of_nodup (hQ.filter _) (hP.filter _)]
  intro i
  simp only [List.mem_filter]
  exact ⟨fun ⟨h1, h2⟩ => ⟨hsub i h1, h2⟩, fun ⟨h1, h2⟩ => ⟨hsup i h1 h2, h2⟩⟩

/-- **the run contract for an appended edit, from a loose state**: a completed `Update` run rescoring a list that still
    contains every accounted item matching the (new) pattern makes the list exactly right — whatever a cancelled
    run left behind (stale scores, placeholders, unsorted order) -/
theorem C06_update_run_contract_loose (S : Nat → Option Item) (w : Worker) (o : Obs) (env : RunEnv S w o)
    (l : Loose score S w.pattern w) (w' : Worker) (hw'def : w' = (Worker.run score len w .update false false o).1) :
    w'.hits.Perm (idealHits score S w'.pattern (processed w')) ∧ w'.hits.Pairwise (mle len o.seen1) ∧
    BK w' ∧ w'.itemCount = (processed w').length ∧ w'.lastSnapshot = o.count ∧ w'.wasCanceled = false := by
  have bk := l.bk
  have hprocne : ∀ i ∈ processed w, i ≠ PLACE := by
    intro i hi
    have := ((mem_keepIdx _ _ i).mp hi).1
    have := env.countGe; have := env.countLt; omega
  by_cases hemp : w.hits.isEmpty = true
  · have hnil : w.hits = [] := List.isEmpty_iff.mp hemp
    have hnone : idealHits score S w.pattern (processed w) = [] := by
      have hs := idealHits_sandwich score S w.pattern [] (processed w) List.nodup_nil (keepIdx_nodup _ _) (fun i hi => by cases hi)
        (fun i hi hm => by have := l.sup i hi hm; rw [hnil] at this; exact this)
      exact hs.symm.eq_nil
    have hrun : Worker.run score len w .update false false o = Worker.run score len w .unchanged false false o := by
      unfold Worker.run
      simp only [Bool.false_eq_true, if_false]
      have hb : (w.begin false) = { w with running := true, wasCanceled := false } := by simp [Worker.begin]
      rw [hb, scorePass_update_empty score _ o (by simpa using hemp)]
    rw [hw'def, hrun]
    exact C06_unchanged_run_contract score len S w o bk env (by rw [hnil, hnone])
  · have hemp' : w.hits.isEmpty = false := by simpa using hemp
    have hb : (w.begin false) = { w with running := true, wasCanceled := false } := by simp [Worker.begin]
    generalize hwb : ({ w with running := true, wasCanceled := false } : Worker) = wb at hb
    have e_hits : wb.hits = w.hits := by rw [← hwb]
    have e_fl : wb.inFlight = w.inFlight := by rw [← hwb]
    have e_last : wb.lastSnapshot = w.lastSnapshot := by rw [← hwb]
    have e_pat : wb.pattern = w.pattern := by rw [← hwb]
    have e_wc : wb.wasCanceled = false := by rw [← hwb]
    have hw' : w' = (Worker.finish len (rescore score (processTrivial wb o.seen1 o.count) o).1
        (rescore score (processTrivial wb o.seen1 o.count) o).2 (processTrivial wb o.seen1 o.count).hits.length o).1 := by
      rw [hw'def]
      unfold Worker.run
      simp only [Bool.false_eq_true, if_false]
      rw [hb, scorePass_update_nonempty score wb o (by rw [e_hits]; exact hemp')]
    have pt := processTrivial_spec wb o.seen1 o.count (by rw [e_last]; exact env.countGe)
    rw [e_hits, e_fl, e_last, e_pat] at pt
    obtain ⟨p1, p2, p3, p4⟩ := pt
    generalize hw2 : processTrivial wb o.seen1 o.count = w2 at p1 p2 p3 p4 hw'
    generalize hnew : (List.range (o.count - w.lastSnapshot)).map (· + w.lastSnapshot) = new at *
    have hnew_mem : ∀ i, i ∈ new ↔ w.lastSnapshot ≤ i ∧ i < o.count := by
      intro i; rw [← hnew]; exact new_range_mem _ _ env.countGe i
    have hnew_nd : new.Nodup := by rw [← hnew]; exact new_range_nodup _ _
    have hnewpub_ne : ∀ i ∈ new.filter (fun i => (o.seen1 i).isSome), i ≠ PLACE := by
      intro i hi
      have := ((hnew_mem i).mp (List.mem_filter.mp hi).1).2; have := env.countLt; omega
    generalize hQ : realIdx w.hits ++ new.filter (fun i => (o.seen1 i).isSome) = Q
    have hreal2 : realIdx w2.hits = Q := by
      rw [p1, realIdx_append, realIdx_map_mk0 _ hnewpub_ne, hQ]
    have hQne : ∀ i ∈ Q, i ≠ PLACE := by
      intro i hi
      rw [← hQ] at hi
      rcases List.mem_append.mp hi with hi | hi
      · exact hprocne i (l.sub i hi)
      · exact hnewpub_ne i hi
    have hQS : ∀ i ∈ Q, o.seen1 i = S i := by
      intro i hi
      rw [← hQ] at hi
      rcases List.mem_append.mp hi with hi | hi
      · have := (mem_keepIdx _ _ i).mp (l.sub i hi)
        exact env.processed i this.1 this.2
      · have hi2 := (List.mem_filter.mp hi).2
        cases h1 : o.seen1 i with
        | none => rw [h1] at hi2; cases hi2
        | some it => rw [env.sound1 i it h1]
    have ru := rescore_uncancelled score w2 o (fun pos _ => (env.noCancel pos).2)
    rw [p4] at ru
    obtain ⟨u1, u2, u3, u4, u5⟩ := ru
    have h0 : ∀ m ∈ (rescore score w2 o).1.hits, isPlace m = true → m.score = 0 := by
      intro m hm hp
      rw [u1] at hm
      obtain ⟨m0, hm0, rfl⟩ := List.mem_map.mp hm
      by_cases hpl : m0.idx = PLACE
      · have e : rescoreOne score w.pattern o.seen1 m0 = m0 := by unfold rescoreOne; simp [hpl]
        rw [e]
        rw [p1] at hm0
        rcases List.mem_append.mp hm0 with h | h
        · exact l.place0 m0 h (by simp [isPlace, hpl])
        · obtain ⟨i, hi, rfl⟩ := List.mem_map.mp h
          exact absurd hpl (hnewpub_ne i hi)
      · unfold rescoreOne at hp ⊢
        simp only [hpl, if_false] at hp ⊢
        split
        · rename_i s hs; rw [hs] at hp; simp [isPlace, hpl] at hp
        · rfl
    have fu := finish_uncancelled len (rescore score w2 o).1 (rescore score w2 o).2 w2.hits.length o (env.notCanceled _)
      (by rw [u2, u1]) h0
    rw [← hw'] at fu
    obtain ⟨f1, f2, f3, f4, f5⟩ := fu
    have hsf := sorted_filter_notPlace len o.seen1 (rescore score w2 o).1.hits
    have hbk : BK w' := by
      refine BK_of_parts w' w.inFlight w.lastSnapshot o.count o.seen1 env.countGe bk.nodup bk.below ?_ (by rw [f3, u4, p3])
      rw [f2, u3, p2, hnew]
    have hproc : (processed w ++ new.filter (fun i => (o.seen1 i).isSome)).Perm (processed w') := by
      rw [List.perm_ext_iff_of_nodup]
      · intro i
        unfold processed
        rw [mem_keepIdx, f3, u4, p3, f2, u3, p2, List.mem_append, mem_keepIdx, List.mem_filter, List.mem_append, List.mem_filter, hnew_mem]
        constructor
        · rintro (⟨h1, h2⟩ | ⟨⟨h1, h2⟩, h3⟩)
          · refine ⟨by have := env.countGe; omega, ?_⟩
            rintro (h | ⟨⟨h, _⟩, _⟩)
            · exact h2 h
            · omega
          · refine ⟨h2, ?_⟩
            rintro (h | ⟨_, h⟩)
            · have := bk.below i h; omega
            · cases hs : o.seen1 i with
              | none => rw [hs] at h3; cases h3
              | some it => rw [hs] at h; cases h
        · intro ⟨h1, h2⟩
          by_cases hlt : i < w.lastSnapshot
          · left; exact ⟨hlt, fun h => h2 (Or.inl h)⟩
          · right
            refine ⟨⟨by omega, h1⟩, ?_⟩
            cases hs : o.seen1 i with
            | none => exact absurd (Or.inr ⟨⟨by omega, h1⟩, by rw [hs]; rfl⟩) h2
            | some it => rfl
      · rw [List.nodup_append]
        refine ⟨keepIdx_nodup _ _, hnew_nd.filter _, ?_⟩
        intro a ha b hb'
        have h1 := ((mem_keepIdx _ _ a).mp ha).1
        have h2 := (hnew_mem b).mp (List.mem_filter.mp hb').1
        omega
      · exact keepIdx_nodup _ _
    refine ⟨?_, ?_, hbk, ?_, by rw [f3, u4, p3], by rw [f4]; unfold rescore; simp only; rw [← hw2, (processTrivial_fields wb o.seen1 o.count).2.2]; exact e_wc⟩
    · rw [f1, f5, u5]
      refine hsf.1.trans ?_
      rw [u1, filter_rescore_realIdx, hreal2, rescore_fresh_filter score w.pattern o.seen1 Q hQne,
        idealHits_congr score o.seen1 S w.pattern Q hQS, ← hQ, idealHits_append]
      refine (List.Perm.append_right _ (idealHits_sandwich score S w.pattern _ _ l.nodup (keepIdx_nodup _ _) l.sub l.sup)).trans ?_
      rw [← idealHits_append]
      exact idealHits_perm score S w.pattern _ _ hproc
    · rw [f1]; exact hsf.2
    · unfold Worker.itemCount processed
      rw [keepIdx_length _ _ hbk.below hbk.nodup]


/-! ## every run ends in a loose state, wherever it is cancelled -/

/-- what a run observes, without any assumption about the cancel flag -/
structure ObsEnv (S : Nat → Option Item) (w : Worker) (o : Obs) : Prop where
  mono : ∀ i it, o.seen0 i = some it → o.seen1 i = some it
  sound1 : ∀ i it, o.seen1 i = some it → S i = some it
  processed : ∀ i, i < w.lastSnapshot → i ∉ w.inFlight → o.seen1 i = S i
  countGe : w.lastSnapshot ≤ o.count
  countLt : o.count < PLACE
  order : ∀ l, (o.inFlightOrder l).Perm l

theorem RunEnv.obsEnv {S : Nat → Option Item} {w : Worker} {o : Obs} (e : RunEnv S w o) : ObsEnv S w o :=
  ⟨e.mono, e.sound1, e.processed, e.countGe, e.countLt, e.order⟩

theorem mem_processed (w : Worker) (i : Nat) : i ∈ processed w ↔ i < w.lastSnapshot ∧ i ∉ w.inFlight := mem_keepIdx _ _ i

/-- after `reset_matches` the list holds exactly the accounted items -/
theorem Loose.of_reset (S : Nat → Option Item) (p : Nat) (w : Worker) (seen : Nat → Option Item) (bk : BK w) (hlt : w.lastSnapshot < PLACE) :
    Loose score S p (resetMatches w seen) ∧ (resetMatches w seen).lastSnapshot = w.lastSnapshot ∧
    (∀ i, i ∈ (resetMatches w seen).inFlight → i ∈ w.inFlight) := by
  obtain ⟨r1, r2, r3, r4⟩ := resetMatches_spec w seen bk.below bk.nodup
  have hsortp := (C06_in_flight_sorted w.inFlight).2
  have hnd : ((sortNat w.inFlight).filter (fun i => (seen i).isNone)).Nodup := (hsortp.nodup_iff.mpr bk.nodup).filter _
  have hsub : ∀ i ∈ (sortNat w.inFlight).filter (fun i => (seen i).isNone), i ∈ w.inFlight :=
    fun i hi => hsortp.subset (List.mem_filter.mp hi).1
  have hne : ∀ i ∈ keepIdx w.lastSnapshot ((sortNat w.inFlight).filter (fun i => (seen i).isNone)), i ≠ PLACE := by
    intro i hi; have := keepIdx_lt _ _ i hi; omega
  have hreal : realIdx (resetMatches w seen).hits = processed (resetMatches w seen) := by
    rw [r1, realIdx_map_mk0 _ hne]; unfold processed; rw [r2, r3]
  refine ⟨⟨⟨by rw [r2]; exact hnd, fun i hi => by rw [r3]; rw [r2] at hi; exact bk.below i (hsub i hi)⟩,
    by rw [hreal]; exact keepIdx_nodup _ _, fun i hi => by rw [hreal] at hi; exact hi, fun i hi _ => by rw [hreal]; exact hi,
    fun m hm hp => ?_⟩, r3, fun i hi => by rw [r2] at hi; exact hsub i hi⟩
  rw [r1] at hm
  obtain ⟨i, hi, rfl⟩ := List.mem_map.mp hm
  rfl

theorem processed_trivial (w : Worker) (seen : Nat → Option Item) (count : Nat) (bk : BK w) (hc : w.lastSnapshot ≤ count) (i : Nat) :
    i ∈ processed (processTrivial w seen count) ↔
      i ∈ processed w ∨ (w.lastSnapshot ≤ i ∧ i < count ∧ (seen i).isSome = true) := by
  obtain ⟨p1, p2, p3, p4⟩ := processTrivial_spec w seen count hc
  rw [mem_processed, mem_processed, p2, p3, List.mem_append, List.mem_filter, new_range_mem _ _ hc]
  constructor
  · intro ⟨h1, h2⟩
    by_cases hlt : i < w.lastSnapshot
    · exact Or.inl ⟨hlt, fun h => h2 (Or.inl h)⟩
    · right
      refine ⟨by omega, h1, ?_⟩
      cases hs : seen i with
      | none => exact absurd (Or.inr ⟨⟨by omega, h1⟩, by rw [hs]; rfl⟩) h2
      | some it => rfl
  · rintro (⟨h1, h2⟩ | ⟨h1, h2, h3⟩)
    · refine ⟨by omega, ?_⟩
      rintro (h | ⟨⟨h, _⟩, _⟩)
      · exact h2 h
      · omega
    · refine ⟨h2, ?_⟩
      rintro (h | ⟨_, h⟩)
      · have := bk.below i h; omega
      · cases hs : seen i with
        | none => rw [hs] at h3; cases h3
        | some it => rw [hs] at h; cases h

/-- `process_new_items_trivial` appends the newly published slots as fresh entries -/
theorem Loose.trivial {S : Nat → Option Item} {p : Nat} {w : Worker} (l : Loose score S p w) (seen : Nat → Option Item) (count : Nat)
    (hc : w.lastSnapshot ≤ count) (hlt : count < PLACE) : Loose score S p (processTrivial w seen count) := by
  obtain ⟨p1, p2, p3, p4⟩ := processTrivial_spec w seen count hc
  have hpr := processed_trivial w seen count l.bk hc
  have hnewpub_ne : ∀ i ∈ ((List.range (count - w.lastSnapshot)).map (· + w.lastSnapshot)).filter (fun i => (seen i).isSome), i ≠ PLACE := by
    intro i hi
    have := ((new_range_mem _ _ hc i).mp (List.mem_filter.mp hi).1).2; omega
  have hreal : realIdx (processTrivial w seen count).hits =
      realIdx w.hits ++ ((List.range (count - w.lastSnapshot)).map (· + w.lastSnapshot)).filter (fun i => (seen i).isSome) := by
    rw [p1, realIdx_append, realIdx_map_mk0 _ hnewpub_ne]
  refine ⟨BK_of_parts _ w.inFlight w.lastSnapshot count seen hc l.bk.nodup l.bk.below (by rw [p2]) p3, ?_, ?_, ?_, ?_⟩
  · rw [hreal, List.nodup_append]
    refine ⟨l.nodup, (new_range_nodup _ _).filter _, fun a ha b hb => ?_⟩
    have h1 := ((mem_processed w a).mp (l.sub a ha)).1
    have h2 := ((new_range_mem _ _ hc b).mp (List.mem_filter.mp hb).1).1
    omega
  · intro i hi
    rw [hreal] at hi
    rw [hpr]
    rcases List.mem_append.mp hi with h | h
    · exact Or.inl (l.sub i h)
    · have := List.mem_filter.mp h
      have h2 := (new_range_mem _ _ hc i).mp this.1
      exact Or.inr ⟨h2.1, h2.2, this.2⟩
  · intro i hi hm
    rw [hreal]
    rcases (hpr i).mp hi with h | ⟨h1, h2, h3⟩
    · exact List.mem_append.mpr (Or.inl (l.sup i h hm))
    · exact List.mem_append.mpr (Or.inr (List.mem_filter.mpr ⟨(new_range_mem _ _ hc i).mpr ⟨h1, h2⟩, h3⟩))
  · intro m hm hp
    rw [p1] at hm
    rcases List.mem_append.mp hm with h | h
    · exact l.place0 m h hp
    · obtain ⟨i, hi, rfl⟩ := List.mem_map.mp h
      rfl


/-- a pass that rescored some entries and left the others untouched -/
theorem partial_rescore (p : Nat) (seen : Nat → Option Item) (f : Nat → Match → Match)
    (hf : ∀ k m, f k m = m ∨ f k m = rescoreOne score p seen m) : ∀ (hits : List Match) (n : Nat),
    (realIdx ((hits.zipIdx n).map (fun x => f x.2 x.1))).Sublist (realIdx hits) ∧
    (∀ i ∈ realIdx hits, ((seen i).bind (score p)).isSome = true → i ∈ realIdx ((hits.zipIdx n).map (fun x => f x.2 x.1))) ∧
    ((∀ m ∈ hits, isPlace m = true → m.score = 0) → ∀ m ∈ (hits.zipIdx n).map (fun x => f x.2 x.1), isPlace m = true → m.score = 0) := by
  intro hits
  induction hits with
  | nil => intro n; exact ⟨List.Sublist.refl _, fun i hi => (by cases hi), fun _ m hm => (by cases hm)⟩
  | cons m t ih =>
    intro n
    obtain ⟨i1, i2, i3⟩ := ih (n + 1)
    simp only [List.zipIdx_cons, List.map_cons]
    -- the head entry
    have hhead : (f n m = m) ∨ (isPlace m = false ∧ ((seen m.idx).bind (score p)).isSome = true ∧ isPlace (f n m) = false ∧ (f n m).idx = m.idx) ∨
        (isPlace m = false ∧ ((seen m.idx).bind (score p)).isSome = false ∧ f n m = ⟨0, PLACE⟩) := by
      rcases hf n m with h | h
      · exact Or.inl h
      · by_cases hp : m.idx = PLACE
        · left; rw [h]; unfold rescoreOne; simp [hp]
        · have hnp : isPlace m = false := by simp [isPlace, hp]
          cases hs : (seen m.idx).bind (score p) with
          | some s =>
            right; left
            have : f n m = ⟨s, m.idx⟩ := by rw [h]; unfold rescoreOne; simp [hp, hs]
            exact ⟨hnp, rfl, by rw [this]; simp [isPlace, hp], by rw [this]⟩
          | none =>
            right; right
            have : f n m = ⟨0, PLACE⟩ := by rw [h]; unfold rescoreOne; simp [hp, hs]
            exact ⟨hnp, rfl, this⟩
    rw [realIdx_cons, realIdx_cons]
    rcases hhead with h | ⟨h1, h2, h3, h4⟩ | ⟨h1, h2, h3⟩
    · rw [h]
      cases hp : isPlace m with
      | true =>
        simp only [if_true]
        refine ⟨i1, i2, fun h0 m' hm' hp' => ?_⟩
        rcases List.mem_cons.mp hm' with rfl | hm'
        · exact h0 m' (by simp) hp'
        · exact i3 (fun x hx => h0 x (by simp [hx])) m' hm' hp'
      | false =>
        simp only [Bool.false_eq_true, if_false]
        refine ⟨i1.cons_cons _, fun i hi hm => ?_, fun h0 m' hm' hp' => ?_⟩
        · rcases List.mem_cons.mp hi with rfl | hi
          · simp
          · exact List.mem_cons_of_mem _ (i2 i hi hm)
        · rcases List.mem_cons.mp hm' with rfl | hm'
          · rw [hp] at hp'; cases hp'
          · exact i3 (fun x hx => h0 x (by simp [hx])) m' hm' hp'
    · rw [h1, h3, h4]
      simp only [Bool.false_eq_true, if_false]
      refine ⟨i1.cons_cons _, fun i hi hm => ?_, fun h0 m' hm' hp' => ?_⟩
      · rcases List.mem_cons.mp hi with rfl | hi
        · simp
        · exact List.mem_cons_of_mem _ (i2 i hi hm)
      · rcases List.mem_cons.mp hm' with rfl | hm'
        · rw [h3] at hp'; cases hp'
        · exact i3 (fun x hx => h0 x (by simp [hx])) m' hm' hp'
    · rw [h1, h3]
      have hpl : isPlace (⟨0, PLACE⟩ : Match) = true := by simp [isPlace]
      rw [hpl]
      simp only [Bool.false_eq_true, if_false, if_true]
      refine ⟨i1.cons _, fun i hi hm => ?_, fun h0 m' hm' hp' => ?_⟩
      · rcases List.mem_cons.mp hi with rfl | hi
        · rw [h2] at hm; cases hm
        · exact i2 i hi hm
      · rcases List.mem_cons.mp hm' with rfl | hm'
        · rfl
        · exact i3 (fun x hx => h0 x (by simp [hx])) m' hm' hp'

/-- the rescoring pass, interrupted anywhere: matching entries stay -/
theorem Loose.rescored {S : Nat → Option Item} {w : Worker} (l : Loose score S w.pattern w) (o : Obs)
    (hS : ∀ i ∈ processed w, o.seen1 i = S i) : Loose score S w.pattern (rescore score w o).1 := by
  have key := partial_rescore score w.pattern o.seen1
    (fun k m => if o.sawCancelRescore k then m else rescoreOne score w.pattern o.seen1 m)
    (fun k m => by by_cases h : o.sawCancelRescore k = true <;> simp [h]) w.hits 0
  have e1 : (rescore score w o).1.hits = (w.hits.zipIdx 0).map (fun x => (fun k m => if o.sawCancelRescore k then m else rescoreOne score w.pattern o.seen1 m) x.2 x.1) := by
    unfold rescore; rfl
  have e2 : (rescore score w o).1.inFlight = w.inFlight := rfl
  have e3 : (rescore score w o).1.lastSnapshot = w.lastSnapshot := rfl
  have e4 : (rescore score w o).1.pattern = w.pattern := rfl
  have ep : processed (rescore score w o).1 = processed w := by unfold processed; rw [e2, e3]
  obtain ⟨k1, k2, k3⟩ := key
  rw [← e1] at k1 k2 k3
  refine ⟨⟨by rw [e2]; exact l.bk.nodup, by rw [e2, e3]; exact l.bk.below⟩, k1.nodup l.nodup,
    fun i hi => by rw [ep]; exact l.sub i (k1.subset hi), fun i hi hm => ?_, k3 l.place0⟩
  rw [ep] at hi
  exact k2 i (l.sup i hi hm) (by rw [hS i hi]; exact hm)


theorem processNew_hits (w : Worker) (o : Obs) : ∃ pubPos : Nat → Nat,
    (processNew score w o).1.hits =
      w.hits ++ (w.inFlight.filter (fun i => (o.seen0 i).isSome)).filterMap
          (fun i => (o.seen0 i).bind (fun it => (score w.pattern it).map (fun s => Match.mk s i))) ++
        ((List.range (o.count - w.lastSnapshot)).map (· + w.lastSnapshot)).map (scoreNewSlot score w.pattern o pubPos) ∧
    (processNew score w o).1.pattern = w.pattern := by
  unfold processNew
  by_cases hcount : o.count ≠ w.lastSnapshot
  · simp only [hcount, ne_eq, not_false_eq_true, if_true]
    exact ⟨_, rfl, trivial⟩
  · have hcount' : o.count = w.lastSnapshot := by simpa using hcount
    simp only [hcount', ne_eq, not_true_eq_false, if_false, Nat.sub_self, List.range_zero, List.map_nil, List.append_nil]
    exact ⟨fun _ => 0, trivial, trivial⟩

/-- the entries made for in-flight items that have been published meanwhile -/
theorem realIdx_nowPub (p : Nat) (seen : Nat → Option Item) : ∀ (l : List Nat), (∀ i ∈ l, i ≠ PLACE) →
    realIdx (l.filterMap (fun i => (seen i).bind (fun it => (score p it).map (fun s => Match.mk s i)))) =
      l.filter (fun i => ((seen i).bind (score p)).isSome) ∧
    ∀ m ∈ l.filterMap (fun i => (seen i).bind (fun it => (score p it).map (fun s => Match.mk s i))), isPlace m = false := by
  intro l
  induction l with
  | nil => intro _; exact ⟨rfl, fun m hm => by cases hm⟩
  | cons i t ih =>
    intro h
    obtain ⟨i1, i2⟩ := ih (fun j hj => h j (by simp [hj]))
    have hi := h i (by simp)
    have he : ((seen i).bind (fun it => (score p it).map (fun s => Match.mk s i))) = ((seen i).bind (score p)).map (fun s => Match.mk s i) := by
      cases seen i with
      | none => rfl
      | some it => rfl
    simp only [List.filterMap_cons, List.filter_cons, he]
    cases hs : (seen i).bind (score p) with
    | none => simp only [Option.map_none, Option.isSome_none, Bool.false_eq_true, if_false]; exact ⟨i1, i2⟩
    | some sc =>
      simp only [Option.map_some, Option.isSome_some, if_true]
      have hnp : isPlace (⟨sc, i⟩ : Match) = false := by simp [isPlace, hi]
      refine ⟨by rw [realIdx_cons, hnp]; simp only [Bool.false_eq_true, if_false]; rw [i1], fun m hm => ?_⟩
      rcases List.mem_cons.mp hm with rfl | hm
      · exact hnp
      · exact i2 m hm

/-- the entries made for the new slots: a real entry for `i` or a zero placeholder -/
theorem scoreNewSlot_cases (p : Nat) (o : Obs) (pubPos : Nat → Nat) (i : Nat) (hi : i ≠ PLACE) :
    (isPlace (scoreNewSlot score p o pubPos i) = false ∧ (scoreNewSlot score p o pubPos i).idx = i ∧ (o.seen1 i).isSome = true) ∨
    (scoreNewSlot score p o pubPos i = ⟨0, PLACE⟩ ∧ ((o.seen1 i).bind (score p)).isSome = false) := by
  unfold scoreNewSlot
  cases hs : o.seen1 i with
  | none => right; exact ⟨rfl, rfl⟩
  | some it =>
    simp only
    by_cases hc : o.sawCancel (pubPos i) = true
    · left; simp only [hc, if_true]; exact ⟨by simp [isPlace, hi], trivial, rfl⟩
    · simp only [hc, Bool.false_eq_true, if_false]
      unfold scoreNewItem
      cases hsc : score p it with
      | none => right; exact ⟨rfl, by simp [hsc]⟩
      | some sc => left; exact ⟨by simp [isPlace, hi], rfl, rfl⟩

theorem realIdx_scored (p : Nat) (o : Obs) (pubPos : Nat → Nat) : ∀ (l : List Nat), (∀ i ∈ l, i ≠ PLACE) →
    (realIdx (l.map (scoreNewSlot score p o pubPos))).Sublist l ∧
    (∀ i ∈ realIdx (l.map (scoreNewSlot score p o pubPos)), (o.seen1 i).isSome = true) ∧
    (∀ i ∈ l, ((o.seen1 i).bind (score p)).isSome = true → i ∈ realIdx (l.map (scoreNewSlot score p o pubPos))) ∧
    (∀ m ∈ l.map (scoreNewSlot score p o pubPos), isPlace m = true → m.score = 0) := by
  intro l
  induction l with
  | nil => intro _; exact ⟨List.Sublist.refl _, fun i hi => (by cases hi), fun i hi => (by cases hi), fun m hm => (by cases hm)⟩
  | cons i t ih =>
    intro h
    obtain ⟨i1, i2, i3, i4⟩ := ih (fun j hj => h j (by simp [hj]))
    rw [List.map_cons, realIdx_cons]
    rcases scoreNewSlot_cases score p o pubPos i (h i (by simp)) with ⟨c1, c2, c3⟩ | ⟨c1, c2⟩
    · rw [c1, c2]
      simp only [Bool.false_eq_true, if_false]
      refine ⟨i1.cons_cons _, fun j hj => ?_, fun j hj hm => ?_, fun m hm hp => ?_⟩
      · rcases List.mem_cons.mp hj with rfl | hj
        · exact c3
        · exact i2 j hj
      · rcases List.mem_cons.mp hj with rfl | hj
        · simp
        · exact List.mem_cons_of_mem _ (i3 j hj hm)
      · rcases List.mem_cons.mp hm with rfl | hm
        · rw [c1] at hp; cases hp
        · exact i4 m hm hp
    · rw [c1]
      have hpl : isPlace (⟨0, PLACE⟩ : Match) = true := by simp [isPlace]
      rw [hpl]
      simp only [if_true]
      refine ⟨i1.cons _, i2, fun j hj hm => ?_, fun m hm hp => ?_⟩
      · rcases List.mem_cons.mp hj with rfl | hj
        · rw [c2] at hm; cases hm
        · exact i3 j hj hm
      · rcases List.mem_cons.mp hm with rfl | hm
        · rfl
        · exact i4 m hm hp


/-- `process_new_items`, interrupted anywhere -/
theorem Loose.newItems {S : Nat → Option Item} {w : Worker} (l : Loose score S w.pattern w) (o : Obs) (env : ObsEnv S w o) :
    Loose score S w.pattern (processNew score w o).1 := by
  obtain ⟨pubPos, hh, hpat⟩ := processNew_hits score w o
  obtain ⟨hfl, hlast⟩ := processNew_bookkeeping score w o env.order
  generalize hnew : (List.range (o.count - w.lastSnapshot)).map (· + w.lastSnapshot) = new at hh hfl
  have hnew_mem : ∀ i, i ∈ new ↔ w.lastSnapshot ≤ i ∧ i < o.count := by
    intro i; rw [← hnew]; exact new_range_mem _ _ env.countGe i
  have hnew_nd : new.Nodup := by rw [← hnew]; exact new_range_nodup _ _
  have hnew_ne : ∀ i ∈ new, i ≠ PLACE := fun i hi => by have := ((hnew_mem i).mp hi).2; have := env.countLt; omega
  have hfl_ne : ∀ i ∈ w.inFlight.filter (fun i => (o.seen0 i).isSome), i ≠ PLACE := by
    intro i hi
    have := l.bk.below i (List.mem_filter.mp hi).1; have := env.countGe; have := env.countLt; omega
  obtain ⟨a1, a2⟩ := realIdx_nowPub score w.pattern o.seen0 _ hfl_ne
  obtain ⟨s1, s2, s3, s4⟩ := realIdx_scored score w.pattern o pubPos new hnew_ne
  generalize hw' : (processNew score w o).1 = w' at hh hpat hfl hlast
  have hreal : realIdx w'.hits = realIdx w.hits ++ (w.inFlight.filter (fun i => (o.seen0 i).isSome)).filter
      (fun i => ((o.seen0 i).bind (score w.pattern)).isSome) ++ realIdx (new.map (scoreNewSlot score w.pattern o pubPos)) := by
    rw [hh, realIdx_append, realIdx_append, a1]
  have hproc : ∀ i, i ∈ processed w' ↔ i < o.count ∧ i ∉ w.inFlight.filter (fun i => (o.seen0 i).isNone) ∧
      i ∉ new.filter (fun i => (o.seen1 i).isNone) := by
    intro i
    rw [mem_processed, hlast]
    constructor
    · intro ⟨h1, h2⟩
      exact ⟨h1, fun h => h2 (hfl.symm.subset (List.mem_append.mpr (Or.inl h))), fun h => h2 (hfl.symm.subset (List.mem_append.mpr (Or.inr h)))⟩
    · intro ⟨h1, h2, h3⟩
      refine ⟨h1, fun h => ?_⟩
      rcases List.mem_append.mp (hfl.subset h) with h | h
      · exact h2 h
      · exact h3 h
  have hbk : BK w' := BK_of_parts w' (w.inFlight.filter (fun i => (o.seen0 i).isNone)) w.lastSnapshot o.count o.seen1 env.countGe
    (l.bk.nodup.filter _) (fun i hi => l.bk.below i (List.mem_filter.mp hi).1) (by rw [hnew]; exact hfl) hlast
  -- soundness of the earlier look at the in-flight slots
  have hS0 : ∀ i it, o.seen0 i = some it → S i = some it := fun i it h => env.sound1 i it (env.mono i it h)
  refine ⟨hbk, ?_, ?_, ?_, ?_⟩
  · rw [hreal, List.nodup_append, List.nodup_append]
    refine ⟨⟨l.nodup, (l.bk.nodup.filter _).filter _, ?_⟩, s1.nodup hnew_nd, ?_⟩
    · intro a ha b hb
      have h1 := ((mem_processed w a).mp (l.sub a ha)).2
      have h2 := (List.mem_filter.mp (List.mem_filter.mp hb).1).1
      intro e; subst e; exact h1 h2
    · intro a ha b hb
      have hb2 := ((hnew_mem b).mp (s1.subset hb)).1
      rcases List.mem_append.mp ha with ha | ha
      · have := ((mem_processed w a).mp (l.sub a ha)).1; omega
      · have := l.bk.below a (List.mem_filter.mp (List.mem_filter.mp ha).1).1; omega
  · intro i hi
    rw [hreal] at hi
    rw [hproc]
    rcases List.mem_append.mp hi with hi | hi
    · rcases List.mem_append.mp hi with hi | hi
      · have := (mem_processed w i).mp (l.sub i hi)
        refine ⟨by have := env.countGe; omega, fun h => this.2 (List.mem_filter.mp h).1, fun h => ?_⟩
        have := (hnew_mem i).mp (List.mem_filter.mp h).1; omega
      · have h1 := List.mem_filter.mp (List.mem_filter.mp hi).1
        have hlt := l.bk.below i h1.1
        refine ⟨by have := env.countGe; omega, fun h => ?_, fun h => ?_⟩
        · have := (List.mem_filter.mp h).2
          cases hs : o.seen0 i with
          | none => rw [hs] at h1; exact absurd h1.2 (by simp)
          | some it => rw [hs] at this; cases this
        · have := (hnew_mem i).mp (List.mem_filter.mp h).1; omega
    · have h1 := (hnew_mem i).mp (s1.subset hi)
      have h2 := s2 i hi
      refine ⟨h1.2, fun h => ?_, fun h => ?_⟩
      · have := l.bk.below i (List.mem_filter.mp h).1; omega
      · have := (List.mem_filter.mp h).2
        cases hs : o.seen1 i with
        | none => rw [hs] at h2; cases h2
        | some it => rw [hs] at this; cases this
  · intro i hi hm
    rw [hreal]
    obtain ⟨h1, h2, h3⟩ := (hproc i).mp hi
    by_cases hlt : i < w.lastSnapshot
    · by_cases hin : i ∈ w.inFlight
      · -- published since it was recorded as in flight
        have hsome : (o.seen0 i).isSome = true := by
          cases hs : o.seen0 i with
          | none => exact absurd (List.mem_filter.mpr ⟨hin, by rw [hs]; rfl⟩) h2
          | some it => rfl
        have hm0 : ((o.seen0 i).bind (score w.pattern)).isSome = true := by
          cases hs : o.seen0 i with
          | none => rw [hs] at hsome; cases hsome
          | some it => rw [hS0 i it hs] at hm; exact hm
        exact List.mem_append.mpr (Or.inl (List.mem_append.mpr (Or.inr (List.mem_filter.mpr ⟨List.mem_filter.mpr ⟨hin, hsome⟩, hm0⟩))))
      · exact List.mem_append.mpr (Or.inl (List.mem_append.mpr (Or.inl (l.sup i ((mem_processed w i).mpr ⟨hlt, hin⟩) hm))))
    · have hin : i ∈ new := (hnew_mem i).mpr ⟨by omega, h1⟩
      have hm1 : ((o.seen1 i).bind (score w.pattern)).isSome = true := by
        cases hs : o.seen1 i with
        | none => exact absurd (List.mem_filter.mpr ⟨hin, by rw [hs]; rfl⟩) h3
        | some it => rw [env.sound1 i it hs] at hm; exact hm
      exact List.mem_append.mpr (Or.inr (s3 i hin hm1))
  · intro m hm hp
    rw [hh] at hm
    rcases List.mem_append.mp hm with hm | hm
    · rcases List.mem_append.mp hm with hm | hm
      · exact l.place0 m hm hp
      · rw [a2 m hm] at hp; cases hp
    · exact s4 m hm hp


theorem Loose.congr {S : Nat → Option Item} {p : Nat} {w w' : Worker} (l : Loose score S p w)
    (h1 : w'.hits = w.hits) (h2 : w'.inFlight = w.inFlight) (h3 : w'.lastSnapshot = w.lastSnapshot) : Loose score S p w' := by
  have ep : processed w' = processed w := by unfold processed; rw [h2, h3]
  exact ⟨⟨by rw [h2]; exact l.bk.nodup, by rw [h2, h3]; exact l.bk.below⟩, by rw [h1]; exact l.nodup,
    by rw [h1, ep]; exact l.sub, by rw [h1, ep]; exact l.sup, by rw [h1]; exact l.place0⟩

/-- **the scoring pass of any run ends in a loose state** — full rescoring from intact bookkeeping, or an incremental
    pass (unchanged pattern / appended edit) from a loose state — whatever it observes of the cancel flag -/
theorem scorePass_loose (S : Nat → Option Item) (w : Worker) (st : PStatus) (o : Obs) (env : ObsEnv S w o)
    (hstart : (st = .rescore ∧ BK w) ∨ Loose score S w.pattern w) :
    Loose score S w.pattern (Worker.scorePass score w st o).1 ∧ (Worker.scorePass score w st o).1.pattern = w.pattern := by
  have hlt : w.lastSnapshot < PLACE := by have := env.countGe; have := env.countLt; omega
  -- the state after the optional reset
  have key : ∃ w1 : Worker, w1 = (if st = .rescore then resetMatches w o.seen0 else w) ∧ Loose score S w.pattern w1 ∧
      w1.lastSnapshot = w.lastSnapshot ∧ w1.pattern = w.pattern ∧ (∀ i, i ∈ w1.inFlight → i ∈ w.inFlight) ∧
      (∀ i ∈ processed w1, o.seen1 i = S i) := by
    by_cases hst : st = .rescore
    · have hbk : BK w := by
        rcases hstart with ⟨_, h⟩ | h
        · exact h
        · exact h.bk
      obtain ⟨r1, r2, r3⟩ := Loose.of_reset score S w.pattern w o.seen0 hbk hlt
      refine ⟨_, rfl, by simp only [hst, if_true]; exact r1, by simp only [hst, if_true]; exact r2,
        by simp only [hst, if_true]; exact (resetMatches_fields w o.seen0).2.1, by simp only [hst, if_true]; exact r3, ?_⟩
      simp only [hst, if_true]
      intro i hi
      obtain ⟨_, q2, q3, _⟩ := resetMatches_spec w o.seen0 hbk.below hbk.nodup
      have hsortp := (C06_in_flight_sorted w.inFlight).2
      rw [mem_processed, q2, q3] at hi
      by_cases hin : i ∈ w.inFlight
      · cases hs : o.seen0 i with
        | none => exact absurd (List.mem_filter.mpr ⟨hsortp.symm.subset hin, by rw [hs]; rfl⟩) hi.2
        | some it => rw [env.mono i it hs, env.sound1 i it (env.mono i it hs)]
      · exact env.processed i hi.1 hin
    · have hl : Loose score S w.pattern w := by
        rcases hstart with ⟨h, _⟩ | h
        · exact absurd h hst
        · exact h
      refine ⟨_, rfl, by simp only [hst, if_false]; exact hl, by simp only [hst, if_false], by simp only [hst, if_false],
        by simp only [hst, if_false]; exact fun i h => h, ?_⟩
      simp only [hst, if_false]
      intro i hi
      have := (mem_processed w i).mp hi
      exact env.processed i this.1 this.2
  obtain ⟨w1, hw1, l1, e1, e2, e3, e4⟩ := key
  unfold Worker.scorePass
  simp only
  rw [← hw1]
  rw [← e2] at l1 ⊢
  by_cases hc : st ≠ .unchanged ∧ (!w1.hits.isEmpty) = true
  · rw [if_pos hc]
    have l2 := l1.trivial score o.seen1 o.count (by rw [e1]; exact env.countGe) env.countLt
    have hp2 : (processTrivial w1 o.seen1 o.count).pattern = w1.pattern := (processTrivial_fields w1 o.seen1 o.count).2.1
    have hS2 : ∀ i ∈ processed (processTrivial w1 o.seen1 o.count), o.seen1 i = S i := by
      intro i hi
      rcases (processed_trivial w1 o.seen1 o.count l1.bk (by rw [e1]; exact env.countGe) i).mp hi with h | ⟨_, _, h3⟩
      · exact e4 i h
      · cases hs : o.seen1 i with
        | none => rw [hs] at h3; cases h3
        | some it => rw [env.sound1 i it hs]
    rw [← hp2] at l2
    have l3 := l2.rescored score o hS2
    rw [hp2] at l3
    exact ⟨l3, by show (rescore score _ o).1.pattern = _; unfold rescore; simp only; exact hp2⟩
  · rw [if_neg hc]
    have env1 : ObsEnv S w1 o := ⟨env.mono, env.sound1, fun i h1 h2 => e4 i ((mem_processed w1 i).mpr ⟨h1, h2⟩),
      by rw [e1]; exact env.countGe, env.countLt, env.order⟩
    exact ⟨l1.newItems score o env1, (processNew_hits score w1 o).choose_spec.2⟩

/-- **every run that is cancelled ends in a loose state** for the worker's pattern: nothing that matches is lost, the
    bookkeeping is intact.  Any status; cancelled at any point of the scoring pass or during the sort. -/
theorem C06_cancelled_run_loose (S : Nat → Option Item) (w : Worker) (st : PStatus) (o : Obs) (env : ObsEnv S w o)
    (hstart : (st = .rescore ∧ BK w) ∨ Loose score S w.pattern w)
    (hc : o.canceled (Worker.scorePass score (w.begin false) st o).2.2 = true) :
    Loose score S w.pattern (Worker.run score len w st false false o).1 ∧
    (Worker.run score len w st false false o).1.wasCanceled = true ∧
    (Worker.run score len w st false false o).1.pattern = w.pattern := by
  have hb : (w.begin false) = { w with running := true, wasCanceled := false } := by simp [Worker.begin]
  have hstart' : (st = .rescore ∧ BK (w.begin false)) ∨ Loose score S (w.begin false).pattern (w.begin false) := by
    rw [hb]
    rcases hstart with ⟨h1, h2⟩ | h
    · exact Or.inl ⟨h1, ⟨h2.nodup, h2.below⟩⟩
    · exact Or.inr (h.congr score rfl rfl rfl)
  have env' : ObsEnv S (w.begin false) o := by
    rw [hb]; exact ⟨env.mono, env.sound1, env.processed, env.countGe, env.countLt, env.order⟩
  obtain ⟨l1, hp⟩ := scorePass_loose score S (w.begin false) st o env' hstart'
  have hpb : (w.begin false).pattern = w.pattern := by rw [hb]
  rw [hpb] at l1 hp
  unfold Worker.run
  simp only [Bool.false_eq_true, if_false]
  unfold Worker.finish
  rw [if_pos hc]
  exact ⟨l1.congr score rfl rfl rfl, rfl, hp⟩


/-! ## histories of runs, completed or cancelled -/

/-- one background run as the tick protocol starts it: the worker is handed the pattern `pNew` with status `st` and
    observes `o` -/
structure RunStep where
  pNew : Nat
  st : PStatus
  o : Obs

def RunStep.start (w : Worker) (s : RunStep) : Worker := { w with pattern := s.pNew }

def RunStep.next (w : Worker) (s : RunStep) : Worker := (Worker.run score len (s.start w) s.st false false s.o).1

/-- what the tick protocol and the environment guarantee about a run (C07's `Update` rule, C19's `Inv19`/`TickEnv`):
    an unchanged-pattern run is only started after a run that completed, with the same pattern; an `Update` run is
    started only for an appended edit, which can only narrow the matches; the run either sees the cancel flag at
    some point of its pass or never -/
structure RunStep.Ok (S : Nat → Option Item) (w : Worker) (s : RunStep) : Prop where
  env : ObsEnv S (s.start w) s.o
  unchanged : s.st = .unchanged → s.pNew = w.pattern ∧ w.wasCanceled = false
  update : s.st = .update → ∀ it, (score s.pNew it).isSome = true → (score w.pattern it).isSome = true
  cancel : s.o.canceled (Worker.scorePass score ((s.start w).begin false) s.st s.o).2.2 = true ∨ RunEnv S (s.start w) s.o

/-- the state of the worker between runs: always loose for its pattern; exactly right after a completed run -/
structure Between (S : Nat → Option Item) (w : Worker) : Prop where
  loose : Loose score S w.pattern w
  good : w.wasCanceled = false → Good score S w

theorem Between.step (S : Nat → Option Item) (w : Worker) (s : RunStep) (b : Between score S w) (ok : s.Ok score S w) :
    Between score S (s.next score len w) := by
  have hstartL : s.st ≠ .rescore → Loose score S (s.start w).pattern (s.start w) := by
    intro hne
    show Loose score S s.pNew _
    have hn : Loose score S s.pNew w := by
      cases hst : s.st with
      | rescore => exact absurd hst hne
      | unchanged => rw [(ok.unchanged hst).1]; exact b.loose
      | update => exact b.loose.narrow score (ok.update hst)
    exact hn.congr score rfl rfl rfl
  have hbk : BK (s.start w) := ⟨b.loose.bk.nodup, b.loose.bk.below⟩
  rcases ok.cancel with hc | renv
  · -- cancelled somewhere
    have hstart : (s.st = .rescore ∧ BK (s.start w)) ∨ Loose score S (s.start w).pattern (s.start w) := by
      by_cases h : s.st = .rescore
      · exact Or.inl ⟨h, hbk⟩
      · exact Or.inr (hstartL h)
    obtain ⟨l, hw, hp⟩ := C06_cancelled_run_loose score len S (s.start w) s.st s.o ok.env hstart hc
    refine ⟨by unfold RunStep.next; rw [hp]; exact l, fun h => ?_⟩
    unfold RunStep.next at h; rw [hw] at h; cases h
  · -- completed
    have hgood : Good score S (s.next score len w) ∧ (s.next score len w).wasCanceled = false ∧ (s.next score len w).lastSnapshot < PLACE := by
      unfold RunStep.next
      cases hst : s.st with
      | rescore =>
        have h := C06_rescore_run_contract score len S (s.start w) s.o hbk renv
        exact ⟨⟨h.1, h.2.2.1⟩, h.2.2.2.2.2, by rw [h.2.2.2.2.1]; exact renv.countLt⟩
      | unchanged =>
        have hu := ok.unchanged hst
        have g := b.good hu.2
        have hW : (s.start w).hits.Perm (idealHits score S (s.start w).pattern (processed (s.start w))) := by
          show w.hits.Perm (idealHits score S s.pNew (processed w)); rw [hu.1]; exact g.right
        have h := C06_unchanged_run_contract score len S (s.start w) s.o hbk renv hW
        exact ⟨⟨h.1, h.2.2.1⟩, h.2.2.2.2.2, by rw [h.2.2.2.2.1]; exact renv.countLt⟩
      | update =>
        have h := C06_update_run_contract_loose score len S (s.start w) s.o renv (hstartL (by rw [hst]; intro h; cases h)) _ rfl
        exact ⟨⟨h.1, h.2.2.1⟩, h.2.2.2.2.2, by rw [h.2.2.2.2.1]; exact renv.countLt⟩
    exact ⟨hgood.1.loose score hgood.2.2, fun _ => hgood.1⟩

/-- the worker after a history of runs -/
def runHistory (w : Worker) : List RunStep → Worker
  | [] => w
  | s :: rest => runHistory (s.next score len w) rest

/-- every step of the history satisfies the protocol's guarantees in the state it starts from -/
def HistoryOk (S : Nat → Option Item) : Worker → List RunStep → Prop
  | _, [] => True
  | w, s :: rest => s.Ok score S w ∧ HistoryOk S (s.next score len w) rest

/-- **C07 over histories with cancellation**: through any sequence of runs — full rescoring, appended edits, new items
    under an unchanged pattern — each of which completes or is cancelled at an arbitrary point, the worker never loses
    an accounted item that matches its pattern, and after every completed run its match list is exactly the pattern's
    matches among the accounted items (so with nothing in flight: the from-scratch result, `C07_quiescent`).  In
    particular an appended edit arriving while the previous run is being cancelled is handled correctly. -/
theorem C07_history (S : Nat → Option Item) : ∀ (steps : List RunStep) (w : Worker), Between score S w → HistoryOk score len S w steps →
    Between score S (runHistory score len w steps) := by
  intro steps
  induction steps with
  | nil => intro w b _; exact b
  | cons s rest ih =>
    intro w b h
    exact ih _ (b.step score len S w s h.1) h.2

/-- the hypotheses can be met: the empty worker is in a `Between` state for any stream and pattern -/
example (S : Nat → Option Item) (p : Nat) :
    Between score S { running := false, hits := [], pattern := p, wasCanceled := false, lastSnapshot := 0, inFlight := [], stream := 0 } := by
  have g : Good score S { running := false, hits := [], pattern := p, wasCanceled := false, lastSnapshot := 0, inFlight := [], stream := 0 } :=
    ⟨by simp [processed, keepIdx, idealHits], ⟨List.nodup_nil, fun i hi => by cases hi⟩⟩
  exact ⟨g.loose score (by simp [PLACE]), fun _ => g⟩

end NucleoVerif.Nu
