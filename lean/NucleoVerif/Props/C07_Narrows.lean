import NucleoVerif.Props.C07_Append
import NucleoVerif.Props.C05_Entry
/-! # C07 (companion file) — appending text narrows a substring or prefix atom, too

`MultiPattern::reparse` takes the `Update` shortcut only for a positive last atom of kind fuzzy, substring or prefix
(`can_append_to`).  `C07_Append` proves that the edit only changes that atom and that a fuzzy atom narrows
(`C07_fuzzy_append_narrows_*`).  This file adds the two other admitted kinds, through the decision theorems of C05:
whatever `substring_match` / `prefix_match` find for `n ++ s` they find for `n` (same configuration flags). -/
namespace NucleoVerif
open Gen Spec

theorem take_of_take_append (l n s : List Nat) (h : l.take (n ++ s).length = n ++ s) : l.take n.length = n := by
  have := congrArg (List.take n.length) h
  rw [List.take_take, List.length_append, Nat.min_eq_left (Nat.le_add_right _ _), List.take_left' rfl] at this
  exact this

/-- an occurrence of `n ++ s` is an occurrence of `n` -/
theorem occurrences_append (cfg : Cfg) (hrep : Rep) (h n s : List Nat) (hne : (!(occurrences cfg hrep h (n ++ s)).isEmpty) = true) :
    (!(occurrences cfg hrep h n).isEmpty) = true := by
  cases ho : occurrences cfg hrep h (n ++ s) with
  | nil => rw [ho] at hne; cases hne
  | cons i l =>
    have hi : i ∈ occurrences cfg hrep h (n ++ s) := by rw [ho]; simp
    obtain ⟨h1, h2⟩ := (mem_occurrences cfg hrep h (n ++ s) i).mp hi
    have : i ∈ occurrences cfg hrep h n :=
      (mem_occurrences cfg hrep h n i).mpr ⟨by rw [List.length_append] at h1; omega, take_of_take_append _ n s h2⟩
    cases hn : occurrences cfg hrep h n with
    | nil => rw [hn] at this; cases this
    | cons _ _ => rfl

/-- **substring atoms narrow, code-point haystacks** -/
theorem C07_substring_append_narrows_unicode (cfg : Cfg) (ext : Ext) (nrep : Rep) (h : List Nat) (n0 n1 : Nat) (ns s : List Nat)
    (hb : 8 ≤ maxBonus cfg) (hn : ((n0 :: n1 :: ns) ++ s).map (norm cfg nrep) = (n0 :: n1 :: ns) ++ s)
    (hm : (substringMatch cfg ext .unicode nrep h ((n0 :: n1 :: ns) ++ s)).isSome = true) :
    (substringMatch cfg ext .unicode nrep h (n0 :: n1 :: ns)).isSome = true := by
  have hn' : (n0 :: n1 :: ns).map (norm cfg nrep) = n0 :: n1 :: ns := by
    rw [List.map_append] at hn
    exact (List.append_inj hn (by simp)).1
  have e : (n0 :: n1 :: ns) ++ s = n0 :: n1 :: (ns ++ s) := rfl
  rw [e] at hm hn
  rw [C05_substring_entry_unicode cfg ext nrep h n0 n1 (ns ++ s) hb hn] at hm
  rw [C05_substring_entry_unicode cfg ext nrep h n0 n1 ns hb hn']
  rw [← e] at hm
  exact occurrences_append cfg .unicode h _ s hm

/-- **substring atoms narrow, ASCII haystacks and needles** -/
theorem C07_substring_append_narrows_ascii (cfg : Cfg) (ext : Ext) (h : List Nat) (n0 n1 : Nat) (ns s : List Nat)
    (hb : 8 ≤ maxBonus cfg) (hasc : ∀ x ∈ h, x < 128) (hn : ∀ c ∈ (n0 :: n1 :: ns) ++ s, normAscii cfg c = c)
    (hm : (substringMatch cfg ext .ascii .ascii h ((n0 :: n1 :: ns) ++ s)).isSome = true) :
    (substringMatch cfg ext .ascii .ascii h (n0 :: n1 :: ns)).isSome = true := by
  have e : (n0 :: n1 :: ns) ++ s = n0 :: n1 :: (ns ++ s) := rfl
  rw [e] at hm hn
  rw [C05_substring_entry_ascii cfg ext h n0 n1 (ns ++ s) hb hasc hn] at hm
  rw [C05_substring_entry_ascii cfg ext h n0 n1 ns hb hasc (fun c hc => hn c (by
    rcases List.mem_cons.mp hc with hc | hc
    · simp [hc]
    · rcases List.mem_cons.mp hc with hc | hc
      · simp [hc]
      · simp [hc]))]
  rw [← e] at hm
  exact occurrences_append cfg .ascii h _ s hm

/-- **prefix atoms narrow** (every representation pair the matcher handles) -/
theorem C07_prefix_append_narrows (cfg : Cfg) (ext : Ext) (hrep nrep : Rep) (h : List Nat) (n0 : Nat) (ns s : List Nat)
    (hk1 : ¬ (hrep = .ascii ∧ nrep = .unicode)) (hn : ((n0 :: ns) ++ s).map (norm cfg nrep) = (n0 :: ns) ++ s)
    (hm : (prefixMatch cfg ext hrep nrep h ((n0 :: ns) ++ s)).isSome = true) :
    (prefixMatch cfg ext hrep nrep h (n0 :: ns)).isSome = true := by
  have hn' : (n0 :: ns).map (norm cfg nrep) = n0 :: ns := by
    rw [List.map_append] at hn
    exact (List.append_inj hn (by simp)).1
  have e : (n0 :: ns) ++ s = n0 :: (ns ++ s) := rfl
  rw [e] at hm hn
  rw [C05_prefix cfg ext hrep nrep h n0 (ns ++ s) hk1 hn] at hm
  rw [C05_prefix cfg ext hrep nrep h n0 ns hk1 hn']
  simp only [Bool.and_eq_true, decide_eq_true_eq, beq_iff_eq] at hm ⊢
  obtain ⟨h1, h2⟩ := hm
  rw [← e] at h1 h2
  refine ⟨by rw [List.length_append] at h1; omega, take_of_take_append _ (n0 :: ns) s h2⟩

end NucleoVerif
