import NucleoVerif.Props.C07_UpdateSound
import NucleoVerif.Props.C07_Protocol
/-! # C07 (companion file) — the hypothesis `Narrows` / `ReparseOk` of `C07_protocol`, discharged

`C07_protocol` assumes that a `reparse` event with status `Update` narrows the matches (`ReparseOk`).  With
`C07_multi_update_narrows_ascii` that is a theorem for ASCII pattern text, for the scoring function the worker uses
(`multiEval`, `MultiPattern::score`) — the same way `C15_empOk` discharges `EmpOk`. -/
namespace NucleoVerif
open Gen Spec

/-- **the hypothesis `Narrows` of the protocol theorem (`ReparseOk`), discharged for the scoring function the worker uses**:
    pattern id `pNew` is pattern id `pOld` with column `c`'s ASCII text continued and `reparse` answering `Update` for it -/
theorem C07_narrows_discharged (seg : Seg) (cfg : Cfg) (ext : Ext) (hb : 8 ≤ maxBonus cfg)
    (patterns : Nat → List (List Atom)) (columns : Nu.Item → List (Rep × List Nat))
    (hcols : ∀ it, ∀ h ∈ columns it, h.1 = .ascii → ∀ x ∈ h.2, x < 128)
    (pNew pOld c : Nat) (t s : List Nat) (case : CaseMatching) (norm : Normalization) (hasc : ∀ x ∈ t ++ s, x < 128) (old : PStatus)
    (hc : (patterns pOld)[c]? = some (parsePattern seg t case norm))
    (hnew : patterns pNew = (patterns pOld).set c (parsePattern seg (t ++ s) case norm))
    (hupd : reparseStatus old (parsePattern seg t case norm) (parsePattern seg (t ++ s) case norm) true = .update) :
    Nu.Narrows (fun p it => multiEval cfg ext (patterns p) (columns it)) pNew pOld := by
  intro it hm
  simp only at hm ⊢
  rw [hnew] at hm
  exact C07_multi_update_narrows_ascii seg (patterns pOld) c t s case norm hasc old hc hupd cfg ext hb (columns it) (hcols it) hm

/-- **the side condition `8 ≤ maxBonus cfg` of the narrowing theorems holds for every configuration the API can build**: the bonus
    fields of `Config` are crate-private, so a configuration has the values of `Config::DEFAULT`, of `match_paths()` or of
    `set_match_paths()` (translated from `config.rs` on every run: `Gen/Consts.lean`) -/
theorem C07_presets_satisfy_bonus_condition (cfg : Cfg)
    (h : (cfg.white = presetDefault_white ∧ cfg.delim = presetDefault_delim) ∨
         (cfg.white = presetMatchPaths_white ∧ cfg.delim = presetMatchPaths_delim) ∨
         (cfg.white = presetSetMatchPaths_white ∧ cfg.delim = presetSetMatchPaths_delim)) :
    8 ≤ maxBonus cfg := by
  unfold maxBonus
  rcases h with ⟨h1, h2⟩ | ⟨h1, h2⟩ | ⟨h1, h2⟩ <;> rw [h1, h2] <;> decide

end NucleoVerif
