import NucleoVerif.Props.C07_SmartCase
/-! # C07 (companion file) — the smart-normalization flip: when it narrows, and the witness that it does not always (F16)

Appending a character that normalization would change turns `normalize` off for the last atom.  Without case folding
that is still a narrowing (`C07_normalization_flip_narrows_case_sensitive`): the normalized haystack is the image of the
raw one and the old needle is fixed by normalization.  With case folding it is not: case folding and Latin normalization
disagree on a few characters (`C07_normalization_flip_witness`, decided in the model; replayed on the real code as finding
F16), which is why the repaired `MultiPattern::reparse` refuses the shortcut whenever the flag flips. -/
namespace NucleoVerif
open Gen Spec Sub

theorem C07_normalization_flip_narrows_case_sensitive (cfg : Cfg) (ext : Ext) (nrep : Rep) (h n s : List Nat)
    (hF : (n ++ s).map (norm { cfg with ignoreCase := false, normalize := false } nrep) = n ++ s)
    (hN : n.map (norm { cfg with ignoreCase := false, normalize := true } nrep) = n) (hfix : n.map normalizeLatin = n)
    (hm : (fuzzyMatch { cfg with ignoreCase := false, normalize := false } ext .unicode nrep h (n ++ s)).isSome = true) :
    (fuzzyMatch { cfg with ignoreCase := false, normalize := true } ext .unicode nrep h n).isSome = true := by
  rw [C01_decision_unicode _ ext nrep h (n ++ s) hF] at hm
  rw [C01_decision_unicode _ ext nrep h n hN]
  have h1 := subseqB_of_append n s _ hm
  have h2 := subseqB_map normalizeLatin _ _ h1
  rw [hfix] at h2
  have e : (normHay { cfg with ignoreCase := false, normalize := false } .unicode h).map normalizeLatin =
      normHay { cfg with ignoreCase := false, normalize := true } .unicode h := by
    unfold normHay
    rw [List.map_map]
    apply List.map_congr_left
    intro c _
    simp [norm, normChar]
  rw [e] at h2
  exact h2

/-- **the flip is not a narrowing under case folding** (finding F16): `Ⱥé` does not match the atom `ⱥ` while it
    normalizes (`Ⱥ` is normalized to `A`, then folded to `a`), and matches the atom `ⱥé`, which no longer normalizes
    (`Ⱥ` is folded to `ⱥ`) -/
theorem C07_normalization_flip_witness :
    normChar { delims := [], white := 10, delim := 9, initial := .whitespace, normalize := true, ignoreCase := true, preferPrefix := false } 0x23A = 97 ∧
    normChar { delims := [], white := 10, delim := 9, initial := .whitespace, normalize := false, ignoreCase := true, preferPrefix := false } 0x23A = 0x2C65 ∧
    normalizeLatin 0x2C65 = 0x2C65 ∧ normalizeLatin 0xE9 ≠ 0xE9 := by
  decide +kernel

end NucleoVerif
