import NucleoVerif.Gen.Parse
import NucleoVerif.Props.C07_Translated
import NucleoVerif.Props.C07_UpdateSound
/-! # C07 / C14 (companion file) — `Atom::parse`, translated from the source, is the model's `parseAtom`

`Gen/Parse.lean` is regenerated on every run from `matcher/src/pattern.rs`: the three matches on `atom.as_bytes()` of
`Atom::parse` (slice patterns become list patterns; `[.., x, y]` is read from the end), the kind of a negated fuzzy atom, and
the arguments of the `new_inner` call; and the stateful closure `pattern_atoms` hands to `str::split` (`split_step`).  The theorems of C07 (`C07_update_narrows_ascii`) and C14 are about `stripNeg`,
`stripKind`, `stripDollar` and `parseAtom`: they are the same functions. -/
namespace NucleoVerif

/-- **the `!` match of `Atom::parse` is `stripNeg`** -/
theorem C07_translated_invert (a : List Nat) : Gen.Parse.invert a = stripNeg a := by
  unfold Gen.Parse.invert stripNeg
  split <;> simp

/-- **the `^` / `'` match is `stripKind`** -/
theorem C07_translated_kind (a : List Nat) : Gen.Parse.kind a = ((stripKind a).1.id, (stripKind a).2) := by
  unfold Gen.Parse.kind stripKind
  split <;> simp [AtomKind.id]

theorem take_len_sub2 (t : List Nat) (d c : Nat) : (t.reverse ++ [d, c]).take ((t.reverse ++ [d, c]).length - 2) = t.reverse := by
  have : (t.reverse ++ [d, c]).length - 2 = t.reverse.length := by simp
  rw [this, List.take_left]

theorem take_len_sub1 (t : List Nat) (c : Nat) : (t.reverse ++ [c]).take ((t.reverse ++ [c]).length - 1) = t.reverse := by
  have : (t.reverse ++ [c]).length - 1 = t.reverse.length := by simp
  rw [this, List.take_left]

/-- **the `$` match is `stripDollar`** -/
theorem C07_translated_dollar (k : AtomKind) (a : List Nat) :
    Gen.Parse.dollar k.id a = ((stripDollar k a).1.id, (stripDollar k a).2.1, (stripDollar k a).2.2) := by
  rw [stripDollar_eq]
  obtain ⟨t, rfl⟩ : ∃ t, a = t.reverse := ⟨a.reverse, by simp⟩
  unfold Gen.Parse.dollar
  simp only [List.reverse_reverse]
  split
  · rename_i tail
    have e : (36 :: 92 :: tail).reverse = tail.reverse ++ [92, 36] := by simp
    rw [e, take_len_sub2]
    simp [dollarRev]
  · rename_i tail hnot
    have e : (36 :: tail).reverse = tail.reverse ++ [36] := by simp
    rw [e, take_len_sub1]
    have hd : dollarRev k (36 :: tail) = (anchored k, false, tail.reverse) := by
      unfold dollarRev
      split
      · rename_i h; injection h with _ h2; exact absurd h2 (hnot _)
      · rename_i h; injection h with _ h2; subst h2; rfl
      · rename_i h1 h2; exact absurd rfl (h2 _)
    rw [hd]
    cases k <;> simp [anchored, AtomKind.id]
  · rename_i h1 h2
    have hd : dollarRev k t = (k, false, t.reverse) := by
      unfold dollarRev
      split
      · exact absurd rfl (h1 _)
      · exact absurd rfl (h2 _)
      · rfl
    rw [hd]

/-- **the kind of a negated fuzzy atom** -/
theorem C07_translated_final_kind (inv : Bool) (k : AtomKind) :
    Gen.Parse.final_kind inv k.id = (if inv ∧ k = .fuzzy then AtomKind.substring else k).id := by
  unfold Gen.Parse.final_kind
  cases inv <;> cases k <;> simp [AtomKind.id]

/-- **`Atom::parse`, translated from the source, is `parseAtom`**: the three matches on `atom.as_bytes()` are `stripNeg`,
    `stripKind` and `stripDollar`, the kind handed to `new_inner` is the model's, whitespace escapes are on, and the result's
    `negative` is the `!` flag -/
theorem C07_translated_parse (seg : Seg) (raw : List Nat) (case : CaseMatching) (norm : Normalization) :
    let i := Gen.Parse.invert raw
    let k := stripKind i.2
    let d := stripDollar k.1 k.2
    Gen.Parse.kind i.2 = (k.1.id, k.2) ∧ Gen.Parse.dollar k.1.id k.2 = (d.1.id, d.2.1, d.2.2) ∧
    parseAtom seg raw case norm =
      { newInner seg d.2.2 case norm (if i.1 ∧ d.1 = .fuzzy then AtomKind.substring else d.1) Gen.Parse.escape_whitespace d.2.1 with negative := i.1 } ∧
    Gen.Parse.final_kind i.1 d.1.id = (if i.1 ∧ d.1 = .fuzzy then AtomKind.substring else d.1).id := by
  simp only
  rw [C07_translated_invert]
  exact ⟨C07_translated_kind _, C07_translated_dollar _ _, rfl, C07_translated_final_kind _ _⟩

/-- **the closure of `pattern_atoms`, translated from the source, is the step of the model's splitter** -/
theorem C07_translated_split (c : Nat) (cs : List Nat) (saw : Bool) (cur : List Nat) :
    patternAtomsGo (c :: cs) saw cur =
      if (Gen.Parse.split_step saw (isWs c) c).1 then cur.reverse :: patternAtomsGo cs (Gen.Parse.split_step saw (isWs c) c).2 []
      else patternAtomsGo cs (Gen.Parse.split_step saw (isWs c) c).2 (c :: cur) := by
  unfold Gen.Parse.split_step
  rw [patternAtomsGo]
  by_cases h : isWs c = true ∧ (!saw) = true
  · have h' : (isWs c && !saw) = true := by simpa using h
    simp [h]
  · have h' : (isWs c && !saw) = false := by
      cases hw : isWs c <;> cases hs : saw <;> simp_all
    simp only [h, if_false, h', Bool.false_eq_true]
    by_cases hc : c = 92
    · simp [hc]
    · simp [hc]

end NucleoVerif
