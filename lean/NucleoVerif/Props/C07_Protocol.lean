import NucleoVerif.Props.C07_Cancelled
import NucleoVerif.Props.C19
/-! # C07 (companion file) — the worker-level history theorem composed with the tick protocol

`C07_history` speaks about sequences of background runs.  Here those runs are the ones `Nucleo::tick` starts and
joins (`Model/Nucleo.lean`): every run in flight is joined by a later `tick_inner` that holds the worker lock, a
cancelling tick joins the run it cancels and immediately spawns the next one, `restart` makes the next run a cleared
one on the new stream.  The invariant `P07` carries the worker-level facts (`Between`, or the start condition of the
pending run) through every event; a tick that reports `running = false` then leaves a snapshot that *is* the right
list.  Which pattern ids denote the empty pattern is a parameter (`emp`); a run for the empty pattern takes
`reset_matches` + `process_new_items_trivial` (`C06_trivial_run_contract`) and cannot be cancelled, every other run goes
through the scoring pass.  `EmpOk`: the empty pattern matches every item with score 0. -/
namespace NucleoVerif.Nu

variable (score : Nat → Item → Option Nat) (len : Item → Nat)
-- the eventual content of every item stream
variable (S : Nat → Nat → Option Item)
-- which pattern ids are the empty pattern
variable (emp : Nat → Bool)

/-- the empty pattern matches every item, with score 0 -/
def EmpOk : Prop := ∀ p it, emp p = true → score p it = some 0

/-- an appended edit can only narrow the matches -/
def Narrows (pNew pOld : Nat) : Prop := ∀ it, (score pNew it).isSome = true → (score pOld it).isSome = true

theorem Narrows.refl (p : Nat) : Narrows score p p := fun _ h => h
theorem Narrows.trans {a b c : Nat} (h1 : Narrows score a b) (h2 : Narrows score b c) : Narrows score a c := fun it h => h2 it (h1 it h)

/-- the start condition of a run on a worker that keeps its state (not cleared) -/
def StartKeep (st : PStatus) (w : Worker) : Prop :=
  (st = .rescore ∧ BK w) ∨ (st = .update ∧ Loose score (S w.stream) w.pattern w) ∨ (st = .unchanged ∧ Good score (S w.stream) w)

/-- what a pending run needs of the worker it will run on -/
def StartOk (p : Pending) (w : Worker) : Prop := p.cleared = true ∨ StartKeep score S p.status w

/-- the observations of a run, and whether it saw the cancel flag -/
structure RunObs (st : PStatus) (w : Worker) (o : Obs) (mayCancel : Bool) : Prop where
  env : ObsEnv (S w.stream) w o
  cancel : (mayCancel = true ∧ o.canceled (Worker.scorePass score (w.begin false) st o).2.2 = true) ∨ RunEnv (S w.stream) w o

theorem Good.of_empty (Sx : Nat → Option Item) (w : Worker) (h1 : w.hits = []) (h2 : w.lastSnapshot = 0) (h3 : w.inFlight = []) :
    Good score Sx w := by
  refine ⟨?_, ⟨by rw [h3]; exact List.nodup_nil, by rw [h3]; intro i hi; cases hi⟩⟩
  have : processed w = [] := by unfold processed keepIdx; rw [h2]; rfl
  rw [h1, this]; exact List.Perm.refl _


/-! ## accounted items are published items -/

/-- every index the worker accounts for holds a published item of the stream -/
def Pub (Sx : Nat → Option Item) (w : Worker) : Prop := ∀ i ∈ processed w, (Sx i).isSome = true

theorem Pub.of_empty (Sx : Nat → Option Item) (w : Worker) (h2 : w.lastSnapshot = 0) : Pub Sx w := by
  intro i hi
  rw [mem_processed, h2] at hi
  exact absurd hi.1 (Nat.not_lt_zero _)

theorem Pub.congr {Sx : Nat → Option Item} {w w' : Worker} (h : Pub Sx w) (h2 : w'.inFlight = w.inFlight) (h3 : w'.lastSnapshot = w.lastSnapshot) :
    Pub Sx w' := by
  intro i hi
  have : processed w' = processed w := by unfold processed; rw [h2, h3]
  rw [this] at hi
  exact h i hi

/-- the in-flight list after a run (any status, empty or non-empty pattern, completed or cancelled): some of the old
    in-flight indices (the dropped ones were seen published when the run began) and the unpublished new ones -/
theorem run_inFlight (w : Worker) (st : PStatus) (pe : Bool) (o : Obs) (bk : BK w) (hc : w.lastSnapshot ≤ o.count)
    (hord : ∀ l, (o.inFlightOrder l).Perm l) :
    ∃ old : List Nat, (∀ i ∈ w.inFlight, i ∉ old → (o.seen0 i).isSome = true) ∧
      (Worker.run score len w st false pe o).1.inFlight.Perm
        (old ++ ((List.range (o.count - w.lastSnapshot)).map (· + w.lastSnapshot)).filter (fun i => (o.seen1 i).isNone)) ∧
      (Worker.run score len w st false pe o).1.lastSnapshot = o.count := by
  have hb : (w.begin false) = { w with running := true, wasCanceled := false } := by simp [Worker.begin]
  have hsortp := (C06_in_flight_sorted w.inFlight).2
  have rs := resetMatches_spec (w.begin false) o.seen0 (by rw [hb]; exact bk.below) (by rw [hb]; exact bk.nodup)
  rw [hb] at rs
  simp only at rs
  obtain ⟨_, r2, r3, _⟩ := rs
  have hstill_cov : ∀ i ∈ w.inFlight, i ∉ (sortNat w.inFlight).filter (fun i => (o.seen0 i).isNone) → (o.seen0 i).isSome = true := by
    intro i hi hn
    cases h : o.seen0 i with
    | some _ => rfl
    | none => exact absurd (List.mem_filter.mpr ⟨hsortp.symm.subset hi, by simp [h]⟩) hn
  unfold Worker.run
  by_cases hpe : pe = true
  · simp only [hpe, if_true]
    rw [hb]
    have pt := processTrivial_spec (resetMatches { w with running := true, wasCanceled := false } o.seen0) o.seen1 o.count (by rw [r3]; exact hc)
    rw [r2, r3] at pt
    exact ⟨_, hstill_cov, by rw [pt.2.1], pt.2.2.1⟩
  simp only [hpe, Bool.false_eq_true, if_false]
  rw [hb]
  have fb := finish_bookkeeping len (Worker.scorePass score { w with running := true, wasCanceled := false } st o).1
    (Worker.scorePass score { w with running := true, wasCanceled := false } st o).2.1
    (Worker.scorePass score { w with running := true, wasCanceled := false } st o).2.2 o
  have key : ∃ old : List Nat, (∀ i ∈ w.inFlight, i ∉ old → (o.seen0 i).isSome = true) ∧
      (Worker.scorePass score { w with running := true, wasCanceled := false } st o).1.inFlight.Perm
        (old ++ ((List.range (o.count - w.lastSnapshot)).map (· + w.lastSnapshot)).filter (fun i => (o.seen1 i).isNone)) ∧
      (Worker.scorePass score { w with running := true, wasCanceled := false } st o).1.lastSnapshot = o.count := by
    unfold Worker.scorePass
    simp only
    by_cases hst : st = .rescore
    · simp only [hst, if_true]
      generalize hw1 : resetMatches { w with running := true, wasCanceled := false } o.seen0 = w1 at r2 r3
      split
      · have pt := processTrivial_spec w1 o.seen1 o.count (by rw [r3]; exact hc)
        rw [r2, r3] at pt
        refine ⟨_, hstill_cov, ?_, ?_⟩
        · show (rescore score _ o).1.inFlight.Perm _
          unfold rescore; simp only; rw [pt.2.1]
        · show (rescore score _ o).1.lastSnapshot = _
          unfold rescore; simp only; exact pt.2.2.1
      · have pn := processNew_bookkeeping score w1 o hord
        rw [r2, r3] at pn
        refine ⟨_, fun i hi hn => ?_, pn.1, pn.2⟩
        cases h : o.seen0 i with
        | some _ => rfl
        | none =>
          exact absurd (List.mem_filter.mpr ⟨List.mem_filter.mpr ⟨hsortp.symm.subset hi, by simp [h]⟩, by simp [h]⟩) hn
    · simp only [hst, if_false]
      split
      · have pt := processTrivial_spec { w with running := true, wasCanceled := false } o.seen1 o.count hc
        refine ⟨w.inFlight, fun i hi hn => absurd hi hn, ?_, ?_⟩
        · show (rescore score _ o).1.inFlight.Perm _
          unfold rescore; simp only; rw [pt.2.1]
        · show (rescore score _ o).1.lastSnapshot = _
          unfold rescore; simp only; exact pt.2.2.1
      · have pn := processNew_bookkeeping score { w with running := true, wasCanceled := false } o hord
        refine ⟨_, fun i hi hn => ?_, pn.1, pn.2⟩
        cases h : o.seen0 i with
        | some _ => rfl
        | none => exact absurd (List.mem_filter.mpr ⟨hi, by simp [h]⟩) hn
  obtain ⟨old, h1, h3, h4⟩ := key
  exact ⟨old, h1, by rw [fb.1]; exact h3, by rw [fb.2]; exact h4⟩

/-- an index accounted for after a run was either accounted for before, or was in flight and seen published when the run
    began, or is new and was seen published by the run -/
theorem run_processed_cases (w : Worker) (st : PStatus) (pe : Bool) (o : Obs) (bk : BK w) (hc : w.lastSnapshot ≤ o.count)
    (hord : ∀ l, (o.inFlightOrder l).Perm l) (i : Nat) (hi : i ∈ processed (Worker.run score len w st false pe o).1) :
    (i < w.lastSnapshot ∧ i ∉ w.inFlight) ∨ (i ∈ w.inFlight ∧ (o.seen0 i).isSome = true) ∨
      (w.lastSnapshot ≤ i ∧ (o.seen1 i).isSome = true) := by
  obtain ⟨old, hcov, hperm, hlast⟩ := run_inFlight score len w st pe o bk hc hord
  rw [mem_processed, hlast] at hi
  obtain ⟨hlt, hnot⟩ := hi
  have h1 : i ∉ old := fun h => hnot (hperm.symm.subset (List.mem_append_left _ h))
  have h2 : i ∉ ((List.range (o.count - w.lastSnapshot)).map (· + w.lastSnapshot)).filter (fun i => (o.seen1 i).isNone) :=
    fun h => hnot (hperm.symm.subset (List.mem_append_right _ h))
  by_cases hold : i < w.lastSnapshot
  · by_cases hfl : i ∈ w.inFlight
    · exact Or.inr (Or.inl ⟨hfl, hcov i hfl h1⟩)
    · exact Or.inl ⟨hold, hfl⟩
  · refine Or.inr (Or.inr ⟨by omega, ?_⟩)
    have hmem : i ∈ (List.range (o.count - w.lastSnapshot)).map (· + w.lastSnapshot) :=
      (new_range_mem w.lastSnapshot o.count hc i).mpr ⟨by omega, hlt⟩
    cases h : o.seen1 i with
    | some _ => rfl
    | none => exact absurd (List.mem_filter.mpr ⟨hmem, by simp [h]⟩) h2

/-- **accounted items stay published items through every run** -/
theorem run_pub (Sx : Nat → Option Item) (w : Worker) (st : PStatus) (pe : Bool) (o : Obs) (bk : BK w) (env : ObsEnv Sx w o)
    (hp : Pub Sx w) : Pub Sx (Worker.run score len w st false pe o).1 := by
  intro i hi
  have of_seen1 : (o.seen1 i).isSome = true → (Sx i).isSome = true := by
    intro h
    cases h1 : o.seen1 i with
    | none => rw [h1] at h; cases h
    | some it => rw [env.sound1 i it h1]; rfl
  rcases run_processed_cases score len w st pe o bk env.countGe env.order i hi with ⟨h1, h2⟩ | ⟨_, h2⟩ | ⟨_, h2⟩
  · exact hp i ((mem_processed w i).mpr ⟨h1, h2⟩)
  · cases h0 : o.seen0 i with
    | none => rw [h0] at h2; cases h2
    | some it => exact of_seen1 (by rw [env.mono i it h0]; rfl)
  · exact of_seen1 h2

/-- for the empty pattern the right list is every accounted item with score 0 -/
theorem idealHits_emp (hemp : EmpOk score emp) (Sx : Nat → Option Item) (p : Nat) (hp : emp p = true) :
    ∀ (P : List Nat), (∀ i ∈ P, (Sx i).isSome = true) → idealHits score Sx p P = P.map mk0 := by
  intro P
  induction P with
  | nil => intro _; rfl
  | cons i t ih =>
    intro h
    have hi := h i (by simp)
    unfold idealHits at ih ⊢
    simp only [List.filterMap_cons, List.map_cons]
    cases hs : Sx i with
    | none => rw [hs] at hi; cases hi
    | some it =>
      simp only [Option.bind_some, hemp p it hp, Option.map_some]
      rw [ih (fun j hj => h j (by simp [hj]))]
      rfl

theorem run_emp_status (w : Worker) (st : PStatus) (c : Bool) (o : Obs) :
    Worker.run score len w st c true o = Worker.run score len w .unchanged c true o := by
  unfold Worker.run; simp

/-- **a run for the empty pattern** leaves the right list from any state with intact bookkeeping whose accounted items
    are published ones; it is never marked cancelled -/
theorem run_emp_good (hemp : EmpOk score emp) (Sx : Nat → Option Item) (w : Worker) (st : PStatus) (o : Obs) (bk : BK w) (env : ObsEnv Sx w o)
    (hp : Pub Sx w) (he : emp w.pattern = true) :
    Good score Sx (Worker.run score len w st false true o).1 ∧ (Worker.run score len w st false true o).1.wasCanceled = false ∧
    (Worker.run score len w st false true o).1.lastSnapshot = o.count ∧
    (Worker.run score len w st false true o).1.hits = (processed (Worker.run score len w st false true o).1).map mk0 := by
  have hpub := run_pub score len Sx w st true o bk env hp
  rw [run_emp_status] at hpub ⊢
  have h := C06_trivial_run_contract score len w o bk env.countGe
  simp only at h
  obtain ⟨h1, h2, _, h4⟩ := h
  have hpat : (Worker.run score len w .unchanged false true o).1.pattern = w.pattern :=
    (Worker.run_runLike score len .unchanged false true o).pattern w
  have hwc : (Worker.run score len w .unchanged false true o).1.wasCanceled = false := by
    unfold Worker.run
    simp only [if_true]
    rw [(processTrivial_fields _ _ _).2.2, (resetMatches_fields _ _).2.2]
    exact (begin_fields w false).2.2
  refine ⟨⟨?_, h2⟩, hwc, h4, h1⟩
  rw [h1, hpat, idealHits_emp score emp hemp Sx w.pattern he _ hpub]

/-- **one run, from its start condition**: afterwards the worker is in a `Between` state; a run that did not see the
    cancel flag is not marked cancelled -/
theorem run_between (Sx : Nat → Option Item) (w : Worker) (st : PStatus) (o : Obs)
    (hstart : (st = .rescore ∧ BK w) ∨ (st = .update ∧ Loose score Sx w.pattern w) ∨ (st = .unchanged ∧ Good score Sx w))
    (env : ObsEnv Sx w o)
    (hc : o.canceled (Worker.scorePass score (w.begin false) st o).2.2 = true ∨ RunEnv Sx w o) :
    Between score Sx (Worker.run score len w st false false o).1 ∧
    (RunEnv Sx w o → (Worker.run score len w st false false o).1.wasCanceled = false) := by
  have hlt : w.lastSnapshot < PLACE := by have := env.countGe; have := env.countLt; omega
  have hgood : ∀ renv : RunEnv Sx w o, Good score Sx (Worker.run score len w st false false o).1 ∧
      (Worker.run score len w st false false o).1.wasCanceled = false ∧ (Worker.run score len w st false false o).1.lastSnapshot < PLACE := by
    intro renv
    rcases hstart with ⟨rfl, bk⟩ | ⟨rfl, l⟩ | ⟨rfl, g⟩
    · have h := C06_rescore_run_contract score len Sx w o bk renv
      exact ⟨⟨h.1, h.2.2.1⟩, h.2.2.2.2.2, by rw [h.2.2.2.2.1]; exact renv.countLt⟩
    · have h := C06_update_run_contract_loose score len Sx w o renv l _ rfl
      exact ⟨⟨h.1, h.2.2.1⟩, h.2.2.2.2.2, by rw [h.2.2.2.2.1]; exact renv.countLt⟩
    · have h := C06_unchanged_run_contract score len Sx w o g.bk renv g.right
      exact ⟨⟨h.1, h.2.2.1⟩, h.2.2.2.2.2, by rw [h.2.2.2.2.1]; exact renv.countLt⟩
  refine ⟨?_, fun renv => (hgood renv).2.1⟩
  rcases hc with hc | renv
  · have hs : (st = .rescore ∧ BK w) ∨ Loose score Sx w.pattern w := by
      rcases hstart with ⟨h1, h2⟩ | ⟨_, l⟩ | ⟨_, g⟩
      · exact Or.inl ⟨h1, h2⟩
      · exact Or.inr l
      · exact Or.inr (g.loose score hlt)
    obtain ⟨l, hw, hp⟩ := C06_cancelled_run_loose score len Sx w st o env hs hc
    exact ⟨by rw [hp]; exact l, fun h => by rw [hw] at h; cases h⟩
  · obtain ⟨g, _, hl⟩ := hgood renv
    exact ⟨g.loose score hl, fun _ => g⟩


/-- `w'` is the result of the pending run `p` on the worker `w`, for some observations consistent with the stream;
    `mayCancel` says whether the run may have seen the cancel flag -/
def RunsAs (p : Pending) (w w' : Worker) (mayCancel : Bool) : Prop :=
  ∃ o : Obs, w' = (Worker.run score len w p.status p.cleared (emp w.pattern) o).1 ∧
    RunObs score S p.status (if p.cleared then w.clearedState else w) o mayCancel

/-- the worker a pending run effectively starts from (the cleared state after a restart), with its start condition -/
theorem startWorker (p : Pending) (w : Worker) (pe : Bool) (o : Obs) (hs : StartOk score S p w)
    (hpub : p.cleared = false → Pub (S w.stream) w) :
    ∃ w0 : Worker, w0 = (if p.cleared then w.clearedState else w) ∧ w0.stream = w.stream ∧ w0.pattern = w.pattern ∧
      Worker.run score len w p.status p.cleared pe o = Worker.run score len w0 p.status false pe o ∧
      StartKeep score S p.status w0 ∧ Pub (S w0.stream) w0 := by
  cases hc : p.cleared with
  | true =>
    refine ⟨w.clearedState, by simp, rfl, rfl, by rw [run_cleared], ?_, Pub.of_empty _ _ rfl⟩
    have g : Good score (S w.clearedState.stream) w.clearedState := Good.of_empty score _ _ rfl rfl rfl
    cases hst : p.status with
    | rescore => exact Or.inl ⟨rfl, BK_cleared w⟩
    | update => exact Or.inr (Or.inl ⟨rfl, g.loose score (by show 0 < PLACE; simp [PLACE])⟩)
    | unchanged => exact Or.inr (Or.inr ⟨rfl, g⟩)
  | false =>
    refine ⟨w, by simp, rfl, rfl, rfl, ?_, hpub hc⟩
    rcases hs with h | h
    · rw [hc] at h; cases h
    · exact h

theorem StartKeep.bk {st : PStatus} {w : Worker} (h : StartKeep score S st w) : BK w := by
  rcases h with ⟨_, b⟩ | ⟨_, l⟩ | ⟨_, g⟩
  · exact b
  · exact l.bk
  · exact g.bk

/-- **joining a run**: from the start condition of the pending run to a `Between` state whose accounted items are
    published ones -/
theorem join_between (hemp : EmpOk score emp) (p : Pending) (w w' : Worker) (mc : Bool) (hs : StartOk score S p w)
    (hpub : p.cleared = false → Pub (S w.stream) w) (hr : RunsAs score len S emp p w w' mc) :
    Between score (S w.stream) w' ∧ w'.running = true ∧ w'.pattern = w.pattern ∧ w'.stream = w.stream ∧
    (mc = false → w'.wasCanceled = false) ∧ Pub (S w.stream) w' := by
  obtain ⟨o, hw', ho⟩ := hr
  have rl := Worker.run_runLike score len p.status p.cleared (emp w.pattern) o
  have hrun : w'.running = true := by rw [hw']; exact rl.running w
  have hpat : w'.pattern = w.pattern := by rw [hw']; exact rl.pattern w
  have hstr : w'.stream = w.stream := by rw [hw']; exact rl.stream w
  obtain ⟨w0, e0, e1, e2, e3, e4, e5⟩ := startWorker score len S p w (emp w.pattern) o hs hpub
  rw [← e0] at ho
  have hpub' : Pub (S w.stream) w' := by
    have := run_pub score len (S w0.stream) w0 p.status (emp w.pattern) o (e4.bk score S) ho.env e5
    rw [← e3, ← hw', e1] at this
    exact this
  by_cases he : emp w.pattern = true
  · -- the empty pattern: reset + trivial pass, never cancelled
    rw [he] at e3 hw'
    obtain ⟨g, hwc, hl, _⟩ := run_emp_good score len emp hemp (S w0.stream) w0 p.status o (e4.bk score S) ho.env e5 (by rw [e2]; exact he)
    rw [← e3, ← hw'] at g hwc hl
    rw [e1] at g
    have hlt : w'.lastSnapshot < PLACE := by rw [hl]; exact ho.env.countLt
    exact ⟨⟨by rw [hpat]; exact g.loose score hlt |> fun l => by rw [← hpat]; exact l, fun _ => g⟩, hrun, hpat, hstr, fun _ => hwc, hpub'⟩
  · have he' : emp w.pattern = false := by simpa using he
    rw [he'] at e3 hw'
    have hstart : (p.status = .rescore ∧ BK w0) ∨ (p.status = .update ∧ Loose score (S w0.stream) w0.pattern w0) ∨
        (p.status = .unchanged ∧ Good score (S w0.stream) w0) := e4
    have hc : o.canceled (Worker.scorePass score (w0.begin false) p.status o).2.2 = true ∨ RunEnv (S w0.stream) w0 o := by
      rcases ho.cancel with ⟨_, h⟩ | h
      · exact Or.inl h
      · exact Or.inr h
    obtain ⟨b, hu⟩ := run_between score len (S w0.stream) w0 p.status o hstart ho.env hc
    rw [← e3, ← hw', e1] at b
    refine ⟨b, hrun, hpat, hstr, fun hmc => ?_, hpub'⟩
    rcases ho.cancel with ⟨h, _⟩ | h
    · rw [hmc] at h; cases h
    · have := hu h
      rw [← e3, ← hw'] at this
      exact this


/-! ## the protocol invariant -/

theorem Good.congr {Sx : Nat → Option Item} {w w' : Worker} (g : Good score Sx w) (h1 : w'.hits = w.hits) (h2 : w'.inFlight = w.inFlight)
    (h3 : w'.lastSnapshot = w.lastSnapshot) (h4 : w'.pattern = w.pattern) : Good score Sx w' := by
  have ep : processed w' = processed w := by unfold processed; rw [h2, h3]
  exact ⟨by rw [h1, h4, ep]; exact g.right, ⟨by rw [h2]; exact g.bk.nodup, by rw [h2, h3]; exact g.bk.below⟩⟩

theorem Between.congr {Sx : Nat → Option Item} {w w' : Worker} (b : Between score Sx w) (h1 : w'.hits = w.hits) (h2 : w'.inFlight = w.inFlight)
    (h3 : w'.lastSnapshot = w.lastSnapshot) (h4 : w'.pattern = w.pattern) (h5 : w'.wasCanceled = w.wasCanceled) : Between score Sx w' :=
  ⟨by rw [h4]; exact b.loose.congr score h1 h2 h3, fun h => (b.good (by rw [← h5]; exact h)).congr score h1 h2 h3 h4⟩

/-- the invariant carried through every event of a `Nucleo` -/
structure P07 (n : Nucleo) : Prop where
  idle : n.pending = none → n.worker.running = false
  mirror : n.pending = none → n.state = .fresh → n.snapshot = n.snapshot.update n.worker ∧ n.worker.wasCanceled = false
  pat : n.status = .unchanged → n.state = .fresh → n.worker.pattern = n.pattern
  upd : n.status = .update → n.state = .fresh → Narrows score n.pattern n.worker.pattern
  str : n.state = .fresh → n.worker.stream = n.cur
  btw : n.pending = none → Between score (S n.worker.stream) n.worker
  sta : ∀ p, n.pending = some p → StartOk score S p n.worker
  /-- the indices the worker accounts for are published items of its stream (unless the pending run starts by clearing) -/
  pub : (∃ st, n.pending = some ⟨st, true⟩) ∨ Pub (S n.worker.stream) n.worker

theorem P07.new : P07 score S Nucleo.new := by
  have g : Good score (S Nucleo.new.worker.stream) Nucleo.new.worker := Good.of_empty score _ _ rfl rfl rfl
  exact ⟨fun _ => rfl, fun _ h => by simp [Nucleo.new] at h, fun _ h => by simp [Nucleo.new] at h, fun _ h => by simp [Nucleo.new] at h,
    fun h => by simp [Nucleo.new] at h, fun _ => ⟨g.loose score (by simp [Nucleo.new, PLACE]), fun _ => g⟩, fun p h => by simp [Nucleo.new] at h, Or.inr (Pub.of_empty _ _ rfl)⟩

theorem P07.restart {n : Nucleo} (h : P07 score S n) (c : Bool) : P07 score S (n.restart c) :=
  ⟨h.idle, fun _ hs => by simp [Nucleo.restart] at hs, fun _ hs => by simp [Nucleo.restart] at hs, fun _ hs => by simp [Nucleo.restart] at hs,
   fun hs => by simp [Nucleo.restart] at hs, h.btw, h.sta, h.pub⟩

/-- `reparse`: the column is marked changed; an appended edit (status `Update`) narrows the previous pattern and is
    only reported when no rescore is already due -/
def ReparseOk (n : Nucleo) (p : Nat) (s : PStatus) : Prop :=
  s ≠ .unchanged ∧ (s = .update → Narrows score p n.pattern ∧ n.status ≠ .rescore)

theorem P07.reparse {n : Nucleo} (h : P07 score S n) (p : Nat) (s : PStatus) (ok : ReparseOk score n p s) : P07 score S (n.reparse p s) := by
  refine ⟨h.idle, h.mirror, fun hu _ => absurd hu ok.1, fun hu hf => ?_, h.str, h.btw, h.sta, h.pub⟩
  have hu' : s = .update := hu
  obtain ⟨hn, hr⟩ := ok.2 hu'
  show Narrows score p n.worker.pattern
  cases hst : n.status with
  | rescore => exact absurd hst hr
  | unchanged => rw [h.pat hst hf]; exact hn
  | update => exact hn.trans score (h.upd hst hf)

theorem P07.addInjector {n : Nucleo} (h : P07 score S n) (k : Nat) : P07 score S (n.addInjector k) :=
  ⟨h.idle, h.mirror, h.pat, h.upd, h.str, h.btw, h.sta, h.pub⟩
theorem P07.dropInjector {n : Nucleo} (h : P07 score S n) (k : Nat) : P07 score S (n.dropInjector k) :=
  ⟨h.idle, h.mirror, h.pat, h.upd, h.str, h.btw, h.sta, h.pub⟩
theorem P07.cloneInjector {n : Nucleo} (h : P07 score S n) (a b : Nat) : P07 score S (n.cloneInjector a b) := by
  unfold Nucleo.cloneInjector; split
  · exact ⟨h.idle, h.mirror, h.pat, h.upd, h.str, h.btw, h.sta, h.pub⟩
  · exact h

/-- the state a `tick_inner` that holds the lock works on -/
structure Joined07 (m : Nucleo) : Prop where
  noPending : m.pending = none
  btw : Between score (S m.worker.stream) m.worker
  pub : Pub (S m.worker.stream) m.worker
  fresh : m.state = .fresh →
    (m.worker.running = true ∧ m.worker.wasCanceled = false) ∨
    (m.worker.running = false ∧ m.snapshot = m.snapshot.update m.worker ∧ m.worker.wasCanceled = false)


theorem update_workerAfter (m : Nucleo) : m.snapshot.update m.workerAfter = m.snapshot.update m.worker := by
  unfold Nucleo.workerAfter Snapshot.update Worker.itemCount
  split <;> rfl

/-- a non-cancelling `tick_inner` that holds the lock, from a joined state on a live stream whose worker carries the
    current pattern: the invariant is re-established, and `running = false` comes with the right list -/
theorem locked_step07 (m : Nucleo) (k : Nat) (hj : Joined07 score S m) (hf : m.state = .fresh) (hp : m.worker.pattern = m.pattern)
    (hs : m.worker.stream = m.cur) :
    P07 score S (tickInnerLocked m false .unchanged k).1 ∧
    ((tickInnerLocked m false .unchanged k).2.running = false →
      (tickInnerLocked m false .unchanged k).1.snapshot =
        (tickInnerLocked m false .unchanged k).1.snapshot.update (tickInnerLocked m false .unchanged k).1.worker ∧
      Good score (S m.cur) (tickInnerLocked m false .unchanged k).1.worker ∧
      k ≤ (tickInnerLocked m false .unchanged k).1.worker.itemCount ∧
      (tickInnerLocked m false .unchanged k).1.worker.pattern = m.pattern ∧
      (tickInnerLocked m false .unchanged k).1.worker.stream = m.cur) := by
  have hnc : m.state.canceled = false := by rw [hf]; rfl
  have hwc : m.worker.wasCanceled = false := by
    rcases hj.fresh hf with ⟨_, h⟩ | ⟨_, _, h⟩ <;> exact h
  have hgood : Good score (S m.worker.stream) m.worker := hj.btw.good hwc
  have hwa1 : m.workerAfter.hits = m.worker.hits ∧ m.workerAfter.inFlight = m.worker.inFlight ∧
      m.workerAfter.lastSnapshot = m.worker.lastSnapshot ∧ m.workerAfter.pattern = m.worker.pattern ∧
      m.workerAfter.wasCanceled = m.worker.wasCanceled ∧ m.workerAfter.stream = m.worker.stream ∧ m.workerAfter.running = false := by
    unfold Nucleo.workerAfter
    split
    · exact ⟨rfl, rfl, rfl, rfl, rfl, rfl, rfl⟩
    · rename_i h; exact ⟨rfl, rfl, rfl, rfl, rfl, rfl, by simpa using h⟩
  obtain ⟨a1, a2, a3, a4, a5, a6, a7⟩ := hwa1
  have hsnap : m.snapAfter = m.snapshot.update m.worker := by
    unfold Nucleo.snapAfter
    rcases hj.fresh hf with ⟨h1, h2⟩ | ⟨h1, h2, _⟩
    · simp [h1, h2, hnc]
    · simp [h1]; exact h2
  unfold tickInnerLocked
  by_cases hc : (false || decide (k > m.worker.itemCount)) = true
  · -- more items than the worker has processed: a run with the unchanged pattern is spawned
    simp only [hc, if_true, hnc, Bool.false_eq_true, if_false]
    refine ⟨⟨fun h => by simp at h, fun h => by simp at h, fun _ _ => rfl, fun _ _ => Narrows.refl score _, fun _ => by show m.workerAfter.stream = m.cur; rw [a6]; exact hs,
      fun h => by simp at h, fun p hpp => ?_,
      Or.inr (by show Pub (S m.workerAfter.stream) _; rw [a6]; exact hj.pub.congr a2 a3)⟩, fun h => by simp at h⟩
    simp only [Option.some.injEq] at hpp
    subst hpp
    right; right; right
    refine ⟨rfl, ?_⟩
    show Good score (S m.workerAfter.stream) _
    rw [a6]
    exact hgood.congr score a1 a2 a3 (by show m.pattern = m.worker.pattern; rw [hp])
  · simp only [hc, Bool.false_eq_true, if_false]
    have hk : k ≤ m.worker.itemCount := by simp at hc; omega
    have hb' : Between score (S m.workerAfter.stream) m.workerAfter := by
      rw [a6]; exact hj.btw.congr score a1 a2 a3 a4 a5
    refine ⟨⟨fun _ => a7, fun _ _ => ⟨by show m.snapAfter = m.snapAfter.update m.workerAfter; rw [hsnap]; unfold Snapshot.update; simp only [a1, a4, a6]; unfold Worker.itemCount; rw [a2, a3], by rw [a5]; exact hwc⟩,
      fun _ _ => by show m.workerAfter.pattern = m.pattern; rw [a4]; exact hp,
      fun _ _ => by show Narrows score m.pattern m.workerAfter.pattern; rw [a4, hp]; exact Narrows.refl score _,
      fun _ => by show m.workerAfter.stream = m.cur; rw [a6]; exact hs, fun _ => hb', fun p hpp => (by rw [hj.noPending] at hpp; cases hpp),
      Or.inr (by show Pub (S m.workerAfter.stream) m.workerAfter; rw [a6]; exact hj.pub.congr a2 a3)⟩, fun _ => ?_⟩
    refine ⟨by show m.snapAfter = m.snapAfter.update m.workerAfter; rw [hsnap]; unfold Snapshot.update; simp only [a1, a4, a6]; unfold Worker.itemCount; rw [a2, a3],
      ?_, by show k ≤ m.workerAfter.itemCount; unfold Worker.itemCount; rw [a2, a3]; exact hk, by show m.workerAfter.pattern = m.pattern; rw [a4]; exact hp,
      by show m.workerAfter.stream = m.cur; rw [a6]; exact hs⟩
    rw [← hs]
    exact hgood.congr score a1 a2 a3 a4


/-- joining the run in flight (if any) -/
theorem joinRun07 (hemp : EmpOk score emp) (n : Nucleo) (hbtw : n.pending = none → Between score (S n.worker.stream) n.worker)
    (hsta : ∀ p, n.pending = some p → StartOk score S p n.worker)
    (hpub : (∃ st, n.pending = some ⟨st, true⟩) ∨ Pub (S n.worker.stream) n.worker) (run : Worker → Worker) (mc : Bool)
    (hr : ∀ p, n.pending = some p → RunsAs score len S emp p n.worker (run n.worker) mc) :
    Between score (S (n.joinRun run).worker.stream) (n.joinRun run).worker ∧
    (n.joinRun run).worker.pattern = n.worker.pattern ∧ (n.joinRun run).worker.stream = n.worker.stream ∧
    (n.pending.isSome = true → (n.joinRun run).worker.running = true ∧ (mc = false → (n.joinRun run).worker.wasCanceled = false)) ∧
    (n.pending = none → (n.joinRun run).worker = n.worker) ∧ Pub (S (n.joinRun run).worker.stream) (n.joinRun run).worker := by
  unfold Nucleo.joinRun
  cases hp : n.pending with
  | none =>
    simp only [Option.isSome_none, Bool.false_eq_true, if_false]
    refine ⟨hbtw hp, trivial, trivial, fun hh => (by cases hh), fun _ => trivial, ?_⟩
    rcases hpub with ⟨st, h⟩ | h
    · rw [hp] at h; cases h
    · exact h
  | some p =>
    simp only [Option.isSome_some, if_true]
    have hpub' : p.cleared = false → Pub (S n.worker.stream) n.worker := by
      intro hc
      rcases hpub with ⟨st, h⟩ | h
      · rw [hp] at h
        have : p = ⟨st, true⟩ := Option.some.inj h
        rw [this] at hc; cases hc
      · exact h
    obtain ⟨b, r1, r2, r3, r4, r5⟩ := join_between score len S emp hemp p n.worker (run n.worker) mc (hsta p hp) hpub' (hr p hp)
    exact ⟨by rw [r3]; exact b, r2, r3, fun _ => ⟨r1, r4⟩, fun hh => (by cases hh), by rw [r3]; exact r5⟩

/-- what the environment guarantees about the runs a tick joins: each is the pending run executed on the worker with
    observations consistent with the worker's stream; the run in flight may have seen the cancel flag only if this tick
    is a cancelling one, the run a cancelling tick spawns itself is not cancelled while that tick waits for it -/
structure TickEnv07 (n : Nucleo) (o : TickOracle) : Prop where
  run0 : ∀ p, n.pending = some p → RunsAs score len S emp p n.worker (o.run0 n.worker) n.tickCancels
  run1 : n.tickCancels = true → ∀ p, (({ n with shouldNotify := false } : Nucleo).tickCancelFirst o).1.pending = some p →
    RunsAs score len S emp p (({ n with shouldNotify := false } : Nucleo).tickCancelFirst o).1.worker
      (o.run1 (({ n with shouldNotify := false } : Nucleo).tickCancelFirst o).1.worker) false

/-- what a tick that reports `running = false` leaves behind -/
def Settled (n' : Nucleo) (pat count : Nat) : Prop :=
  n'.snapshot = n'.snapshot.update n'.worker ∧ Good score (S n'.cur) n'.worker ∧ count ≤ n'.worker.itemCount ∧
  n'.worker.pattern = pat ∧ n'.worker.stream = n'.cur

/-- the only `tick_inner` of a non-cancelling tick -/
theorem tickPlain07 (hemp : EmpOk score emp) (n : Nucleo) (h : P07 score S n) (o : TickOracle)
    (hr : ∀ p, n.pending = some p → RunsAs score len S emp p n.worker (o.run0 n.worker) false)
    (hst : n.status = .unchanged) (hf : n.state = .fresh) :
    P07 score S (n.tickPlain o).1 ∧ ((n.tickPlain o).2.running = false → Settled score S (n.tickPlain o).1 n.pattern o.count1) := by
  unfold Nucleo.tickPlain
  split
  · unfold tickInnerTimeout
    exact ⟨⟨h.idle, h.mirror, h.pat, h.upd, h.str, h.btw, h.sta, h.pub⟩, fun hh => by simp at hh⟩
  · have hfj := joinRun_fields n o.run0
    obtain ⟨j1, j2, j3, j4, j5, j6⟩ := joinRun07 score len S emp hemp n h.btw h.sta h.pub o.run0 false hr
    have hj : Joined07 score S (n.joinRun o.run0) := by
      refine ⟨hfj.2.2.2.1, j1, j6, fun _ => ?_⟩
      cases hp : n.pending with
      | none =>
        right
        rw [j5 hp, hfj.2.2.2.2.1]
        exact ⟨h.idle hp, (h.mirror hp hf).1, (h.mirror hp hf).2⟩
      | some p =>
        left
        have := j4 (by rw [hp]; rfl)
        exact ⟨this.1, this.2 rfl⟩
    have ls := locked_step07 score S (n.joinRun o.run0) o.count1 hj (by rw [hfj.1]; exact hf)
      (by rw [j2, hfj.2.2.1]; exact h.pat hst hf) (by rw [j3, hfj.2.2.2.2.2]; exact h.str hf)
    refine ⟨ls.1, fun hh => ?_⟩
    obtain ⟨s1, s2, s3, s4, s5⟩ := ls.2 hh
    have hcur : (tickInnerLocked (n.joinRun o.run0) false .unchanged o.count1).1.cur = (n.joinRun o.run0).cur := by
      unfold tickInnerLocked; split <;> rfl
    unfold Settled
    rw [hcur]
    exact ⟨s1, s2, s3, by rw [s4, hfj.2.2.1], s5⟩


/-- the first `tick_inner` of a cancelling tick: the run in flight is joined (cancelled or not), and the next run is
    spawned with the current pattern, on the current stream, with its start condition established -/
theorem cancelFirst07 (hemp : EmpOk score emp) (n : Nucleo) (h : P07 score S n) (o : TickOracle)
    (hr : ∀ p, n.pending = some p → RunsAs score len S emp p n.worker (o.run0 n.worker) true) (hc : n.tickCancels = true) :
    (n.tickCancelFirst o).1.state = .fresh ∧ (n.tickCancelFirst o).1.pending = some ⟨n.status, n.state.canceled⟩ ∧
    (n.tickCancelFirst o).1.worker.pattern = n.pattern ∧ (n.tickCancelFirst o).1.worker.stream = n.cur ∧
    (n.tickCancelFirst o).1.status = .unchanged ∧ (n.tickCancelFirst o).1.pattern = n.pattern ∧ (n.tickCancelFirst o).1.cur = n.cur ∧
    StartOk score S ⟨n.status, n.state.canceled⟩ (n.tickCancelFirst o).1.worker ∧
    (n.state.canceled = false → Pub (S (n.tickCancelFirst o).1.worker.stream) (n.tickCancelFirst o).1.worker) := by
  generalize hn1 : ({ n with status := .unchanged, cancelFlag := true } : Nucleo) = n1
  have e_w : n1.worker = n.worker := by rw [← hn1]
  have e_p : n1.pending = n.pending := by rw [← hn1]
  have e_pat : n1.pattern = n.pattern := by rw [← hn1]
  have e_cur : n1.cur = n.cur := by rw [← hn1]
  have e_st : n1.state = n.state := by rw [← hn1]
  have hfj := joinRun_fields n1 o.run0
  obtain ⟨j1, j2, j3, _, _, j6⟩ := joinRun07 score len S emp hemp n1 (by rw [e_p, e_w]; exact h.btw) (by rw [e_p, e_w]; exact h.sta)
    (by rw [e_p, e_w]; exact h.pub) o.run0 true (by rw [e_p, e_w]; exact hr)
  generalize hm : n1.joinRun o.run0 = m at hfj j1 j2 j3 j6
  have hwa : m.workerAfter.hits = m.worker.hits ∧ m.workerAfter.inFlight = m.worker.inFlight ∧
      m.workerAfter.lastSnapshot = m.worker.lastSnapshot ∧ m.workerAfter.stream = m.worker.stream := by
    unfold Nucleo.workerAfter; split <;> exact ⟨rfl, rfl, rfl, rfl⟩
  obtain ⟨a1, a2, a3, a4⟩ := hwa
  have hres : (n.tickCancelFirst o).1 =
      { ({ m with snapshot := m.snapAfter,
                  worker := { m.workerAfter with pattern := m.pattern, stream := if m.state.canceled then m.cur else m.workerAfter.stream },
                  cancelFlag := false, shouldNotify := m.shouldNotify, pending := some ⟨n.status, m.state.canceled⟩ } : Nucleo) with state := .fresh } := by
    unfold Nucleo.tickCancelFirst tickInnerLocked
    simp only [Bool.true_or, if_true]
    rw [hn1, hm]
  rw [hres]
  simp only
  have hsc : m.state = n.state := by rw [hfj.1, e_st]
  have hmp : m.pattern = n.pattern := by rw [hfj.2.2.1, e_pat]
  have hmc : m.cur = n.cur := by rw [hfj.2.2.2.2.2, e_cur]
  refine ⟨trivial, by rw [hsc], hmp, ?_, by rw [hfj.2.1, ← hn1], hmp, hmc, ?_, ?_⟩
  · -- the stream handle
    by_cases hcs : m.state.canceled = true
    · simp only [hcs, if_true]; exact hmc
    · simp only [hcs, Bool.false_eq_true, if_false]
      rw [a4, j3, e_w]
      have : n.state = .fresh := state_fresh_of_not_canceled _ (by rw [← hsc]; simpa using hcs)
      exact h.str this
  · -- the start condition of the spawned run
    by_cases hcs : n.state.canceled = true
    · left; exact hcs
    · right
      have hfresh : n.state = .fresh := state_fresh_of_not_canceled _ (by simpa using hcs)
      have hmcs : m.state.canceled = false := by rw [hsc]; simpa using hcs
      have hstat : n.status ≠ .unchanged := by
        unfold Nucleo.tickCancels at hc
        intro e
        rw [e] at hc
        simp only [ne_eq, not_true_eq_false, decide_false, Bool.false_or] at hc
        rw [hc] at hcs; exact hcs rfl
      show StartKeep score S n.status _
      simp only [hmcs, Bool.false_eq_true, if_false]
      have hb : Between score (S m.worker.stream) m.worker := j1
      cases hst : n.status with
      | unchanged => exact absurd hst hstat
      | rescore =>
        left
        exact ⟨rfl, ⟨by show m.workerAfter.inFlight.Nodup; rw [a2]; exact hb.loose.bk.nodup,
          by show ∀ i ∈ m.workerAfter.inFlight, i < m.workerAfter.lastSnapshot; rw [a2, a3]; exact hb.loose.bk.below⟩⟩
      | update =>
        right; left
        refine ⟨rfl, ?_⟩
        show Loose score (S m.workerAfter.stream) m.pattern _
        rw [a4, hmp]
        have hnar : Narrows score n.pattern m.worker.pattern := by rw [j2, e_w]; exact h.upd hst hfresh
        exact (hb.loose.narrow score hnar).congr score a1 a2 a3

  · -- the accounted items stay published ones when the worker is not about to be cleared
    intro hcs
    have hmcs : m.state.canceled = false := by rw [hsc]; exact hcs
    simp only [hmcs, Bool.false_eq_true, if_false]
    show Pub (S m.workerAfter.stream) _
    rw [a4]
    exact j6.congr a2 a3

/-- the second `tick_inner` of a cancelling tick -/
theorem tickSecond07 (hemp : EmpOk score emp) (n2 : Nucleo) (o : TickOracle) (p : Pending) (hf : n2.state = .fresh) (hp : n2.pending = some p)
    (hsta : StartOk score S p n2.worker) (hpub : p.cleared = false → Pub (S n2.worker.stream) n2.worker)
    (hw : n2.worker.pattern = n2.pattern) (hs : n2.worker.stream = n2.cur)
    (hst : n2.status = .unchanged)
    (hr : RunsAs score len S emp p n2.worker (o.run1 n2.worker) false) :
    P07 score S (n2.tickSecond o).1 ∧ ((n2.tickSecond o).2.running = false → Settled score S (n2.tickSecond o).1 n2.pattern o.count2) := by
  unfold Nucleo.tickSecond
  by_cases hl : o.lock2 = true
  · simp only [hl, if_true]
    have hfj := joinRun_fields n2 o.run1
    have hpubd : (∃ st, n2.pending = some ⟨st, true⟩) ∨ Pub (S n2.worker.stream) n2.worker := by
      cases hcl : p.cleared with
      | true => exact Or.inl ⟨p.status, by rw [hp, ← hcl]⟩
      | false => exact Or.inr (hpub hcl)
    obtain ⟨j1, j2, j3, j4, _, j6⟩ := joinRun07 score len S emp hemp n2 (fun h => by rw [hp] at h; cases h)
      (fun q hq => by rw [hp] at hq; cases hq; exact hsta) hpubd o.run1 false (fun q hq => by rw [hp] at hq; cases hq; exact hr)
    have hj : Joined07 score S (n2.joinRun o.run1) := by
      refine ⟨hfj.2.2.2.1, j1, j6, fun _ => Or.inl ?_⟩
      have := j4 (by rw [hp]; rfl)
      exact ⟨this.1, this.2 rfl⟩
    have ls := locked_step07 score S (n2.joinRun o.run1) o.count2 hj (by rw [hfj.1]; exact hf)
      (by rw [j2, hfj.2.2.1]; exact hw) (by rw [j3, hfj.2.2.2.2.2]; exact hs)
    refine ⟨ls.1, fun hh => ?_⟩
    obtain ⟨s1, s2, s3, s4, s5⟩ := ls.2 hh
    have hcur : (tickInnerLocked (n2.joinRun o.run1) false .unchanged o.count2).1.cur = (n2.joinRun o.run1).cur := by
      unfold tickInnerLocked; split <;> rfl
    unfold Settled
    rw [hcur]
    exact ⟨s1, s2, s3, by rw [s4, hfj.2.2.1], s5⟩
  · simp only [hl, Bool.false_eq_true, if_false]
    unfold tickInnerTimeout
    have hpn : ¬ (n2.pending = none) := by rw [hp]; intro e; cases e
    have hsu : ¬ (n2.status = .update) := by rw [hst]; intro e; cases e
    have hpubd : (∃ st, n2.pending = some ⟨st, true⟩) ∨ Pub (S n2.worker.stream) n2.worker := by
      cases hcl : p.cleared with
      | true => exact Or.inl ⟨p.status, by rw [hp, ← hcl]⟩
      | false => exact Or.inr (hpub hcl)
    refine ⟨⟨fun h => absurd h hpn, fun h => absurd h hpn, fun _ _ => hw, fun h => absurd h hsu, fun _ => hs,
      fun h => absurd h hpn, fun q hq => ?_, hpubd⟩, fun hh => (by simp at hh)⟩
    have hq' : n2.pending = some q := hq
    rw [hp] at hq'; cases hq'; exact hsta

/-- **one `tick`**: the invariant is preserved, and a tick that reports `running = false` leaves the snapshot equal to
    the worker's result, which is exactly right for the current pattern on the current stream and accounts for at least
    as many items as the reservation counter showed -/
theorem P07.tick (hemp : EmpOk score emp) {n : Nucleo} (h : P07 score S n) (o : TickOracle) (env : TickEnv07 score len S emp n o) :
    P07 score S (n.tick o).1 ∧
    ((n.tick o).2.running = false → Settled score S (n.tick o).1 n.pattern (o.decidingCount n)) := by
  unfold Nucleo.tick TickOracle.decidingCount
  simp only
  have hc0 : ({ n with shouldNotify := false } : Nucleo).tickCancels = n.tickCancels := rfl
  rw [hc0]
  have h0 : P07 score S ({ n with shouldNotify := false } : Nucleo) := ⟨h.idle, h.mirror, h.pat, h.upd, h.str, h.btw, h.sta, h.pub⟩
  by_cases hc : n.tickCancels = true
  · simp only [hc, if_true]
    have hr0 : ∀ p, ({ n with shouldNotify := false } : Nucleo).pending = some p →
        RunsAs score len S emp p ({ n with shouldNotify := false } : Nucleo).worker (o.run0 ({ n with shouldNotify := false } : Nucleo).worker) true := by
      intro p hp
      have := env.run0 p hp
      rw [hc] at this; exact this
    obtain ⟨f1, f2, f3, f4, f5, f6, f7, f8, f9⟩ := cancelFirst07 score len S emp hemp _ h0 o hr0 hc
    have st := tickSecond07 score len S emp hemp _ o _ f1 f2 f8 f9 (by rw [f3, f6]) (by rw [f4, f7]) f5 (env.run1 hc _ f2)
    rw [f6] at st
    exact st
  · have hc' : n.tickCancels = false := by simpa using hc
    simp only [hc', Bool.false_eq_true, if_false]
    have hst : n.status = .unchanged ∧ n.state = .fresh := by
      unfold Nucleo.tickCancels at hc'
      simp only [Bool.or_eq_false_iff, ne_eq, decide_eq_false_iff_not, Decidable.not_not] at hc'
      exact ⟨by simpa using hc'.1, state_fresh_of_not_canceled _ hc'.2⟩
    have hr0 : ∀ p, ({ n with shouldNotify := false } : Nucleo).pending = some p →
        RunsAs score len S emp p ({ n with shouldNotify := false } : Nucleo).worker (o.run0 ({ n with shouldNotify := false } : Nucleo).worker) false := by
      intro p hp
      have := env.run0 p hp
      rw [hc'] at this; exact this
    exact tickPlain07 score len S emp hemp _ h0 o hr0 hst.1 hst.2

theorem tickInnerLocked_pattern (m : Nucleo) (c : Bool) (st : PStatus) (k : Nat) : (tickInnerLocked m c st k).1.pattern = m.pattern := by
  unfold tickInnerLocked; split <;> rfl

theorem tick_pattern (n : Nucleo) (o : TickOracle) : (n.tick o).1.pattern = n.pattern := by
  have hcf : ∀ m : Nucleo, (m.tickCancelFirst o).1.pattern = m.pattern := by
    intro m
    unfold Nucleo.tickCancelFirst
    simp only
    rw [tickInnerLocked_pattern, (joinRun_fields _ _).2.2.1]
  unfold Nucleo.tick
  simp only
  split
  · unfold Nucleo.tickSecond
    split
    · rw [tickInnerLocked_pattern, (joinRun_fields _ _).2.2.1, hcf]
    · unfold tickInnerTimeout; simp only; rw [hcf]
  · unfold Nucleo.tickPlain
    split
    · rfl
    · rw [tickInnerLocked_pattern, (joinRun_fields _ _).2.2.1]

/-! ## every history -/

def EvOk07 (n : Nucleo) : Ev → Prop
  | .tick o => TickEnv07 score len S emp n o
  | .reparse p s => ReparseOk score n p s
  | _ => True

def okHist07 : Nucleo → List Ev → Prop
  | _, [] => True
  | n, e :: es => EvOk07 score len S emp n e ∧ okHist07 (applyEv n e) es

theorem P07.step (hemp : EmpOk score emp) {n : Nucleo} (h : P07 score S n) (e : Ev) (hok : EvOk07 score len S emp n e) : P07 score S (Nu.applyEv n e) := by
  cases e with
  | inj k => exact h.addInjector score S k
  | clone a b => exact h.cloneInjector score S a b
  | drop k => exact h.dropInjector score S k
  | restart c => exact h.restart score S c
  | reparse p s => exact h.reparse score S p s hok
  | tick o => exact (h.tick score len S emp hemp o hok).1

theorem P07.history (hemp : EmpOk score emp) : ∀ (evs : List Ev) (n : Nucleo), P07 score S n → okHist07 score len S emp n evs → P07 score S (evs.foldl Nu.applyEv n) := by
  intro evs
  induction evs with
  | nil => intro n h _; exact h
  | cons e es ih =>
    intro n h hok
    simp only [List.foldl_cons]
    exact ih _ (h.step score len S emp hemp e hok.1) hok.2

/-- **C07 at the level of the protocol**: after every history of injector(), clone, drop, reparse (an `Update` status
    only for an edit that narrows the matches), restart(true|false) and tick — ticks that complete or time out, runs
    that complete or are cancelled at an arbitrary point, every lock outcome — a tick that reports `running = false`
    leaves a snapshot whose match list is exactly the current pattern's matches (with their scores) among the accounted
    items of the current stream, in the worker's sorted order, for the current pattern, counting at least as many items
    as the reservation counter showed; with nothing in flight that is the from-scratch result over all of them
    (`C07_quiescent`). -/
theorem C07_protocol (hemp : EmpOk score emp) (evs : List Ev) (hok : okHist07 score len S emp Nucleo.new evs) (o : TickOracle)
    (env : TickEnv07 score len S emp (evs.foldl applyEv Nucleo.new) o)
    (hrun : ((evs.foldl applyEv Nucleo.new).tick o).2.running = false) :
    let n' := ((evs.foldl applyEv Nucleo.new).tick o).1
    n'.snapshot.hits.Perm (idealHits score (S n'.cur) n'.pattern (processed n'.worker)) ∧
    n'.snapshot.pattern = n'.pattern ∧ n'.snapshot.stream = n'.cur ∧ n'.snapshot.itemCount = n'.worker.itemCount ∧
    o.decidingCount (evs.foldl applyEv Nucleo.new) ≤ n'.snapshot.itemCount ∧
    (n'.worker.inFlight = [] → n'.snapshot.hits.Perm (idealHits score (S n'.cur) n'.pattern (List.range n'.worker.lastSnapshot)) ∧
       n'.snapshot.itemCount = n'.worker.lastSnapshot) := by
  intro n'
  have inv := P07.history score len S emp hemp evs Nucleo.new (P07.new score S) hok
  obtain ⟨_, hs⟩ := inv.tick score len S emp hemp o env
  obtain ⟨s1, s2, s3, s4, s5⟩ := hs hrun
  have hpat : n'.pattern = (evs.foldl applyEv Nucleo.new).pattern := tick_pattern (evs.foldl applyEv Nucleo.new) o
  have e_hits : n'.snapshot.hits = n'.worker.hits := by rw [s1]; rfl
  have e_pat : n'.snapshot.pattern = n'.worker.pattern := by rw [s1]; rfl
  have e_str : n'.snapshot.stream = n'.worker.stream := by rw [s1]; rfl
  have e_cnt : n'.snapshot.itemCount = n'.worker.itemCount := by rw [s1]; rfl
  have hright := s2.right
  rw [s4] at hright e_pat
  refine ⟨by rw [e_hits, hpat]; exact hright, by rw [e_pat, hpat], by rw [e_str, s5], e_cnt, by rw [e_cnt]; exact s3, fun hfl => ?_⟩
  have q := C07_quiescent score (S n'.cur) n'.worker s2 hfl
  rw [s4] at q
  exact ⟨by rw [e_hits, hpat]; exact q.1, by rw [e_cnt]; exact q.2⟩


/-- the hypotheses can be met and the conclusion is reached: the first tick on a new matcher (whose pattern, id 0, is the
    empty pattern) over an empty stream, whose (cleared) run completes in time, reports `running = false` -/
example :
    let score : Nat → Item → Option Nat := fun p _ => if p = 0 then some 0 else none
    let emp : Nat → Bool := fun p => p == 0
    let len : Item → Nat := fun _ => 0
    let S : Nat → Nat → Option Item := fun _ _ => none
    let obs : Obs := { seen0 := fun _ => none, seen1 := fun _ => none, count := 0, inFlightOrder := id, sawCancel := fun _ => false,
                       sortCanceled := false, shouldNotify := false }
    let run : Worker → Worker := fun w => (Worker.run score len w .unchanged true (emp w.pattern) obs).1
    let o : TickOracle := { count1 := 0, count2 := 0, lock1 := true, lock2 := true, run0 := run, run1 := run }
    EmpOk score emp ∧ okHist07 score len S emp Nucleo.new [] ∧ TickEnv07 score len S emp Nucleo.new o ∧ (Nucleo.new.tick o).2.running = false := by
  intro score emp len S obs run o
  refine ⟨fun p it h => by simp [emp] at h; simp [score, h], trivial, ⟨fun p hp => by simp [Nucleo.new] at hp, fun _ p hp => ?_⟩, by decide⟩
  have hp' : p = ⟨.unchanged, true⟩ := by
    have : (({ Nucleo.new with shouldNotify := false } : Nucleo).tickCancelFirst o).1.pending = some ⟨.unchanged, true⟩ := by decide
    rw [this] at hp; exact (Option.some.inj hp).symm
  subst hp'
  refine ⟨obs, rfl, ?_⟩
  have renv : ∀ w : Worker, RunEnv (S w.stream) w.clearedState obs := by
    intro w
    refine ⟨fun i it h => ?_, fun i it h => ?_, fun i h _ => ?_, Nat.le_refl _, ?_, fun _ => ⟨rfl, rfl⟩, rfl, fun l => List.Perm.refl l⟩
    · cases h
    · cases h
    · simp [Worker.clearedState] at h
    · show 0 < PLACE; simp [PLACE]
  exact ⟨(renv _).obsEnv, Or.inr (renv _)⟩

end NucleoVerif.Nu
