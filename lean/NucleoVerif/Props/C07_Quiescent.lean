import NucleoVerif.Props.C06_RunContract
import NucleoVerif.Props.C07
/-! # C07 (companion file) — the quiescent result is the from-scratch result

Built on the run contracts of `C06_RunContract`: whatever happened before — completed runs, runs that timed out and
were picked up later, runs cancelled at any point (`BK_run`: the bookkeeping survives all of them) — once a run
completes that rebuilds the list (full rescoring after a non-appended edit or a restart, or the empty pattern), the
match list is right, it stays right through completed incremental runs (new items with an unchanged pattern, appended
edits), and when nothing is in flight any more it is exactly what a fresh matcher computes for the current pattern
over all injected items. -/
namespace NucleoVerif.Nu

variable (score : Nat → Item → Option Nat) (len : Item → Nat)

/-- "the match list is right": it holds exactly the current pattern's matches among the accounted items, and the
    bookkeeping invariant holds -/
structure Good (S : Nat → Option Item) (w : Worker) : Prop where
  right : w.hits.Perm (idealHits score S w.pattern (processed w))
  bk : BK w

/-- a completed rebuilding run establishes `Good` from any state with intact bookkeeping -/
theorem C07_rescore_establishes (S : Nat → Option Item) (w : Worker) (o : Obs) (bk : BK w) (env : RunEnv S w o) :
    Good score S (Worker.run score len w .rescore false false o).1 := by
  have h := C06_rescore_run_contract score len S w o bk env
  exact ⟨h.1, h.2.2.1⟩

/-- completed incremental runs preserve it -/
theorem C07_unchanged_preserves (S : Nat → Option Item) (w : Worker) (o : Obs) (g : Good score S w) (env : RunEnv S w o) :
    Good score S (Worker.run score len w .unchanged false false o).1 := by
  have h := C06_unchanged_run_contract score len S w o g.bk env g.right
  exact ⟨h.1, h.2.2.1⟩

/-- an appended edit: the worker is handed the new pattern `pNew`, which matches only what the old one matched -/
theorem C07_update_preserves (S : Nat → Option Item) (w : Worker) (o : Obs) (pNew : Nat) (g : Good score S w)
    (hsound : ∀ it, (score pNew it).isSome = true → (score w.pattern it).isSome = true)
    (env : RunEnv S { w with pattern := pNew } o) :
    Good score S (Worker.run score len { w with pattern := pNew } .update false false o).1 := by
  have h := C06_update_run_contract score len S { w with pattern := pNew } o ⟨g.bk.nodup, g.bk.below⟩ env w.pattern hsound g.right _ rfl
  exact ⟨h.1, h.2.2.1⟩

/-- a cancelled or otherwise arbitrary run in between can spoil the list but not the bookkeeping, so the next
    rebuilding run repairs it -/
theorem C07_any_run_then_rescore (S : Nat → Option Item) (w : Worker) (st : PStatus) (pe : Bool) (o1 o2 : Obs) (pNew : Nat) (bk : BK w)
    (hc : w.lastSnapshot ≤ o1.count) (hord : ∀ l, (o1.inFlightOrder l).Perm l)
    (env : RunEnv S { (Worker.run score len w st false pe o1).1 with pattern := pNew } o2) :
    Good score S (Worker.run score len { (Worker.run score len w st false pe o1).1 with pattern := pNew } .rescore false false o2).1 := by
  have b1 := BK_run score len w st pe o1 bk hc hord
  exact C07_rescore_establishes score len S _ o2 ⟨b1.nodup, b1.below⟩ env

/-- **quiescence**: a right list with nothing in flight is the from-scratch result over every item below the snapshot
    end, and its reported item count is that number of items -/
theorem C07_quiescent (S : Nat → Option Item) (w : Worker) (g : Good score S w) (hfl : w.inFlight = []) :
    w.hits.Perm (idealHits score S w.pattern (List.range w.lastSnapshot)) ∧ w.itemCount = w.lastSnapshot := by
  refine ⟨C06_quiescent score S w g.right hfl, ?_⟩
  unfold Worker.itemCount; rw [hfl]; rfl

end NucleoVerif.Nu
