import NucleoVerif.Props.C07_Narrows
/-! # C07 (companion file) — typing an upper-case letter onto a smart-case atom narrows it, too

Under `CaseMatching::Smart` an atom ignores case exactly while its text has no upper-case character; appending one turns
`ignore_case` off.  The flags of the last atom change, so this is not covered by `C07_*_append_narrows_*` (same flags).
It still narrows: the case-sensitive match of `n ++ s` implies the case-insensitive match of `n`, because the
case-insensitive haystack is the lower-cased case-sensitive haystack and `n` (stored case-folded) is its own lower case. -/
namespace NucleoVerif
open Gen Spec Sub

theorem subseqB_map (f : Nat → Nat) (a b : List Nat) (h : subseqB a b = true) : subseqB (a.map f) (b.map f) = true := by
  rw [subseqB_iff_sublist] at h ⊢
  exact h.map f

/-- case-insensitive normalization is lower-casing after the case-sensitive one (same Latin normalization flag) -/
theorem normChar_ignoreCase (cfg : Cfg) (c : Nat) :
    normChar { cfg with ignoreCase := true } c = toLower (normChar { cfg with ignoreCase := false } c) := by
  simp [normChar]

/-- **fuzzy atoms, code-point haystacks**: what the case-sensitive matcher finds for `n ++ s` the case-insensitive one
    finds for `n`, when `n` is stored case-folded (`hlow`) -/
theorem C07_smart_case_flip_narrows_fuzzy_unicode (cfg : Cfg) (ext : Ext) (nrep : Rep) (h n s : List Nat)
    (hS : (n ++ s).map (norm { cfg with ignoreCase := false } nrep) = n ++ s)
    (hI : n.map (norm { cfg with ignoreCase := true } nrep) = n) (hlow : n.map toLower = n)
    (hm : (fuzzyMatch { cfg with ignoreCase := false } ext .unicode nrep h (n ++ s)).isSome = true) :
    (fuzzyMatch { cfg with ignoreCase := true } ext .unicode nrep h n).isSome = true := by
  rw [C01_decision_unicode _ ext nrep h (n ++ s) hS] at hm
  rw [C01_decision_unicode _ ext nrep h n hI]
  have h1 := subseqB_of_append n s _ hm
  have h2 := subseqB_map toLower _ _ h1
  rw [hlow] at h2
  have e : (normHay { cfg with ignoreCase := false } .unicode h).map toLower = normHay { cfg with ignoreCase := true } .unicode h := by
    unfold normHay
    rw [List.map_map]
    apply List.map_congr_left
    intro c _
    show toLower (normChar { cfg with ignoreCase := false } c) = normChar { cfg with ignoreCase := true } c
    rw [normChar_ignoreCase]
  rw [e] at h2
  exact h2

/-- ASCII lower-casing, as `normAscii` does it -/
def lowerA (c : Nat) : Nat := if 65 ≤ c ∧ c ≤ 90 then c + 32 else c

/-- **fuzzy atoms, ASCII haystacks and needles** -/
theorem C07_smart_case_flip_narrows_fuzzy_ascii (cfg : Cfg) (ext : Ext) (h n s : List Nat) (hasc : ∀ x ∈ h, x < 128)
    (hlow : ∀ c ∈ n, ¬ (65 ≤ c ∧ c ≤ 90))
    (hm : (fuzzyMatch { cfg with ignoreCase := false } ext .ascii .ascii h (n ++ s)).isSome = true) :
    (fuzzyMatch { cfg with ignoreCase := true } ext .ascii .ascii h n).isSome = true := by
  have hS : ∀ c ∈ n ++ s, normAscii { cfg with ignoreCase := false } c = c := by intro c _; simp [normAscii]
  have hI : ∀ c ∈ n, normAscii { cfg with ignoreCase := true } c = c := by
    intro c hc; have := hlow c hc; simp only [normAscii, true_and]; rw [if_neg this]
  rw [C01_decision_ascii _ ext h (n ++ s) hasc hS] at hm
  rw [C01_decision_ascii _ ext h n hasc hI]
  have h1 := subseqB_of_append n s _ hm
  have h2 := subseqB_map lowerA _ _ h1
  have e1 : n.map lowerA = n := by
    have : ∀ (l : List Nat), (∀ c ∈ l, ¬ (65 ≤ c ∧ c ≤ 90)) → l.map lowerA = l := by
      intro l
      induction l with
      | nil => intro _; rfl
      | cons c t ih =>
        intro hl
        simp only [List.map_cons]
        rw [ih (fun d hd => hl d (List.mem_cons_of_mem _ hd))]
        congr 1
        unfold lowerA; rw [if_neg (hl c (List.mem_cons_self ..))]
    exact this n hlow
  have e2 : (normHay { cfg with ignoreCase := false } .ascii h).map lowerA = normHay { cfg with ignoreCase := true } .ascii h := by
    unfold normHay
    rw [List.map_map]
    apply List.map_congr_left
    intro c _
    simp [norm, normAscii, lowerA]
  rw [e1, e2] at h2
  exact h2

theorem normHay_ignoreCase (cfg : Cfg) (h : List Nat) :
    (normHay { cfg with ignoreCase := false } .unicode h).map toLower = normHay { cfg with ignoreCase := true } .unicode h := by
  unfold normHay
  rw [List.map_map]
  apply List.map_congr_left
  intro c _
  show toLower (normChar { cfg with ignoreCase := false } c) = normChar { cfg with ignoreCase := true } c
  rw [normChar_ignoreCase]

/-- a case-sensitive occurrence of `n ++ s` is a case-insensitive occurrence of the case-folded `n` -/
theorem occurrences_case_flip (cfg : Cfg) (h n s : List Nat) (hlow : n.map toLower = n)
    (hne : (!(occurrences { cfg with ignoreCase := false } .unicode h (n ++ s)).isEmpty) = true) :
    (!(occurrences { cfg with ignoreCase := true } .unicode h n).isEmpty) = true := by
  cases ho : occurrences { cfg with ignoreCase := false } .unicode h (n ++ s) with
  | nil => rw [ho] at hne; cases hne
  | cons i l =>
    have hi : i ∈ occurrences { cfg with ignoreCase := false } .unicode h (n ++ s) := by rw [ho]; simp
    obtain ⟨h1, h2⟩ := (mem_occurrences _ .unicode h (n ++ s) i).mp hi
    have h3 := take_of_take_append _ n s h2
    have h4 := congrArg (List.map toLower) h3
    rw [hlow, List.map_take, List.map_drop, normHay_ignoreCase] at h4
    have : i ∈ occurrences { cfg with ignoreCase := true } .unicode h n :=
      (mem_occurrences _ .unicode h n i).mpr ⟨by rw [List.length_append] at h1; omega, h4⟩
    cases hn : occurrences { cfg with ignoreCase := true } .unicode h n with
    | nil => rw [hn] at this; cases this
    | cons _ _ => rfl

/-- **substring atoms, code-point haystacks** -/
theorem C07_smart_case_flip_narrows_substring_unicode (cfg : Cfg) (ext : Ext) (nrep : Rep) (h : List Nat) (n0 n1 : Nat) (ns s : List Nat)
    (hb : 8 ≤ maxBonus cfg)
    (hS : ((n0 :: n1 :: ns) ++ s).map (norm { cfg with ignoreCase := false } nrep) = (n0 :: n1 :: ns) ++ s)
    (hI : (n0 :: n1 :: ns).map (norm { cfg with ignoreCase := true } nrep) = n0 :: n1 :: ns) (hlow : (n0 :: n1 :: ns).map toLower = n0 :: n1 :: ns)
    (hm : (substringMatch { cfg with ignoreCase := false } ext .unicode nrep h ((n0 :: n1 :: ns) ++ s)).isSome = true) :
    (substringMatch { cfg with ignoreCase := true } ext .unicode nrep h (n0 :: n1 :: ns)).isSome = true := by
  have e : (n0 :: n1 :: ns) ++ s = n0 :: n1 :: (ns ++ s) := rfl
  rw [e] at hm hS
  rw [C05_substring_entry_unicode _ ext nrep h n0 n1 (ns ++ s) (by exact hb) hS] at hm
  rw [C05_substring_entry_unicode _ ext nrep h n0 n1 ns (by exact hb) hI]
  rw [← e] at hm
  exact occurrences_case_flip cfg h _ s hlow hm

/-- **prefix atoms, code-point haystacks** -/
theorem C07_smart_case_flip_narrows_prefix_unicode (cfg : Cfg) (ext : Ext) (nrep : Rep) (h : List Nat) (n0 : Nat) (ns s : List Nat)
    (hS : ((n0 :: ns) ++ s).map (norm { cfg with ignoreCase := false } nrep) = (n0 :: ns) ++ s)
    (hI : (n0 :: ns).map (norm { cfg with ignoreCase := true } nrep) = n0 :: ns) (hlow : (n0 :: ns).map toLower = n0 :: ns)
    (hm : (prefixMatch { cfg with ignoreCase := false } ext .unicode nrep h ((n0 :: ns) ++ s)).isSome = true) :
    (prefixMatch { cfg with ignoreCase := true } ext .unicode nrep h (n0 :: ns)).isSome = true := by
  have hk1 : ¬ (Rep.unicode = .ascii ∧ nrep = .unicode) := fun e => by cases e.1
  have e : (n0 :: ns) ++ s = n0 :: (ns ++ s) := rfl
  rw [e] at hm hS
  rw [C05_prefix _ ext .unicode nrep h n0 (ns ++ s) hk1 hS] at hm
  rw [C05_prefix _ ext .unicode nrep h n0 ns hk1 hI]
  simp only [Bool.and_eq_true, decide_eq_true_eq, beq_iff_eq] at hm ⊢
  obtain ⟨h1, h2⟩ := hm
  rw [← e] at h1 h2
  refine ⟨by rw [List.length_append] at h1; omega, ?_⟩
  have h3 := take_of_take_append _ (n0 :: ns) s h2
  have h4 := congrArg (List.map toLower) h3
  rw [hlow, List.map_take, List.map_drop, normHay_ignoreCase] at h4
  exact h4

end NucleoVerif
