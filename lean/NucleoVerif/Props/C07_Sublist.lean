import NucleoVerif.Props.C07_NormFlip
namespace NucleoVerif
open Gen Spec Sub

theorem subseqB_trans (a b c : List Nat) (h1 : a.Sublist b) (h2 : subseqB b c = true) : subseqB a c = true := by
  rw [subseqB_iff_sublist] at h2 ⊢
  exact h1.trans h2

/-- **a fuzzy atom whose needle contains the old needle as a subsequence narrows** (same flags; code-point haystacks).
    This is the general form of `C07_fuzzy_append_narrows_unicode`: it also covers edits that do more than append to the
    needle — an escaped `\\$` that becomes literal again (`a\\$` → `a\\$b`: needle `a$` → `a\\$b`), a `\\ ` that joins
    two words — as long as the old needle's characters survive in order, which the `narrow` stream checks on the parser
    model for every generated edit that takes the shortcut. -/
theorem C07_fuzzy_sublist_narrows_unicode (cfg : Cfg) (ext : Ext) (nrep nrep' : Rep) (h n n' : List Nat)
    (hsub : n.Sublist n') (hn : n.map (norm cfg nrep) = n) (hn' : n'.map (norm cfg nrep') = n')
    (hm : (fuzzyMatch cfg ext .unicode nrep' h n').isSome = true) : (fuzzyMatch cfg ext .unicode nrep h n).isSome = true := by
  rw [C01_decision_unicode cfg ext nrep' h n' hn'] at hm
  rw [C01_decision_unicode cfg ext nrep h n hn]
  exact subseqB_trans n n' _ hsub hm

/-- the same across the smart-case flip: the new needle is matched case-sensitively, the old one (its own lower case)
    case-insensitively, and the old needle is a subsequence of the lower-cased new one -/
theorem C07_fuzzy_sublist_narrows_case_flip_unicode (cfg : Cfg) (ext : Ext) (nrep nrep' : Rep) (h n n' : List Nat)
    (hsub : n.Sublist (n'.map toLower))
    (hI : n.map (norm { cfg with ignoreCase := true } nrep) = n) (hS : n'.map (norm { cfg with ignoreCase := false } nrep') = n')
    (hm : (fuzzyMatch { cfg with ignoreCase := false } ext .unicode nrep' h n').isSome = true) :
    (fuzzyMatch { cfg with ignoreCase := true } ext .unicode nrep h n).isSome = true := by
  rw [C01_decision_unicode _ ext nrep' h n' hS] at hm
  rw [C01_decision_unicode _ ext nrep h n hI]
  have h2 := subseqB_map toLower _ _ hm
  rw [normHay_ignoreCase] at h2
  exact subseqB_trans n _ _ hsub h2

end NucleoVerif
