import NucleoVerif.Props.C19_TickTranslated
/-! # C07 (companion file) — the theorems of C07 are about the `Nucleo::tick` the code has

`C19_TickTranslated` proves that the plan of `tick` / `tick_inner`, translated from `src/lib.rs` on every run
(`Gen/TickPlan.lean`), is the one the model's `Nucleo.tick` follows; restated here so that a change of that plan is a broken
obligation of C07 as well. -/
namespace NucleoVerif.Nu

theorem C07_translated_tick (n : Nucleo) (o : TickOracle) (canceled : Bool) (status : PStatus) (count : Nat) :
    n.tickCancels = Gen.TickPlan.tick_cancels n.status.rank n.state.canceled ∧
    (tickInnerLocked n canceled status count).2 = ⟨n.worker.running, Gen.TickPlan.spawns canceled count n.worker.itemCount⟩ ∧
    (tickInnerTimeout n).2 = ⟨Gen.TickPlan.timeout_status.1, Gen.TickPlan.timeout_status.2⟩ ∧
    (n.snapAfter = if Gen.TickPlan.copies_snapshot n.worker.running n.worker.wasCanceled n.state.canceled then n.snapshot.update n.worker else n.snapshot) := by
  refine ⟨C19_translated_tick_cancels n, ?_, rfl, C19_translated_snapshot n⟩
  rw [C19_translated_tick_inner]
  split <;> simp_all

end NucleoVerif.Nu
