import NucleoVerif.Model.Pattern
import NucleoVerif.Gen.Rules
/-! # C07 (companion file) — `can_append_to`, translated from the source, is the model's rule

`Gen/Rules.lean` is regenerated on every run from `src/pattern.rs`: `can_append_to`, the rule of the append shortcut
(where findings F9 and F16 were).  The theorems of C07 are about `lastAtomAllowsUpdate`; they are the same function. -/
namespace NucleoVerif

def AtomKind.id : AtomKind → Nat
  | .fuzzy => 0 | .substring => 1 | .prefix => 2 | .postfix => 3 | .exact => 4

/-- **`can_append_to` is `lastAtomAllowsUpdate`** -/
theorem C07_translated_can_append_to (a : Atom) :
    lastAtomAllowsUpdate a = Gen.Rules.can_append_to a.negative a.kind.id a.needle.getLast? := by
  unfold lastAtomAllowsUpdate Gen.Rules.can_append_to
  cases hn : a.negative <;> cases hk : a.kind <;> simp [AtomKind.id] <;>
    (split <;> simp_all)

end NucleoVerif
