import NucleoVerif.Model.Pattern
import NucleoVerif.Gen.Rules
/-! # C07 (companion file) — `can_append_to`, translated from the source, is the model's rule

`Gen/Rules.lean` is regenerated on every run from `src/pattern.rs`: `can_append_to`, the rule of the append shortcut
(where findings F9 and F16 were).  The theorems of C07 are about `lastAtomAllowsUpdate`; they are the same function. -/
namespace NucleoVerif

def AtomKind.id : AtomKind → Nat
  | .fuzzy => 0 | .substring => 1 | .prefix => 2 | .postfix => 3 | .exact => 4

/-- **`can_append_to` is `lastAtomAllowsUpdate`** -/
theorem C07_translated_can_append_to (a : Atom) :
    lastAtomAllowsUpdate a = Gen.Rules.can_append_to a.negative a.kind.id a.needle.getLast? := by
  unfold lastAtomAllowsUpdate Gen.Rules.can_append_to
  cases hn : a.negative <;> cases hk : a.kind <;> simp [AtomKind.id] <;>
    (split <;> simp_all)

/-- **`MultiPattern::reparse`'s status decision, with the repair of F16, is the model's `reparseStatus`** — the atoms'
    `normalize` flags stand for `normalizes(atom)` (under smart normalization the flag is on exactly when no character of
    the needle text is changed by normalization: `C14_one_grammar`, `nzSpec`) -/
theorem C07_translated_reparse_status (old : PStatus) (oldAtoms newAtoms : List Atom) (append : Bool) :
    (reparseStatus old oldAtoms newAtoms append).rank =
      Gen.Rules.reparse_status append old.rank
        (match oldAtoms.getLast? with | none => true | some a => Gen.Rules.can_append_to a.negative a.kind.id a.needle.getLast?)
        true (oldAtoms.getLast?.map (·.normalize)) (newAtoms[oldAtoms.length - 1]?.map (·.normalize)) := by
  unfold reparseStatus Gen.Rules.reparse_status normKept
  cases hl : oldAtoms.getLast? with
  | none =>
    cases old <;> cases append <;> simp [PStatus.rank]
  | some a =>
    have e := C07_translated_can_append_to a
    simp only [← e]
    cases hb : newAtoms[oldAtoms.length - 1]? with
    | none =>
      simp only [Option.map]
      rcases Bool.eq_false_or_eq_true (lastAtomAllowsUpdate a) with h1 | h1 <;>
      rcases Bool.eq_false_or_eq_true a.normalize with h2 | h2 <;>
      cases old <;> cases append <;> simp [PStatus.rank, h1, h2]
    | some b =>
      simp only [Option.map]
      rcases Bool.eq_false_or_eq_true (lastAtomAllowsUpdate a) with h1 | h1 <;>
      rcases Bool.eq_false_or_eq_true a.normalize with h2 | h2 <;>
      rcases Bool.eq_false_or_eq_true b.normalize with h3 | h3 <;>
      cases old <;> cases append <;> simp [PStatus.rank, h1, h2, h3]

end NucleoVerif
