import NucleoVerif.Props.C07_AtomNarrows
import NucleoVerif.Props.C07_Append
import NucleoVerif.Props.C15_Multi
/-! # C07 (companion file) — the `Update` shortcut is sound: end to end for ASCII pattern text

`MultiPattern::reparse` reports `Update` for an appended text when `can_append_to` admits the column's last atom (and the
appended text did not switch its normalization off).  The worker then rescores the previous matches only, which is
right exactly when the new pattern matches nothing the old one did not (`ReparseOk` in `C07_Protocol`).  This file
proves that, from the parser model to the matcher model, for every ASCII pattern text:

* `rES_append`, `stripDollar_eq`/`dollarRev_append`, `stripNeg_append`, `stripKind_append`: how each stage of `Atom::parse`
  treats a continued text;
* `C07_parse_append_rel`: the atom parsed from `r ++ s` is related by `AtomRel` to the admitted atom parsed from `r`;
* `C07_update_narrows_ascii`: with the splitter (`C07_append_pieces`), the rule (`C07_update_rule`), the atom-level
  narrowing (`C07_atom_narrows`) and the conjunction (`C15_pattern`): the new pattern matches only what the old matched.

Non-ASCII pattern text goes through the grapheme loop of `new_inner` and is not covered here (there the smart
normalization flag can flip, finding F16; `C07_NormFlip`, `C07_Sublist` and the `narrow` correspondence stream cover it). -/
namespace NucleoVerif
open Gen Spec

/-! ## the escape pass -/

theorem rES_append : ∀ (u v : List Nat), (u.getLast? = some 92 → v.head? ≠ some 32) →
    replaceEscSpace (u ++ v) = replaceEscSpace u ++ replaceEscSpace v := by
  intro u
  induction u using replaceEscSpace.induct with
  | case1 => intro v _; simp [replaceEscSpace]
  | case2 c =>
    intro v hv
    cases v with
    | nil => simp [replaceEscSpace]
    | cons d r =>
      have : ¬ (c = 92 ∧ d = 32) := by
        rintro ⟨rfl, rfl⟩
        exact hv rfl rfl
      simp [replaceEscSpace, this]
  | case3 c d r hcd ih =>
    intro v hv
    have hv' : r.getLast? = some 92 → v.head? ≠ some 32 := by
      intro hl
      apply hv
      cases r with
      | nil => cases hl
      | cons x xs => simpa [List.getLast?_cons_cons] using hl
    show replaceEscSpace (c :: d :: (r ++ v)) = _
    simp only [replaceEscSpace, hcd, and_self, if_true, List.cons_append]
    rw [ih v hv']
  | case4 c d r hcd ih =>
    intro v hv
    have hv' : (d :: r).getLast? = some 92 → v.head? ≠ some 32 := by
      intro hl
      apply hv
      simpa [List.getLast?_cons_cons] using hl
    show replaceEscSpace (c :: d :: (r ++ v)) = _
    simp only [replaceEscSpace, hcd, if_false, List.cons_append]
    have := ih v hv'
    simp only [List.cons_append] at this
    rw [this]

theorem rES_getLast : ∀ (u : List Nat), (replaceEscSpace u).getLast? = u.getLast? := by
  intro u
  induction u using replaceEscSpace.induct with
  | case1 => rfl
  | case2 c => rfl
  | case3 c d r hcd ih =>
    obtain ⟨rfl, rfl⟩ := hcd
    simp only [replaceEscSpace, and_self, if_true]
    cases r with
    | nil => simp [replaceEscSpace]
    | cons x xs =>
      have hne : replaceEscSpace (x :: xs) ≠ [] := by
        cases xs with
        | nil => simp [replaceEscSpace]
        | cons y ys => simp only [replaceEscSpace]; split <;> simp
      rw [List.getLast?_cons_cons, List.getLast?_cons_cons, ← ih]
      cases hh : replaceEscSpace (x :: xs) with
      | nil => exact absurd hh hne
      | cons z zs => rw [List.getLast?_cons_cons]
  | case4 c d r hcd ih =>
    simp only [replaceEscSpace, hcd, if_false]
    have hne : replaceEscSpace (d :: r) ≠ [] := by
      cases r with
      | nil => simp [replaceEscSpace]
      | cons y ys => simp only [replaceEscSpace]; split <;> simp
    cases hh : replaceEscSpace (d :: r) with
    | nil => exact absurd hh hne
    | cons z zs => rw [List.getLast?_cons_cons, ← hh, ih, List.getLast?_cons_cons]

theorem rES_sublist : ∀ (u : List Nat), (replaceEscSpace u).Sublist u := by
  intro u
  induction u using replaceEscSpace.induct with
  | case1 => exact List.Sublist.slnil
  | case2 c => exact List.Sublist.refl _
  | case3 c d r hcd ih =>
    obtain ⟨rfl, rfl⟩ := hcd
    simp only [replaceEscSpace, and_self, if_true]
    exact (ih.cons_cons 32).cons 92
  | case4 c d r hcd ih =>
    simp only [replaceEscSpace, hcd, if_false]
    exact ih.cons_cons c

theorem rES_ne_nil (u : List Nat) (h : u ≠ []) : replaceEscSpace u ≠ [] := by
  intro e
  have := rES_getLast u
  rw [e] at this
  cases u with
  | nil => exact h rfl
  | cons x xs =>
    rw [List.getLast?_eq_some_getLast (l := x :: xs) (by simp)] at this
    simp at this

/-! ## the `$` suffix, read from the end -/

/-- `stripDollar` on the reversed text -/
def dollarRev (k : AtomKind) : List Nat → AtomKind × Bool × List Nat
  | 36 :: 92 :: t => (k, true, t.reverse)
  | 36 :: t => ((if k = .fuzzy then .postfix else .exact), false, t.reverse)
  | t => (k, false, t.reverse)

theorem stripDollar_eq (k : AtomKind) (y : List Nat) : stripDollar k y = dollarRev k y.reverse := by
  obtain ⟨t, rfl⟩ : ∃ t, y = t.reverse := ⟨y.reverse, by simp⟩
  rw [List.reverse_reverse]
  cases t with
  | nil => simp [stripDollar, endsWith, dollarRev]
  | cons c t1 =>
    cases t1 with
    | nil =>
      by_cases hc : c = 36
      · subst hc; simp [stripDollar, endsWith, dollarRev, dropLast1]
      · simp [stripDollar, endsWith, dollarRev, hc]
    | cons d t2 =>
      have e : (c :: d :: t2).reverse = t2.reverse ++ [d, c] := by simp
      have l2 : (t2.reverse ++ [d, c]).length - 2 = t2.reverse.length := by simp
      have l1 : (t2.reverse ++ [d, c]).length - 1 = (t2.reverse ++ [d]).length := by simp
      have e1 : t2.reverse ++ [d, c] = (t2.reverse ++ [d]) ++ [c] := by simp
      have w2 : endsWith (t2.reverse ++ [d, c]) [92, 36] = (decide (d = 92) && decide (c = 36)) := by
        unfold endsWith
        simp only [List.length_cons, List.length_nil]
        rw [l2, List.drop_left]
        have : (t2.reverse ++ [d, c]).length ≥ 0 + 1 + 1 := by simp
        simp only [this, decide_true, Bool.true_and]
        rw [Bool.eq_iff_iff]; simp
      have w1 : endsWith (t2.reverse ++ [d, c]) [36] = decide (c = 36) := by
        unfold endsWith
        simp only [List.length_cons, List.length_nil]
        rw [l1, e1, List.drop_left]
        have : ((t2.reverse ++ [d]) ++ [c]).length ≥ 0 + 1 := by simp
        simp only [this, decide_true, Bool.true_and]
        rw [Bool.eq_iff_iff]; simp
      have d2 : dropLast2 (t2.reverse ++ [d, c]) = t2.reverse := by
        unfold dropLast2; rw [l2, List.take_left]
      have d1 : dropLast1 (t2.reverse ++ [d, c]) = (d :: t2).reverse := by
        unfold dropLast1; rw [l1, e1, List.take_left]; simp
      rw [e]
      unfold stripDollar
      rw [w2, w1, d2, d1]
      by_cases hc : c = 36
      · subst hc
        by_cases hd : d = 92
        · subst hd; simp [dollarRev]
        · simp [dollarRev, hd]
      · simp only [hc, decide_false, Bool.and_false, Bool.false_eq_true, if_false]
        unfold dollarRev
        split
        · rename_i h; injection h with h1 _; exact absurd h1 hc
        · rename_i h; injection h with h1 _; exact absurd h1 hc
        · simp

/-! ## the prefixes `!`, `^`, `'` and their escapes -/

theorem stripNeg_append (r s : List Nat) (h1 : r ≠ []) (h2 : r ≠ [92]) :
    stripNeg (r ++ s) = ((stripNeg r).1, (stripNeg r).2 ++ s) := by
  rcases r with _ | ⟨c, _ | ⟨d, r'⟩⟩
  · exact absurd rfl h1
  · by_cases hc : c = 33
    · subst hc; simp [stripNeg]
    · have hc2 : c ≠ 92 := fun e => h2 (by rw [e])
      have e1 : stripNeg [c] = (false, [c]) := by
        unfold stripNeg; split <;> simp_all
      have e2 : stripNeg ([c] ++ s) = (false, [c] ++ s) := by
        unfold stripNeg; split <;> simp_all
      rw [e1, e2]
  · by_cases hc : c = 33
    · subst hc; simp [stripNeg]
    · by_cases hcd : c = 92 ∧ d = 33
      · obtain ⟨rfl, rfl⟩ := hcd; simp [stripNeg]
      · have e1 : stripNeg (c :: d :: r') = (false, c :: d :: r') := by
          unfold stripNeg; split <;> simp_all
        have e2 : stripNeg ((c :: d :: r') ++ s) = (false, (c :: d :: r') ++ s) := by
          unfold stripNeg; split <;> simp_all
        rw [e1, e2]

theorem stripKind_append (r s : List Nat) (h1 : r ≠ []) (h2 : r ≠ [92]) :
    stripKind (r ++ s) = ((stripKind r).1, (stripKind r).2 ++ s) := by
  rcases r with _ | ⟨c, _ | ⟨d, r'⟩⟩
  · exact absurd rfl h1
  · by_cases hc : c = 94
    · subst hc; simp [stripKind]
    · by_cases hc' : c = 39
      · subst hc'; simp [stripKind]
      · have hc2 : c ≠ 92 := fun e => h2 (by rw [e])
        have e1 : stripKind [c] = (.fuzzy, [c]) := by
          unfold stripKind; split <;> simp_all
        have e2 : stripKind ([c] ++ s) = (.fuzzy, [c] ++ s) := by
          unfold stripKind; split <;> simp_all
        rw [e1, e2]
  · by_cases hc : c = 94
    · subst hc; simp [stripKind]
    · by_cases hc' : c = 39
      · subst hc'; simp [stripKind]
      · by_cases hcd : c = 92 ∧ d = 94
        · obtain ⟨rfl, rfl⟩ := hcd; simp [stripKind]
        · by_cases hcd' : c = 92 ∧ d = 39
          · obtain ⟨rfl, rfl⟩ := hcd'; simp [stripKind]
          · have e1 : stripKind (c :: d :: r') = (.fuzzy, c :: d :: r') := by
              unfold stripKind; split <;> simp_all
            have e2 : stripKind ((c :: d :: r') ++ s) = (.fuzzy, (c :: d :: r') ++ s) := by
              unfold stripKind; split <;> simp_all
            rw [e1, e2]

theorem stripNeg_small (r : List Nat) (h : (stripNeg r).2 ≠ [] ∧ (stripNeg r).2 ≠ [92]) : r ≠ [] ∧ r ≠ [92] := by
  constructor
  · rintro rfl; exact h.1 rfl
  · rintro rfl; exact h.2 rfl

theorem stripKind_small (r : List Nat) (h : (stripKind r).2 ≠ [] ∧ (stripKind r).2 ≠ [92]) : r ≠ [] ∧ r ≠ [92] := by
  constructor
  · rintro rfl; exact h.1 rfl
  · rintro rfl; exact h.2 rfl

theorem stripKind_kinds (r : List Nat) : (stripKind r).1 = .fuzzy ∨ (stripKind r).1 = .substring ∨ (stripKind r).1 = .prefix := by
  unfold stripKind; split <;> simp

/-- the kind a trailing `$` turns `k` into -/
def anchored (k : AtomKind) : AtomKind := if k = .fuzzy then .postfix else .exact

/-- **continuing a text whose last character is not a backslash**: whatever the `$` rule does with the longer text, what
    is left of it starts with the whole old text -/
theorem dollarRev_append (k : AtomKind) (x s : List Nat) (hs : s ≠ []) (hx : x.getLast? ≠ some 92) :
    ∃ s' k3 dollar, dollarRev k (s.reverse ++ x.reverse) = (k3, dollar, x ++ s') ∧ (k3 = k ∨ (dollar = false ∧ k3 = anchored k)) := by
  have hx' : ∀ t, x.reverse ≠ 92 :: t := by
    intro t e
    apply hx
    have : x = (92 :: t).reverse := by rw [← e, List.reverse_reverse]
    rw [this]; simp
  obtain ⟨t, ht⟩ : ∃ t, s.reverse = t := ⟨_, rfl⟩
  rw [ht]
  have hsr : s = t.reverse := by rw [← ht, List.reverse_reverse]
  rcases t with _ | ⟨c, _ | ⟨d, t'⟩⟩
  · exact absurd (by simpa using hsr) hs
  · -- one new character
    by_cases hc : c = 36
    · subst hc
      refine ⟨[], anchored k, false, ?_, Or.inr ⟨rfl, rfl⟩⟩
      show dollarRev k (36 :: x.reverse) = _
      unfold dollarRev
      split
      · rename_i h; injection h with _ h2; exact absurd h2 (hx' _)
      · rename_i h; injection h with _ h2; subst h2; simp [anchored]
      · rename_i h1 h2; exact absurd rfl (h2 _)
    · refine ⟨[c], k, false, ?_, Or.inl rfl⟩
      show dollarRev k (c :: x.reverse) = _
      unfold dollarRev
      split
      · rename_i h; injection h with h1 _; exact absurd h1 hc
      · rename_i h; injection h with h1 _; exact absurd h1 hc
      · simp
  · by_cases hc : c = 36
    · subst hc
      by_cases hd : d = 92
      · subst hd
        refine ⟨t'.reverse, k, true, ?_, Or.inl rfl⟩
        show dollarRev k (36 :: 92 :: (t' ++ x.reverse)) = _
        simp [dollarRev]
      · refine ⟨(d :: t').reverse, anchored k, false, ?_, Or.inr ⟨rfl, rfl⟩⟩
        show dollarRev k (36 :: d :: (t' ++ x.reverse)) = _
        unfold dollarRev
        split
        · rename_i h; injection h with _ h2; injection h2 with h3 _; exact absurd h3 hd
        · rename_i h; injection h with _ h2; subst h2; simp [anchored]
        · rename_i h1 h2; exact absurd rfl (h2 _)
    · refine ⟨(c :: d :: t').reverse, k, false, ?_, Or.inl rfl⟩
      show dollarRev k (c :: d :: (t' ++ x.reverse)) = _
      unfold dollarRev
      split
      · rename_i h; injection h with h1 _; exact absurd h1 hc
      · rename_i h; injection h with h1 _; exact absurd h1 hc
      · simp

/-! ## the atom parsed from ASCII text -/

def caseN (case : CaseMatching) (l : List Nat) : List Nat :=
  match case with
  | .ignore => l.map asciiLower
  | _ => l

def icOf (case : CaseMatching) (l : List Nat) : Bool :=
  match case with
  | .ignore => true
  | .smart => !l.any (fun b => 65 ≤ b && b ≤ 90)
  | .respect => false

theorem newInner_ascii (seg : Seg) (x : List Nat) (case : CaseMatching) (norm : Normalization) (kind : AtomKind) (dollar : Bool)
    (hx : ∀ c ∈ x, c < 128) :
    newInner seg x case norm kind true dollar =
      { negative := false, kind := kind, needleRep := .ascii,
        needle := caseN case (replaceEscSpace x) ++ (if dollar then [36] else []),
        ignoreCase := icOf case (replaceEscSpace x), normalize := decide (norm = .smart) } := by
  have hall : (x.all (· < 128)) = true := by simpa using hx
  unfold newInner
  rw [if_pos hall]
  cases case <;> cases dollar <;> simp [caseN, icOf]

/-- the text of an atom behind its `!`, `^`, `'` prefixes: (negated, kind, rest) -/
def front (r : List Nat) : Bool × AtomKind × List Nat :=
  ((stripNeg r).1, (stripKind (stripNeg r).2).1, (stripKind (stripNeg r).2).2)

theorem stripNeg_sublist (r : List Nat) : (stripNeg r).2.Sublist r := by
  unfold stripNeg; split
  · exact List.sublist_cons_self _ _
  · exact List.sublist_cons_self _ _
  · exact List.Sublist.refl _

theorem stripKind_sublist (r : List Nat) : (stripKind r).2.Sublist r := by
  unfold stripKind; split
  · exact List.sublist_cons_self _ _
  · exact List.sublist_cons_self _ _
  · exact List.sublist_cons_self _ _
  · exact List.sublist_cons_self _ _
  · exact List.Sublist.refl _

theorem front_sublist (r : List Nat) : (front r).2.2.Sublist r := (stripKind_sublist _).trans (stripNeg_sublist r)

theorem dollarRev_sublist (k : AtomKind) (t : List Nat) : (dollarRev k t).2.2.Sublist t.reverse := by
  unfold dollarRev; split
  · simp only [List.reverse_cons, List.append_assoc]; exact List.sublist_append_left _ _
  · simp only [List.reverse_cons]; exact List.sublist_append_left _ _
  · exact List.Sublist.refl _

theorem parseAtom_ascii (seg : Seg) (r : List Nat) (case : CaseMatching) (norm : Normalization) (hr : ∀ c ∈ r, c < 128) :
    parseAtom seg r case norm =
      let f := front r
      let p3 := dollarRev f.2.1 f.2.2.reverse
      { negative := f.1, kind := if f.1 ∧ p3.1 = .fuzzy then AtomKind.substring else p3.1, needleRep := .ascii,
        needle := caseN case (replaceEscSpace p3.2.2) ++ (if p3.2.1 then [36] else []),
        ignoreCase := icOf case (replaceEscSpace p3.2.2), normalize := decide (norm = .smart) } := by
  unfold parseAtom
  simp only
  rw [stripDollar_eq]
  have hb : ∀ c ∈ (dollarRev (stripKind (stripNeg r).2).1 (stripKind (stripNeg r).2).2.reverse).2.2, c < 128 := by
    intro c hc
    apply hr
    have h1 := (dollarRev_sublist (stripKind (stripNeg r).2).1 (stripKind (stripNeg r).2).2.reverse).subset hc
    rw [List.reverse_reverse] at h1
    exact (front_sublist r).subset h1
  rw [newInner_ascii seg _ case norm _ _ hb]
  rfl

theorem asciiLower_not_upper (c : Nat) : ¬ (65 ≤ asciiLower c ∧ asciiLower c ≤ 90) := by
  unfold asciiLower; split <;> omega

theorem asciiLower_lt (c : Nat) (h : c < 128) : asciiLower c < 128 := by
  unfold asciiLower; split <;> omega

theorem caseN_low (case : CaseMatching) (l : List Nat) (h : icOf case l = true) : ∀ c ∈ caseN case l, ¬ (65 ≤ c ∧ c ≤ 90) := by
  intro c hc
  cases case with
  | ignore =>
    simp only [caseN, List.mem_map] at hc
    obtain ⟨d, _, rfl⟩ := hc
    exact asciiLower_not_upper d
  | smart =>
    simp only [icOf, Bool.not_eq_true', List.any_eq_false, Bool.and_eq_true, decide_eq_true_eq] at h
    exact h c hc
  | respect => simp [icOf] at h

theorem caseN_lt (case : CaseMatching) (l : List Nat) (h : ∀ c ∈ l, c < 128) : ∀ c ∈ caseN case l, c < 128 := by
  intro c hc
  cases case with
  | ignore =>
    simp only [caseN, List.mem_map] at hc
    obtain ⟨d, hd, rfl⟩ := hc
    exact asciiLower_lt d (h d hd)
  | smart => exact h c hc
  | respect => exact h c hc

theorem caseN_append (case : CaseMatching) (l m : List Nat) : caseN case (l ++ m) = caseN case l ++ caseN case m := by
  cases case <;> simp [caseN]

theorem caseN_sublist (case : CaseMatching) {l m : List Nat} (h : l.Sublist m) : (caseN case l).Sublist (caseN case m) := by
  cases case with
  | ignore => exact h.map _
  | smart => exact h
  | respect => exact h

theorem icOf_mono (case : CaseMatching) {l m : List Nat} (h : l.Sublist m) :
    icOf case l = icOf case m ∨ (icOf case l = true ∧ icOf case m = false) := by
  cases case with
  | ignore => exact Or.inl rfl
  | respect => exact Or.inl rfl
  | smart =>
    simp only [icOf]
    cases hm : m.any (fun b => decide (65 ≤ b) && decide (b ≤ 90)) with
    | false =>
      have : l.any (fun b => decide (65 ≤ b) && decide (b ≤ 90)) = false := by
        rw [List.any_eq_false] at hm ⊢
        intro c hc; exact hm c (h.subset hc)
      rw [this]; exact Or.inl rfl
    | true =>
      cases l.any (fun b => decide (65 ≤ b) && decide (b ≤ 90)) with
      | false => exact Or.inr ⟨rfl, rfl⟩
      | true => exact Or.inl rfl

/-- the relation, from the two atoms' parts -/
theorem rel_core (case : CaseMatching) (nz : Bool) (k kb : AtomKind) (ba bb : List Nat) (da db : Bool)
    (hk : k = .fuzzy ∨ k = .substring ∨ k = .prefix) (hkb : kb = k ∨ kb = anchored k)
    (hbody : (replaceEscSpace ba).Sublist (replaceEscSpace bb))
    (hneedle : (caseN case (replaceEscSpace ba) ++ (if da then [36] else [])) <+: (caseN case (replaceEscSpace bb) ++ (if db then [36] else [])) ∨
      (k = .fuzzy ∧ (caseN case (replaceEscSpace ba) ++ (if da then [36] else [])).Sublist (caseN case (replaceEscSpace bb) ++ (if db then [36] else []))))
    (hne : caseN case (replaceEscSpace ba) ++ (if da then [36] else []) ≠ [])
    (hasc : ∀ c ∈ ba, c < 128) :
    AtomRel
      { negative := false, kind := k, needleRep := .ascii, needle := caseN case (replaceEscSpace ba) ++ (if da then [36] else []),
        ignoreCase := icOf case (replaceEscSpace ba), normalize := nz }
      { negative := false, kind := kb, needleRep := .ascii, needle := caseN case (replaceEscSpace bb) ++ (if db then [36] else []),
        ignoreCase := icOf case (replaceEscSpace bb), normalize := nz } := by
  have dol : ∀ (d : Bool) (c : Nat), c ∈ (if d then [36] else []) → c = 36 := by
    intro d c hc; cases d <;> simp at hc; exact hc
  refine { negA := rfl, negB := rfl, repA := rfl, repB := rfl, nz := rfl, kinds := ?_, needle := hneedle, ne := hne,
           icase := icOf_mono case hbody, lowA := ?_, lowB := ?_, ascA := ?_ }
  · rcases hkb with rfl | rfl
    · refine Or.inl ⟨rfl, ?_, ?_⟩ <;> rcases hk with rfl | rfl | rfl <;> simp
    · rcases hk with rfl | rfl | rfl
      · exact Or.inr (Or.inl ⟨rfl, rfl⟩)
      · exact Or.inr (Or.inr (Or.inl ⟨rfl, rfl⟩))
      · exact Or.inr (Or.inr (Or.inr ⟨rfl, rfl⟩))
  · intro hic c hc
    rcases List.mem_append.mp hc with hc | hc
    · exact caseN_low case _ hic c hc
    · rw [dol da c hc]; omega
  · intro hic c hc
    rcases List.mem_append.mp hc with hc | hc
    · exact caseN_low case _ hic c hc
    · rw [dol db c hc]; omega
  · intro c hc
    rcases List.mem_append.mp hc with hc | hc
    · exact caseN_lt case _ (fun d hd => hasc d ((rES_sublist ba).subset hd)) c hc
    · rw [dol da c hc]; omega

theorem dollarRev_cases (k : AtomKind) (xr : List Nat) :
    (∃ t, xr = 36 :: 92 :: t ∧ dollarRev k xr = (k, true, t.reverse)) ∨
    (∃ t, xr = 36 :: t ∧ dollarRev k xr = (anchored k, false, t.reverse)) ∨
    (dollarRev k xr = (k, false, xr.reverse) ∧ ∀ t, xr ≠ 36 :: t) := by
  unfold dollarRev
  split
  · exact Or.inl ⟨_, rfl, rfl⟩
  · exact Or.inr (Or.inl ⟨_, rfl, rfl⟩)
  · rename_i h1 h2
    exact Or.inr (Or.inr ⟨rfl, fun t e => h2 t e⟩)

theorem caseN_getLast_92 (case : CaseMatching) (l : List Nat) (h : l.getLast? = some 92) : (caseN case l).getLast? = some 92 := by
  cases case with
  | ignore => simp only [caseN, List.getLast?_map, h]; rfl
  | smart => exact h
  | respect => exact h

theorem caseN_cons_92_36 (case : CaseMatching) (l : List Nat) : caseN case (92 :: 36 :: l) = 92 :: 36 :: caseN case l := by
  cases case <;> simp [caseN, asciiLower]

theorem rES_92_36 (l : List Nat) : replaceEscSpace (92 :: 36 :: l) = 92 :: 36 :: replaceEscSpace l := by
  cases l with
  | nil => simp [replaceEscSpace]
  | cons d r => simp [replaceEscSpace]

theorem front_append (r s : List Nat) (h1 : (front r).2.2 ≠ []) (h2 : (front r).2.2 ≠ [92]) :
    front (r ++ s) = ((front r).1, (front r).2.1, (front r).2.2 ++ s) := by
  unfold front at *
  have hk := stripKind_small _ ⟨h1, h2⟩
  have hn := stripNeg_small _ hk
  rw [stripNeg_append r s hn.1 hn.2]
  simp only
  rw [stripKind_append _ s hk.1 hk.2]

/-- **the parser, on continued ASCII text**: if the atom parsed from a piece `r` is one `can_append_to` admits, the atom parsed
    from `r ++ s` is related to it by `AtomRel` — whatever `s` is (a `$` that anchors it, `\$`, an upper-case letter that
    switches smart case off, escaped spaces, …) -/
theorem C07_parse_append_rel (seg : Seg) (r s : List Nat) (case : CaseMatching) (norm : Normalization)
    (hr : ∀ c ∈ r ++ s, c < 128)
    (hne : (parseAtom seg r case norm).needle ≠ [])
    (hok : lastAtomAllowsUpdate (parseAtom seg r case norm) = true) :
    AtomRel (parseAtom seg r case norm) (parseAtom seg (r ++ s) case norm) := by
  have hr1 : ∀ c ∈ r, c < 128 := fun c hc => hr c (List.mem_append_left _ hc)
  have hrule := C07_last_atom_rule _ hok
  rw [parseAtom_ascii seg r case norm hr1] at hne hrule ⊢
  rw [parseAtom_ascii seg (r ++ s) case norm hr]
  simp only at hne hrule ⊢
  obtain ⟨hneg, hk1, hk2, hl92, hl36⟩ := hrule
  have hxasc : ∀ c ∈ (front r).2.2, c < 128 := fun c hc => hr1 c ((front_sublist r).subset hc)
  have hkk := stripKind_kinds (stripNeg r).2
  generalize hf : front r = f at *
  obtain ⟨neg, k, x⟩ := f
  have hkk' : k = .fuzzy ∨ k = .substring ∨ k = .prefix := by
    have : k = (stripKind (stripNeg r).2).1 := by
      have := congrArg (fun p => p.2.1) hf; simpa [front] using this.symm
    rw [this]; exact hkk
  simp only at hneg hne hk1 hk2 hl92 hl36 hxasc ⊢
  subst hneg
  simp only [Bool.false_eq_true, false_and, if_false] at hne hk1 hk2 hl92 hl36 ⊢
  rcases dollarRev_cases k x.reverse with ⟨t, hxr, hold⟩ | ⟨t, hxr, hold⟩ | ⟨hold, hnot36⟩
  · -- the old text ends in an escaped `$`
    rw [hold] at hne hk1 hk2 hl92 hl36 ⊢
    simp only [if_true] at hne hl92 hl36 ⊢
    have hxe : x = t.reverse ++ [92, 36] := by
      have := congrArg List.reverse hxr; simpa using this
    have hkf : k = .fuzzy := hl36 (by simp)
    have hx1 : x ≠ [] := by rw [hxe]; simp
    have hx2 : x ≠ [92] := by
      rw [hxe]; intro e
      have := congrArg List.length e; simp at this
    have hfa : front (r ++ s) = (false, k, x ++ s) := by
      have := front_append r s (by rw [hf]; exact hx1) (by rw [hf]; exact hx2)
      rw [hf] at this; exact this
    rw [hfa]
    simp only [Bool.false_eq_true, false_and, if_false]
    have hx0asc : ∀ c ∈ t.reverse, c < 128 := fun c hc => hxasc c (by rw [hxe]; exact List.mem_append_left _ hc)
    by_cases hs : s = []
    · subst hs
      rw [List.append_nil, hold]
      simp only [if_true]
      exact rel_core case _ k k t.reverse t.reverse true true hkk' (Or.inl rfl) (List.Sublist.refl _) (Or.inl (List.prefix_refl _)) hne hx0asc
    · have hxl : x.getLast? ≠ some 92 := by rw [hxe]; simp
      obtain ⟨s', kb, db, hnew, hkb⟩ := dollarRev_append k x s hs hxl
      rw [List.reverse_append, hnew]
      simp only
      have hkb' : kb = k ∨ kb = anchored k := by
        rcases hkb with h | ⟨_, h⟩
        · exact Or.inl h
        · exact Or.inr h
      have hres : replaceEscSpace (x ++ s') = replaceEscSpace t.reverse ++ 92 :: 36 :: replaceEscSpace s' := by
        rw [hxe, List.append_assoc]
        rw [rES_append t.reverse ([92, 36] ++ s') (fun _ => by simp)]
        show _ ++ replaceEscSpace (92 :: 36 :: s') = _
        rw [rES_92_36]
      refine rel_core case _ k kb t.reverse (x ++ s') true db hkk' hkb' ?_ (Or.inr ⟨hkf, ?_⟩) hne hx0asc
      · rw [hres]; exact List.sublist_append_left _ _
      · rw [hres, caseN_append, caseN_cons_92_36, List.append_assoc]
        apply List.Sublist.append (List.Sublist.refl _)
        simp only [if_true, List.cons_append]
        exact ((List.singleton_sublist.mpr (by simp)) : [36].Sublist _).trans (List.sublist_cons_self 92 _)
  · -- the old atom is anchored by `$`: not admitted
    rw [hold] at hk1 hk2
    simp only at hk1 hk2
    unfold anchored at hk1 hk2
    by_cases hkf : k = .fuzzy
    · rw [if_pos hkf] at hk1; exact absurd rfl hk1
    · rw [if_neg hkf] at hk2; exact absurd rfl hk2
  · -- no `$` at the end of the old text
    rw [hold] at hne hk1 hk2 hl92 hl36 ⊢
    simp only [List.reverse_reverse, Bool.false_eq_true, if_false, List.append_nil] at hne hl92 hl36 ⊢
    have hx1 : x ≠ [] := by
      rintro rfl
      apply hne
      cases case <;> rfl
    have hxl : x.getLast? ≠ some 92 := by
      intro e
      apply hl92
      exact caseN_getLast_92 case _ (by rw [rES_getLast]; exact e)
    have hx2 : x ≠ [92] := by rintro rfl; exact hxl rfl
    have hfa : front (r ++ s) = (false, k, x ++ s) := by
      have := front_append r s (by rw [hf]; exact hx1) (by rw [hf]; exact hx2)
      rw [hf] at this; exact this
    rw [hfa]
    simp only [Bool.false_eq_true, false_and, if_false]
    obtain ⟨s', kb, db, hnew, hkb⟩ : ∃ s' kb db, dollarRev k (x ++ s).reverse = (kb, db, x ++ s') ∧ (kb = k ∨ kb = anchored k) := by
      by_cases hs : s = []
      · subst hs
        exact ⟨[], k, false, by rw [List.append_nil, hold, List.reverse_reverse], Or.inl rfl⟩
      · obtain ⟨s', kb, db, hnew, hkb⟩ := dollarRev_append k x s hs hxl
        refine ⟨s', kb, db, by rw [List.reverse_append]; exact hnew, ?_⟩
        rcases hkb with h | ⟨_, h⟩
        · exact Or.inl h
        · exact Or.inr h
    rw [hnew]
    simp only
    have hres : replaceEscSpace (x ++ s') = replaceEscSpace x ++ replaceEscSpace s' :=
      rES_append x s' (fun e => absurd e hxl)
    have := rel_core case (decide (norm = .smart)) k kb x (x ++ s') false db hkk' hkb ?_ (Or.inl ?_) (by simpa using hne) hxasc
    · simpa using this
    · rw [hres]; exact List.sublist_append_left _ _
    · rw [hres, caseN_append]
      simp only [Bool.false_eq_true, if_false, List.append_nil, List.append_assoc]
      exact List.prefix_append _ _

/-! ## the whole pattern -/

theorem go_head : ∀ (s : List Nat) (saw : Bool) (cur : List Nat),
    ∃ s1 more, patternAtomsGo s saw cur = (cur.reverse ++ s1) :: more ∧ ∀ c ∈ s1, c ∈ s := by
  intro s
  induction s with
  | nil => intro saw cur; exact ⟨[], [], by simp [patternAtomsGo], by simp⟩
  | cons c cs ih =>
    intro saw cur
    unfold patternAtomsGo
    split
    · exact ⟨[], patternAtomsGo cs saw [], by simp, by simp⟩
    · obtain ⟨s1, more, h1, h2⟩ := ih (decide (c = 92)) (c :: cur)
      refine ⟨c :: s1, more, ?_, ?_⟩
      · rw [h1]; simp
      · intro d hd
        rcases List.mem_cons.mp hd with e | e
        · simp [e]
        · exact List.mem_cons_of_mem _ (h2 d e)

theorem splitRun_cur_mem : ∀ (s : List Nat) (saw : Bool) (cur : List Nat), ∀ c ∈ (splitRun s saw cur).2.2, c ∈ cur ∨ c ∈ s := by
  intro s
  induction s with
  | nil => intro saw cur c hc; exact Or.inl hc
  | cons d ds ih =>
    intro saw cur c hc
    unfold splitRun at hc
    split at hc
    · rcases ih saw [] c hc with h | h
      · cases h
      · exact Or.inr (List.mem_cons_of_mem _ h)
    · rcases ih (decide (d = 92)) (d :: cur) c hc with h | h
      · rcases List.mem_cons.mp h with e | e
        · exact Or.inr (by simp [e])
        · exact Or.inl e
      · exact Or.inr (List.mem_cons_of_mem _ h)

theorem patternEval_isSome (atoms : List Atom) (cfg : Cfg) (ext : Ext) (hrep : Rep) (h : List Nat) :
    (patternEval atoms cfg ext hrep h).isSome = atoms.all (fun a => (a.eval cfg ext hrep h).isSome) := by
  rw [C15_pattern]
  split
  · rename_i hh; rw [hh]; rfl
  · rename_i hh; simp only [Bool.not_eq_true] at hh; rw [hh]; rfl

/-- **the `Update` shortcut is sound for ASCII pattern text**: when `MultiPattern::reparse` reports `Update` for a column
    whose text `t` was continued to `t ++ s`, every haystack the new pattern matches the old pattern matched — for every
    case-matching and normalization setting, every configuration whose largest boundary bonus is at least 8, and haystacks in
    either representation.  (The worker then only rescores the previous matches: `C07_protocol`'s hypothesis `ReparseOk`.) -/
theorem C07_update_narrows_ascii (seg : Seg) (t s : List Nat) (case : CaseMatching) (norm : Normalization)
    (hasc : ∀ c ∈ t ++ s, c < 128) (old : PStatus)
    (hupd : reparseStatus old (parsePattern seg t case norm) (parsePattern seg (t ++ s) case norm) true = .update)
    (cfg : Cfg) (ext : Ext) (hrep : Rep) (h : List Nat) (hh : hrep = .ascii → ∀ x ∈ h, x < 128) (hb : 8 ≤ maxBonus cfg)
    (hm : (patternEval (parsePattern seg (t ++ s) case norm) cfg ext hrep h).isSome = true) :
    (patternEval (parsePattern seg t case norm) cfg ext hrep h).isSome = true := by
  obtain ⟨h1, h2⟩ := C07_append_pieces t s
  generalize hst : splitRun t false [] = st at h1 h2
  have hne : patternAtoms t ≠ [] := by intro e; rw [e] at h2; cases h2
  have hdec : patternAtoms t = (patternAtoms t).dropLast ++ [st.2.2.reverse] := by
    have := List.dropLast_concat_getLast hne
    have hl : (patternAtoms t).getLast hne = st.2.2.reverse := by
      have := List.getLast?_eq_some_getLast hne
      rw [h2] at this; exact (Option.some.inj this).symm
    rw [hl] at this; exact this.symm
  obtain ⟨s1, more, hgo, hs1⟩ := go_head s st.2.1 st.2.2
  rw [hgo] at h1
  generalize hr : st.2.2.reverse = r at *
  generalize hinit : (patternAtoms t).dropLast = init at *
  have hrasc : ∀ c ∈ r ++ s1, c < 128 := by
    intro c hc
    apply hasc
    rcases List.mem_append.mp hc with hc | hc
    · rw [← hr, List.mem_reverse, ← hst] at hc
      rcases splitRun_cur_mem t false [] c hc with e | e
      · cases e
      · exact List.mem_append_left _ e
    · exact List.mem_append_right _ (hs1 c hc)
  have eold : parsePattern seg t case norm =
      (init.map (fun raw => parseAtom seg raw case norm)).filter (fun a => !a.needle.isEmpty) ++
        [parseAtom seg r case norm].filter (fun a => !a.needle.isEmpty) := by
    unfold parsePattern; rw [hdec, List.map_append, List.filter_append]; rfl
  have enew : parsePattern seg (t ++ s) case norm =
      (init.map (fun raw => parseAtom seg raw case norm)).filter (fun a => !a.needle.isEmpty) ++
        ((parseAtom seg (r ++ s1) case norm :: more.map (fun raw => parseAtom seg raw case norm)).filter (fun a => !a.needle.isEmpty)) := by
    unfold parsePattern; rw [h1, List.map_append, List.filter_append]; rfl
  rw [patternEval_isSome] at hm ⊢
  rw [List.all_eq_true] at hm ⊢
  intro a ha
  rw [eold] at ha
  rcases List.mem_append.mp ha with ha | ha
  · exact hm a (by rw [enew]; exact List.mem_append_left _ ha)
  · -- the last atom
    have hmem := List.mem_filter.mp ha
    have haeq : a = parseAtom seg r case norm := by simpa using hmem.1
    have hane : a.needle ≠ [] := by
      have := hmem.2
      intro e; rw [e] at this; simp at this
    have hlast : (parsePattern seg t case norm).getLast? = some a := by
      rw [eold]
      have : [parseAtom seg r case norm].filter (fun a => !a.needle.isEmpty) = [a] := by
        rw [← haeq]
        simp only [List.filter_cons, List.filter_nil]
        rw [if_pos (by
          cases hn : a.needle with
          | nil => exact absurd hn hane
          | cons _ _ => rfl)]
      rw [this, List.getLast?_append]; rfl
    have hallow := (C07_update_rule old _ _ true hupd).2.2.1 a hlast
    rw [haeq] at hallow hane
    have hrel := C07_parse_append_rel seg r s1 case norm hrasc hane hallow
    rw [haeq]
    apply C07_atom_narrows _ _ hrel cfg ext hrep h hh hb
    apply hm
    rw [enew]
    apply List.mem_append_right
    apply List.mem_filter.mpr
    refine ⟨List.mem_cons_self, ?_⟩
    have hsub : (parseAtom seg r case norm).needle.Sublist (parseAtom seg (r ++ s1) case norm).needle := by
      rcases hrel.needle with hp | ⟨_, hs⟩
      · exact hp.sublist
      · exact hs
    cases hb' : (parseAtom seg (r ++ s1) case norm).needle with
    | nil => rw [hb'] at hsub; exact absurd (List.sublist_nil.mp hsub) hane
    | cons _ _ => rfl

/-- the hypothesis is met, with a change of kind and of case sensitivity: `foo` → `fooB$` (fuzzy, case-insensitive → postfix,
    case-sensitive) is reported as `Update` -/
example :
    reparseStatus .unchanged (parsePattern (fun c => c.map (fun _ => 1)) [102, 111, 111] .smart .smart)
      (parsePattern (fun c => c.map (fun _ => 1)) ([102, 111, 111] ++ [66, 36]) .smart .smart) true = .update ∧
    (parsePattern (fun c => c.map (fun _ => 1)) [102, 111, 111] .smart .smart).map (fun a => (a.kind, a.needle, a.ignoreCase)) =
      [(.fuzzy, [102, 111, 111], true)] ∧
    (parsePattern (fun c => c.map (fun _ => 1)) ([102, 111, 111] ++ [66, 36]) .smart .smart).map (fun a => (a.kind, a.needle, a.ignoreCase)) =
      [(.postfix, [102, 111, 111, 66], false)] := by
  decide

/-! ## multi-column patterns -/

/-- column-wise narrowing lifts to `MultiPattern::score` -/
theorem multiEval_narrows (cfg : Cfg) (ext : Ext) : ∀ (ps qs : List (List Atom)) (hs : List (Rep × List Nat)), ps.length = qs.length →
    (∀ (k : Nat) (p q : List Atom) (h : Rep × List Nat), ps[k]? = some p → qs[k]? = some q → hs[k]? = some h →
      (patternEval p cfg ext h.1 h.2).isSome = true → (patternEval q cfg ext h.1 h.2).isSome = true) →
    (multiEval cfg ext ps hs).isSome = true → (multiEval cfg ext qs hs).isSome = true := by
  intro ps
  induction ps with
  | nil =>
    intro qs hs hl _ _
    cases qs with
    | nil => simp [multiEval]
    | cons _ _ => cases hl
  | cons p ps ih =>
    intro qs hs hl hcol hm
    cases qs with
    | nil => cases hl
    | cons q qs =>
      cases hs with
      | nil => simp [multiEval]
      | cons h hs =>
        simp only [multiEval] at hm ⊢
        cases hp : patternEval p cfg ext h.1 h.2 with
        | none => rw [hp] at hm; cases hm
        | some r =>
          rw [hp] at hm
          have hq := hcol 0 p q h rfl rfl rfl (by rw [hp]; rfl)
          cases hq' : patternEval q cfg ext h.1 h.2 with
          | none => rw [hq'] at hq; cases hq
          | some r' =>
            simp only [Option.isSome_map] at hm ⊢
            apply ih qs hs (by simpa using hl) _ hm
            intro k p' q' h' h1 h2 h3
            exact hcol (k + 1) p' q' h' (by simpa using h1) (by simpa using h2) (by simpa using h3)

/-- **the `Update` shortcut on a multi-column pattern**: column `c`'s ASCII text `t` is continued to `t ++ s`, `reparse` answers
    `Update` for it, the other columns keep their patterns: every item the new multi-column pattern matches the old one matched -/
theorem C07_multi_update_narrows_ascii (seg : Seg) (ps : List (List Atom)) (c : Nat) (t s : List Nat)
    (case : CaseMatching) (norm : Normalization) (hasc : ∀ x ∈ t ++ s, x < 128) (old : PStatus)
    (hc : ps[c]? = some (parsePattern seg t case norm))
    (hupd : reparseStatus old (parsePattern seg t case norm) (parsePattern seg (t ++ s) case norm) true = .update)
    (cfg : Cfg) (ext : Ext) (hb : 8 ≤ maxBonus cfg) (hs : List (Rep × List Nat))
    (hh : ∀ h ∈ hs, h.1 = .ascii → ∀ x ∈ h.2, x < 128)
    (hm : (multiEval cfg ext (ps.set c (parsePattern seg (t ++ s) case norm)) hs).isSome = true) :
    (multiEval cfg ext ps hs).isSome = true := by
  apply multiEval_narrows cfg ext (ps.set c (parsePattern seg (t ++ s) case norm)) ps hs (by simp) _ hm
  intro k p q h h1 h2 h3 hp
  by_cases hk : k = c
  · subst hk
    rw [hc] at h2
    have hlt : k < ps.length := by
      rcases Nat.lt_or_ge k ps.length with h | h
      · exact h
      · rw [List.getElem?_eq_none h] at hc; cases hc
    rw [List.getElem?_set_self hlt] at h1
    injection h1 with h1; injection h2 with h2
    subst h1; subst h2
    exact C07_update_narrows_ascii seg t s case norm hasc old hupd cfg ext h.1 h.2 (hh h (List.mem_of_getElem? h3)) hb hp
  · rw [List.getElem?_set_ne (fun e => hk e.symm)] at h1
    rw [h1] at h2; injection h2 with h2; subst h2
    exact hp

end NucleoVerif
