import NucleoVerif.Model.Boxcar
/-! # C08 — the injector's item vector is a linearizable append-only sequence -/
namespace NucleoVerif.Bx
open Gen

/-! ## bucket arithmetic (`Location::of`) -/

theorem consts : SKIP = 32 ∧ SKIP_BUCKET = 5 ∧ BUCKETS = 27 ∧ MAX_ENTRIES = 2 ^ 32 - 1 - 32 := by decide

theorem log2_ge5 (i : Nat) : 5 ≤ Nat.log2 (i + 32) := by
  have : 2 ^ 5 ≤ i + 32 := by omega
  exact (Nat.le_log2 (by omega)).mpr this

/-- **the entry is always inside its bucket** (`location.entry` is in bounds) -/
theorem C08_entry_lt (i : Nat) : entryOf i < bucketLen (bucketOf i) := by
  unfold entryOf bucketLen bucketOf
  simp only [consts.1, consts.2.1]
  have h5 := log2_ge5 i
  have h1 : i + 32 < 2 ^ (Nat.log2 (i + 32) + 1) := Nat.lt_log2_self
  have h2 : 2 ^ Nat.log2 (i + 32) ≤ i + 32 := Nat.log2_self_le (by omega)
  have : Nat.log2 (i + 32) - 5 + 5 = Nat.log2 (i + 32) := by omega
  rw [this]
  rw [Nat.pow_succ] at h1
  omega

/-- first index of bucket `b`: 32·(2^b − 1) -/
def bucketStart (b : Nat) : Nat := 2 ^ (b + 5) - 32

/-- **buckets tile the index space**: index = start of its bucket + entry -/
theorem C08_index_eq (i : Nat) : i = bucketStart (bucketOf i) + entryOf i := by
  unfold entryOf bucketStart bucketOf
  simp only [consts.1, consts.2.1]
  have h5 := log2_ge5 i
  have h2 : 2 ^ Nat.log2 (i + 32) ≤ i + 32 := Nat.log2_self_le (by omega)
  have : Nat.log2 (i + 32) - 5 + 5 = Nat.log2 (i + 32) := by omega
  rw [this]
  have : 2 ^ 5 ≤ 2 ^ Nat.log2 (i + 32) := Nat.pow_le_pow_right (by omega) h5
  omega

/-- **two indices never share a (bucket, entry) location** -/
theorem C08_loc_injective (i j : Nat) (hb : bucketOf i = bucketOf j) (he : entryOf i = entryOf j) : i = j := by
  rw [C08_index_eq i, C08_index_eq j, hb, he]

/-- every index below the documented capacity lies in one of the 27 buckets -/
theorem C08_bucket_lt (i : Nat) (h : i ≤ MAX_ENTRIES) : bucketOf i < BUCKETS := by
  unfold bucketOf
  simp only [consts.1, consts.2.1, consts.2.2.1]
  rw [consts.2.2.2] at h
  have : i + 32 < 2 ^ 32 := by omega
  have := (Nat.log2_lt (by omega)).mpr this
  omega

/-! ## single steps -/

/-- `fetch_add` hands out exactly the next index: **gap-free** -/
theorem C08_push_reserves (s : Shared) (v : Nat) :
    (stepPC s (.pushFA v)).1.inflight = s.inflight + 1 ∧
    ((stepPC s (.pushFA v)).2.1 = .pushEager s.inflight v ∨ (stepPC s (.pushFA v)).2.1 = .pushLoad s.inflight v) := by
  simp only [stepPC, effOf, Eff.apply, nextOf]
  split <;> simp

/-- a batch gets the contiguous block `[inflight, inflight + reported)` -/
theorem C08_extend_reserves (s : Shared) (rep : Nat) (vals : List Nat) :
    (stepPC s (.extFA rep vals)).1.inflight = s.inflight + rep ∧
    ((stepPC s (.extFA rep vals)).2.1 = .extEager s.inflight rep vals ∨ (stepPC s (.extFA rep vals)).2.1 = .extLoad s.inflight rep 0 vals) := by
  simp only [stepPC, effOf, Eff.apply, nextOf]
  split <;> simp

/-- the final step of a push publishes exactly its value at exactly its index and returns that index -/
theorem C08_push_publishes (s : Shared) (i v : Nat) :
    (stepPC s (.pushStore i v)).2.2 = some (.idx i) ∧ (stepPC s (.pushStore i v)).1.slot i = some v ∧
    ∀ j, j ≠ i → (stepPC s (.pushStore i v)).1.slot j = s.slot j := by
  refine ⟨rfl, by simp [stepPC, effOf, Eff.apply, upd], ?_⟩
  intro j hj; simp [stepPC, effOf, Eff.apply, upd, hj]

/-- a lookup returns nothing or the published value -/
theorem C08_get_sound (s : Shared) (i : Nat) :
    (stepPC s (.getActive i)).2.2 = some (match s.slot i with | some v => .val v | none => .none) := by
  simp only [stepPC, nextOf]
  cases s.slot i <;> rfl

/-- a lookup of an index whose bucket was never allocated returns nothing without touching an entry -/
theorem C08_get_unallocated (s : Shared) (i : Nat) (h : s.bucket (bucketOf i) = false) :
    (stepPC s (.getLoad i)).2 = (.idle, some .none) := by
  simp [stepPC, nextOf, h]

/-- **no step ever decreases the counter, un-publishes a bucket, or clears an entry** -/
theorem C08_monotone (s : Shared) (pc : PC) :
    s.inflight ≤ (stepPC s pc).1.inflight ∧ (∀ b, s.bucket b = true → (stepPC s pc).1.bucket b = true) := by
  simp only [stepPC]
  cases h : effOf pc with
  | nop => exact ⟨Nat.le_refl _, fun _ h => h⟩
  | fa k => exact ⟨Nat.le_add_right _ _, fun _ h => h⟩
  | pub b =>
    refine ⟨Nat.le_refl _, fun b' hb => ?_⟩
    simp only [Eff.apply, upd]; split <;> simp_all
  | wr i v => exact ⟨Nat.le_refl _, fun _ h => h⟩

/-- `count` reports the reservation counter (so it never decreases, by `C08_monotone`) -/
theorem C08_count (s : Shared) : (stepPC s .countLoad).2.2 = some (.cnt (min s.inflight MAX_ENTRIES)) := rfl

/-! ## all interleavings: the reservation / publication invariant

Threads are programs of `push` / `extend` (honest or lying about its length) / `get` / `count` /
`snapshot`; a schedule is any list of thread ids; every step is one atomic operation. -/

/-- the interval `[lo, hi)` of reserved, not yet published indices a thread at `pc` still owns -/
def own : PC → Nat × Nat
  | .pushEager i _ => (i, i + 1)
  | .pushLoad i _ => (i, i + 1)
  | .pushCas i _ => (i, i + 1)
  | .pushStore i _ => (i, i + 1)
  | .extEager s r _ => (s, s + r)
  | .extLoad s r k _ => (s + k, s + r)
  | .extCas s r k _ => (s + k, s + r)
  | .extStore s r k _ => (s + k, s + r)
  | _ => (0, 0)

def owns (pc : PC) (i : Nat) : Prop := (own pc).1 ≤ i ∧ i < (own pc).2

/-- well-formed program counters: a batch writes item `k` only while `k < reported` -/
def wf : PC → Prop
  | .extLoad _ r k _ => k < r
  | .extCas _ r k _ => k < r
  | .extStore _ r k vals => k < r ∨ vals = []
  | .extEager _ r _ => 0 < r
  | .extFA r _ => 0 < r
  | _ => True

theorem extNext_own (start rep k : Nat) (vals : List Nat) :
    (∀ i, owns (extNext start rep k vals).1 i → start + k ≤ i ∧ i < start + rep) ∧ wf (extNext start rep k vals).1 := by
  unfold extNext
  split
  · simp [owns, own, wf]
  · split
    · simp [owns, own, wf]
    · split
      · refine ⟨fun i h => by simpa [owns, own] using h, ?_⟩
        simp only [wf]; omega
      · refine ⟨fun i h => by simpa [owns, own] using h, ?_⟩
        simp only [wf]; omega

theorem extAfterLoad_own (start rep k : Nat) (vals : List Nat) (hk : k < rep) :
    (∀ i, owns (extAfterLoad start rep k vals).1 i → start + k ≤ i ∧ i < start + rep) ∧ wf (extAfterLoad start rep k vals).1 := by
  unfold extAfterLoad
  split
  · split
    · simp [owns, own, wf]
    · split
      · simp [owns, own, wf]
      · refine ⟨fun i h => by simpa [owns, own] using h, ?_⟩
        simp only [wf]; omega
  · refine ⟨fun i h => by simpa [owns, own] using h, ?_⟩
    simp only [wf]; omega

theorem iterNext_own (a b c d : Nat) (acc : List (Nat × Option Nat)) :
    (∀ i, ¬ owns (iterNext a b c d acc).1 i) ∧ wf (iterNext a b c d acc).1 := by
  unfold iterNext
  split <;> simp [owns, own, wf]

/-- **ownership only shrinks, except that a `fetch_add` acquires exactly the fresh block** -/
theorem nextOf_own (s : Shared) (pc : PC) (hw : wf pc) :
    wf (nextOf s pc).1 ∧
    (∀ i, owns (nextOf s pc).1 i →
      owns pc i ∨ (∃ k, effOf pc = .fa k ∧ s.inflight ≤ i ∧ i < s.inflight + k)) ∧
    (∀ i v, effOf pc = .wr i v → owns pc i ∧ ¬ owns (nextOf s pc).1 i) := by
  cases pc with
  | idle => simp [nextOf, effOf, wf, owns, own]
  | pushFA v =>
    simp only [nextOf, effOf]
    split <;> simp [wf, owns, own] <;> omega
  | pushEager i v => simp [nextOf, effOf, wf, owns, own]
  | pushLoad i v => simp only [nextOf, effOf]; split <;> simp [wf, owns, own]
  | pushCas i v => simp [nextOf, effOf, wf, owns, own]
  | pushStore i v => simp [nextOf, effOf, wf, owns, own]
  | extFA rep vals =>
    simp only [nextOf, effOf]
    simp only [wf] at hw
    split <;> simp [wf, owns, own, hw] <;> omega
  | extEager start rep vals =>
    simp only [wf] at hw
    simp [nextOf, effOf, wf, owns, own, hw]
  | extLoad start rep k vals =>
    simp only [wf] at hw
    simp only [nextOf, effOf]
    split
    · have := extAfterLoad_own start rep k vals hw
      refine ⟨this.2, fun i h => Or.inl (by simpa [owns, own] using this.1 i h), by simp⟩
    · simp [wf, owns, own, hw]
  | extCas start rep k vals =>
    simp only [wf] at hw
    simp only [nextOf, effOf]
    have := extAfterLoad_own start rep k vals hw
    exact ⟨this.2, fun i h => Or.inl (by simpa [owns, own] using this.1 i h), by simp⟩
  | extStore start rep k vals =>
    simp only [wf] at hw
    cases vals with
    | nil => simp [nextOf, effOf, wf, owns, own]
    | cons v rest =>
      simp only [nextOf, effOf]
      have hk : k < rep := by rcases hw with h | h; exact h; cases h
      have := extNext_own start rep (k + 1) rest
      refine ⟨this.2, fun i h => Or.inl ?_, ?_⟩
      · have := this.1 i h; simp [owns, own]; omega
      · intro i v' he
        simp only [Eff.wr.injEq] at he
        obtain ⟨rfl, rfl⟩ := he
        refine ⟨by simp [owns, own]; omega, fun h => ?_⟩
        have := this.1 _ h; omega
  | getLoad i => simp only [nextOf, effOf]; split <;> simp [wf, owns, own]
  | getActive i => simp only [nextOf, effOf]; split <;> simp [wf, owns, own]
  | countLoad => simp [nextOf, effOf, wf, owns, own]
  | snapCount start => simp only [nextOf, effOf]; split <;> simp [wf, owns, own]
  | snapLoad start =>
    simp only [nextOf, effOf]
    have := iterNext_own start (min s.inflight MAX_ENTRIES) (bucketOf start) (entryOf start) []
    exact ⟨this.2, fun i h => absurd h (this.1 i), by simp⟩
  | iterLoad idx end_ b e acc =>
    simp only [nextOf, effOf]
    split
    · split
      · simp [wf, owns, own]
      · have := iterNext_own (idx + 1) end_ b (e + 1) ((idx, none) :: acc)
        exact ⟨this.2, fun i h => absurd h (this.1 i), by simp⟩
    · simp [wf, owns, own]
  | iterActive idx end_ b e acc =>
    simp only [nextOf, effOf]
    have := iterNext_own (idx + 1) end_ b (e + 1) ((idx, s.slot idx) :: acc)
    exact ⟨this.2, fun i h => absurd h (this.1 i), by simp⟩


/-- a system: one shared vector and any number of threads (indexed by `Nat`) -/
structure Sys where
  shared : Shared
  threads : Nat → Thread

/-- thread `t` performs its next atomic operation (all other threads are untouched) -/
def Sys.step (σ : Sys) (t : Nat) : Sys :=
  let r := stepThread σ.shared (σ.threads t)
  { shared := r.1, threads := upd σ.threads t r.2 }

/-- run a schedule -/
def Sys.run (σ : Sys) (sched : List Nat) : Sys := sched.foldl Sys.step σ

theorem startOp_own (op : Op) : (∀ i, ¬ owns (startOp op).1 i) ∧ (effOf (startOp op).1 = .nop ∨ ∃ k, effOf (startOp op).1 = .fa k) := by
  cases op with
  | push v => simp [startOp, owns, own, effOf]
  | extend rep vals => simp only [startOp]; split <;> simp [owns, own, effOf]
  | get i => simp [startOp, owns, own, effOf]
  | count => simp [startOp, owns, own, effOf]
  | snapshot st => simp [startOp, owns, own, effOf]

theorem startOp_wf (op : Op) : wf (startOp op).1 := by
  cases op with
  | extend rep vals => simp only [startOp]; split <;> simp [wf]; omega
  | _ => simp [startOp, wf]

/-- `settle` only moves an idle thread to the first atomic operation of a queued operation: it never
    creates ownership -/
theorem settle_own : ∀ (fuel : Nat) (t : Thread),
    (∀ i, owns (settle fuel t).pc i → owns t.pc i) ∧ (wf t.pc → wf (settle fuel t).pc) := by
  intro fuel
  induction fuel with
  | zero => intro t; exact ⟨fun _ h => h, fun h => h⟩
  | succ fuel ih =>
    intro t
    unfold settle
    split
    · rename_i op rest hpc hops
      cases hr : (startOp op).2 with
      | some res =>
        simp only []
        have e : startOp op = ((startOp op).1, some res) := by rw [← hr]
        rw [e]
        simp only
        have := ih { pc := .idle, ops := rest, results := t.results ++ [res] }
        refine ⟨fun i h => ?_, fun _ => this.2 (by simp [wf])⟩
        have := this.1 i h
        simp [owns, own] at this
      | none =>
        have e : startOp op = ((startOp op).1, none) := by rw [← hr]
        rw [e]
        simp only
        refine ⟨fun i h => absurd h ((startOp_own op).1 i), fun _ => startOp_wf op⟩
    · exact ⟨fun _ h => h, fun h => h⟩

/-- the invariant of the reservation protocol -/
structure Inv (σ : Sys) : Prop where
  wf : ∀ t, wf (σ.threads t).pc
  /-- everything owned has been reserved -/
  owned_lt : ∀ t i, owns (σ.threads t).pc i → i < σ.shared.inflight
  /-- no index is owned by two threads -/
  owned_unique : ∀ t t' i, owns (σ.threads t).pc i → owns (σ.threads t').pc i → t = t'
  /-- a published entry was reserved and is no longer owned by anybody -/
  slot_lt : ∀ i v, σ.shared.slot i = some v → i < σ.shared.inflight ∧ ∀ t, ¬ owns (σ.threads t).pc i

theorem stepThread_own (s : Shared) (th : Thread) (hw : wf th.pc) :
    wf (stepThread s th).2.pc ∧
    (∀ i, owns (stepThread s th).2.pc i →
      owns th.pc i ∨ (∃ k, effOf th.pc = .fa k ∧ s.inflight ≤ i ∧ i < s.inflight + k)) ∧
    (∀ i v, effOf th.pc = .wr i v → owns th.pc i ∧ ¬ owns (stepThread s th).2.pc i) ∧
    (stepThread s th).1 = (effOf th.pc).apply s := by
  have hn := nextOf_own s th.pc hw
  unfold stepThread stepPC
  simp only
  cases hr : (nextOf s th.pc).2 with
  | some res =>
    simp only
    have hs := settle_own ((th.ops).length + 1) { pc := (nextOf s th.pc).1, ops := th.ops, results := th.results ++ [res] }
    refine ⟨hs.2 hn.1, fun i h => hn.2.1 i (hs.1 i h), fun i v he => ⟨(hn.2.2 i v he).1, fun h => (hn.2.2 i v he).2 (hs.1 i h)⟩, trivial⟩
  | none =>
    simp only
    have hs := settle_own ((th.ops).length + 1) { th with pc := (nextOf s th.pc).1 }
    refine ⟨hs.2 hn.1, fun i h => hn.2.1 i (hs.1 i h), fun i v he => ⟨(hn.2.2 i v he).1, fun h => (hn.2.2 i v he).2 (hs.1 i h)⟩, trivial⟩

/-- **the invariant is preserved by every step of every thread** -/
theorem Inv.step {σ : Sys} (hi : Inv σ) (t : Nat) : Inv (σ.step t) := by
  obtain ⟨hwf, h1, h2, h3⟩ := hi
  have hst := stepThread_own σ.shared (σ.threads t) (hwf t)
  obtain ⟨swf, sown, swr, ssh⟩ := hst
  have hpc : ∀ t', t' ≠ t → ((σ.step t).threads t').pc = (σ.threads t').pc := by
    intro t' hne; simp [Sys.step, upd, hne]
  have hpt : ((σ.step t).threads t) = (stepThread σ.shared (σ.threads t)).2 := by simp [Sys.step, upd]
  have hsh : (σ.step t).shared = (effOf (σ.threads t).pc).apply σ.shared := by simp [Sys.step, ssh]
  have hinf : σ.shared.inflight ≤ (σ.step t).shared.inflight := by
    rw [hsh]; cases effOf (σ.threads t).pc <;> simp [Eff.apply]
  -- ownership of the stepping thread afterwards
  have hown_t : ∀ i, owns ((σ.step t).threads t).pc i →
      owns (σ.threads t).pc i ∨ (∃ k, effOf (σ.threads t).pc = .fa k ∧ σ.shared.inflight ≤ i ∧ i < σ.shared.inflight + k) := by
    intro i h; rw [hpt] at h; exact sown i h
  constructor
  · intro t'
    by_cases e : t' = t
    · subst e; rw [hpt]; exact swf
    · rw [hpc t' e]; exact hwf t'
  · intro t' i ho
    by_cases e : t' = t
    · subst e
      rcases hown_t i ho with h | ⟨k, hk, hlo, hhi⟩
      · exact Nat.lt_of_lt_of_le (h1 _ i h) hinf
      · rw [hsh, hk]; simpa [Eff.apply] using hhi
    · rw [hpc t' e] at ho
      exact Nat.lt_of_lt_of_le (h1 t' i ho) hinf
  · intro t1 t2 i o1 o2
    by_cases e1 : t1 = t <;> by_cases e2 : t2 = t
    · rw [e1, e2]
    · subst e1
      rw [hpc t2 e2] at o2
      rcases hown_t i o1 with h | ⟨k, _, hlo, _⟩
      · exact h2 _ _ i h o2
      · have := h1 t2 i o2; omega
    · subst e2
      rw [hpc t1 e1] at o1
      rcases hown_t i o2 with h | ⟨k, _, hlo, _⟩
      · exact h2 _ _ i o1 h
      · have := h1 t1 i o1; omega
    · rw [hpc t1 e1] at o1; rw [hpc t2 e2] at o2; exact h2 t1 t2 i o1 o2
  · intro i v hs
    rw [hsh] at hs
    -- was the entry already published, or is it the one written by this step?
    have hcases : σ.shared.slot i = some v ∨ (effOf (σ.threads t).pc = .wr i v) := by
      cases he : effOf (σ.threads t).pc with
      | nop => left; simpa [he, Eff.apply] using hs
      | fa k => left; simpa [he, Eff.apply] using hs
      | pub b => left; simpa [he, Eff.apply] using hs
      | wr j w =>
        rw [he] at hs
        simp only [Eff.apply, upd] at hs
        by_cases ej : i = j
        · subst ej; simp at hs; right; rw [hs]
        · left; simpa [ej] using hs
    rcases hcases with hold | hnew
    · have ⟨a, b⟩ := h3 i v hold
      refine ⟨Nat.lt_of_lt_of_le a hinf, fun t' ho => ?_⟩
      by_cases e : t' = t
      · subst e
        rcases hown_t i ho with h | ⟨k, _, hlo, _⟩
        · exact b _ h
        · omega
      · rw [hpc t' e] at ho; exact b t' ho
    · have ⟨ow, nown⟩ := swr i v hnew
      refine ⟨Nat.lt_of_lt_of_le (h1 t i ow) hinf, fun t' ho => ?_⟩
      by_cases e : t' = t
      · subst e; rw [hpt] at ho; exact nown ho
      · rw [hpc t' e] at ho; exact e (h2 t' t i ho ow)

/-- **for every schedule** -/
theorem Inv.run {σ : Sys} (hi : Inv σ) (sched : List Nat) : Inv (σ.run sched) := by
  induction sched generalizing σ with
  | nil => exact hi
  | cons t ts ih => exact ih (hi.step t)


/-- **distinct, gap-free indices**: the block `[inflight, inflight + k)` a `fetch_add` hands out is not
    owned by any thread and holds no published entry -/
theorem C08_fresh_block {σ : Sys} (hi : Inv σ) (i : Nat) (h : σ.shared.inflight ≤ i) :
    (∀ t, ¬ owns (σ.threads t).pc i) ∧ σ.shared.slot i = none := by
  refine ⟨fun t ho => ?_, ?_⟩
  · have := hi.owned_lt t i ho; omega
  · cases hs : σ.shared.slot i with
    | none => rfl
    | some v => have := (hi.slot_lt i v hs).1; omega

/-- **a published entry is never overwritten or removed** by any step of any thread -/
theorem C08_slot_stable {σ : Sys} (hi : Inv σ) (t i v : Nat) (hs : σ.shared.slot i = some v) :
    (σ.step t).shared.slot i = some v := by
  have hst := stepThread_own σ.shared (σ.threads t) (hi.wf t)
  have hsh : (σ.step t).shared = (effOf (σ.threads t).pc).apply σ.shared := by simp [Sys.step, hst.2.2.2]
  rw [hsh]
  cases he : effOf (σ.threads t).pc with
  | nop => simpa [Eff.apply] using hs
  | fa k => simpa [Eff.apply] using hs
  | pub b => simpa [Eff.apply] using hs
  | wr j w =>
    have ow := (hst.2.2.1 j w he).1
    have : i ≠ j := by
      intro e; subst e
      exact (hi.slot_lt i v hs).2 t ow
    simp [Eff.apply, upd, this, hs]

theorem C08_slot_stable_run {σ : Sys} (hi : Inv σ) (sched : List Nat) (i v : Nat) (hs : σ.shared.slot i = some v) :
    (σ.run sched).shared.slot i = some v := by
  induction sched generalizing σ with
  | nil => exact hs
  | cons t ts ih => exact ih (hi.step t) (C08_slot_stable hi t i v hs)

/-- **read-your-writes, forever**: once the last step of a push has been executed, every later lookup of
    its index — by any thread, after any further schedule — finds exactly that value -/
theorem C08_read_your_writes {σ : Sys} (hi : Inv σ) (t i v : Nat) (hpc : (σ.threads t).pc = .pushStore i v)
    (sched : List Nat) :
    ((σ.step t).run sched).shared.slot i = some v := by
  apply C08_slot_stable_run (hi.step t)
  have hst := stepThread_own σ.shared (σ.threads t) (hi.wf t)
  have hsh : (σ.step t).shared = (effOf (σ.threads t).pc).apply σ.shared := by simp [Sys.step, hst.2.2.2]
  rw [hsh, hpc]
  simp [effOf, Eff.apply, upd]

/-- a lookup never returns anything for an index that no push was assigned (`index ≥ counter`) -/
theorem C08_get_unassigned {σ : Sys} (hi : Inv σ) (i : Nat) (h : σ.shared.inflight ≤ i) :
    (nextOf σ.shared (.getActive i)).2 = some .none := by
  simp [nextOf, (C08_fresh_block hi i h).2]

/-- the initial system: empty vector, every thread parked in front of its first atomic operation -/
def Sys.init (cap : Nat) (progs : Nat → List Op) : Sys :=
  { shared := initShared cap,
    threads := fun t => settle ((progs t).length + 1) { pc := .idle, ops := progs t, results := [] } }

theorem Inv.init (cap : Nat) (progs : Nat → List Op) : Inv (Sys.init cap progs) := by
  have hs : ∀ t, (∀ i, ¬ owns ((Sys.init cap progs).threads t).pc i) ∧ Bx.wf ((Sys.init cap progs).threads t).pc := by
    intro t
    have := settle_own ((progs t).length + 1) { pc := .idle, ops := progs t, results := [] }
    refine ⟨fun i h => ?_, this.2 (by simp [Bx.wf])⟩
    have := this.1 i h
    simp [owns, own] at this
  exact ⟨fun t => (hs t).2, fun t i h => absurd h ((hs t).1 i), fun t _ i h => absurd h ((hs t).1 i),
         fun i v h => by simp [Sys.init, initShared] at h⟩

/-- **the invariant holds in every state reachable by any number of threads under any schedule** -/
theorem C08_reachable (cap : Nat) (progs : Nat → List Op) (sched : List Nat) :
    Inv ((Sys.init cap progs).run sched) :=
  (Inv.init cap progs).run sched


/-! non-vacuity: a concrete two-thread race for the same bucket and the read-your-writes conclusion -/
example :
    let σ := (Sys.init 0 (fun t => if t = 0 then [.push 7] else if t = 1 then [.push 8, .get 0] else [])).run [0, 1, 1, 0, 1, 0, 1, 1]
    σ.shared.slot 0 = some 7 ∧ σ.shared.slot 1 = some 8 ∧ (σ.threads 1).results = [.idx 1, .val 7] := by decide

end NucleoVerif.Bx
