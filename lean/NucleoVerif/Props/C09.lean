import NucleoVerif.Model.MemModel
/-! # C09 — item data is published race-free to every reader

The orderings are those declared in the source now (`Gen.atomicSites`).  Each theorem is a
*certificate*: for every execution (events, program order, reads-from, library edges) whose
events follow the program skeleton stated in the hypotheses, the initialising write
happens-before the reading access.  Weakening any ordering the certificate needs makes the
corresponding `decide` fail; strengthening keeps it valid.  The skeleton (which site follows
which in program order) is validated dynamically: the C08 correspondence run requires every
thread to execute exactly the site sequence the model predicts. -/
namespace NucleoVerif.MM
open Gen

/-- every atomic operation of the item vector is accounted for (an added or removed operation needs a
    new look at the certificates) -/
theorem C09_sites_covered : sitesCovered = true := by decide

/-- the orderings the certificates rely on -/
theorem C09_orderings :
    Role.activeStorePush.rel = true ∧ Role.activeStoreExtend.rel = true ∧
    Role.activeLoadGet.acq = true ∧ Role.activeLoadGetUnchecked.acq = true ∧ Role.activeLoadIter.acq = true ∧
    Role.entriesCasOk.rel = true ∧ Role.entriesCasFail.acq = true ∧
    Role.entriesLoadPush.acq = true ∧ Role.entriesLoadExtend0.acq = true ∧ Role.entriesLoadExtend1.acq = true ∧
    Role.entriesLoadGet.acq = true ∧ Role.entriesLoadIter.acq = true := by decide

/-- publication of an entry: `write entry; active.store(true)` ⇒ `active.load() == true; read entry` -/
theorem entry_chain (x : Exec) (w s l r : x.E) (rs rl : Role)
    (hws : x.po w s) (hs : x.role s = some rs) (hrel : rs.rel = true)
    (hrf : x.rf s l) (hl : x.role l = some rl) (hacq : rl.acq = true) (hlr : x.po l r) : x.hb w r :=
  .trans (.po hws) (.trans (.sw ⟨hrf, ⟨rs, hs, hrel⟩, ⟨rl, hl, hacq⟩⟩) (.po hlr))

/-- **`Injector::get` / `Snapshot::get_item`**: the entry (value and matcher columns) written by a push
    happens-before its read by any `get` that saw `active == true` (which only that push's store writes: C08) -/
theorem C09_get_reads_published (x : Exec) (w s l r : x.E)
    (hws : x.po w s) (hs : x.role s = some .activeStorePush ∨ x.role s = some .activeStoreExtend)
    (hrf : x.rf s l) (hl : x.role l = some .activeLoadGet) (hlr : x.po l r) : x.hb w r := by
  rcases hs with hs | hs
  · exact entry_chain x w s l r _ _ hws hs C09_orderings.1 hrf hl C09_orderings.2.2.1 hlr
  · exact entry_chain x w s l r _ _ hws hs C09_orderings.2.1 hrf hl C09_orderings.2.2.1 hlr

/-- the same for the snapshot iterators used by the background run -/
theorem C09_iter_reads_published (x : Exec) (w s l r : x.E)
    (hws : x.po w s) (hs : x.role s = some .activeStorePush ∨ x.role s = some .activeStoreExtend)
    (hrf : x.rf s l) (hl : x.role l = some .activeLoadIter) (hlr : x.po l r) : x.hb w r := by
  rcases hs with hs | hs
  · exact entry_chain x w s l r _ _ hws hs C09_orderings.1 hrf hl C09_orderings.2.2.2.2.1 hlr
  · exact entry_chain x w s l r _ _ hws hs C09_orderings.2.1 hrf hl C09_orderings.2.2.2.2.1 hlr

/-- the program-order premise `po init cas` of the bucket-header certificates below is what the source says: in
    `get_or_alloc` every non-atomic initialisation of the fresh bucket's `active` flags is sequenced before the
    compare_exchange that publishes the bucket, and no such write is reachable on a bucket that may already be shared
    (extracted from `src/boxcar.rs` on every run) -/
theorem C09_bucket_init_precedes_publication : Gen.bucketInitBeforePublish = true := by decide

/-- **the bucket header** (the `active` flags are initialised non-atomically by the allocating thread
    before it publishes the pointer): initialisation happens-before every access through a pointer that
    was loaded from `entries` — `get` (finding F10: this load was `Relaxed`) -/
theorem C09_bucket_init_get (x : Exec) (init cas ld use : x.E)
    (h1 : x.po init cas) (hc : x.role cas = some .entriesCasOk) (hrf : x.rf cas ld)
    (hl : x.role ld = some .entriesLoadGet) (h2 : x.po ld use) : x.hb init use :=
  entry_chain x init cas ld use _ _ h1 hc C09_orderings.2.2.2.2.2.1 hrf hl C09_orderings.2.2.2.2.2.2.2.2.2.2.1 h2

theorem C09_bucket_init_iter (x : Exec) (init cas ld use : x.E)
    (h1 : x.po init cas) (hc : x.role cas = some .entriesCasOk) (hrf : x.rf cas ld)
    (hl : x.role ld = some .entriesLoadIter) (h2 : x.po ld use) : x.hb init use :=
  entry_chain x init cas ld use _ _ h1 hc C09_orderings.2.2.2.2.2.1 hrf hl C09_orderings.2.2.2.2.2.2.2.2.2.2.2 h2

/-- writers reach a bucket through an acquire load of the pointer, or through the failed CAS (acquire),
    or they allocated it themselves -/
theorem C09_bucket_init_push (x : Exec) (init cas ld use : x.E) (rl : Role)
    (h1 : x.po init cas) (hc : x.role cas = some .entriesCasOk) (hrf : x.rf cas ld)
    (hl : x.role ld = some rl) (hrl : rl = .entriesLoadPush ∨ rl = .entriesLoadExtend0 ∨ rl = .entriesLoadExtend1 ∨ rl = .entriesCasFail)
    (h2 : x.po ld use) : x.hb init use := by
  have hacq : rl.acq = true := by
    rcases hrl with rfl | rfl | rfl | rfl
    · exact C09_orderings.2.2.2.2.2.2.2.1
    · exact C09_orderings.2.2.2.2.2.2.2.2.1
    · exact C09_orderings.2.2.2.2.2.2.2.2.2.1
    · exact C09_orderings.2.2.2.2.2.2.1
  exact entry_chain x init cas ld use _ _ h1 hc C09_orderings.2.2.2.2.2.1 hrf hl hacq h2

/-- **`get_unchecked`** (used by `Snapshot::matched_items`, the rescoring pass and the sort's tie
    break): its own pointer load may be relaxed because of its contract — the caller has observed the
    entry active, i.e. some `obs` that is ordered after the publishing store and before this call.  The
    bucket's initialisation reaches it through the *publisher's* acquire of the pointer. -/
theorem C09_get_unchecked (x : Exec) (init cas pl w s obs call r : x.E) (rpl robs : Role)
    (h1 : x.po init cas) (hc : x.role cas = some .entriesCasOk) (hrf1 : x.rf cas pl)
    (hpl : x.role pl = some rpl) (hrpl : rpl = .entriesLoadPush ∨ rpl = .entriesLoadExtend0 ∨ rpl = .entriesLoadExtend1 ∨ rpl = .entriesCasFail)
    (h2 : x.po pl w) (h3 : x.po w s) (hs : x.role s = some .activeStorePush ∨ x.role s = some .activeStoreExtend)
    (hrf2 : x.rf s obs) (hobs : x.role obs = some robs) (hro : robs = .activeLoadGet ∨ robs = .activeLoadIter ∨ robs = .activeLoadGetUnchecked)
    (h4 : x.hb obs call) (h5 : x.po call r) : x.hb init r ∧ x.hb w r := by
  have hbi := C09_bucket_init_push x init cas pl w rpl h1 hc hrf1 hpl hrpl h2
  have hrel : ∃ rs, x.role s = some rs ∧ rs.rel = true := by
    rcases hs with hs | hs
    · exact ⟨_, hs, C09_orderings.1⟩
    · exact ⟨_, hs, C09_orderings.2.1⟩
  have hacq : robs.acq = true := by
    rcases hro with rfl | rfl | rfl
    · exact C09_orderings.2.2.1
    · exact C09_orderings.2.2.2.2.1
    · exact C09_orderings.2.2.2.1
  have hw : x.hb w r := .trans (.po h3) (.trans (.sw ⟨hrf2, hrel, ⟨robs, hobs, hacq⟩⟩) (.trans h4 (.po h5)))
  exact ⟨.trans hbi hw, hw⟩

/-- accesses serialised by the worker mutex, by `ThreadPool::spawn` (tick → run) and by `rayon::join` /
    parallel-iterator joins are ordered by library edges: the worker's result list, the per-thread
    matchers between consecutive runs, and `Drop`/`dealloc` of a stream (last `Arc` handle) -/
theorem C09_lib_ordered (x : Exec) (a b : x.E) (h : x.lib a b) : x.hb a b := .lib h

end NucleoVerif.MM
