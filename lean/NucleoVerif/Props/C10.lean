import NucleoVerif.Model.Matcher
/-! # C10 — the matcher is total, memory-safe and independent of its call history

Part 1 (this file, theorem): the five views `MatrixSlab::alloc` hands out lie inside the slab,
are pairwise disjoint and aligned, for **every** window length `h`, needle length `n ≤ h`
and both character sizes.  The element counts of the layouts and of the views
(`Gen.layoutCount_*`, `Gen.viewCount_*`) are extracted from `matrix.rs` on every run.

Part 2 (theorems `C03_no_wrap`, in `Props/C03.lean`): the `u16` score arithmetic of
`calculate_score` never reaches saturation for needles of up to 2520 characters.

Part 3 (correspondence, see DESIGN.md): no panic / overflow in a build with overflow checks
and debug assertions, and results independent of the matcher's history and of the previous
content of the slab, on every generated case. -/
namespace NucleoVerif
open Gen

/-- the byte length of view `i` as `fieds_from_ptr` builds it -/
def viewBytes (cs h n : Nat) : List Nat :=
  [viewCount_haystack h n * elemSize_haystack cs, viewCount_bonus h n * elemSize_bonus cs,
   viewCount_rows h n * elemSize_rows cs, viewCount_score h n * elemSize_score cs,
   viewCount_matrix h n * elemSize_matrix cs]

/-- alignment of the element type of each view -/
def viewAlign (cs : Nat) : List Nat :=
  [elemSize_haystack cs, elemSize_bonus cs, elemSize_rows cs, elemSize_score cs, elemSize_matrix cs]

/-- consecutive views do not overlap and the last one ends inside `total` -/
def chainOk : List Nat → List Nat → Nat → Prop
  | [o], [l], total => o + l ≤ total
  | o :: o' :: os, l :: ls, total => o + l ≤ o' ∧ chainOk (o' :: os) ls total
  | _, _, _ => False

def alignedOk : List Nat → List Nat → Prop
  | [], [] => True
  | o :: os, a :: as => o % a = 0 ∧ alignedOk os as
  | _, _ => False

/-- **Every view lies in its own segment of the layout, segments are disjoint, offsets aligned** —
    for all sizes, whether or not the slab is large enough. -/
theorem C10_views_disjoint_aligned (cs h n : Nat) (hcs : cs = 1 ∨ cs = 4) (hn : n ≤ h) :
    chainOk (layoutOffsets cs h n).1 (viewBytes cs h n) (layoutSize cs h n) ∧
    alignedOk (layoutOffsets cs h n).1 (viewAlign cs) := by
  rcases hcs with rfl | rfl <;>
  · simp only [layoutOffsets, layoutSize, viewBytes, viewAlign, chainOk, alignedOk, roundUp,
      elemSize_haystack, elemSize_bonus, elemSize_rows, elemSize_score, elemSize_matrix,
      layoutCount_haystack, layoutCount_bonus, layoutCount_rows, layoutCount_score, layoutCount_matrix,
      viewCount_haystack, viewCount_bonus, viewCount_rows, viewCount_score, viewCount_matrix,
      List.foldl_cons, List.foldl_nil, List.nil_append, List.cons_append, true_and, and_true]
    generalize (h + 1 - n) * n = m
    refine ⟨?_, ?_⟩ <;> omega

/-- **Whenever `alloc` hands out a matrix, all five views are inside the slab allocation.** -/
theorem C10_views_in_slab (cs h n : Nat) (hcs : cs = 1 ∨ cs = 4) (hn : n ≤ h) (hfit : slabFits cs h n = true) :
    chainOk (layoutOffsets cs h n).1 (viewBytes cs h n) slabSize := by
  have hsz : layoutSize cs h n ≤ slabSize := by
    simp only [slabFits, Bool.and_eq_true, Bool.not_eq_true', decide_eq_false_iff_not] at hfit
    omega
  have := (C10_views_disjoint_aligned cs h n hcs hn).1
  revert this
  generalize layoutSize cs h n = tot at hsz
  rcases hcs with rfl | rfl <;>
  · simp only [layoutOffsets, viewBytes, chainOk, roundUp,
      elemSize_haystack, elemSize_bonus, elemSize_rows, elemSize_score, elemSize_matrix,
      layoutCount_haystack, layoutCount_bonus, layoutCount_rows, layoutCount_score, layoutCount_matrix,
      viewCount_haystack, viewCount_bonus, viewCount_rows, viewCount_score, viewCount_matrix,
      List.foldl_cons, List.foldl_nil, List.nil_append, List.cons_append]
    generalize (h + 1 - n) * n = m
    omega

/-- the limits that make the matrix path's `u16` indices safe: a window handed to the matrix has at
    most 65535 columns and at most `MAX_MATRIX_SIZE` cells -/
theorem C10_matrix_limits (cs w n : Nat) (hfit : slabFits cs w n = true) :
    w ≤ 65535 ∧ n ≤ MAX_NEEDLE_LEN ∧ w * n ≤ MAX_MATRIX_SIZE := by
  simp only [slabFits, Bool.and_eq_true, Bool.not_eq_true', Bool.or_eq_false_iff, decide_eq_false_iff_not] at hfit
  omega

/-- **History independence at the model level**: the model is a function of (configuration,
    arguments) only — there is no matcher state to carry.  (That the *implementation* equals this
    function for every call history, including a poisoned slab, is the correspondence check.) -/
theorem C10_model_is_function (a : Algo) (cfg : Cfg) (ext : Ext) (hr nr : Rep) (h n : List Nat) :
    ∀ r₁ r₂, r₁ = a.run cfg ext hr nr h n → r₂ = a.run cfg ext hr nr h n → r₁ = r₂ := by
  intro r₁ r₂ h₁ h₂; rw [h₁, h₂]

/-! non-vacuity: the matrix path is really taken for sizes at the limits -/
example : slabFits 1 2000 50 = true := by decide
example : slabFits 4 2000 50 = true := by decide
example : slabFits 1 2049 50 = false := by decide
example : slabFits 4 10000 10 = false := by decide   -- cells fit, layout does not

end NucleoVerif
