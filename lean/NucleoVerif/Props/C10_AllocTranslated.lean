import NucleoVerif.Model.Matcher
import NucleoVerif.Gen.Alloc
/-! # C10 (companion file) — the size test of `MatrixSlab::alloc`, translated from the source, is the model's

Which inputs take the matrix path (and which fall back to the greedy matcher) is decided by `MatrixSlab::alloc`.  Its first
rejection test is translated from `matcher/src/matrix.rs` on every run (`Gen/Alloc.lean`); together with the layout size
of `Gen/Layout.lean` it is the model's `slabFits`, which every theorem about the matrix path and the extents theorem of
C10 refer to. -/
namespace NucleoVerif
open Gen

theorem C10_translated_alloc_guard (cs w n : Nat) :
    slabFits cs w n = (!Gen.Alloc.rejects_size w n && !decide (layoutSize cs w n > slabSize)) := by
  unfold slabFits Gen.Alloc.rejects_size
  simp

end NucleoVerif
