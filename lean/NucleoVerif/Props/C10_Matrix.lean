import NucleoVerif.Props.C04_Compressed
import NucleoVerif.Lemmas.OptSafe
/-! # C10 (companion file) — the matrix path does not depend on the matcher's history

The scratch slab is allocated once and never cleared; `fuzzy_match_optimal` rewrites only part of the score row and of
the back-pointer matrix per call.  In the code-level model (`Model/OptImpl.lean`) the prior content of both is an
argument; by `optimalImpl_eq_optimalDP` the result does not depend on it.  (The other paths keep no state in the slab.)

Second theorem: the index arithmetic of the matrix path.  `Model/OptImpl.lean: optimalSafe` is the conjunction of the side
conditions under which no `u16`/`usize` subtraction of `setup`, `score_row`, `populate_matrix`, the best-cell search and
`reconstruct_optimal_path` underflows, every slice range and index is inside its slice, and the traceback loop ends
(running out of fuel counts as a failure); `C10_matrix_indices_in_range` proves it for every input.  (Overflow of the
score additions is not part of it: C03_Bound.) -/
namespace NucleoVerif.OptImpl
open NucleoVerif NucleoVerif.Gen NucleoVerif.Gen.Opt NucleoVerif.DP

/-- **C10, the matrix path does not depend on the matcher's history**: whatever earlier calls left in the score row and
    in the back-pointer cells, the result is the same -/
theorem C10_matrix_history_independent (cfg : Cfg) (ext : Ext) (hrep : Rep) (h n : List Nat) (start end_ : Nat)
    (cur0 cur1 : List ScoreCell) (cells0 cells1 : List MatrixCell)
    (hN : 2 ≤ n.length) (hNW : n.length ≤ (windowCols cfg ext hrep h start end_).length)
    (hwhite : cfg.white < 256) (hdelim : cfg.delim < 256)
    (hc0 : cur0.length = (windowCols cfg ext hrep h start end_).length + 1 - n.length)
    (hc1 : cur1.length = (windowCols cfg ext hrep h start end_).length + 1 - n.length)
    (hm0 : ((windowCols cfg ext hrep h start end_).length + 1 - n.length) * n.length ≤ cells0.length)
    (hm1 : ((windowCols cfg ext hrep h start end_).length + 1 - n.length) * n.length ≤ cells1.length) :
    optimalImpl cfg (windowCols cfg ext hrep h start end_) n start cur0 cells0 =
      optimalImpl cfg (windowCols cfg ext hrep h start end_) n start cur1 cells1 := by
  rw [optimalImpl_eq_optimalDP cfg ext hrep h n start end_ cur0 cells0 hN hNW hwhite hdelim hc0 hm0,
    optimalImpl_eq_optimalDP cfg ext hrep h n start end_ cur1 cells1 hN hNW hwhite hdelim hc1 hm1]

/-- the hypotheses are met: two different prior contents, one result -/
example :
    let cfg : Cfg := { delims := [47], white := 10, delim := 9, initial := .whitespace, normalize := true, ignoreCase := true, preferPrefix := false }
    let cols := windowCols cfg (fun _ => default) .ascii [97, 120, 98, 120, 99, 98] 0 6
    optimalImpl cfg cols [97, 98, 99] 0 (List.replicate 4 ⟨7, 3, true⟩) (List.replicate 12 ⟨3⟩) =
      optimalImpl cfg cols [97, 98, 99] 0 ((List.range 4).map fun i => ⟨900 + i, i, false⟩) (List.replicate 12 ⟨0⟩) := by
  decide

/-- **C10, the matrix path computes no index out of range and no negative difference, and its traceback ends**: every
    side condition of `optimalSafe` — one per `u16`/`usize` subtraction and per slice or index expression of `setup`,
    `score_row`, `populate_matrix`, the best-cell search and `reconstruct_optimal_path` — holds, for every window, needle of
    two or more characters that fits it, configuration and prior scratch content -/
theorem C10_matrix_indices_in_range (cfg : Cfg) (ext : Ext) (hrep : Rep) (h n : List Nat) (start end_ : Nat)
    (cur0 : List ScoreCell) (cells0 : List MatrixCell)
    (hN : 2 ≤ n.length) (hNW : n.length ≤ (windowCols cfg ext hrep h start end_).length)
    (hwhite : cfg.white < 256) (hdelim : cfg.delim < 256)
    (hcur : cur0.length = (windowCols cfg ext hrep h start end_).length + 1 - n.length)
    (hcells : ((windowCols cfg ext hrep h start end_).length + 1 - n.length) * n.length ≤ cells0.length) :
    optimalSafe cfg (windowCols cfg ext hrep h start end_) n start cur0 cells0 = true := by
  generalize hcols : windowCols cfg ext hrep h start end_ = cols at *
  have hok := windowCols_ok cfg ext hrep h start end_
  rw [hcols] at hok
  have hb : ∀ x ∈ cols, x.bonus < 256 := by
    intro x hx
    obtain ⟨j, hj, hget⟩ := List.getElem_of_mem hx
    have := (hok j x (by rw [← hget]; exact List.getElem?_eq_getElem hj)).2
    rw [this]
    unfold bonusAt
    have := specBonus_le cfg.white cfg.delim (pcls cfg.initial (clsOf cfg ext h) (start + j)) (clsOf cfg ext h (start + j))
    unfold bonusCap at this
    omega
  by_cases hm : (rowOffs n cols).length = n.length
  · have g : Good ⟨cols, n, rowOffs n cols, prefix_bonus_init cfg.preferPrefix start⟩ := good_of_greedy _ hN hb (rowOffs_greedy cols n hm)
    exact optimalSafe_ctx cfg ⟨cols, n, rowOffs n cols, prefix_bonus_init cfg.preferPrefix start⟩ g start hNW rfl rfl cur0 cells0 hcur hcells
  · unfold optimalSafe
    match n, hN with
    | n0 :: n1 :: ns, _ => simp only [hm, ne_eq, not_false_eq_true, if_true]

/-- the conditions are not vacuous: they fail for offsets the greedy scan cannot produce -/
example : scoreRowSafe 4 12 6 3 3 1 = false ∧ scoreRowSafe 4 12 6 1 3 1 = true := by decide

end NucleoVerif.OptImpl
