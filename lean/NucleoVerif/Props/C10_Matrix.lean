import NucleoVerif.Props.C04_Compressed
/-! # C10 (companion file) — the matrix path does not depend on the matcher's history

The scratch slab is allocated once and never cleared; `fuzzy_match_optimal` rewrites only part of the score row and of
the back-pointer matrix per call.  In the code-level model (`Model/OptImpl.lean`) the prior content of both is an
argument; by `optimalImpl_eq_optimalDP` the result does not depend on it.  (The other paths keep no state in the slab.) -/
namespace NucleoVerif.OptImpl
open NucleoVerif NucleoVerif.Gen NucleoVerif.Gen.Opt NucleoVerif.DP

/-- **C10, the matrix path does not depend on the matcher's history**: whatever earlier calls left in the score row and
    in the back-pointer cells, the result is the same -/
theorem C10_matrix_history_independent (cfg : Cfg) (ext : Ext) (hrep : Rep) (h n : List Nat) (start end_ : Nat)
    (cur0 cur1 : List ScoreCell) (cells0 cells1 : List MatrixCell)
    (hN : 2 ≤ n.length) (hNW : n.length ≤ (windowCols cfg ext hrep h start end_).length)
    (hwhite : cfg.white < 256) (hdelim : cfg.delim < 256)
    (hc0 : cur0.length = (windowCols cfg ext hrep h start end_).length + 1 - n.length)
    (hc1 : cur1.length = (windowCols cfg ext hrep h start end_).length + 1 - n.length)
    (hm0 : ((windowCols cfg ext hrep h start end_).length + 1 - n.length) * n.length ≤ cells0.length)
    (hm1 : ((windowCols cfg ext hrep h start end_).length + 1 - n.length) * n.length ≤ cells1.length) :
    optimalImpl cfg (windowCols cfg ext hrep h start end_) n start cur0 cells0 =
      optimalImpl cfg (windowCols cfg ext hrep h start end_) n start cur1 cells1 := by
  rw [optimalImpl_eq_optimalDP cfg ext hrep h n start end_ cur0 cells0 hN hNW hwhite hdelim hc0 hm0,
    optimalImpl_eq_optimalDP cfg ext hrep h n start end_ cur1 cells1 hN hNW hwhite hdelim hc1 hm1]

/-- the hypotheses are met: two different prior contents, one result -/
example :
    let cfg : Cfg := { delims := [47], white := 10, delim := 9, initial := .whitespace, normalize := true, ignoreCase := true, preferPrefix := false }
    let cols := windowCols cfg (fun _ => default) .ascii [97, 120, 98, 120, 99, 98] 0 6
    optimalImpl cfg cols [97, 98, 99] 0 (List.replicate 4 ⟨7, 3, true⟩) (List.replicate 12 ⟨3⟩) =
      optimalImpl cfg cols [97, 98, 99] 0 ((List.range 4).map fun i => ⟨900 + i, i, false⟩) (List.replicate 12 ⟨0⟩) := by
  decide

end NucleoVerif.OptImpl
