import NucleoVerif.Props.C04_Compressed
import NucleoVerif.Lemmas.OptSafe
import NucleoVerif.Lemmas.OptLen
/-! # C10 (companion file) — the matrix path does not depend on the matcher's history

The scratch slab is allocated once and never cleared; `fuzzy_match_optimal` rewrites only part of the score row and of
the back-pointer matrix per call.  In the code-level model (`Model/OptImpl.lean`) the prior content of both is an
argument; by `optimalImpl_eq_optimalDP` the result does not depend on it.  (The other paths keep no state in the slab.)

Second theorem: the index arithmetic of the matrix path.  `Model/OptImpl.lean: optimalSafe` is the conjunction of the side
conditions under which no `u16`/`usize` subtraction of `setup`, `score_row`, `populate_matrix`, the best-cell search and
`reconstruct_optimal_path` underflows, every slice range and index is inside its slice, and the traceback loop ends
(running out of fuel counts as a failure); `C10_matrix_indices_in_range` proves it for every input.  Third theorem: `C10_matrix_scores_fit_u16`, no `u16`
overflow of the score additions in the matrix (prefix preference off, preset bonuses, needles the slab admits). -/
namespace NucleoVerif.OptImpl
open NucleoVerif NucleoVerif.Gen NucleoVerif.Gen.Opt NucleoVerif.DP NucleoVerif.Spec

/-- **C10, the matrix path does not depend on the matcher's history**: whatever earlier calls left in the score row and
    in the back-pointer cells, the result is the same -/
theorem C10_matrix_history_independent (cfg : Cfg) (ext : Ext) (hrep : Rep) (h n : List Nat) (start end_ : Nat)
    (cur0 cur1 : List ScoreCell) (cells0 cells1 : List MatrixCell)
    (hN : 2 ≤ n.length) (hNW : n.length ≤ (windowCols cfg ext hrep h start end_).length)
    (hwhite : cfg.white < 256) (hdelim : cfg.delim < 256)
    (hc0 : cur0.length = (windowCols cfg ext hrep h start end_).length + 1 - n.length)
    (hc1 : cur1.length = (windowCols cfg ext hrep h start end_).length + 1 - n.length)
    (hm0 : ((windowCols cfg ext hrep h start end_).length + 1 - n.length) * n.length ≤ cells0.length)
    (hm1 : ((windowCols cfg ext hrep h start end_).length + 1 - n.length) * n.length ≤ cells1.length) :
    optimalImpl cfg (windowCols cfg ext hrep h start end_) n start cur0 cells0 =
      optimalImpl cfg (windowCols cfg ext hrep h start end_) n start cur1 cells1 := by
  rw [optimalImpl_eq_optimalDP cfg ext hrep h n start end_ cur0 cells0 hN hNW hwhite hdelim hc0 hm0,
    optimalImpl_eq_optimalDP cfg ext hrep h n start end_ cur1 cells1 hN hNW hwhite hdelim hc1 hm1]

/-- the hypotheses are met: two different prior contents, one result -/
example :
    let cfg : Cfg := { delims := [47], white := 10, delim := 9, initial := .whitespace, normalize := true, ignoreCase := true, preferPrefix := false }
    let cols := windowCols cfg (fun _ => default) .ascii [97, 120, 98, 120, 99, 98] 0 6
    optimalImpl cfg cols [97, 98, 99] 0 (List.replicate 4 ⟨7, 3, true⟩) (List.replicate 12 ⟨3⟩) =
      optimalImpl cfg cols [97, 98, 99] 0 ((List.range 4).map fun i => ⟨900 + i, i, false⟩) (List.replicate 12 ⟨0⟩) := by
  decide

/-- **C10, the matrix path computes no index out of range and no negative difference, and its traceback ends**: every
    side condition of `optimalSafe` — one per `u16`/`usize` subtraction and per slice or index expression of `setup`,
    `score_row`, `populate_matrix`, the best-cell search and `reconstruct_optimal_path` — holds, for every window, needle of
    two or more characters that fits it, configuration and prior scratch content -/
theorem C10_matrix_indices_in_range (cfg : Cfg) (ext : Ext) (hrep : Rep) (h n : List Nat) (start end_ : Nat)
    (cur0 : List ScoreCell) (cells0 : List MatrixCell)
    (hN : 2 ≤ n.length) (hNW : n.length ≤ (windowCols cfg ext hrep h start end_).length)
    (hwhite : cfg.white < 256) (hdelim : cfg.delim < 256)
    (hcur : cur0.length = (windowCols cfg ext hrep h start end_).length + 1 - n.length)
    (hcells : ((windowCols cfg ext hrep h start end_).length + 1 - n.length) * n.length ≤ cells0.length) :
    optimalSafe cfg (windowCols cfg ext hrep h start end_) n start cur0 cells0 = true := by
  generalize hcols : windowCols cfg ext hrep h start end_ = cols at *
  have hok := windowCols_ok cfg ext hrep h start end_
  rw [hcols] at hok
  have hb : ∀ x ∈ cols, x.bonus < 256 := by
    intro x hx
    obtain ⟨j, hj, hget⟩ := List.getElem_of_mem hx
    have := (hok j x (by rw [← hget]; exact List.getElem?_eq_getElem hj)).2
    rw [this]
    unfold bonusAt
    have := specBonus_le cfg.white cfg.delim (pcls cfg.initial (clsOf cfg ext h) (start + j)) (clsOf cfg ext h (start + j))
    unfold bonusCap at this
    omega
  by_cases hm : (rowOffs n cols).length = n.length
  · have g : Good ⟨cols, n, rowOffs n cols, prefix_bonus_init cfg.preferPrefix start⟩ := good_of_greedy _ hN hb (rowOffs_greedy cols n hm)
    exact optimalSafe_ctx cfg ⟨cols, n, rowOffs n cols, prefix_bonus_init cfg.preferPrefix start⟩ g start hNW rfl rfl cur0 cells0 hcur hcells
  · unfold optimalSafe
    match n, hN with
    | n0 :: n1 :: ns, _ => simp only [hm, ne_eq, not_false_eq_true, if_true]

/-- the conditions are not vacuous: they fail for offsets the greedy scan cannot produce -/
example : scoreRowSafe 4 12 6 3 3 1 = false ∧ scoreRowSafe 4 12 6 1 3 1 = true := by decide

/-- **no `u16` overflow in the matrix**: with prefix preference off and the presets' boundary bonuses (at most 10), every
    cell of row `r` of the recurrence — hence, by `optimalImpl_eq_optimalDP`'s cell relation, every cell the code keeps in
    its score row — has a score of at most `26 (r + 1) + 10`; for the needle lengths the slab admits (`MAX_NEEDLE_LEN` = 2048)
    that leaves room for every intermediate sum of `next_m_cell` (`+ max(consecutive_bonus, bonus)`, `+ SCORE_MATCH`) below 2^16 -/
theorem C10_matrix_scores_fit_u16 (cfg : Cfg) (ext : Ext) (hrep : Rep) (h n : List Nat) (start end_ : Nat)
    (hpp : cfg.preferPrefix = false) (hw : cfg.white ≤ 10) (hd : cfg.delim ≤ 10) (hlen : n.length ≤ 2048)
    (r k : Nat) (c : Cell) (hr : r < n.length)
    (hc : (rowN (windowCols cfg ext hrep h start end_) n (prefixStart cfg start) r)[k]? = some (some c)) :
    c.score ≤ 26 * (r + 1) + 10 ∧ c.score + 26 < 65536 := by
  have hpb : prefixStart cfg start = 0 := by unfold prefixStart; simp [hpp]
  rw [hpb] at hc
  generalize hcols : windowCols cfg ext hrep h start end_ = cols at hc
  have colsok : ColsOK cfg.white cfg.delim cfg.initial (clsOf cfg ext h) cols start := by
    rw [← hcols]; exact windowCols_ok cfg ext hrep h start end_
  have rowinv : RowInv cfg.white cfg.delim cfg.initial (clsOf cfg ext h) start (rowN cols n 0 r) := by
    unfold rowN
    exact allRows_inv cfg.white cfg.delim cfg.initial (clsOf cfg ext h) cols start colsok _ _
      (firstRow_inv cfg.white cfg.delim cfg.initial (clsOf cfg ext h) _ cols start colsok)
  have inv := rowinv k c hc
  have hklen : k < cols.length := by
    have h1 : k < (rowN cols n 0 r).length := by
      apply Nat.lt_of_not_le
      intro hcon
      rw [List.getElem?_eq_none hcon] at hc; cases hc
    rw [rowN_length] at h1; exact h1
  have hjlt : start + k < h.length := by
    have := windowCols_length_le cfg ext hrep h start end_
    rw [hcols] at this
    omega
  have hsc := cell_score_eq_alignScore cfg ext h c (start + k) hjlt inv
  have hpl := rowN_len cols n 0 r hr k c hc
  have hnd : c.path.Nodup := by
    have hpw := inv.2.2.2.2.2.2.2.2.2.2
    exact hpw.imp (fun hab => Nat.ne_of_lt hab)
  have hb := C03_scheme_bound cfg ext h c.path hnd
  have hB : bonusCap cfg.white cfg.delim ≤ 10 := by unfold bonusCap; omega
  rw [hpl, ← hsc] at hb
  have h1 : c.score ≤ 26 * (r + 1) + 10 := by
    have : (16 + bonusCap cfg.white cfg.delim) * (r + 1) ≤ 26 * (r + 1) := Nat.mul_le_mul_right _ (by omega)
    omega
  exact ⟨h1, by omega⟩

end NucleoVerif.OptImpl
