import NucleoVerif.Model.Drop
import NucleoVerif.Props.C08
/-! # C11 — every injected item is dropped exactly once, and only after it is unreachable

* `Drop for Vec` / `Bucket::dealloc`: the loop shape (`continue` at a null bucket pointer, every
  active entry's slot and columns dropped, then the allocation freed) is extracted from the source
  on every run (`Gen.dropStopsAtNull`, plus shape checks in the translator).
* who holds a stream alive (matcher, worker, snapshot, injectors) is the reference count of C20
  (`Nucleo.strongCount`); the stream's vector is dropped when it reaches zero.  The correspondence run
  of this property tracks a drop counter per item and a counting global allocator. -/
namespace NucleoVerif.Bx
open Gen

/-- the repaired loop skips unallocated buckets instead of stopping at the first one -/
theorem C11_drop_continues : dropStopsAtNull = false := by decide

/-- **every allocated bucket is visited by `Drop for Vec`**, wherever it sits (a later bucket can be
    allocated while an earlier one is not: finding F12) -/
theorem C11_drop_visits_all (bucket : Nat → Bool) (b : Nat) (hb : b < BUCKETS) (h : bucket b = true) :
    b ∈ dropVisited bucket := by
  unfold dropVisited
  rw [C11_drop_continues]
  simp [List.mem_filter, hb, h]

/-- the witness of F12 in the model: buckets 0 and 2 allocated, bucket 1 not.  A loop that stops at the
    first null pointer reaches only bucket 0. -/
example : ((List.range BUCKETS).takeWhile (fun b => decide (b = 0 ∨ b = 2))) = [0] := by decide
example : dropVisited (fun b => decide (b = 0 ∨ b = 2)) = [0, 2] := by decide

/-- entries are only ever marked active inside an allocated bucket and below the reservation counter -/
def SlotBucket (s : Shared) : Prop :=
  ∀ i v, s.slot i = some v → s.bucket (bucketOf i) = true

theorem SlotBucket.init (cap : Nat) : SlotBucket (initShared cap) := by
  intro i v h; simp [initShared] at h

theorem SlotBucket.fa {s : Shared} (h : SlotBucket s) (k : Nat) : SlotBucket ((Eff.fa k).apply s) := h

theorem SlotBucket.pub {s : Shared} (h : SlotBucket s) (b : Nat) : SlotBucket ((Eff.pub b).apply s) := by
  intro i v hs
  have := h i v hs
  simp only [Eff.apply, upd]; split <;> simp_all

theorem SlotBucket.wr {s : Shared} (h : SlotBucket s) (i v : Nat) (hb : s.bucket (bucketOf i) = true) :
    SlotBucket ((Eff.wr i v).apply s) := by
  intro j w hs
  simp only [Eff.apply, upd] at hs ⊢
  by_cases e : j = i
  · subst e; exact hb
  · simp only [e, if_false] at hs; exact h j w hs

theorem SlotBucket.writeItem {s : Shared} (h : SlotBucket s) (i v : Nat) : SlotBucket (writeItem s i v) := by
  unfold Bx.writeItem
  exact (h.pub _).wr i v (by simp [Eff.apply, upd])

theorem SlotBucket.eagerPush {s : Shared} (h : SlotBucket s) (i : Nat) : SlotBucket (eagerPush s i) := by
  unfold Bx.eagerPush; split
  · exact h.pub _
  · exact h

theorem SlotBucket.eagerExtend {s : Shared} (h : SlotBucket s) (a b : Nat) : SlotBucket (eagerExtend s a b) := by
  unfold Bx.eagerExtend; split
  · exact h.pub _
  · exact h

theorem SlotBucket.writeBatch (start : Nat) : ∀ (l : List (Nat × Nat)) (s : Shared), SlotBucket s →
    SlotBucket (l.foldl (fun (acc : Shared) (p : Nat × Nat) => Bx.writeItem acc (start + p.2) p.1) s) := by
  intro l
  induction l with
  | nil => intro s h; exact h
  | cons p ps ih => intro s h; exact ih _ (h.writeItem _ _)

theorem SlotBucket.runDOp {s : Shared} (h : SlotBucket s) (op : DOp) : SlotBucket (runDOp s op).1 := by
  cases op with
  | push v panics =>
    simp only [Bx.runDOp]
    have h3 := ((h.fa 1).eagerPush s.inflight).pub (bucketOf s.inflight)
    split
    · exact h3
    · exact h3.wr _ _ (by simp [Eff.apply, upd])
  | extend rep vals panicAt =>
    simp only [Bx.runDOp]
    split
    · exact h
    · have h3 := SlotBucket.writeBatch s.inflight ((vals.take (stopAt rep vals panicAt)).zipIdx) _ ((h.fa rep).eagerExtend s.inflight rep)
      split
      · exact h3.pub _
      · exact h3

/-- …for every sequential history of pushes and batches (honest or lying, with panicking callbacks) -/
theorem SlotBucket.runDOps (cap : Nat) (ops : List DOp) : SlotBucket (runDOps cap ops).1 := by
  unfold Bx.runDOps
  have : ∀ (acc : Shared × List Nat), SlotBucket acc.1 →
      SlotBucket (ops.foldl (fun (acc : Shared × List Nat) op => ((Bx.runDOp acc.1 op).1, acc.2 ++ (Bx.runDOp acc.1 op).2)) acc).1 := by
    induction ops with
    | nil => intro acc h; exact h
    | cons op rest ih => intro acc h; exact ih _ (h.runDOp op)
  exact this _ (SlotBucket.init cap)

/-- **dropping the vector drops every published item** (below the 27-bucket capacity), i.e. nothing that
    was published is leaked… -/
theorem C11_vec_drop_complete (s : Shared) (n i v : Nat) (hi : i < n) (hcap : i ≤ MAX_ENTRIES) (hsb : SlotBucket s)
    (hs : s.slot i = some v) : v ∈ dropVec s n := by
  unfold dropVec
  rw [List.mem_filterMap]
  refine ⟨i, List.mem_range.mpr hi, ?_⟩
  have hv := C11_drop_visits_all s.bucket (bucketOf i) (C08_bucket_lt i hcap) (hsb i v hs)
  simp [hv, hs]

/-- …and **drops each entry at most once**: the values dropped are read off one entry per index -/
theorem C11_vec_drop_once (s : Shared) (n : Nat) :
    (dropVec s n).length ≤ n ∧ ∀ v ∈ dropVec s n, ∃ i, i < n ∧ s.slot i = some v := by
  unfold dropVec
  refine ⟨by simpa using List.length_filterMap_le _ (List.range n), ?_⟩
  intro v hv
  rw [List.mem_filterMap] at hv
  obtain ⟨i, hi, hiv⟩ := hv
  refine ⟨i, List.mem_range.mp hi, ?_⟩
  split at hiv
  · exact hiv
  · cases hiv

/-- **a panicking fill callback**: the item it was called for is dropped (once, by unwinding) and its
    entry is never marked active, so dropping the vector later does not drop it again -/
theorem C11_push_panic (s : Shared) (v : Nat) (hfree : s.slot s.inflight = none) :
    (runDOp s (.push v true)).2 = [v] ∧ (runDOp s (.push v true)).1.slot s.inflight = none := by
  simp only [runDOp, if_true]
  refine ⟨trivial, ?_⟩
  unfold eagerPush
  split <;> simp [Eff.apply, hfree]

/-- a batch hands every item either to an entry (the first `stopAt`) or back to the unwinding /
    iterator drop (the rest): **nothing is dropped twice, nothing is forgotten** -/
theorem C11_extend_partition (vals : List Nat) (stopAt : Nat) : vals.take stopAt ++ vals.drop stopAt = vals :=
  List.take_append_drop stopAt vals

end NucleoVerif.Bx
