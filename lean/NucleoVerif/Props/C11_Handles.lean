import NucleoVerif.Props.C20
/-! # C11 (companion file) — over every history, a dropped stream stays dropped and no handle dangles

`Props/C11.lean` proves the per-vector fact (every initialised slot is dropped exactly once when the vector is dropped,
uninitialised slots never).  *When* a vector is dropped is decided by the `Arc` around it: the model's
`Nucleo.strongCount n s` counts the handles on stream `s` — the matcher's `items`, the worker's, the snapshot's, every
injector's and clone's.  This file proves, for every history of injector(), clone, drop, reparse, restart(true|false) and
tick events with arbitrary lock outcomes and run effects:

* a handle never points at a stream that has not been created (`WF11.history`), and a stream some handle points at has a
  positive count (`C11_handles_point_at_live_streams`) — nothing is dropped while it can still be reached;
* no event creates a handle to a stream nobody holds (`step_reach`), so a stream whose count reached zero — whose items
  have been dropped — has count zero after every continuation (`C11_dropped_stream_stays_dropped`): no second drop, no
  access after the drop.

The assumption `Ev.ok` (a run does not change which stream the worker holds) is what `Worker::run` does; the
correspondence check replays the same histories on the real `Nucleo<Tracked>` and compares the drop log. -/
namespace NucleoVerif.Nu

/-- some handle reaches stream `s`: the matcher's own (`items`), the worker's, the snapshot's, or an injector's -/
def Reach (n : Nucleo) (s : Nat) : Prop :=
  n.cur = s ∨ n.worker.stream = s ∨ n.snapshot.stream = s ∨ ∃ h, (h, s) ∈ n.injectors

/-- the reference count of a stream is zero exactly when no handle reaches it -/
theorem strongCount_zero_iff (n : Nucleo) (s : Nat) : n.strongCount s = 0 ↔ ¬ Reach n s := by
  unfold Nucleo.strongCount Reach
  constructor
  · intro h
    have h1 : ¬ n.cur = s := by intro e; simp [e] at h
    have h2 : ¬ n.worker.stream = s := by intro e; simp [e] at h
    have h3 : ¬ n.snapshot.stream = s := by intro e; simp [e] at h
    have h4 : (n.injectors.filter (fun p => p.2 = s)).length = 0 := by omega
    rintro (e | e | e | ⟨hh, e⟩)
    · exact h1 e
    · exact h2 e
    · exact h3 e
    · have : (hh, s) ∈ n.injectors.filter (fun p => p.2 = s) := List.mem_filter.mpr ⟨e, by simp⟩
      rw [List.length_eq_zero_iff.mp h4] at this
      cases this
  · intro h
    have h1 : ¬ n.cur = s := fun e => h (Or.inl e)
    have h2 : ¬ n.worker.stream = s := fun e => h (Or.inr (Or.inl e))
    have h3 : ¬ n.snapshot.stream = s := fun e => h (Or.inr (Or.inr (Or.inl e)))
    have h4 : n.injectors.filter (fun p => p.2 = s) = [] := by
      apply List.filter_eq_nil_iff.mpr
      intro p hp hps
      exact h (Or.inr (Or.inr (Or.inr ⟨p.1, by simp only [decide_eq_true_eq] at hps; rw [← hps]; exact hp⟩)))
    simp [h1, h2, h3, h4]

/-! ## where the handles can point after an event -/

theorem tickInnerLocked_snap_stream (m : Nucleo) (c : Bool) (st : PStatus) (k : Nat) :
    (tickInnerLocked m c st k).1.snapshot.stream = m.snapshot.stream ∨ (tickInnerLocked m c st k).1.snapshot.stream = m.worker.stream := by
  have hs : m.snapAfter.stream = m.snapshot.stream ∨ m.snapAfter.stream = m.worker.stream := by
    unfold Nucleo.snapAfter
    split
    · exact Or.inr rfl
    · exact Or.inl rfl
  unfold tickInnerLocked
  split <;> exact hs

theorem tickInnerLocked_inj (m : Nucleo) (c : Bool) (st : PStatus) (k : Nat) : (tickInnerLocked m c st k).1.injectors = m.injectors :=
  (tickInnerLocked_frame m c st k).2.2.2.1

theorem joinRun_snapshot (m : Nucleo) (run : Worker → Worker) : (m.joinRun run).snapshot = m.snapshot := by
  unfold Nucleo.joinRun; split <;> rfl

/-- after a tick every handle points where a handle pointed before -/
theorem tick_reach (n : Nucleo) (o : TickOracle) (h0 : KeepsStream o.run0) (h1 : KeepsStream o.run1) (s : Nat)
    (hr : Reach (n.tick o).1 s) : Reach n s := by
  have hcore := tick_core n o h0 h1
  have hcur : (n.tick o).1.cur = n.cur := by
    have := congrArg Core.cur hcore
    simp only [Nucleo.core] at this
    split at this <;> simpa using this
  have hinj : (n.tick o).1.injectors = n.injectors := by
    have := congrArg Core.injectors hcore
    simp only [Nucleo.core] at this
    split at this <;> simpa using this
  have hws : (n.tick o).1.worker.stream = n.cur ∨ (n.tick o).1.worker.stream = n.worker.stream := by
    have := congrArg Core.wstream hcore
    simp only [Nucleo.core] at this
    split at this
    · simp only at this
      split at this
      · exact Or.inl this
      · exact Or.inr this
    · exact Or.inr this
  -- the snapshot's handle
  have hsnap : (n.tick o).1.snapshot.stream = n.snapshot.stream ∨ (n.tick o).1.snapshot.stream = n.worker.stream ∨
      (n.tick o).1.snapshot.stream = n.cur := by
    unfold Nucleo.tick
    simp only
    split
    · -- cancelling tick
      have c1 := tickCancelFirst_core ({ n with shouldNotify := false } : Nucleo) o h0
      have hw1 : (({ n with shouldNotify := false } : Nucleo).tickCancelFirst o).1.worker.stream = n.cur ∨
          (({ n with shouldNotify := false } : Nucleo).tickCancelFirst o).1.worker.stream = n.worker.stream := by
        have := congrArg Core.wstream c1
        simp only [Nucleo.core] at this
        split at this
        · exact Or.inl this
        · exact Or.inr this
      have hs1 : (({ n with shouldNotify := false } : Nucleo).tickCancelFirst o).1.snapshot.stream = n.snapshot.stream ∨
          (({ n with shouldNotify := false } : Nucleo).tickCancelFirst o).1.snapshot.stream = n.worker.stream := by
        unfold Nucleo.tickCancelFirst
        simp only
        have a := tickInnerLocked_snap_stream (({ n with shouldNotify := false, status := .unchanged, cancelFlag := true } : Nucleo).joinRun o.run0) true n.status o.count1
        rw [joinRun_snapshot, (joinRun_frame _ o.run0 h0).2.2.2.1] at a
        exact a
      generalize ({ n with shouldNotify := false } : Nucleo).tickCancelFirst o = r1 at hw1 hs1
      unfold Nucleo.tickSecond
      split
      · have a := tickInnerLocked_snap_stream (r1.1.joinRun o.run1) false .unchanged o.count2
        rw [joinRun_snapshot, (joinRun_frame _ o.run1 h1).2.2.2.1] at a
        rcases a with a | a
        · rw [a]; rcases hs1 with e | e
          · exact Or.inl e
          · exact Or.inr (Or.inl e)
        · rw [a]; rcases hw1 with e | e
          · exact Or.inr (Or.inr e)
          · exact Or.inr (Or.inl e)
      · show r1.1.snapshot.stream = _ ∨ _
        rcases hs1 with e | e
        · exact Or.inl e
        · exact Or.inr (Or.inl e)
    · unfold Nucleo.tickPlain
      split
      · exact Or.inl rfl
      · have a := tickInnerLocked_snap_stream (({ n with shouldNotify := false } : Nucleo).joinRun o.run0) false .unchanged o.count1
        rw [joinRun_snapshot, (joinRun_frame _ o.run0 h0).2.2.2.1] at a
        rcases a with a | a
        · exact Or.inl a
        · exact Or.inr (Or.inl a)
  rcases hr with e | e | e | ⟨hh, e⟩
  · rw [hcur] at e; exact Or.inl e
  · rcases hws with w | w
    · rw [w] at e; exact Or.inl e
    · rw [w] at e; exact Or.inr (Or.inl e)
  · rcases hsnap with w | w | w
    · rw [w] at e; exact Or.inr (Or.inr (Or.inl e))
    · rw [w] at e; exact Or.inr (Or.inl e)
    · rw [w] at e; exact Or.inl e
  · rw [hinj] at e; exact Or.inr (Or.inr (Or.inr ⟨hh, e⟩))

/-- **no event creates a handle to a stream nobody holds**: whatever is reachable afterwards was reachable before, or is
    the stream `restart` has just created -/
theorem step_reach (n : Nucleo) (e : Ev) (hok : e.ok) (s : Nat) (hr : Reach (applyEv n e) s) :
    Reach n s ∨ (s = n.nextStream ∧ ∃ c, e = .restart c) := by
  cases e with
  | inj k =>
    rcases hr with h | h | h | ⟨hh, h⟩
    · exact Or.inl (Or.inl h)
    · exact Or.inl (Or.inr (Or.inl h))
    · exact Or.inl (Or.inr (Or.inr (Or.inl h)))
    · simp only [applyEv, Nucleo.addInjector, List.mem_append, List.mem_singleton, Prod.mk.injEq] at h
      rcases h with h | ⟨_, h⟩
      · exact Or.inl (Or.inr (Or.inr (Or.inr ⟨hh, h⟩)))
      · exact Or.inl (Or.inl h.symm)
  | clone a b =>
    simp only [applyEv, Nucleo.cloneInjector] at hr
    split at hr
    · rename_i p hp
      rcases hr with h | h | h | ⟨hh, h⟩
      · exact Or.inl (Or.inl h)
      · exact Or.inl (Or.inr (Or.inl h))
      · exact Or.inl (Or.inr (Or.inr (Or.inl h)))
      · simp only [List.mem_append, List.mem_singleton, Prod.mk.injEq] at h
        rcases h with h | ⟨_, h⟩
        · exact Or.inl (Or.inr (Or.inr (Or.inr ⟨hh, h⟩)))
        · have hm := List.mem_of_find?_eq_some hp
          exact Or.inl (Or.inr (Or.inr (Or.inr ⟨p.1, by rw [h]; exact hm⟩)))
    · exact Or.inl hr
  | drop k =>
    rcases hr with h | h | h | ⟨hh, h⟩
    · exact Or.inl (Or.inl h)
    · exact Or.inl (Or.inr (Or.inl h))
    · exact Or.inl (Or.inr (Or.inr (Or.inl h)))
    · simp only [applyEv, Nucleo.dropInjector] at h
      exact Or.inl (Or.inr (Or.inr (Or.inr ⟨hh, (List.mem_filter.mp h).1⟩)))
  | restart c =>
    rcases hr with h | h | h | ⟨hh, h⟩
    · exact Or.inr ⟨h.symm, c, rfl⟩
    · exact Or.inl (Or.inr (Or.inl h))
    · simp only [applyEv, Nucleo.restart] at h
      split at h
      · exact Or.inr ⟨h.symm, c, rfl⟩
      · exact Or.inl (Or.inr (Or.inr (Or.inl h)))
    · exact Or.inl (Or.inr (Or.inr (Or.inr ⟨hh, h⟩)))
  | reparse p st => exact Or.inl hr
  | tick o => exact Or.inl (tick_reach n o hok.1 hok.2 s hr)

end NucleoVerif.Nu

namespace NucleoVerif.Nu

/-- every handle points at a stream that has been created -/
def WF11 (n : Nucleo) : Prop := ∀ s, Reach n s → s < n.nextStream

theorem nextStream_mono (n : Nucleo) (e : Ev) (hok : e.ok) : n.nextStream ≤ (applyEv n e).nextStream := by
  cases e with
  | inj k => exact Nat.le_refl _
  | clone a b => show n.nextStream ≤ (n.cloneInjector a b).nextStream; unfold Nucleo.cloneInjector; split <;> exact Nat.le_refl _
  | drop k => exact Nat.le_refl _
  | restart c => exact Nat.le_succ _
  | reparse p st => exact Nat.le_refl _
  | tick o =>
    have := congrArg Core.nextStream (tick_core n o hok.1 hok.2)
    simp only [Nucleo.core] at this
    show n.nextStream ≤ (n.tick o).1.nextStream
    split at this <;> simp only at this <;> omega

theorem restart_nextStream (n : Nucleo) (c : Bool) : (applyEv n (.restart c)).nextStream = n.nextStream + 1 := rfl

theorem WF11.new : WF11 Nucleo.new := by
  intro s hr
  rcases hr with h | h | h | ⟨hh, h⟩ <;> simp [Nucleo.new] at h ⊢ <;> omega

theorem WF11.step (n : Nucleo) (e : Ev) (hok : e.ok) (h : WF11 n) : WF11 (applyEv n e) := by
  intro s hr
  rcases step_reach n e hok s hr with h' | ⟨h', c, rfl⟩
  · exact Nat.lt_of_lt_of_le (h s h') (nextStream_mono n e hok)
  · rw [restart_nextStream, h']; exact Nat.lt_succ_self _

theorem WF11.history (evs : List Ev) (hok : ∀ e ∈ evs, e.ok) : WF11 (evs.foldl applyEv Nucleo.new) := by
  have all : ∀ (l : List Ev) (n : Nucleo), (∀ e ∈ l, e.ok) → WF11 n → WF11 (l.foldl applyEv n) := by
    intro l
    induction l with
    | nil => intro n _ h; exact h
    | cons e es ih =>
      intro n hok h
      simp only [List.foldl_cons]
      exact ih _ (fun e' he' => hok e' (List.mem_cons_of_mem _ he')) (WF11.step n e (hok e (List.mem_cons_self ..)) h)
  exact all evs _ hok WF11.new

/-- **a stream whose last handle is gone is never reachable again**: one step -/
theorem dead_stays_dead_step (n : Nucleo) (e : Ev) (hok : e.ok) (s : Nat) (hs : s < n.nextStream) (hd : n.strongCount s = 0) :
    (applyEv n e).strongCount s = 0 := by
  rw [strongCount_zero_iff] at hd ⊢
  intro hr
  rcases step_reach n e hok s hr with h' | ⟨h', _⟩
  · exact hd h'
  · omega

/-- **C11 over histories: items are dropped once, and only once nothing can reach them.**  After any history, take a
    stream that has been created and whose reference count is zero (in the implementation: the `Arc<boxcar::Vec<T>>` has
    been freed and each of its items dropped — `C11_each_once` — exactly at that moment, not before: a stream with a
    positive count is `Reach`able, `strongCount_zero_iff`).  Then after every continuation the count is still zero: no
    handle — the matcher's, the worker's, the snapshot's, an injector's or a clone's — ever points at it again, so no
    second drop and no access after the drop can happen. -/
theorem C11_dropped_stream_stays_dropped (evs more : List Ev) (hok : ∀ e ∈ evs ++ more, e.ok) (s : Nat)
    (hs : s < (evs.foldl applyEv Nucleo.new).nextStream) (hd : (evs.foldl applyEv Nucleo.new).strongCount s = 0) :
    ((evs ++ more).foldl applyEv Nucleo.new).strongCount s = 0 := by
  rw [List.foldl_append]
  have all : ∀ (l : List Ev) (n : Nucleo), (∀ e ∈ l, e.ok) → s < n.nextStream → n.strongCount s = 0 →
      (l.foldl applyEv n).strongCount s = 0 := by
    intro l
    induction l with
    | nil => intro n _ _ h; exact h
    | cons e es ih =>
      intro n hok h1 h2
      simp only [List.foldl_cons]
      have hoke := hok e (List.mem_cons_self ..)
      exact ih _ (fun e' he' => hok e' (List.mem_cons_of_mem _ he'))
        (Nat.lt_of_lt_of_le h1 (nextStream_mono n e hoke)) (dead_stays_dead_step n e hoke s h1 h2)
  exact all more _ (fun e he => hok e (List.mem_append_right _ he)) hs hd

/-- and every handle that exists points at a created stream with a positive count (nothing dangles) -/
theorem C11_handles_point_at_live_streams (evs : List Ev) (hok : ∀ e ∈ evs, e.ok) (s : Nat)
    (hr : Reach (evs.foldl applyEv Nucleo.new) s) :
    s < (evs.foldl applyEv Nucleo.new).nextStream ∧ 0 < (evs.foldl applyEv Nucleo.new).strongCount s := by
  refine ⟨WF11.history evs hok s hr, ?_⟩
  rcases Nat.eq_zero_or_pos ((evs.foldl applyEv Nucleo.new).strongCount s) with h | h
  · exact absurd hr ((strongCount_zero_iff _ _).mp h)
  · exact h

/-- non-vacuity: after `restart(true)` and one tick that gets both locks, stream 0 is dead and stream 1 is live -/
example : let n := ([Ev.restart true, Ev.tick { count1 := 0, count2 := 0, lock1 := true, lock2 := true, run0 := id, run1 := id }].foldl applyEv Nucleo.new)
    n.strongCount 0 = 0 ∧ 0 < n.nextStream ∧ n.strongCount 1 > 0 := by decide

end NucleoVerif.Nu
