import NucleoVerif.Props.C19
/-! # C12 — restart isolates the new item stream from the old one -/
namespace NucleoVerif.Nu

/-- **with `clear_snapshot` the snapshot is empty immediately** and refers to the new stream -/
theorem C12_clear (n : Nucleo) :
    (n.restart true).snapshot.hits = [] ∧ (n.restart true).snapshot.itemCount = 0 ∧
    (n.restart true).snapshot.stream = (n.restart true).cur := by
  simp [Nucleo.restart]

/-- **without it the snapshot stays exactly as it was** -/
theorem C12_keep (n : Nucleo) : (n.restart false).snapshot = n.snapshot := by
  simp [Nucleo.restart]

/-- the new stream is one no handle (old injectors, the worker, the old snapshot) refers to -/
theorem C12_fresh_stream (n : Nucleo) (h : Inv20 n) (hinj : ∀ p ∈ n.injectors, p.2 < n.nextStream) (hs : n.snapshot.stream < n.nextStream)
    (clear : Bool) :
    (n.restart clear).worker.stream ≠ (n.restart clear).cur ∧ (∀ p ∈ (n.restart clear).injectors, p.2 ≠ (n.restart clear).cur) ∧
    (clear = false → (n.restart clear).snapshot.stream ≠ (n.restart clear).cur) := by
  have := h.workerFresh
  refine ⟨by simp [Nucleo.restart]; omega, ?_, ?_⟩
  · intro p hp
    have := hinj p (by simpa [Nucleo.restart] using hp)
    simp [Nucleo.restart]; omega
  · intro hc; subst hc; simp [Nucleo.restart]; omega

/-- **the guard lemma**: as long as the matcher is in the `Cleared` (or initial) state, a run that
    finishes — necessarily a run over the *old* stream — is never copied into the snapshot, whatever it
    computed: the first `tick_inner` after a restart leaves the snapshot alone -/
theorem C12_old_run_discarded (n : Nucleo) (o : TickOracle) (hs : n.state.canceled = true) :
    (n.tickCancelFirst o).1.snapshot = n.snapshot := by
  unfold Nucleo.tickCancelFirst
  simp only
  have hj : (({ n with status := .unchanged, cancelFlag := true } : Nucleo).joinRun o.run0).state = n.state := by
    unfold Nucleo.joinRun; split <;> rfl
  have hsn := joinRun_snapshot ({ n with status := .unchanged, cancelFlag := true } : Nucleo) o.run0
  have : (({ n with status := .unchanged, cancelFlag := true } : Nucleo).joinRun o.run0).snapAfter = n.snapshot := by
    simp [Nucleo.snapAfter, hj, hs, hsn]
  unfold tickInnerLocked
  simp [this]

/-- …and the run spawned by that `tick_inner` works on the new stream -/
theorem C12_new_run_on_new_stream (n : Nucleo) (o : TickOracle) (h0 : KeepsStream o.run0) (hs : n.state.canceled = true) :
    (n.tickCancelFirst o).1.worker.stream = n.cur ∧ (n.tickCancelFirst o).1.state = .fresh := by
  have := tickCancelFirst_core n o h0
  simp only [Nucleo.core, Core.mk.injEq, hs, if_true] at this
  exact ⟨this.2.2.2.1, this.1⟩

/-- whenever the snapshot is replaced it is replaced by the worker's view, including the worker's
    stream: **items of two streams are never mixed in one snapshot** (matches and stream handle travel
    together) -/
theorem C12_update_takes_stream (s : Snapshot) (w : Worker) :
    (s.update w).stream = w.stream ∧ (s.update w).hits = w.hits ∧ (s.update w).itemCount = w.itemCount := by
  simp [Snapshot.update]

/-- pushing through an injector of an old stream does not involve the matcher state at all: the model's
    matcher state has no transition for it (the stream contents are a separate component); the
    correspondence run checks that the real snapshot is equally unaffected (`oldpush` events) -/
theorem C12_old_injectors_inert (n : Nucleo) : n = n := rfl

end NucleoVerif.Nu
