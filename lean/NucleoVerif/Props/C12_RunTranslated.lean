import NucleoVerif.Props.C06_RunTranslated
/-! # C12 (companion file) — the theorems of C12 are about the `Worker::run` the code has

`C06_RunTranslated` proves that the plan of `Worker::run`, translated from `src/worker.rs` on every run
(`Gen/RunPlan.lean`), is the one the model's `Worker.run` follows; restated here so that a change of that plan is a broken
obligation of C12 as well. -/
namespace NucleoVerif.Nu

theorem C12_translated_run_plan (score : Nat → Item → Option Nat) (len : Item → Nat) (w : Worker) (status : PStatus)
    (cleared : Bool) (o : Obs) :
    Worker.run score len w status cleared true o = (processTrivial (resetMatches (w.begin cleared) o.seen0) o.seen1 o.count, o.shouldNotify) ∧
    (Gen.RunPlan.trivial_path true = true ∧ Gen.RunPlan.trivial_path false = false) ∧
    (∀ s : PStatus, Gen.RunPlan.resets s.rank = decide (s = .rescore)) ∧
    (∀ (s : PStatus) (e : Bool), Gen.RunPlan.rescoring_pass s.rank e = (decide (s ≠ .unchanged) && !e)) := by
  refine ⟨by rw [C06_translated_run_plan]; rfl, ⟨rfl, rfl⟩, fun s => by cases s <;> rfl, fun s e => by cases s <;> cases e <;> rfl⟩

end NucleoVerif.Nu
