import NucleoVerif.Props.C19
/-! # C13 — no lost wake-up

The full property is **false** for the code (finding K2): `C13_lost_wakeup_witness` exhibits the
schedule in the model, and the correspondence run replays it on the real `Nucleo` with the
run parked at the `run.end` yield point.  What *is* a theorem: whenever `tick` reports
`running`, it leaves `should_notify` armed, so every run that reads the flag after the tick
has returned does notify (`C13_partial`). -/
namespace NucleoVerif.Nu

theorem tickInnerLocked_armed (n : Nucleo) (st : PStatus) (k : Nat)
    (h : (tickInnerLocked n false st k).2.running = true) : (tickInnerLocked n false st k).1.shouldNotify = true := by
  unfold tickInnerLocked at *
  split
  · simp
  · rename_i hr; simp [hr] at h

/-- **whenever `tick` returns with `running` set, the notification flag is armed** when it returns -/
theorem C13_partial (n : Nucleo) (o : TickOracle) (h : (n.tick o).2.running = true) :
    (n.tick o).1.shouldNotify = true := by
  unfold Nucleo.tick at *
  simp only at *
  split at h
  · rename_i hc
    simp only [hc, if_true] at *
    unfold Nucleo.tickSecond at *
    split
    · rename_i hl; simp only [hl, if_true] at h; exact tickInnerLocked_armed _ _ _ h
    · rfl
  · rename_i hc
    simp only [hc, Bool.false_eq_true, if_false] at *
    unfold Nucleo.tickPlain at *
    split
    · rfl
    · rename_i hp; simp only [hp, if_false] at h; exact tickInnerLocked_armed _ _ _ h

/-- a run notifies exactly when the value of `should_notify` *it read* was true (and it was not
    cancelled): so a run that reads the flag after such a tick has returned calls `notify` -/
theorem run_notifies (score : Nat → Item → Option Nat) (len : Item → Nat) (w : Worker) (st : PStatus) (cl : Bool) (o : Obs)
    (hn : o.shouldNotify = true) : (w.run score len st cl true o).2 = true := by
  simp [Worker.run, hn]

/-- **the lost wake-up (finding K2)**: first tick of a fresh matcher, the spawned run reads
    `should_notify` (still false) and has not released the worker lock yet when the tick's second
    lock attempt times out; the tick re-arms the flag and reports `running`, the run ends silently -/
theorem C13_lost_wakeup_witness :
    let o : TickOracle := { count1 := 0, count2 := 0, lock1 := false, lock2 := false, run0 := id, run1 := id }
    let r := Nucleo.new.tick o
    -- the value of should_notify between the two tick_inner calls, which is what the run reads
    let flagReadByRun := ((({ Nucleo.new with shouldNotify := false } : Nucleo).tickCancelFirst o).1).shouldNotify
    let obs : Obs := { seen0 := fun _ => none, seen1 := fun _ => none, count := 0, inFlightOrder := id,
                       sawCancel := fun _ => false, sortCanceled := false, shouldNotify := flagReadByRun }
    r.2.running = true ∧ flagReadByRun = false ∧
    (r.1.worker.run (fun _ _ => none) (fun _ => 0) .unchanged true true obs).2 = false := by
  decide

end NucleoVerif.Nu
