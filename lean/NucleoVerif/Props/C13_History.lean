import NucleoVerif.Props.C13
import NucleoVerif.Props.C20
/-! # C13 (companion file) — outside a tick, a run in flight always finds the flag armed

The property is false as stated (finding K2: a run can read `should_notify` *inside* the window in which a tick has
cleared the flag and not yet re-armed it).  What holds for every history: whenever a background run is in flight
*between* ticks, `should_notify` is armed — so a run that reads the flag while no tick is executing calls `notify`,
unless it was cancelled (and then the cancelling tick has spawned its successor).  Together with `C13_lost_wakeup_witness`
this pins the defect to that one window. -/
namespace NucleoVerif.Nu

theorem tickInnerLocked_pending_running (m : Nucleo) (hp : m.pending = none) (c : Bool) (st : PStatus) (k : Nat)
    (h : (tickInnerLocked m c st k).1.pending.isSome = true) : (tickInnerLocked m c st k).2.running = true := by
  unfold tickInnerLocked at *
  split
  · rfl
  · rename_i hh
    simp only [hh, Bool.false_eq_true, if_false] at h
    rw [hp] at h; cases h

/-- after a tick, a run is in flight exactly when the tick said `running` -/
theorem tick_pending_running (n : Nucleo) (o : TickOracle) (h : (n.tick o).1.pending.isSome = true) :
    (n.tick o).2.running = true := by
  unfold Nucleo.tick at *
  simp only at *
  split
  · rename_i hc
    simp only [hc, if_true] at h
    unfold Nucleo.tickSecond at *
    split
    · rename_i hl
      simp only [hl, if_true] at h
      exact tickInnerLocked_pending_running _ (joinRun_fields _ _).2.2.2.1 _ _ _ h
    · rfl
  · rename_i hc
    simp only [hc, Bool.false_eq_true, if_false] at h
    unfold Nucleo.tickPlain at *
    split
    · rfl
    · rename_i hp
      simp only [hp, if_false] at h
      exact tickInnerLocked_pending_running _ (joinRun_fields _ _).2.2.2.1 _ _ _ h

/-- **between ticks, a run in flight finds the flag armed** — after every history of injector(), clone, drop, reparse,
    restart(true|false) and tick events, with arbitrary lock outcomes and run effects -/
theorem C13_armed_between_ticks (evs : List Ev) :
    (evs.foldl applyEv Nucleo.new).pending.isSome = true → (evs.foldl applyEv Nucleo.new).shouldNotify = true := by
  have step : ∀ (n : Nucleo) (e : Ev), (n.pending.isSome = true → n.shouldNotify = true) →
      ((applyEv n e).pending.isSome = true → (applyEv n e).shouldNotify = true) := by
    intro n e ih
    cases e with
    | inj k => exact ih
    | clone a b =>
      have hf : (n.cloneInjector a b).pending = n.pending ∧ (n.cloneInjector a b).shouldNotify = n.shouldNotify := by
        unfold Nucleo.cloneInjector; split <;> exact ⟨rfl, rfl⟩
      show (n.cloneInjector a b).pending.isSome = true → (n.cloneInjector a b).shouldNotify = true
      rw [hf.1, hf.2]; exact ih
    | drop k => exact ih
    | restart c => exact ih
    | reparse p s => exact ih
    | tick o => exact fun h => C13_partial n o (tick_pending_running n o h)
  have all : ∀ (l : List Ev) (n : Nucleo), (n.pending.isSome = true → n.shouldNotify = true) →
      ((l.foldl applyEv n).pending.isSome = true → (l.foldl applyEv n).shouldNotify = true) := by
    intro l
    induction l with
    | nil => intro n h; exact h
    | cons e es ih => intro n h; simp only [List.foldl_cons]; exact ih _ (step n e h)
  exact all evs Nucleo.new (fun h => by simp [Nucleo.new] at h)

/-- a run calls `notify` exactly when it was not cancelled and the value of `should_notify` it read was true -/
theorem run_notifies_iff (score : Nat → Item → Option Nat) (len : Item → Nat) (w : Worker) (st : PStatus) (cl pe : Bool) (o : Obs) :
    (w.run score len st cl pe o).2 = true ↔ o.shouldNotify = true ∧ (w.run score len st cl pe o).1.wasCanceled = false := by
  unfold Worker.run
  by_cases hpe : pe = true
  · simp only [hpe, if_true]
    rw [(processTrivial_fields _ _ _).2.2, (resetMatches_fields _ _).2.2, (begin_fields w cl).2.2]
    simp
  · simp only [hpe, Bool.false_eq_true, if_false]
    unfold Worker.finish
    split
    · simp
    · have hs := scorePass_fields score (w.begin cl) st o
      simp only
      rw [hs.2.2, (begin_fields w cl).2.2]
      simp

/-- **so, after every history, a run in flight that reads `should_notify` while no tick is executing and is not cancelled
    does call `notify`** -/
theorem C13_notified_outside_ticks (score : Nat → Item → Option Nat) (len : Item → Nat) (evs : List Ev) (p : Pending) (pe : Bool) (o : Obs)
    (hp : (evs.foldl applyEv Nucleo.new).pending = some p)
    (hread : o.shouldNotify = (evs.foldl applyEv Nucleo.new).shouldNotify)
    (hnc : ((evs.foldl applyEv Nucleo.new).worker.run score len p.status p.cleared pe o).1.wasCanceled = false) :
    ((evs.foldl applyEv Nucleo.new).worker.run score len p.status p.cleared pe o).2 = true := by
  rw [run_notifies_iff]
  exact ⟨by rw [hread]; exact C13_armed_between_ticks evs (by rw [hp]; rfl), hnc⟩

/-- non-vacuity: a first tick whose second lock attempt times out leaves a run in flight -/
example : ([Ev.tick { count1 := 0, count2 := 0, lock1 := false, lock2 := false, run0 := id, run1 := id }].foldl applyEv Nucleo.new).pending.isSome = true := by
  decide

end NucleoVerif.Nu
