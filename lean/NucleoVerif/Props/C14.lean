import NucleoVerif.Model.Pattern
import NucleoVerif.Props.C16
/-! # C14 — pattern text is parsed by one grammar regardless of the characters involved -/
namespace NucleoVerif
open Gen

/-! ## markers -/

/-- `!` negates, `\!` is a literal `!` -/
theorem C14_marker_negation (seg : Seg) (r : List Nat) (case : CaseMatching) (norm : Normalization) :
    (parseAtom seg (33 :: r) case norm).negative = true ∧
    (parseAtom seg (92 :: 33 :: r) case norm).negative = false := by
  simp [parseAtom]

/-- `^` = prefix, `'` = substring, `$` suffix = postfix (exact when combined), `!` turns fuzzy into substring -/
theorem C14_marker_kinds (seg : Seg) (case : CaseMatching) (norm : Normalization) :
    (parseAtom seg [94, 97] case norm).kind = .prefix ∧ (parseAtom seg [39, 97] case norm).kind = .substring ∧
    (parseAtom seg [97, 36] case norm).kind = .postfix ∧ (parseAtom seg [94, 97, 36] case norm).kind = .exact ∧
    (parseAtom seg [39, 97, 36] case norm).kind = .exact ∧ (parseAtom seg [33, 97] case norm).kind = .substring ∧
    (parseAtom seg [33, 94, 97] case norm).kind = .prefix ∧ (parseAtom seg [33, 97, 36] case norm).kind = .postfix ∧
    (parseAtom seg [92, 94, 97] case norm).kind = .fuzzy ∧ (parseAtom seg [92, 39, 97] case norm).kind = .fuzzy ∧
    (parseAtom seg [97, 92, 36] case norm).kind = .fuzzy := by
  simp [parseAtom, endsWith, dropLast1, dropLast2, newInner]

/-! ## the escape grammar: splitting and escaped spaces -/

def escSpaces : List Nat → List Nat
  | [] => []
  | c :: r => if c = 32 then 92 :: 32 :: escSpaces r else c :: escSpaces r

def isMarker (c : Nat) : Bool := c = 33 || c = 94 || c = 39

/-- the escaped form of a literal text -/
def escape (t : List Nat) : List Nat :=
  (if (t.head?.map isMarker).getD false then [92] else []) ++
  (if t.getLast? = some 36 then escSpaces t.dropLast ++ [92, 36] else escSpaces t)

structure Escapable (t : List Nat) : Prop where
  nonempty : t ≠ []
  ws : ∀ c ∈ t, isWs c = true → c = 32
  noEscMarker : ∀ m r, t = 92 :: m :: r → isMarker m = false

theorem escSpaces_ws (t : List Nat) (hws : ∀ c ∈ t, isWs c = true → c = 32) :
    ∀ pre c post, escSpaces t = pre ++ c :: post → isWs c = true → ∃ pre', pre = pre' ++ [92] := by
  induction t with
  | nil => intro pre c post h; simp [escSpaces] at h
  | cons x xs ih =>
    intro pre c post h hw
    have ih' := ih (fun c hc => hws c (List.mem_cons_of_mem _ hc))
    simp only [escSpaces] at h
    split at h
    · -- x = 32: escaped text starts with 92, 32
      cases pre with
      | nil => simp at h; have := h.1; subst this; simp [isWs] at hw
      | cons p ps =>
        simp only [List.cons_append, List.cons.injEq] at h
        cases ps with
        | nil => exact ⟨[], by simp [h.1]⟩
        | cons q qs =>
          simp only [List.cons_append, List.cons.injEq] at h
          obtain ⟨pre', hp⟩ := ih' qs c post h.2.2 hw
          exact ⟨p :: q :: pre', by simp [hp]⟩
    · rename_i hx
      cases pre with
      | nil =>
        simp at h
        have := hws x (List.mem_cons_self) (by rw [h.1]; exact hw)
        exact absurd this hx
      | cons p ps =>
        simp only [List.cons_append, List.cons.injEq] at h
        obtain ⟨pre', hp⟩ := ih' ps c post h.2 hw
        exact ⟨p :: pre', by simp [hp]⟩
theorem patternAtomsGo_single : ∀ (s : List Nat) (saw : Bool) (cur : List Nat),
    (∀ pre c post, s = pre ++ c :: post → isWs c = true →
        (pre = [] ∧ saw = true) ∨ (∃ pre', pre = pre' ++ [92])) →
    patternAtomsGo s saw cur = [cur.reverse ++ s] := by
  intro s
  induction s with
  | nil => intro saw cur _; simp [patternAtomsGo]
  | cons c cs ih =>
    intro saw cur h
    unfold patternAtomsGo
    have hc : ¬ (isWs c = true ∧ (!saw) = true) := by
      intro ⟨hw, hs⟩
      rcases h [] c cs rfl hw with ⟨_, hsaw⟩ | ⟨pre', hp⟩
      · simp [hsaw] at hs
      · simp at hp
    simp only [hc, if_false]
    rw [ih (decide (c = 92)) (c :: cur)]
    · simp
    · intro pre d post hs hw
      rcases h (c :: pre) d post (by simp [hs]) hw with ⟨hp, _⟩ | ⟨pre', hp⟩
      · simp at hp
      · cases pre with
        | nil =>
          left
          refine ⟨rfl, ?_⟩
          cases pre' with
          | nil => simp at hp; simp [hp]
          | cons y ys => simp at hp
        | cons x xs =>
          right
          cases pre' with
          | nil => simp at hp
          | cons y ys =>
            simp only [List.cons_append, List.cons.injEq] at hp
            exact ⟨ys, hp.2⟩

theorem escSpaces_head (t : List Nat) : ∀ d r, escSpaces t = d :: r → d ≠ 32 := by
  intro d r h
  cases t with
  | nil => simp [escSpaces] at h
  | cons c cs =>
    simp only [escSpaces] at h
    split at h
    · simp at h; omega
    · simp at h; omega

theorem replaceEscSpace_escSpaces : ∀ t : List Nat, replaceEscSpace (escSpaces t) = t := by
  intro t
  induction t with
  | nil => rfl
  | cons c r ih =>
    simp only [escSpaces]
    split
    · rename_i h; subst h
      simp [replaceEscSpace, ih]
    · rename_i h
      cases hr : escSpaces r with
      | nil =>
        rw [hr] at ih
        simp only [replaceEscSpace] at ih ⊢
        rw [← ih]
      | cons d r' =>
        rw [hr] at ih
        have hd := escSpaces_head r d r' hr
        simp only [replaceEscSpace]
        have : ¬ (c = 92 ∧ d = 32) := fun hh => hd hh.2
        simp only [this, if_false, ih]

/-- **splitting happens only at unescaped whitespace**: a text whose only whitespace is U+0020 is,
    with its spaces escaped, a single atom -/
theorem C14_escaped_single_atom (t : List Nat) (hws : ∀ c ∈ t, isWs c = true → c = 32) :
    patternAtoms (escSpaces t) = [escSpaces t] := by
  unfold patternAtoms
  rw [patternAtomsGo_single]
  · simp
  · intro pre c post h hw
    exact Or.inr (escSpaces_ws t hws pre c post h hw)

/-- whitespace that is not escaped splits: two words give two atoms -/
example : patternAtoms [97, 32, 98] = [[97], [98]] := by decide
example : patternAtoms [97, 92, 32, 98] = [[97, 92, 32, 98]] := by decide
example : patternAtoms [97, 0x3000, 98] = [[97], [98]] := by decide   -- any `char::is_whitespace`

/-! ## smart case / smart normalization / stored case-folded -/

theorem isUpper_ascii (c : Nat) (h : c < 128) : isUpper c = decide (65 ≤ c ∧ c ≤ 90) := by
  have hb : allUpTo (fun c => isUpper c == decide (65 ≤ c ∧ c ≤ 90)) 128 = true := by decide +kernel
  have := allUpTo_spec hb c h
  simpa using this

end NucleoVerif
