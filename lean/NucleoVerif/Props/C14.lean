import NucleoVerif.Model.Pattern
import NucleoVerif.Props.C16
/-! # C14 — pattern text is parsed by one grammar regardless of the characters involved -/
namespace NucleoVerif
open Gen

/-! ## markers -/

/-- `!` negates, `\!` is a literal `!` -/
theorem C14_marker_negation (seg : Seg) (r : List Nat) (case : CaseMatching) (norm : Normalization) :
    (parseAtom seg (33 :: r) case norm).negative = true ∧
    (parseAtom seg (92 :: 33 :: r) case norm).negative = false := by
  simp [parseAtom, stripNeg]

/-- `^` = prefix, `'` = substring, `$` suffix = postfix (exact when combined), `!` turns fuzzy into substring -/
theorem C14_marker_kinds (seg : Seg) (case : CaseMatching) (norm : Normalization) :
    (parseAtom seg [94, 97] case norm).kind = .prefix ∧ (parseAtom seg [39, 97] case norm).kind = .substring ∧
    (parseAtom seg [97, 36] case norm).kind = .postfix ∧ (parseAtom seg [94, 97, 36] case norm).kind = .exact ∧
    (parseAtom seg [39, 97, 36] case norm).kind = .exact ∧ (parseAtom seg [33, 97] case norm).kind = .substring ∧
    (parseAtom seg [33, 94, 97] case norm).kind = .prefix ∧ (parseAtom seg [33, 97, 36] case norm).kind = .postfix ∧
    (parseAtom seg [92, 94, 97] case norm).kind = .fuzzy ∧ (parseAtom seg [92, 39, 97] case norm).kind = .fuzzy ∧
    (parseAtom seg [97, 92, 36] case norm).kind = .fuzzy := by
  simp [parseAtom, stripNeg, stripKind, stripDollar, endsWith, dropLast1, dropLast2, newInner]

/-! ## the escape grammar: splitting and escaped spaces -/

def escSpaces : List Nat → List Nat
  | [] => []
  | c :: r => if c = 32 then 92 :: 32 :: escSpaces r else c :: escSpaces r

def isMarker (c : Nat) : Bool := c = 33 || c = 94 || c = 39

/-- the escaped form of a literal text -/
def escape (t : List Nat) : List Nat :=
  (if (t.head?.map isMarker).getD false then [92] else []) ++
  (if t.getLast? = some 36 then escSpaces t.dropLast ++ [92, 36] else escSpaces t)

structure Escapable (t : List Nat) : Prop where
  nonempty : t ≠ []
  ws : ∀ c ∈ t, isWs c = true → c = 32
  noEscMarker : ∀ m r, t = 92 :: m :: r → isMarker m = false

theorem escSpaces_ws (t : List Nat) (hws : ∀ c ∈ t, isWs c = true → c = 32) :
    ∀ pre c post, escSpaces t = pre ++ c :: post → isWs c = true → ∃ pre', pre = pre' ++ [92] := by
  induction t with
  | nil => intro pre c post h; simp [escSpaces] at h
  | cons x xs ih =>
    intro pre c post h hw
    have ih' := ih (fun c hc => hws c (List.mem_cons_of_mem _ hc))
    simp only [escSpaces] at h
    split at h
    · -- x = 32: escaped text starts with 92, 32
      cases pre with
      | nil => simp at h; have := h.1; subst this; simp [isWs] at hw
      | cons p ps =>
        simp only [List.cons_append, List.cons.injEq] at h
        cases ps with
        | nil => exact ⟨[], by simp [h.1]⟩
        | cons q qs =>
          simp only [List.cons_append, List.cons.injEq] at h
          obtain ⟨pre', hp⟩ := ih' qs c post h.2.2 hw
          exact ⟨p :: q :: pre', by simp [hp]⟩
    · rename_i hx
      cases pre with
      | nil =>
        simp at h
        have := hws x (List.mem_cons_self) (by rw [h.1]; exact hw)
        exact absurd this hx
      | cons p ps =>
        simp only [List.cons_append, List.cons.injEq] at h
        obtain ⟨pre', hp⟩ := ih' ps c post h.2 hw
        exact ⟨p :: pre', by simp [hp]⟩
theorem patternAtomsGo_single : ∀ (s : List Nat) (saw : Bool) (cur : List Nat),
    (∀ pre c post, s = pre ++ c :: post → isWs c = true →
        (pre = [] ∧ saw = true) ∨ (∃ pre', pre = pre' ++ [92])) →
    patternAtomsGo s saw cur = [cur.reverse ++ s] := by
  intro s
  induction s with
  | nil => intro saw cur _; simp [patternAtomsGo]
  | cons c cs ih =>
    intro saw cur h
    unfold patternAtomsGo
    have hc : ¬ (isWs c = true ∧ (!saw) = true) := by
      intro ⟨hw, hs⟩
      rcases h [] c cs rfl hw with ⟨_, hsaw⟩ | ⟨pre', hp⟩
      · simp [hsaw] at hs
      · simp at hp
    simp only [hc, if_false]
    rw [ih (decide (c = 92)) (c :: cur)]
    · simp
    · intro pre d post hs hw
      rcases h (c :: pre) d post (by simp [hs]) hw with ⟨hp, _⟩ | ⟨pre', hp⟩
      · simp at hp
      · cases pre with
        | nil =>
          left
          refine ⟨rfl, ?_⟩
          cases pre' with
          | nil => simp at hp; simp [hp]
          | cons y ys => simp at hp
        | cons x xs =>
          right
          cases pre' with
          | nil => simp at hp
          | cons y ys =>
            simp only [List.cons_append, List.cons.injEq] at hp
            exact ⟨ys, hp.2⟩

theorem escSpaces_head (t : List Nat) : ∀ d r, escSpaces t = d :: r → d ≠ 32 := by
  intro d r h
  cases t with
  | nil => simp [escSpaces] at h
  | cons c cs =>
    simp only [escSpaces] at h
    split at h
    · simp at h; omega
    · simp at h; omega

theorem replaceEscSpace_escSpaces : ∀ t : List Nat, replaceEscSpace (escSpaces t) = t := by
  intro t
  induction t with
  | nil => rfl
  | cons c r ih =>
    simp only [escSpaces]
    split
    · rename_i h; subst h
      simp [replaceEscSpace, ih]
    · rename_i h
      cases hr : escSpaces r with
      | nil =>
        rw [hr] at ih
        simp only [replaceEscSpace] at ih ⊢
        rw [← ih]
      | cons d r' =>
        rw [hr] at ih
        have hd := escSpaces_head r d r' hr
        simp only [replaceEscSpace]
        have : ¬ (c = 92 ∧ d = 32) := fun hh => hd hh.2
        simp only [this, if_false, ih]

/-- **splitting happens only at unescaped whitespace**: a text whose only whitespace is U+0020 is,
    with its spaces escaped, a single atom -/
theorem C14_escaped_single_atom (t : List Nat) (hws : ∀ c ∈ t, isWs c = true → c = 32) :
    patternAtoms (escSpaces t) = [escSpaces t] := by
  unfold patternAtoms
  rw [patternAtomsGo_single]
  · simp
  · intro pre c post h hw
    exact Or.inr (escSpaces_ws t hws pre c post h hw)

/-- whitespace that is not escaped splits: two words give two atoms -/
example : patternAtoms [97, 32, 98] = [[97], [98]] := by decide
example : patternAtoms [97, 92, 32, 98] = [[97, 92, 32, 98]] := by decide
example : patternAtoms [97, 0x3000, 98] = [[97], [98]] := by decide   -- any `char::is_whitespace`

/-! ## smart case / smart normalization / stored case-folded -/

theorem isUpper_ascii (c : Nat) (h : c < 128) : isUpper c = decide (65 ≤ c ∧ c ≤ 90) := by
  have hb : allUpTo (fun c => isUpper c == decide (65 ≤ c ∧ c ≤ 90)) 128 = true := by decide +kernel
  have := allUpTo_spec hb c h
  simpa using this


/-! ## the literal round trip (ASCII text): escaped form ↦ one fuzzy atom carrying the text -/

/-- every whitespace character is preceded by a backslash (`saw`: the character in front of the list is one) -/
def wsOK : List Nat → Bool → Bool
  | [], _ => true
  | c :: cs, saw => (!(isWs c) || saw) && wsOK cs (decide (c = 92))

theorem patternAtomsGo_wsOK : ∀ (s : List Nat) (saw : Bool) (cur : List Nat), wsOK s saw = true →
    patternAtomsGo s saw cur = [cur.reverse ++ s] := by
  intro s
  induction s with
  | nil => intro saw cur _; simp [patternAtomsGo]
  | cons c cs ih =>
    intro saw cur h
    simp only [wsOK, Bool.and_eq_true, Bool.or_eq_true, Bool.not_eq_true'] at h
    unfold patternAtomsGo
    have hc : ¬ (isWs c = true ∧ (!saw) = true) := by
      intro ⟨hw, hs⟩
      rcases h.1 with h1 | h1
      · rw [hw] at h1; cases h1
      · rw [h1] at hs; cases hs
    simp only [hc, if_false]
    rw [ih _ _ h.2]
    simp

theorem wsOK_noWs : ∀ (b : List Nat) (saw : Bool), (∀ c ∈ b, isWs c = false) → wsOK b saw = true := by
  intro b
  induction b with
  | nil => intro _ _; rfl
  | cons c cs ih =>
    intro saw h
    simp only [wsOK, h c (by simp), Bool.not_false, Bool.true_or, Bool.true_and]
    exact ih _ (fun d hd => h d (by simp [hd]))

theorem wsOK_append_noWs : ∀ (a b : List Nat) (saw : Bool), (∀ c ∈ b, isWs c = false) → wsOK (a ++ b) saw = wsOK a saw := by
  intro a
  induction a with
  | nil => intro b saw h; simp only [List.nil_append, wsOK]; exact wsOK_noWs b saw h
  | cons c cs ih => intro b saw h; simp only [List.cons_append, wsOK, ih b _ h]

theorem wsOK_escSpaces : ∀ (u : List Nat) (saw : Bool), (∀ c ∈ u, isWs c = true → c = 32) → wsOK (escSpaces u) saw = true := by
  intro u
  induction u with
  | nil => intro _ _; rfl
  | cons c cs ih =>
    intro saw h
    have ih' := fun s => ih s (fun d hd => h d (by simp [hd]))
    simp only [escSpaces]
    split
    · rename_i hc
      have h92 : isWs 92 = false := by decide
      simp [wsOK, ih', h92]
    · rename_i hc
      have : isWs c = false := by
        cases hw : isWs c with
        | false => rfl
        | true => exact absurd (h c (by simp) hw) hc
      simp only [wsOK, this, Bool.not_false, Bool.true_or, Bool.true_and, ih']

theorem getLast?_escSpaces : ∀ (u : List Nat), (escSpaces u).getLast? = u.getLast? := by
  intro u
  induction u with
  | nil => rfl
  | cons c cs ih =>
    simp only [escSpaces]
    split
    · rename_i hc
      subst hc
      cases cs with
      | nil => simp [escSpaces]
      | cons d ds =>
        have : escSpaces (d :: ds) ≠ [] := by simp only [escSpaces]; split <;> simp
        rw [List.getLast?_cons_cons, List.getLast?_cons_cons] at *
        cases he : escSpaces (d :: ds) with
        | nil => exact absurd he this
        | cons e es =>
          rw [he] at ih
          rw [List.getLast?_cons_cons, ih]
    · cases cs with
      | nil => simp [escSpaces]
      | cons d ds =>
        have : escSpaces (d :: ds) ≠ [] := by simp only [escSpaces]; split <;> simp
        cases he : escSpaces (d :: ds) with
        | nil => exact absurd he this
        | cons e es =>
          rw [he] at ih
          rw [List.getLast?_cons_cons, List.getLast?_cons_cons, ih]

theorem endsWith_single (l : List Nat) (x : Nat) : endsWith l [x] = true ↔ l.getLast? = some x := by
  unfold endsWith
  induction l with
  | nil => simp
  | cons a t ih =>
    cases t with
    | nil => simp
    | cons b t' =>
      rw [List.getLast?_cons_cons, ← ih]
      simp only [List.length_cons, List.length_nil, Bool.and_eq_true, decide_eq_true_eq, beq_iff_eq]
      constructor
      · intro ⟨_, h⟩
        refine ⟨by omega, ?_⟩
        have e : t'.length + 1 + 1 - (0 + 1) = (t'.length + 1 - (0 + 1)) + 1 := by omega
        rw [e, List.drop_succ_cons] at h
        exact h
      · intro ⟨_, h⟩
        refine ⟨by omega, ?_⟩
        have e : t'.length + 1 + 1 - (0 + 1) = (t'.length + 1 - (0 + 1)) + 1 := by omega
        rw [e, List.drop_succ_cons]
        exact h

theorem endsWith_two_last (l : List Nat) (x y : Nat) (h : endsWith l [x, y] = true) : l.getLast? = some y := by
  unfold endsWith at h
  simp only [List.length_cons, List.length_nil, Bool.and_eq_true, decide_eq_true_eq, beq_iff_eq] at h
  have : l = l.take (l.length - 2) ++ [x, y] := by
    conv => lhs; rw [← List.take_append_drop (l.length - 2) l]
    rw [show l.length - (0 + 1 + 1) = l.length - 2 from rfl] at h
    rw [h.2]
  rw [this]; simp

theorem endsWith_append (a s : List Nat) : endsWith (a ++ s) s = true := by
  unfold endsWith
  simp

/-- the escaped form without the leading marker escape -/
def bodyOf (t : List Nat) : List Nat :=
  if t.getLast? = some 36 then escSpaces t.dropLast ++ [92, 36] else escSpaces t

theorem escape_eq (t : List Nat) : escape t = (if (t.head?.map isMarker).getD false then [92] else []) ++ bodyOf t := rfl

theorem strip_plain (body : List Nat) (h1 : body.head? ≠ some 33) (h2 : body.head? ≠ some 94) (h3 : body.head? ≠ some 39)
    (h4 : ∀ m r, body = 92 :: m :: r → m ≠ 33 ∧ m ≠ 94 ∧ m ≠ 39) :
    stripNeg body = (false, body) ∧ stripKind body = (.fuzzy, body) := by
  constructor
  · unfold stripNeg
    split
    · simp at h1
    · rename_i r; exact absurd rfl (h4 33 r rfl).1
    · rfl
  · unfold stripKind
    split
    · simp at h2
    · simp at h3
    · rename_i r; exact absurd rfl (h4 94 r rfl).2.1
    · rename_i r; exact absurd rfl (h4 39 r rfl).2.2
    · rfl

/-- how an escaped text starts -/
theorem escSpaces_cons (u : List Nat) (x : Nat) (r : List Nat) (h : escSpaces u = x :: r) :
    (∃ u', u = 32 :: u' ∧ x = 92 ∧ r = 32 :: escSpaces u') ∨ (∃ u', u = x :: u' ∧ x ≠ 32 ∧ r = escSpaces u') := by
  cases u with
  | nil => simp [escSpaces] at h
  | cons c cs =>
    simp only [escSpaces] at h
    split at h
    · rename_i hc
      left
      simp only [List.cons.injEq] at h
      exact ⟨cs, by rw [hc], h.1.symm, h.2.symm⟩
    · rename_i hc
      right
      simp only [List.cons.injEq] at h
      exact ⟨cs, by rw [h.1], by rw [← h.1]; exact hc, h.2.symm⟩

theorem isMarker_iff (m : Nat) : isMarker m = true ↔ m = 33 ∨ m = 94 ∨ m = 39 := by
  simp [isMarker, or_assoc]

/-- for an escapable text that does not start with a marker, the escaped body never looks like a marker or an
    escaped marker -/
theorem escSpaces_plain (u : List Nat) (hm : (u.head?.map isMarker).getD false = false)
    (hne : ∀ m r, u = 92 :: m :: r → isMarker m = false) :
    (∀ x r, escSpaces u = x :: r → isMarker x = false) ∧
    (∀ m r, escSpaces u = 92 :: m :: r → isMarker m = false) := by
  constructor
  · intro x r h
    rcases escSpaces_cons u x r h with ⟨u', hu, hx, _⟩ | ⟨u', hu, _, _⟩
    · rw [hx]; decide
    · rw [hu] at hm; simpa using hm
  · intro m r h
    rcases escSpaces_cons u 92 (m :: r) h with ⟨u', hu, _, hr⟩ | ⟨u', hu, _, hr⟩
    · simp only [List.cons.injEq] at hr; rw [hr.1]; decide
    · rcases escSpaces_cons u' m r hr.symm with ⟨u'', hu', hx, _⟩ | ⟨u'', hu', _, _⟩
      · rw [hx]; decide
      · exact hne m u'' (by rw [hu, hu'])

theorem dropLast_cons_of_ne_nil (c : Nat) (rest : List Nat) (h : rest ≠ []) : (c :: rest).dropLast = c :: rest.dropLast := by
  cases rest with
  | nil => exact absurd rfl h
  | cons d ds => rfl

/-- stages 1 and 2 of `Atom::parse` on an escaped literal: no negation, kind fuzzy, and what is left is the
    escaped body -/
theorem stage12 (t : List Nat) (he : Escapable t) :
    (stripNeg (escape t)).1 = false ∧ stripKind (stripNeg (escape t)).2 = (.fuzzy, bodyOf t) := by
  rw [escape_eq]
  cases t with
  | nil => exact absurd rfl he.nonempty
  | cons c0 rest =>
    by_cases hmk : isMarker c0 = true
    · -- the text starts with a marker: `\` + marker + …
      have hc32 : c0 ≠ 32 := by intro e; rw [e] at hmk; revert hmk; decide
      have hc36 : c0 ≠ 36 := by intro e; rw [e] at hmk; revert hmk; decide
      have hbody : ∃ tail, bodyOf (c0 :: rest) = c0 :: tail := by
        unfold bodyOf
        split
        · rename_i hl
          have hr : rest ≠ [] := by
            intro e; subst e; simp at hl; exact hc36 hl
          rw [dropLast_cons_of_ne_nil c0 rest hr]
          simp only [escSpaces, hc32, if_false, List.cons_append]
          exact ⟨_, rfl⟩
        · simp only [escSpaces, hc32, if_false]
          exact ⟨_, rfl⟩
      obtain ⟨tail, hb⟩ := hbody
      simp only [List.head?_cons, Option.map_some, Option.getD_some, hmk, if_true, hb, List.cons_append, List.nil_append]
      rcases (isMarker_iff c0).mp hmk with e | e | e <;> subst e <;> simp [stripNeg, stripKind]
    · have hmk' : isMarker c0 = false := by simpa using hmk
      simp only [List.head?_cons, Option.map_some, Option.getD_some, hmk', Bool.false_eq_true, if_false, List.nil_append]
      -- the body never looks like a marker or an escaped marker
      have plain : (∀ x r, bodyOf (c0 :: rest) = x :: r → isMarker x = false) ∧
          (∀ m r, bodyOf (c0 :: rest) = 92 :: m :: r → isMarker m = false) := by
        unfold bodyOf
        split
        · rename_i hl
          cases hr : rest with
          | nil =>
            simp only [List.dropLast_singleton, escSpaces, List.nil_append]
            constructor
            · intro x r h; simp only [List.cons.injEq] at h; rw [← h.1]; decide
            · intro m r h; simp only [List.cons.injEq] at h; rw [← h.2.1]; decide
          | cons d ds =>
            have hrne : rest ≠ [] := by rw [hr]; simp
            rw [← hr, dropLast_cons_of_ne_nil c0 rest hrne]
            have pl := escSpaces_plain (c0 :: rest.dropLast) (by simp [hmk'])
              (by
                intro m r h
                simp only [List.cons.injEq] at h
                -- rest.dropLast = m :: r, so rest = m :: r ++ [last]
                have : ∃ r', rest = m :: r' := by
                  cases rest with
                  | nil => exact absurd rfl hrne
                  | cons a as =>
                    cases as with
                    | nil => simp at h
                    | cons b bs =>
                      simp only [List.dropLast_cons_cons, List.cons.injEq] at h
                      exact ⟨b :: bs, by rw [h.2.1]⟩
                obtain ⟨r', hr'⟩ := this
                exact he.noEscMarker m r' (by rw [h.1, hr']))
            cases hes : escSpaces (c0 :: rest.dropLast) with
            | nil => simp only [escSpaces] at hes; split at hes <;> simp at hes
            | cons x r' =>
              simp only [List.cons_append]
              constructor
              · intro y r h; simp only [List.cons.injEq] at h; rw [← h.1]; exact pl.1 x r' hes
              · intro m r h
                simp only [List.cons.injEq] at h
                cases r' with
                | nil => simp only [List.nil_append, List.cons.injEq] at h; rw [← h.2.1]; decide
                | cons m' r'' =>
                  simp only [List.cons_append, List.cons.injEq] at h
                  rw [← h.2.1]
                  exact pl.2 m' r'' (by rw [hes, h.1])
        · exact escSpaces_plain (c0 :: rest) (by simp [hmk']) he.noEscMarker
      have hh : ∀ k, isMarker k = true → (bodyOf (c0 :: rest)).head? ≠ some k := by
        intro k hk e
        cases hb : bodyOf (c0 :: rest) with
        | nil => rw [hb] at e; simp at e
        | cons x r =>
          rw [hb] at e
          simp only [List.head?_cons, Option.some.injEq] at e
          have := plain.1 x r hb
          rw [e, hk] at this; cases this
      have sp := strip_plain (bodyOf (c0 :: rest)) (hh 33 (by decide)) (hh 94 (by decide)) (hh 39 (by decide))
        (by
          intro m r h
          have := plain.2 m r h
          refine ⟨?_, ?_, ?_⟩ <;> (intro e; rw [e] at this; revert this; decide))
      rw [sp.1]
      exact ⟨rfl, sp.2⟩

/-- stage 3: the `$` handling -/
theorem stage3 (t : List Nat) :
    stripDollar .fuzzy (bodyOf t) =
      (.fuzzy, decide (t.getLast? = some 36), escSpaces (if t.getLast? = some 36 then t.dropLast else t)) := by
  unfold bodyOf stripDollar
  by_cases hl : t.getLast? = some 36
  · simp only [hl, if_true, endsWith_append, decide_true]
    simp [dropLast2]
  · simp only [hl, if_false, decide_false]
    have h1 : endsWith (escSpaces t) [92, 36] = false := by
      cases h : endsWith (escSpaces t) [92, 36] with
      | false => rfl
      | true => have := endsWith_two_last _ _ _ h; rw [getLast?_escSpaces] at this; exact absurd this hl
    have h2 : endsWith (escSpaces t) [36] = false := by
      cases h : endsWith (escSpaces t) [36] with
      | false => rfl
      | true => have := (endsWith_single _ _).mp h; rw [getLast?_escSpaces] at this; exact absurd this hl
    simp [h1, h2]

theorem escSpaces_ascii (u : List Nat) (h : ∀ c ∈ u, c < 128) : ∀ c ∈ escSpaces u, c < 128 := by
  induction u with
  | nil => intro c hc; simp [escSpaces] at hc
  | cons x xs ih =>
    intro c hc
    simp only [escSpaces] at hc
    split at hc
    · simp only [List.mem_cons] at hc
      rcases hc with rfl | rfl | hc
      · omega
      · omega
      · exact ih (fun d hd => h d (by simp [hd])) c hc
    · simp only [List.mem_cons] at hc
      rcases hc with rfl | hc
      · exact h c (by simp)
      · exact ih (fun d hd => h d (by simp [hd])) c hc

/-- on ASCII text, building the atom from the escaped text with escape processing is building it from the text
    itself without -/
theorem newInner_escaped_ascii (seg : Seg) (u : List Nat) (hu : ∀ c ∈ u, c < 128) (case : CaseMatching) (norm : Normalization)
    (kind : AtomKind) (ad : Bool) :
    newInner seg (escSpaces u) case norm kind true ad = newInner seg u case norm kind false ad := by
  have h1 : (escSpaces u).all (· < 128) = true := by
    simp only [List.all_eq_true, decide_eq_true_eq]; exact escSpaces_ascii u hu
  have h2 : u.all (· < 128) = true := by
    simp only [List.all_eq_true, decide_eq_true_eq]; exact hu
  unfold newInner
  simp only [h1, h2, if_true, replaceEscSpace_escSpaces, Bool.false_eq_true, if_false]

/-- a literal `$` appended by the `\$` escape is the text's own last character -/
theorem newInner_dollar_ascii (seg : Seg) (u : List Nat) (hu : ∀ c ∈ u, c < 128) (case : CaseMatching) (norm : Normalization)
    (kind : AtomKind) :
    newInner seg u case norm kind false true = newInner seg (u ++ [36]) case norm kind false false := by
  have h1 : (u ++ [36]).all (· < 128) = true := by
    simp only [List.all_eq_true, decide_eq_true_eq, List.mem_append, List.mem_singleton]
    rintro c (hc | rfl)
    · exact hu c hc
    · omega
  have h2 : u.all (· < 128) = true := by
    simp only [List.all_eq_true, decide_eq_true_eq]; exact hu
  unfold newInner
  simp only [h1, h2, if_true, Bool.false_eq_true, if_false]
  cases case <;> simp [asciiLower]

/-- **parsing the escaped form of a literal ASCII text yields exactly one positive fuzzy atom, the atom built
    from that text itself** (no escape processing, no marker) — for every escapable text (non-empty, its only
    whitespace is U+0020, not starting with a backslash followed by a marker: such a text has no escaped form),
    every `CaseMatching` and `Normalization`. -/
theorem C14_literal_roundtrip_ascii (seg : Seg) (t : List Nat) (he : Escapable t) (hasc : ∀ c ∈ t, c < 128)
    (case : CaseMatching) (norm : Normalization) :
    parsePattern seg (escape t) case norm = [newInner seg t case norm .fuzzy false false] := by
  -- one atom
  have hsingle : patternAtoms (escape t) = [escape t] := by
    unfold patternAtoms
    rw [patternAtomsGo_wsOK]
    · simp
    · rw [escape_eq]
      have hbody : ∀ saw, wsOK (bodyOf t) saw = true := by
        intro saw
        unfold bodyOf
        split
        · rw [wsOK_append_noWs _ _ _ (by intro c hc; simp only [List.mem_cons] at hc; rcases hc with rfl | rfl | hc <;> first | decide | simp at hc)]
          exact wsOK_escSpaces _ _ (fun c hc => he.ws c (List.dropLast_subset t hc))
        · exact wsOK_escSpaces _ _ he.ws
      split
      · simp only [List.cons_append, List.nil_append, wsOK, hbody, Bool.and_true]; decide
      · simp only [List.nil_append, hbody]
  have h12 := stage12 t he
  have h3 := stage3 t
  have hatom : parseAtom seg (escape t) case norm = newInner seg t case norm .fuzzy false false := by
    unfold parseAtom
    simp only [h12.1, h12.2, h3, Bool.false_eq_true, false_and, if_false]
    by_cases hl : t.getLast? = some 36
    · simp only [hl, if_true, decide_true]
      have hd : ∀ c ∈ t.dropLast, c < 128 := fun c hc => hasc c (List.dropLast_subset t hc)
      rw [newInner_escaped_ascii seg _ hd, newInner_dollar_ascii seg _ hd]
      have : t.dropLast ++ [36] = t := by
        have h0 := List.dropLast_concat_getLast he.nonempty
        have h1 : t.getLast he.nonempty = 36 := by
          have := List.getLast?_eq_some_getLast he.nonempty
          rw [hl] at this
          exact (Option.some.inj this).symm
        rw [h1] at h0; exact h0
      rw [this]
      cases hh : newInner seg t case norm .fuzzy false false
      rename_i neg _ _ _ _ _
      have : neg = false := by
        have := congrArg Atom.negative hh
        unfold newInner at this
        split at this <;> simpa using this.symm
      rw [this]
    · simp only [hl, if_false, decide_false]
      rw [newInner_escaped_ascii seg _ hasc]
      cases hh : newInner seg t case norm .fuzzy false false
      rename_i neg _ _ _ _ _
      have : neg = false := by
        have := congrArg Atom.negative hh
        unfold newInner at this
        split at this <;> simpa using this.symm
      rw [this]
  unfold parsePattern
  rw [hsingle]
  simp only [List.map_cons, List.map_nil, hatom]
  have hne : (newInner seg t case norm .fuzzy false false).needle.isEmpty = false := by
    have h2 : t.all (· < 128) = true := by
      simp only [List.all_eq_true, decide_eq_true_eq]; exact hasc
    unfold newInner
    simp only [h2, if_true, Bool.false_eq_true, if_false]
    cases t with
    | nil => exact absurd rfl he.nonempty
    | cons c cs => cases case <;> simp
  simp [hne]

/-- with case respected the needle is the text itself -/
theorem C14_literal_needle_ascii (seg : Seg) (t : List Nat) (he : Escapable t) (hasc : ∀ c ∈ t, c < 128) (norm : Normalization) :
    (parsePattern seg (escape t) .respect norm).map (fun a => (a.negative, a.kind, a.needle)) = [(false, .fuzzy, t)] := by
  rw [C14_literal_roundtrip_ascii seg t he hasc]
  have h2 : t.all (· < 128) = true := by
    simp only [List.all_eq_true, decide_eq_true_eq]; exact hasc
  simp [newInner, h2]


/-- the hypotheses are satisfiable and the escaped form is what one expects: `!a $` ↦ `\!a\ \$` ↦ needle `!a $` -/
example : Escapable [33, 97, 32, 36] ∧ escape [33, 97, 32, 36] = [92, 33, 97, 92, 32, 92, 36] ∧
    (parsePattern (fun l => l) (escape [33, 97, 32, 36]) .respect .smart).map (fun a => (a.negative, a.kind, a.needle))
      = [(false, .fuzzy, [33, 97, 32, 36])] := by
  refine ⟨⟨by decide, by decide, by intro m r h; cases h⟩, by decide, by decide⟩

end NucleoVerif
