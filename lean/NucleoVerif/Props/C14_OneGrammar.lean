import NucleoVerif.Props.C14
/-! # C14 (companion file) — both paths of `Atom::new_inner` compute one function

`new_inner` has two bodies: for ASCII text it works on the bytes with `split("\\ ")`, `to_ascii_lowercase` and
`is_ascii_uppercase`; otherwise it walks the grapheme clusters with a `saw_backslash` state machine, the Unicode
case-folding table and the normalization tables.  `C14_one_grammar` shows that they are the same function of the
text's characters (the bytes, resp. the first code points of the clusters): the needle is `replaceEscSpace` of the
characters (every `\ ` becomes a space, every other backslash stays), lower-cased when case is ignored; smart case is
"no upper-case character in it"; smart normalization "no character that normalization would change" (vacuous for
ASCII).  No assumption about the segmentation is needed. -/
namespace NucleoVerif
open Gen

/-- what is stored for a character -/
def caseMap (case : CaseMatching) (c : Nat) : Nat :=
  match case with
  | .ignore => toLower c
  | _ => c

/-- the `ignore_case` flag of an atom whose (unescaped) characters are `l` -/
def icSpec (case : CaseMatching) (l : List Nat) : Bool :=
  match case with
  | .ignore => true
  | .smart => !l.any isUpper
  | .respect => false

/-- the `normalize` flag -/
def nzSpec (case : CaseMatching) (norm : Normalization) (l : List Nat) : Bool :=
  match norm with
  | .smart => l.all (fun c => decide (normalizeLatin (caseMap case c) = caseMap case c))
  | .never => false

/-- **the one function both paths compute**: from the characters `cs` of the atom's text -/
def atomSpec (rep : Rep) (cs : List Nat) (case : CaseMatching) (norm : Normalization) (kind : AtomKind) (escapeWs appendDollar : Bool) : Atom :=
  let l := if escapeWs then replaceEscSpace cs else cs
  { negative := false, kind := kind, needleRep := rep,
    needle := (l.map (caseMap case)) ++ (if appendDollar then [36] else []),
    ignoreCase := icSpec case l, normalize := nzSpec case norm l }

/-! ## facts about the two special characters -/

theorem toLower_92 : toLower 92 = 92 := by rw [C16_fold_ascii 92 (by omega)]; decide
theorem toLower_32 : toLower 32 = 32 := by rw [C16_fold_ascii 32 (by omega)]; decide
theorem isUpper_92 : isUpper 92 = false := by rw [isUpper_ascii 92 (by omega)]; decide
theorem isUpper_32 : isUpper 32 = false := by rw [isUpper_ascii 32 (by omega)]; decide
theorem caseMap_92 (case : CaseMatching) : caseMap case 92 = 92 := by cases case <;> simp [caseMap, toLower_92]
theorem caseMap_32 (case : CaseMatching) : caseMap case 32 = 32 := by cases case <;> simp [caseMap, toLower_32]
theorem latin_fixed_92 (case : CaseMatching) : normalizeLatin (caseMap case 92) = caseMap case 92 := by
  rw [caseMap_92]; exact C16_latin_ascii 92 (by omega)
theorem latin_fixed_32 (case : CaseMatching) : normalizeLatin (caseMap case 32) = caseMap case 32 := by
  rw [caseMap_32]; exact C16_latin_ascii 32 (by omega)

theorem replaceEscSpace_cons_ne (c : Nat) (cs : List Nat) (h : c ≠ 92) : replaceEscSpace (c :: cs) = c :: replaceEscSpace cs := by
  cases cs with
  | nil => rfl
  | cons d r => simp [replaceEscSpace, h]

theorem replaceEscSpace_bs_ne (d : Nat) (cs : List Nat) (h : d ≠ 32) : replaceEscSpace (92 :: d :: cs) = 92 :: replaceEscSpace (d :: cs) := by
  simp [replaceEscSpace, h]

theorem replaceEscSpace_bs_space (cs : List Nat) : replaceEscSpace (92 :: 32 :: cs) = 32 :: replaceEscSpace cs := by
  simp [replaceEscSpace]

/-! ## the state machine of the non-ASCII path -/

/-- the flags after the characters `l` have gone through `foldChar` -/
def icAfter (case : CaseMatching) (l : List Nat) (ic : Bool) : Bool :=
  match case with
  | .smart => ic && !l.any isUpper
  | _ => ic
def nzAfter (case : CaseMatching) (norm : Normalization) (l : List Nat) (nz : Bool) : Bool :=
  match norm with
  | .smart => nz && l.all (fun c => decide (normalizeLatin (caseMap case c) = caseMap case c))
  | .never => nz

theorem foldChar_eq (case : CaseMatching) (norm : Normalization) (c : Nat) (ic nz : Bool) :
    foldChar case norm c ic nz = (caseMap case c, icAfter case [c] ic, nzAfter case norm [c] nz) := by
  cases case <;> cases norm <;> simp [foldChar, caseMap, icAfter, nzAfter] <;> rfl

theorem icAfter_nil (case : CaseMatching) (ic : Bool) : icAfter case [] ic = ic := by
  cases case <;> simp [icAfter]
theorem nzAfter_nil (case : CaseMatching) (norm : Normalization) (nz : Bool) : nzAfter case norm [] nz = nz := by
  cases norm <;> simp [nzAfter]
theorem icAfter_cons (case : CaseMatching) (c : Nat) (l : List Nat) (ic : Bool) :
    icAfter case (c :: l) ic = icAfter case l (icAfter case [c] ic) := by
  cases case <;> simp [icAfter, Bool.and_assoc]
theorem nzAfter_cons (case : CaseMatching) (norm : Normalization) (c : Nat) (l : List Nat) (nz : Bool) :
    nzAfter case norm (c :: l) nz = nzAfter case norm l (nzAfter case norm [c] nz) := by
  cases norm <;> simp [nzAfter, Bool.and_assoc]
theorem icAfter_skip (case : CaseMatching) (c : Nat) (hc : isUpper c = false) (ic : Bool) : icAfter case [c] ic = ic := by
  cases case <;> simp [icAfter, hc]
theorem nzAfter_skip (case : CaseMatching) (norm : Normalization) (c : Nat) (hc : normalizeLatin (caseMap case c) = caseMap case c) (nz : Bool) :
    nzAfter case norm [c] nz = nz := by
  cases norm <;> simp [nzAfter, hc]

theorem icAfter_bs (case : CaseMatching) (l : List Nat) (ic : Bool) : icAfter case (92 :: l) ic = icAfter case l ic := by
  rw [icAfter_cons, icAfter_skip case 92 isUpper_92]
theorem icAfter_sp (case : CaseMatching) (l : List Nat) (ic : Bool) : icAfter case (32 :: l) ic = icAfter case l ic := by
  rw [icAfter_cons, icAfter_skip case 32 isUpper_32]
theorem nzAfter_bs (case : CaseMatching) (norm : Normalization) (l : List Nat) (nz : Bool) : nzAfter case norm (92 :: l) nz = nzAfter case norm l nz := by
  rw [nzAfter_cons, nzAfter_skip case norm 92 (latin_fixed_92 case)]
theorem nzAfter_sp (case : CaseMatching) (norm : Normalization) (l : List Nat) (nz : Bool) : nzAfter case norm (32 :: l) nz = nzAfter case norm l nz := by
  rw [nzAfter_cons, nzAfter_skip case norm 32 (latin_fixed_32 case)]

/-! the five transitions of `escStep` -/
theorem escStep_saw_space (case : CaseMatching) (norm : Normalization) (out : List Nat) (ic nz : Bool) :
    escStep case norm ⟨out, true, ic, nz⟩ 32 = ⟨32 :: out, false, ic, nz⟩ := by
  simp [escStep]
theorem escStep_saw_bs (case : CaseMatching) (norm : Normalization) (out : List Nat) (ic nz : Bool) :
    escStep case norm ⟨out, true, ic, nz⟩ 92 = ⟨92 :: out, true, ic, nz⟩ := by
  simp [escStep]
theorem escStep_saw_other (case : CaseMatching) (norm : Normalization) (out : List Nat) (ic nz : Bool) (c : Nat) (h32 : c ≠ 32) (h92 : c ≠ 92) :
    escStep case norm ⟨out, true, ic, nz⟩ c = ⟨caseMap case c :: 92 :: out, false, icAfter case [c] ic, nzAfter case norm [c] nz⟩ := by
  simp [escStep, h32, h92, foldChar_eq]
theorem escStep_nosaw_bs (case : CaseMatching) (norm : Normalization) (out : List Nat) (ic nz : Bool) :
    escStep case norm ⟨out, false, ic, nz⟩ 92 = ⟨out, true, ic, nz⟩ := by
  simp [escStep]
theorem escStep_nosaw_other (case : CaseMatching) (norm : Normalization) (out : List Nat) (ic nz : Bool) (c : Nat) (h92 : c ≠ 92) :
    escStep case norm ⟨out, false, ic, nz⟩ c = ⟨caseMap case c :: out, false, icAfter case [c] ic, nzAfter case norm [c] nz⟩ := by
  simp [escStep, h92, foldChar_eq]

/-- the loop with its final "flush a pending backslash" -/
def escRun (case : CaseMatching) (norm : Normalization) (cs : List Nat) (s : EscSt) : EscSt :=
  let t := cs.foldl (escStep case norm) s
  if t.saw then { t with out := 92 :: t.out } else t

theorem escRun_cons (case : CaseMatching) (norm : Normalization) (c : Nat) (cs : List Nat) (s : EscSt) :
    escRun case norm (c :: cs) s = escRun case norm cs (escStep case norm s c) := rfl

/-- what the loop has to produce from state `s` on input `cs`: a pending backslash counts as one more character in front -/
def pendingInput (saw : Bool) (cs : List Nat) : List Nat := if saw then 92 :: cs else cs

/-- **the escape loop is `replaceEscSpace`** -/
theorem escRun_spec (case : CaseMatching) (norm : Normalization) : ∀ (cs : List Nat) (out : List Nat) (saw ic nz : Bool),
    (escRun case norm cs ⟨out, saw, ic, nz⟩).out.reverse = out.reverse ++ (replaceEscSpace (pendingInput saw cs)).map (caseMap case) ∧
    (escRun case norm cs ⟨out, saw, ic, nz⟩).ic = icAfter case (replaceEscSpace (pendingInput saw cs)) ic ∧
    (escRun case norm cs ⟨out, saw, ic, nz⟩).nz = nzAfter case norm (replaceEscSpace (pendingInput saw cs)) nz := by
  intro cs
  induction cs with
  | nil =>
    intro out saw ic nz
    cases saw with
    | true =>
      refine ⟨by simp [escRun, pendingInput, replaceEscSpace, caseMap_92], ?_, ?_⟩
      · show ic = icAfter case (replaceEscSpace [92]) ic
        simp only [replaceEscSpace]; rw [icAfter_skip case 92 isUpper_92]
      · show nz = nzAfter case norm (replaceEscSpace [92]) nz
        simp only [replaceEscSpace]; rw [nzAfter_skip case norm 92 (latin_fixed_92 case)]
    | false =>
      refine ⟨by simp [escRun, pendingInput, replaceEscSpace], ?_, ?_⟩
      · show ic = icAfter case (replaceEscSpace []) ic
        simp only [replaceEscSpace, icAfter_nil]
      · show nz = nzAfter case norm (replaceEscSpace []) nz
        simp only [replaceEscSpace, nzAfter_nil]
  | cons c cs ih =>
    intro out saw ic nz
    rw [escRun_cons]
    cases saw with
    | true =>
      by_cases h32 : c = 32
      · subst h32
        rw [escStep_saw_space]
        obtain ⟨i1, i2, i3⟩ := ih (32 :: out) false ic nz
        rw [i1, i2, i3]
        simp only [pendingInput, if_true, Bool.false_eq_true, if_false, replaceEscSpace_bs_space, List.reverse_cons, List.append_assoc,
          List.singleton_append, List.map_cons, caseMap_32]
        exact ⟨by simp, (icAfter_sp case _ ic).symm, (nzAfter_sp case norm _ nz).symm⟩
      · by_cases h92 : c = 92
        · subst h92
          rw [escStep_saw_bs]
          obtain ⟨i1, i2, i3⟩ := ih (92 :: out) true ic nz
          rw [i1, i2, i3]
          simp only [pendingInput, if_true, replaceEscSpace_bs_ne 92 cs (by decide), List.reverse_cons, List.append_assoc,
            List.singleton_append, List.map_cons, caseMap_92]
          exact ⟨by simp, (icAfter_bs case _ ic).symm, (nzAfter_bs case norm _ nz).symm⟩
        · rw [escStep_saw_other case norm out ic nz c h32 h92]
          obtain ⟨i1, i2, i3⟩ := ih (caseMap case c :: 92 :: out) false (icAfter case [c] ic) (nzAfter case norm [c] nz)
          rw [i1, i2, i3]
          simp only [pendingInput, if_true, Bool.false_eq_true, if_false, replaceEscSpace_bs_ne c cs h32, replaceEscSpace_cons_ne c cs h92,
            List.reverse_cons, List.append_assoc, List.singleton_append, List.map_cons, caseMap_92]
          exact ⟨by simp, by rw [icAfter_bs]; exact (icAfter_cons case c _ ic).symm,
            by rw [nzAfter_bs]; exact (nzAfter_cons case norm c _ nz).symm⟩
    | false =>
      by_cases h92 : c = 92
      · subst h92
        rw [escStep_nosaw_bs]
        obtain ⟨i1, i2, i3⟩ := ih out true ic nz
        rw [i1, i2, i3]
        simp only [pendingInput, if_true, Bool.false_eq_true, if_false]
        exact ⟨trivial, trivial, trivial⟩
      · rw [escStep_nosaw_other case norm out ic nz c h92]
        obtain ⟨i1, i2, i3⟩ := ih (caseMap case c :: out) false (icAfter case [c] ic) (nzAfter case norm [c] nz)
        rw [i1, i2, i3]
        simp only [pendingInput, Bool.false_eq_true, if_false, replaceEscSpace_cons_ne c cs h92, List.reverse_cons, List.append_assoc,
          List.singleton_append, List.map_cons]
        exact ⟨by simp, (icAfter_cons case c _ ic).symm, (nzAfter_cons case norm c _ nz).symm⟩

/-- the loop without escape processing pushes every character -/
theorem noEsc_spec (case : CaseMatching) (norm : Normalization) : ∀ (cs : List Nat) (out : List Nat) (saw ic nz : Bool),
    (cs.foldl (noEscStep case norm) ⟨out, saw, ic, nz⟩).out.reverse = out.reverse ++ cs.map (caseMap case) ∧
    (cs.foldl (noEscStep case norm) ⟨out, saw, ic, nz⟩).ic = icAfter case cs ic ∧
    (cs.foldl (noEscStep case norm) ⟨out, saw, ic, nz⟩).nz = nzAfter case norm cs nz := by
  intro cs
  induction cs with
  | nil =>
    intro out saw ic nz
    exact ⟨by simp, by simp [icAfter_nil], by simp [nzAfter_nil]⟩
  | cons c cs ih =>
    intro out saw ic nz
    simp only [List.foldl_cons]
    have hstep : noEscStep case norm ⟨out, saw, ic, nz⟩ c = ⟨caseMap case c :: out, saw, icAfter case [c] ic, nzAfter case norm [c] nz⟩ := by
      simp [noEscStep, foldChar_eq]
    rw [hstep]
    obtain ⟨i1, i2, i3⟩ := ih (caseMap case c :: out) saw (icAfter case [c] ic) (nzAfter case norm [c] nz)
    rw [i1, i2, i3]
    simp only [List.reverse_cons, List.append_assoc, List.singleton_append, List.map_cons]
    exact ⟨by simp, (icAfter_cons case c _ ic).symm, (nzAfter_cons case norm c _ nz).symm⟩

theorem icAfter_init (case : CaseMatching) (l : List Nat) : icAfter case l (decide (case ≠ .respect)) = icSpec case l := by
  cases case <;> simp [icAfter, icSpec]
theorem nzAfter_init (case : CaseMatching) (norm : Normalization) (l : List Nat) : nzAfter case norm l (decide (norm = .smart)) = nzSpec case norm l := by
  cases norm <;> simp [nzAfter, nzSpec]

/-! ## the ASCII path -/

theorem replaceEscSpace_ascii : ∀ (l : List Nat), (∀ c ∈ l, c < 128) → ∀ c ∈ replaceEscSpace l, c < 128 := by
  intro l
  induction l using replaceEscSpace.induct with
  | case1 => intro _ c hc; simp [replaceEscSpace] at hc
  | case2 c => intro h d hd; simp only [replaceEscSpace, List.mem_singleton] at hd; subst hd; exact h d (by simp)
  | case3 c d r hcd ih =>
    intro h x hx
    simp only [replaceEscSpace, hcd, and_self, if_true, List.mem_cons] at hx
    rcases hx with rfl | hx
    · omega
    · exact ih (fun y hy => h y (by simp [hy])) x hx
  | case4 c d r hcd ih =>
    intro h x hx
    simp only [replaceEscSpace, hcd, if_false, List.mem_cons] at hx
    rcases hx with rfl | hx
    · exact h x (by simp)
    · exact ih (fun y hy => h y (by simp only [List.mem_cons] at hy ⊢; exact Or.inr hy)) x hx

theorem asciiLower_eq (c : Nat) (h : c < 128) : asciiLower c = toLower c := by
  rw [C16_fold_ascii c h]; rfl

theorem map_caseMap_respect (l : List Nat) : l.map (caseMap .respect) = l := by
  induction l with
  | nil => rfl
  | cons c t ih => simp only [List.map_cons, ih]; rfl
theorem map_caseMap_smart (l : List Nat) : l.map (caseMap .smart) = l := by
  induction l with
  | nil => rfl
  | cons c t ih => simp only [List.map_cons, ih]; rfl
theorem map_caseMap_ignore (l : List Nat) : l.map (caseMap .ignore) = l.map toLower := rfl

theorem any_upper_ascii : ∀ (l : List Nat), (∀ c ∈ l, c < 128) → (l.any fun b => decide (65 ≤ b) && decide (b ≤ 90)) = l.any isUpper := by
  intro l
  induction l with
  | nil => intro _; rfl
  | cons c t ih =>
    intro h
    simp only [List.any_cons]
    rw [ih (fun d hd => h d (by simp [hd])), isUpper_ascii c (h c (by simp))]
    simp [Bool.decide_and]

theorem all_latin_ascii (case : CaseMatching) : ∀ (l : List Nat), (∀ c ∈ l, c < 128) →
    l.all (fun c => decide (normalizeLatin (caseMap case c) = caseMap case c)) = true := by
  intro l h
  simp only [List.all_eq_true, decide_eq_true_eq]
  intro c hc
  have hc' := h c hc
  have hlt : caseMap case c < 128 := by
    cases case <;> simp only [caseMap] <;> first | exact hc' | (rw [C16_fold_ascii c hc']; split <;> omega)
  exact C16_latin_ascii _ hlt

/-- **one grammar**: whatever the characters, `new_inner` builds `atomSpec` from them — from the bytes on the ASCII path,
    from the first code points of the grapheme clusters on the other (on the ASCII path the `normalize` flag is simply
    "normalization requested": no ASCII character is changed by it, `all_latin_ascii`) -/
theorem C14_one_grammar (seg : Seg) (needle : List Nat) (case : CaseMatching) (norm : Normalization) (kind : AtomKind) (escapeWs appendDollar : Bool) :
    newInner seg needle case norm kind escapeWs appendDollar =
      if needle.all (· < 128) then
        { atomSpec .ascii needle case norm kind escapeWs appendDollar with normalize := decide (norm = .smart) }
      else atomSpec .unicode ((cutClusters needle (seg needle)).map projCluster) case norm kind escapeWs appendDollar := by
  unfold newInner
  by_cases hasc : needle.all (· < 128) = true
  · simp only [hasc, if_true]
    have hlt : ∀ c ∈ needle, c < 128 := by simpa using hasc
    have hl : ∀ c ∈ (if escapeWs = true then replaceEscSpace needle else needle), c < 128 := by
      split
      · exact replaceEscSpace_ascii needle hlt
      · exact hlt
    unfold atomSpec
    simp only
    generalize (if escapeWs = true then replaceEscSpace needle else needle) = l at hl
    have hmap : l.map asciiLower = l.map toLower := List.map_congr_left (fun c hc => asciiLower_eq c (hl c hc))
    have hup := any_upper_ascii l hl
    cases case <;> cases appendDollar <;> simp [map_caseMap_respect, map_caseMap_smart, map_caseMap_ignore, icSpec, hmap, hup]
  · simp only [hasc, Bool.false_eq_true, if_false]
    unfold atomSpec
    generalize (cutClusters needle (seg needle)).map projCluster = cs
    cases escapeWs with
    | true =>
      simp only [if_true]
      obtain ⟨e1, e2, e3⟩ := escRun_spec case norm cs [] false (decide (case ≠ .respect)) (decide (norm = .smart))
      unfold escRun at e1 e2 e3
      simp only [pendingInput, Bool.false_eq_true, if_false, List.reverse_nil, List.nil_append] at e1 e2 e3
      simp only [e1, e2, e3, icAfter_init, nzAfter_init]
      cases appendDollar <;> simp
    | false =>
      simp only [Bool.false_eq_true, if_false]
      obtain ⟨e1, e2, e3⟩ := noEsc_spec case norm cs [] false (decide (case ≠ .respect)) (decide (norm = .smart))
      simp only [List.reverse_nil, List.nil_append] at e1
      simp only [e1, e2, e3, icAfter_init, nzAfter_init]
      cases appendDollar <;> simp

/-- the `normalize` flag of the ASCII path agrees with the rule "no character that normalization would change" whenever
    normalization is requested -/
theorem C14_ascii_normalize_flag (case : CaseMatching) (cs : List Nat) (h : ∀ c ∈ cs, c < 128) :
    nzSpec case .smart cs = true := by
  unfold nzSpec; exact all_latin_ascii case cs h

/-! ## the literal round trip for every text -/

/-- the round trip from the three facts about `new_inner` it needs (the grammar part is character-independent) -/
theorem literal_roundtrip_of (seg : Seg) (t : List Nat) (he : Escapable t) (case : CaseMatching) (norm : Normalization)
    (hesc : ∀ u, (u = t.dropLast ∨ u = t) → ∀ ad, newInner seg (escSpaces u) case norm .fuzzy true ad = newInner seg u case norm .fuzzy false ad)
    (hdol : t.getLast? = some 36 →
      newInner seg t.dropLast case norm .fuzzy false true = newInner seg (t.dropLast ++ [36]) case norm .fuzzy false false)
    (hne : (newInner seg t case norm .fuzzy false false).needle.isEmpty = false) :
    parsePattern seg (escape t) case norm = [newInner seg t case norm .fuzzy false false] := by
  have hsingle : patternAtoms (escape t) = [escape t] := by
    unfold patternAtoms
    rw [patternAtomsGo_wsOK]
    · simp
    · rw [escape_eq]
      have hbody : ∀ saw, wsOK (bodyOf t) saw = true := by
        intro saw
        unfold bodyOf
        split
        · rw [wsOK_append_noWs _ _ _ (by intro c hc; simp only [List.mem_cons] at hc; rcases hc with rfl | rfl | hc <;> first | decide | simp at hc)]
          exact wsOK_escSpaces _ _ (fun c hc => he.ws c (List.dropLast_subset t hc))
        · exact wsOK_escSpaces _ _ he.ws
      split
      · simp only [List.cons_append, List.nil_append, wsOK, hbody, Bool.and_true]; decide
      · simp only [List.nil_append, hbody]
  have h12 := stage12 t he
  have h3 := stage3 t
  have hneg : ∀ a : Atom, a = newInner seg t case norm .fuzzy false false → { a with negative := false } = a := by
    intro a ha
    have : a.negative = false := by
      rw [ha]; unfold newInner; split <;> rfl
    cases a; simp only at this; subst this; rfl
  have hatom : parseAtom seg (escape t) case norm = newInner seg t case norm .fuzzy false false := by
    unfold parseAtom
    simp only [h12.1, h12.2, h3, Bool.false_eq_true, false_and, if_false]
    by_cases hl : t.getLast? = some 36
    · simp only [hl, if_true, decide_true]
      rw [hesc _ (Or.inl rfl), hdol hl]
      have : t.dropLast ++ [36] = t := by
        have h0 := List.dropLast_concat_getLast he.nonempty
        have h1 : t.getLast he.nonempty = 36 := by
          have := List.getLast?_eq_some_getLast he.nonempty
          rw [hl] at this
          exact (Option.some.inj this).symm
        rw [h1] at h0; exact h0
      rw [this]
      exact hneg _ rfl
    · simp only [hl, if_false, decide_false]
      rw [hesc _ (Or.inr rfl)]
      exact hneg _ rfl
  unfold parsePattern
  rw [hsingle]
  simp only [List.map_cons, List.map_nil, hatom]
  simp [hne]

/-- the characters `new_inner` sees on the non-ASCII path -/
def projChars (seg : Seg) (u : List Nat) : List Nat := (cutClusters u (seg u)).map projCluster

/-- what the round trip needs of the segmentation of a non-ASCII text `t` (facts about `unicode-segmentation`, inputs of
    the model): escaping spaces does not move cluster boundaries — the inserted backslashes are clusters of their own —,
    a final `$` is a cluster of its own, and a non-empty text has a cluster.  (They fail for exotic texts, e.g. a Prepend
    character directly in front of a space: there the two constructions genuinely differ.) -/
structure SegLit (seg : Seg) (t : List Nat) : Prop where
  esc : ∀ u, (u = t.dropLast ∨ u = t) → projChars seg (escSpaces u) = escSpaces (projChars seg u)
  dollar : t.getLast? = some 36 → projChars seg (t.dropLast ++ [36]) = projChars seg t.dropLast ++ [36]
  nonempty : projChars seg t ≠ []

theorem all_escSpaces : ∀ (u : List Nat), (escSpaces u).all (· < 128) = u.all (· < 128) := by
  intro u
  induction u with
  | nil => rfl
  | cons c r ih =>
    unfold escSpaces
    split
    · rename_i h; subst h; simp [List.all_cons, ih]
    · simp only [List.all_cons, ih]

theorem newInner_escaped_unicode (seg : Seg) (u : List Nat) (hu : u.all (· < 128) = false)
    (hesc : projChars seg (escSpaces u) = escSpaces (projChars seg u)) (case : CaseMatching) (norm : Normalization) (kind : AtomKind) (ad : Bool) :
    newInner seg (escSpaces u) case norm kind true ad = newInner seg u case norm kind false ad := by
  rw [C14_one_grammar, C14_one_grammar]
  simp only [all_escSpaces, hu, Bool.false_eq_true, if_false]
  unfold atomSpec
  unfold projChars at hesc
  simp only [hesc, if_true, Bool.false_eq_true, if_false, replaceEscSpace_escSpaces]

theorem toLower_36 : toLower 36 = 36 := by rw [C16_fold_ascii 36 (by omega)]; decide
theorem isUpper_36 : isUpper 36 = false := by rw [isUpper_ascii 36 (by omega)]; decide
theorem caseMap_36 (case : CaseMatching) : caseMap case 36 = 36 := by cases case <;> simp [caseMap, toLower_36]

theorem newInner_dollar_unicode (seg : Seg) (u : List Nat) (hu : u.all (· < 128) = false)
    (hd : projChars seg (u ++ [36]) = projChars seg u ++ [36]) (case : CaseMatching) (norm : Normalization) (kind : AtomKind) :
    newInner seg u case norm kind false true = newInner seg (u ++ [36]) case norm kind false false := by
  rw [C14_one_grammar, C14_one_grammar]
  have h2 : (u ++ [36]).all (· < 128) = false := by simp only [List.all_append, hu, Bool.false_and]
  simp only [hu, h2, Bool.false_eq_true, if_false]
  unfold atomSpec
  unfold projChars at hd
  simp only [hd, Bool.false_eq_true, if_false, if_true, List.map_append, List.map_cons, List.map_nil, caseMap_36, List.append_nil]
  have hic : icSpec case ((cutClusters u (seg u)).map projCluster ++ [36]) = icSpec case ((cutClusters u (seg u)).map projCluster) := by
    cases case <;> simp [icSpec, isUpper_36]
  have hnz : nzSpec case norm ((cutClusters u (seg u)).map projCluster ++ [36]) = nzSpec case norm ((cutClusters u (seg u)).map projCluster) := by
    cases norm <;> simp [nzSpec, caseMap_36, C16_latin_ascii 36 (by omega)]
  rw [hic, hnz]

/-- **the literal round trip for every text**: parsing the escaped form of a literal text yields exactly one positive fuzzy
    atom, the atom built from that text itself — ASCII or not (for non-ASCII text under the segmentation facts `SegLit`) -/
theorem C14_literal_roundtrip (seg : Seg) (t : List Nat) (he : Escapable t)
    (hseg : t.all (· < 128) = false → SegLit seg t) (case : CaseMatching) (norm : Normalization) :
    parsePattern seg (escape t) case norm = [newInner seg t case norm .fuzzy false false] := by
  by_cases hasc : t.all (· < 128) = true
  · exact C14_literal_roundtrip_ascii seg t he (by simpa using hasc) case norm
  · have hna : t.all (· < 128) = false := by simpa using hasc
    have sl := hseg hna
    have hdrop : t.getLast? = some 36 → t.dropLast.all (· < 128) = false := by
      intro hl
      have hcat : t.dropLast ++ [36] = t := by
        have h0 := List.dropLast_concat_getLast he.nonempty
        have h1 : t.getLast he.nonempty = 36 := by
          have := List.getLast?_eq_some_getLast he.nonempty
          rw [hl] at this
          exact (Option.some.inj this).symm
        rw [h1] at h0; exact h0
      rw [← hcat] at hna
      simpa [List.all_append] using hna
    refine literal_roundtrip_of seg t he case norm ?_ ?_ ?_
    · intro u hu ad
      rcases hu with rfl | rfl
      · by_cases hl : t.getLast? = some 36
        · exact newInner_escaped_unicode seg _ (hdrop hl) (sl.esc _ (Or.inl rfl)) case norm .fuzzy ad
        · -- not used by the round trip when the text does not end in `$`, but true all the same when `dropLast` is non-ASCII;
          -- otherwise the ASCII lemma applies
          by_cases hd : t.dropLast.all (· < 128) = true
          · exact newInner_escaped_ascii seg _ (by simpa using hd) case norm .fuzzy ad
          · exact newInner_escaped_unicode seg _ (by simpa using hd) (sl.esc _ (Or.inl rfl)) case norm .fuzzy ad
      · exact newInner_escaped_unicode seg _ hna (sl.esc _ (Or.inr rfl)) case norm .fuzzy ad
    · intro hl
      exact newInner_dollar_unicode seg _ (hdrop hl) (sl.dollar hl) case norm .fuzzy
    · rw [C14_one_grammar]
      simp only [hna, Bool.false_eq_true, if_false]
      unfold atomSpec
      have := sl.nonempty
      unfold projChars at this
      simp only [Bool.false_eq_true, if_false, List.append_nil]
      cases hm : List.map projCluster (cutClusters t (seg t)) with
      | nil => exact absurd hm this
      | cons a r => rfl

/-- the hypotheses can be met by a non-ASCII text: `é b` with the obvious segmentation (every code point its own cluster) -/
example : Escapable [233, 32, 98] ∧ SegLit (fun l => l.map (fun _ => 1)) [233, 32, 98] ∧
    escape [233, 32, 98] = [233, 92, 32, 98] ∧
    (parsePattern (fun l => l.map (fun _ => 1)) (escape [233, 32, 98]) .respect .never).map (fun a => (a.negative, a.kind, a.needle))
      = [(false, .fuzzy, [233, 32, 98])] := by
  refine ⟨⟨by decide, by decide, by intro m r h; cases h⟩, ⟨?_, by decide, by decide⟩, by decide, by decide⟩
  intro u hu
  rcases hu with rfl | rfl <;> decide

end NucleoVerif
