import NucleoVerif.Props.C07_ParseTranslated
/-! # C14 (companion file) — the grammar the theorems of C14 speak about is the one `Atom::parse` implements

`C07_ParseTranslated` proves that the functions translated from `Atom::parse` on every run (`Gen/Parse.lean`) are the
model's `stripNeg`, `stripKind`, `stripDollar` and that `parseAtom` assembles them as the source does; restated here so that
a change of `Atom::parse` is a broken obligation of C14 as well; and the per-character bookkeeping of the grapheme loop of
`new_inner` (`fold_char`, translated from both places where the source has it) is the model's `foldChar`. -/
namespace NucleoVerif
open Gen

/-- **`Atom::parse` is `parseAtom`** (see `C07_translated_parse`) -/
theorem C14_translated_parse (seg : Seg) (raw : List Nat) (case : CaseMatching) (norm : Normalization) :
    parseAtom seg raw case norm =
      { newInner seg (stripDollar (stripKind (Gen.Parse.invert raw).2).1 (stripKind (Gen.Parse.invert raw).2).2).2.2 case norm
          (if (Gen.Parse.invert raw).1 ∧ (stripDollar (stripKind (Gen.Parse.invert raw).2).1 (stripKind (Gen.Parse.invert raw).2).2).1 = .fuzzy
           then AtomKind.substring else (stripDollar (stripKind (Gen.Parse.invert raw).2).1 (stripKind (Gen.Parse.invert raw).2).2).1)
          Gen.Parse.escape_whitespace (stripDollar (stripKind (Gen.Parse.invert raw).2).1 (stripKind (Gen.Parse.invert raw).2).2).2.1
        with negative := (Gen.Parse.invert raw).1 } ∧
    (∀ a, Gen.Parse.invert a = stripNeg a) ∧ (∀ a, Gen.Parse.kind a = ((stripKind a).1.id, (stripKind a).2)) ∧
    (∀ k a, Gen.Parse.dollar k.id a = ((stripDollar k a).1.id, (stripDollar k a).2.1, (stripDollar k a).2.2)) :=
  ⟨(C07_translated_parse seg raw case norm).2.2.1, C07_translated_invert, C07_translated_kind, C07_translated_dollar⟩

def CaseMatching.id : CaseMatching → Nat
  | .respect => 0 | .ignore => 1 | .smart => 2
def Normalization.id : Normalization → Nat
  | .never => 0 | .smart => 1

/-- **the per-character bookkeeping of the grapheme loop** (case folding or the smart-case test first, then the smart-normalization test on
    the character that is pushed), translated from both places where `new_inner` has it, **is the model's `foldChar`** -/
theorem C14_translated_fold_char (case : CaseMatching) (norm : Normalization) (c : Nat) (ic nz : Bool) :
    Gen.Parse.fold_char toLower isUpper normalizeLatin case.id norm.id c ic nz = foldChar case norm c ic nz := by
  unfold Gen.Parse.fold_char foldChar
  cases case <;> cases norm <;> simp [CaseMatching.id, Normalization.id] <;> congr 1

/-- **the byte path's case handling** (`make_ascii_lowercase` / `any(is_ascii_uppercase)` on the whole needle), translated from the
    source, **is the model's** (`caseN`, `icOf`: what `newInner_ascii` shows `newInner` to compute on ASCII text) -/
theorem C14_translated_ascii_case (case : CaseMatching) (n : List Nat) :
    Gen.Parse.ascii_case (fun l => l.map asciiLower) (fun l => l.any (fun b => 65 ≤ b && b ≤ 90)) case.id n = (caseN case n, icOf case n) := by
  cases case <;> rfl

/-- **the escape state machine of the grapheme loop** (a backslash is held back until the next character shows whether it escapes a
    space), translated statement by statement from `new_inner`, **is the model's `escStep`** -/
theorem C14_translated_esc_step (case : CaseMatching) (norm : Normalization) (s : EscSt) (c : Nat) :
    escStep case norm s c =
      if (Gen.Parse.esc_prelude s.saw c s.out).2.2 then
        { s with out := (Gen.Parse.esc_prelude s.saw c s.out).1, saw := (Gen.Parse.esc_prelude s.saw c s.out).2.1 }
      else
        { out := (foldChar case norm c s.ic s.nz).1 :: (Gen.Parse.esc_prelude s.saw c s.out).1,
          saw := (Gen.Parse.esc_prelude s.saw c s.out).2.1,
          ic := (foldChar case norm c s.ic s.nz).2.1, nz := (foldChar case norm c s.ic s.nz).2.2 } := by
  unfold escStep Gen.Parse.esc_prelude
  cases hs : s.saw <;> by_cases h32 : c = 32 <;> by_cases h92 : c = 92 <;> simp [h32, h92] <;> omega

/-- behind the loop a pending backslash is pushed -/
theorem C14_translated_pending : Gen.Parse.esc_pending_push = 92 := rfl

end NucleoVerif
