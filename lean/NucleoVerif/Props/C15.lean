import NucleoVerif.Model.Pattern
/-! # C15 — pattern scores compose as a conjunction of atoms with negation

The matcher calls are abstracted as whatever `Atom.innerMatch` returns (their correctness is
C01–C05); these theorems are about the composition only. -/
namespace NucleoVerif

/-- a negated atom matches exactly when its inner match fails, and contributes score 0 and no indices;
    a positive atom is its inner match -/
theorem C15_atom (a : Atom) (cfg : Cfg) (ext : Ext) (hrep : Rep) (h : List Nat) :
    (a.negative = true → a.eval cfg ext hrep h = if (a.innerMatch cfg ext hrep h).isSome then none else some (0, [])) ∧
    (a.negative = false → a.eval cfg ext hrep h = a.innerMatch cfg ext hrep h) := by
  unfold Atom.eval
  constructor
  · intro hn
    cases hm : a.innerMatch cfg ext hrep h <;> simp [hn]
  · intro hn
    cases hm : a.innerMatch cfg ext hrep h <;> simp [hn]

/-- **the result does not depend on the matcher's previous `ignore_case` / `normalize`**: every atom
    overwrites both before matching (so neither the previous atom nor an earlier pattern leaks in) -/
theorem C15_order_independent (a : Atom) (cfg : Cfg) (ext : Ext) (hrep : Rep) (h : List Nat) (ic nz : Bool) :
    a.eval { cfg with ignoreCase := ic, normalize := nz } ext hrep h = a.eval cfg ext hrep h := by
  unfold Atom.eval Atom.innerMatch
  rfl

theorem patternStep_none (cfg : Cfg) (ext : Ext) (hrep : Rep) (h : List Nat) :
    ∀ l : List Atom, l.foldl (patternStep cfg ext hrep h) none = none := by
  intro l; induction l with
  | nil => rfl
  | cons x xs ihx => simpa [patternStep] using ihx

theorem patternEval_foldl (cfg : Cfg) (ext : Ext) (hrep : Rep) (h : List Nat) :
    ∀ (atoms : List Atom) (s0 : Nat) (i0 : List Nat),
      atoms.foldl (patternStep cfg ext hrep h) (some (s0, i0)) =
      if atoms.all (fun a => (a.eval cfg ext hrep h).isSome) then
        some (s0 + (atoms.map (fun a => ((a.eval cfg ext hrep h).map (·.1)).getD 0)).sum,
              i0 ++ (atoms.map (fun a => ((a.eval cfg ext hrep h).map (·.2)).getD [])).flatten)
      else none := by
  intro atoms
  induction atoms with
  | nil => intro s0 i0; simp
  | cons a as ih =>
    intro s0 i0
    simp only [List.foldl_cons, List.all_cons, List.map_cons, List.sum_cons, List.flatten_cons]
    cases he : a.eval cfg ext hrep h with
    | none =>
      simp only [patternStep, he, Option.isSome_none, Bool.false_and, Bool.false_eq_true, if_false]
      exact patternStep_none cfg ext hrep h as
    | some r =>
      obtain ⟨s', is'⟩ := r
      simp only [patternStep, he, Option.isSome_some, Bool.true_and, Option.map_some, Option.getD_some]
      rw [ih]
      split <;> simp [Nat.add_assoc, List.append_assoc]

/-- **a pattern matches exactly when every atom does** (positive atoms match, negated atoms' inner
    match fails); **its score is the sum of the atoms' scores and its indices are the atoms' indices in
    atom order**; the empty pattern matches everything with score 0 -/
theorem C15_pattern (atoms : List Atom) (cfg : Cfg) (ext : Ext) (hrep : Rep) (h : List Nat) :
    patternEval atoms cfg ext hrep h =
      if atoms.all (fun a => (a.eval cfg ext hrep h).isSome) then
        some ((atoms.map (fun a => ((a.eval cfg ext hrep h).map (·.1)).getD 0)).sum,
              (atoms.map (fun a => ((a.eval cfg ext hrep h).map (·.2)).getD [])).flatten)
      else none := by
  unfold patternEval
  rw [patternEval_foldl]
  simp

theorem C15_empty (cfg : Cfg) (ext : Ext) (hrep : Rep) (h : List Nat) :
    patternEval [] cfg ext hrep h = some (0, []) := rfl

/-! ## match_list: the matching inputs, each once, stably sorted by descending score -/

theorem insertDesc_perm (x : Nat × Nat) : ∀ l, (insertDesc x l).Perm (x :: l) := by
  intro l
  induction l with
  | nil => exact List.Perm.refl _
  | cons y ys ih =>
    simp only [insertDesc]
    split
    · exact List.Perm.refl _
    · exact (List.Perm.cons y ih).trans (List.Perm.swap x y ys)

theorem sortDesc_perm : ∀ l, (sortDesc l).Perm l := by
  intro l
  induction l with
  | nil => exact List.Perm.refl _
  | cons x xs ih =>
    show (insertDesc x (sortDesc xs)).Perm (x :: xs)
    exact (insertDesc_perm x _).trans (List.Perm.cons x ih)

theorem insertDesc_sorted (x : Nat × Nat) : ∀ l, l.Pairwise (fun a b => a.2 ≥ b.2) →
    (insertDesc x l).Pairwise (fun a b => a.2 ≥ b.2) := by
  intro l
  induction l with
  | nil => intro _; simp [insertDesc]
  | cons y ys ih =>
    intro hs
    simp only [insertDesc]
    have hy := List.pairwise_cons.mp hs
    split
    · rename_i hge
      refine List.pairwise_cons.mpr ⟨?_, hs⟩
      intro z hz
      simp only [List.mem_cons] at hz
      rcases hz with rfl | hz
      · exact hge
      · exact Nat.le_trans (hy.1 z hz) hge
    · rename_i hlt
      refine List.pairwise_cons.mpr ⟨?_, ih hy.2⟩
      intro z hz
      have := (insertDesc_perm x ys).mem_iff.mp hz
      simp only [List.mem_cons] at this
      rcases this with rfl | hz'
      · omega
      · exact hy.1 z hz'

theorem sortDesc_sorted : ∀ l, (sortDesc l).Pairwise (fun a b => a.2 ≥ b.2) := by
  intro l
  induction l with
  | nil => simp [sortDesc]
  | cons x xs ih => exact insertDesc_sorted x _ ih

/-- **`match_list` returns exactly the matching inputs, each once, in non-increasing score order** -/
theorem C15_match_list (scored : List (Nat × Option Nat)) :
    (matchList scored).Perm (scored.filterMap (fun p => p.2.map (fun s => (p.1, s)))) ∧
    (matchList scored).Pairwise (fun a b => a.2 ≥ b.2) :=
  ⟨sortDesc_perm _, sortDesc_sorted _⟩

/-- stability: inputs with equal scores keep their relative order -/
theorem insertDesc_stable (x : Nat × Nat) : ∀ l,
    (insertDesc x l).filter (fun a => a.2 == x.2) = x :: l.filter (fun a => a.2 == x.2) := by
  intro l
  induction l with
  | nil => simp [insertDesc]
  | cons y ys ih =>
    simp only [insertDesc]
    split
    · simp
    · rename_i hlt
      have : (y.2 == x.2) = false := by simp; omega
      simp [this, ih]

example : matchList [(0, some 5), (1, none), (2, some 7), (3, some 5)] = [(2, 7), (0, 5), (3, 5)] := by decide

end NucleoVerif
