import NucleoVerif.Props.C05_OneChar
import NucleoVerif.Props.C15
/-! # C15 (companion file) — what one atom decides

`C15_pattern` reduces a pattern to its atoms.  This file states what each atom's matcher call decides, in one theorem for
all five kinds (`kindDec`, a predicate on the normalized haystack), by collecting the decision theorems of C01 and C05. -/
namespace NucleoVerif
open Gen Spec

/-! ## what an atom decides -/

/-- the decision of each kind of atom, stated on the normalized haystack `L` (`h`: the raw haystack, whose leading /
    trailing whitespace the anchored kinds skip unless the needle itself starts / ends with whitespace) -/
def kindDec (k : AtomKind) (hrep : Rep) (h L n : List Nat) : Bool :=
  let lo := if isWs (n.head?.getD 0) then 0 else lead hrep h
  let tr := if isWs (n.getLast?.getD 0) then 0 else trail hrep h
  match k with
  | .fuzzy => subseqB n L
  | .substring => !(occAux n 0 L).isEmpty
  | .prefix => decide (lo + n.length ≤ h.length) && ((L.drop lo).take n.length == n)
  | .postfix => decide (tr + n.length ≤ h.length) && ((L.drop (h.length - tr - n.length)).take n.length == n)
  | .exact => decide (lo + tr ≤ h.length) && ((L.drop lo).take (h.length - lo - tr) == n) && decide (h.length - lo - tr = n.length)

/-- the matcher configuration an atom runs with -/
def Atom.cfg (a : Atom) (cfg : Cfg) : Cfg := { cfg with ignoreCase := a.ignoreCase, normalize := a.normalize }

theorem occ_one_char (cfg : Cfg) (hrep : Rep) (h : List Nat) (c : Nat) :
    (!(occurrences cfg hrep h [c]).isEmpty) = decide (c ∈ normHay cfg hrep h) := by
  rw [Bool.eq_iff_iff]
  simp only [Bool.not_eq_true', decide_eq_true_eq]
  constructor
  · intro hne
    cases ho : occurrences cfg hrep h [c] with
    | nil => rw [ho] at hne; cases hne
    | cons i l =>
      have hi : i ∈ occurrences cfg hrep h [c] := by rw [ho]; simp
      obtain ⟨h1, h2⟩ := (mem_occurrences cfg hrep h [c] i).mp hi
      have hlen : i < (normHay cfg hrep h).length := by simp [normHay] at h1 ⊢; omega
      have : (normHay cfg hrep h)[i] = c := by
        rw [List.drop_eq_getElem_cons hlen] at h2
        simp only [List.length_cons, List.length_nil, List.take_succ_cons, List.take_zero, List.cons.injEq, and_true] at h2
        exact h2
      rw [← this]; exact List.getElem_mem hlen
  · intro hm
    obtain ⟨i, hlt, hi⟩ := List.getElem_of_mem hm
    have : i ∈ occurrences cfg hrep h [c] := by
      refine (mem_occurrences cfg hrep h [c] i).mpr ⟨by simp [normHay] at hlt ⊢; omega, ?_⟩
      rw [List.drop_eq_getElem_cons hlt]
      simp only [List.length_cons, List.length_nil, List.take_succ_cons, List.take_zero, hi]
    cases ho : occurrences cfg hrep h [c] with
    | nil => rw [ho] at this; cases this
    | cons _ _ => rfl

theorem fix_of_map_eq_self (f : Nat → Nat) : ∀ (l : List Nat), l.map f = l → ∀ c ∈ l, f c = c := by
  intro l
  induction l with
  | nil => intro _ c hc; cases hc
  | cons x xs ih =>
    intro h c hc
    simp only [List.map_cons, List.cons.injEq] at h
    rcases List.mem_cons.mp hc with e | e
    · rw [e]; exact h.1
    · exact ih h.2 c e

theorem getLast?_getD_cons (n0 : Nat) (ns : List Nat) (d : Nat) : (n0 :: ns).getLast?.getD d = (n0 :: ns).getLast?.getD n0 := by
  rw [List.getLast?_eq_some_getLast (by simp)]; rfl

/-- **what an atom's matcher call decides**, for every kind, every configuration whose largest boundary bonus is at
    least 8 (all presets), and every representation pair the matcher handles (an ASCII-representation haystack with a
    code-point needle is finding K1) -/
theorem C15_atom_decision (a : Atom) (cfg : Cfg) (ext : Ext) (hrep : Rep) (h : List Nat) (n0 : Nat) (ns : List Nat)
    (hnd : a.needle = n0 :: ns) (hk1 : ¬ (hrep = .ascii ∧ a.needleRep = .unicode)) (hasc : hrep = .ascii → ∀ x ∈ h, x < 128)
    (hb : 8 ≤ maxBonus cfg) (hn : a.needle.map (norm (a.cfg cfg) a.needleRep) = a.needle) :
    (a.innerMatch cfg ext hrep h).isSome = kindDec a.kind hrep h (normHay (a.cfg cfg) hrep h) a.needle := by
  unfold Atom.innerMatch
  show (a.kind.algo.run (a.cfg cfg) ext hrep a.needleRep h a.needle).isSome = _
  have hb' : 8 ≤ maxBonus (a.cfg cfg) := hb
  generalize a.cfg cfg = c' at *
  rw [hnd] at hn ⊢
  have hnA : a.needleRep = .ascii → ∀ c ∈ n0 :: ns, normAscii c' c = c := by
    intro hr c hc
    rw [hr] at hn
    exact fix_of_map_eq_self _ _ hn c hc
  have hlast : ∀ d, (n0 :: ns).getLast?.getD d = (n0 :: ns).getLast?.getD n0 := getLast?_getD_cons n0 ns
  cases hk : a.kind with
  | fuzzy =>
    show (fuzzyMatch c' ext hrep a.needleRep h (n0 :: ns)).isSome = subseqB (n0 :: ns) (normHay c' hrep h)
    cases hrep with
    | unicode => exact C01_decision_unicode c' ext a.needleRep h _ hn
    | ascii =>
      cases hr : a.needleRep with
      | unicode => exact absurd ⟨rfl, hr⟩ hk1
      | ascii => exact C01_decision_ascii c' ext h _ (hasc rfl) (hnA hr)
  | substring =>
    show (substringMatch c' ext hrep a.needleRep h (n0 :: ns)).isSome = !(occAux (n0 :: ns) 0 (normHay c' hrep h)).isEmpty
    cases ns with
    | nil =>
      rw [C05_substring_one_char c' ext hrep a.needleRep h n0 hk1 (by simpa using hn)]
      exact (occ_one_char c' hrep h n0).symm
    | cons n1 ns' =>
      cases hrep with
      | unicode => exact C05_substring_entry_unicode c' ext a.needleRep h n0 n1 ns' hb' hn
      | ascii =>
        cases hr : a.needleRep with
        | unicode => exact absurd ⟨rfl, hr⟩ hk1
        | ascii => exact C05_substring_entry_ascii c' ext h n0 n1 ns' hb' (hasc rfl) (hnA hr)
  | «prefix» =>
    show (prefixMatch c' ext hrep a.needleRep h (n0 :: ns)).isSome = _
    rw [C05_prefix c' ext hrep a.needleRep h n0 ns hk1 hn]
    simp only [kindDec, List.head?_cons, Option.getD_some]
    rfl
  | «postfix» =>
    show (postfixMatch c' ext hrep a.needleRep h (n0 :: ns)).isSome = _
    rw [C05_postfix c' ext hrep a.needleRep h n0 ns hk1 hn]
    simp only [kindDec, hlast 0]
  | «exact» =>
    show (exactMatch c' ext hrep a.needleRep h (n0 :: ns)).isSome = _
    rw [C05_exact c' ext hrep a.needleRep h n0 ns hk1 hn]
    simp only [kindDec, hlast 0, List.head?_cons, Option.getD_some]
    rfl

end NucleoVerif
