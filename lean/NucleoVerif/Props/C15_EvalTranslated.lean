import NucleoVerif.Gen.AtomEval
import NucleoVerif.Props.C07_Translated
import NucleoVerif.Props.C15
/-! # C15 (companion file) — `Atom::score` / `Atom::indices`, translated from the source, are the model's `Atom.eval`

`Gen/AtomEval.lean` is regenerated on every run from `matcher/src/pattern.rs`: which matcher entry point each kind of atom
calls (in `score`, and in both branches of `indices`), that the atom's flags are written into the matcher's configuration
first, and what happens to a negated atom's result. -/
namespace NucleoVerif

def Algo.id : Algo → Nat
  | .fuzzy => 0 | .substring => 1 | .prefix => 2 | .postfix => 3 | .exact => 4 | .greedy => 5

/-- **every kind calls the entry point the model says**, in `score` and in both branches of `indices` -/
theorem C15_translated_entry (k : AtomKind) :
    k.algo.id = Gen.AtomEval.score_entry k.id ∧ k.algo.id = Gen.AtomEval.indices_neg_entry k.id ∧
    k.algo.id = Gen.AtomEval.indices_pos_entry k.id := by
  cases k <;> decide

/-- **the result of `Atom::score`** is the model's, for negated and positive atoms -/
theorem C15_translated_score (a : Atom) (cfg : Cfg) (ext : Ext) (hrep : Rep) (h : List Nat) :
    (a.eval cfg ext hrep h).map (·.1) = Gen.AtomEval.score_result a.negative ((a.innerMatch cfg ext hrep h).map (·.1)) := by
  unfold Atom.eval Gen.AtomEval.score_result
  cases a.negative <;> cases a.innerMatch cfg ext hrep h <;> simp

/-- **the result of `Atom::indices` for a negated atom**: `Some(0)` exactly when the inner match fails, and no indices -/
theorem C15_translated_indices_neg (a : Atom) (cfg : Cfg) (ext : Ext) (hrep : Rep) (h : List Nat) (hn : a.negative = true) :
    a.eval cfg ext hrep h = (Gen.AtomEval.indices_neg_result ((a.innerMatch cfg ext hrep h).map (·.1))).map (fun s => (s, [])) := by
  unfold Atom.eval Gen.AtomEval.indices_neg_result
  rw [hn]
  cases a.innerMatch cfg ext hrep h <;> simp

/-- the flags are written first (`C15_order_independent` is about exactly that order) -/
theorem C15_translated_flags_first : Gen.AtomEval.flags_overwritten_first = true := rfl

end NucleoVerif
