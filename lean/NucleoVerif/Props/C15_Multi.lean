import NucleoVerif.Props.C15
/-! # C15 (companion file) — a multi-column pattern is the same conjunction across columns

`MultiPattern::score` (the scoring function of the worker, `src/pattern.rs`) zips the column patterns with the item's
column texts.  For every number of columns, every column pattern and every column text: the item matches exactly when
every column's pattern matches that column's text — column `k` against text `k`, whether or not other columns are
empty — and the score is the sum of the columns' scores. -/
namespace NucleoVerif

/-- column `k`'s result: the `k`-th pattern on the `k`-th text -/
def columnResults (cfg : Cfg) (ext : Ext) (ps : List (List Atom)) (hs : List (Rep × List Nat)) : List MRes :=
  List.zipWith (fun p h => patternEval p cfg ext h.1 h.2) ps hs

theorem C15_multi (cfg : Cfg) (ext : Ext) : ∀ (ps : List (List Atom)) (hs : List (Rep × List Nat)),
    multiEval cfg ext ps hs =
      if (columnResults cfg ext ps hs).all (·.isSome) then
        some ((columnResults cfg ext ps hs).map (fun r => (r.map (·.1)).getD 0)).sum
      else none := by
  intro ps
  induction ps with
  | nil => intro hs; simp [multiEval, columnResults]
  | cons p ps ih =>
    intro hs
    cases hs with
    | nil => simp [multiEval, columnResults]
    | cons h hs =>
      simp only [multiEval, columnResults, List.zipWith_cons_cons, List.all_cons, List.map_cons, List.sum_cons]
      cases hp : patternEval p cfg ext h.1 h.2 with
      | none => simp
      | some r =>
        have := ih hs
        simp only [columnResults] at this
        rw [this]
        by_cases hall : (List.zipWith (fun p h => patternEval p cfg ext h.1 h.2) ps hs).all (·.isSome) = true
        · simp [hall]
        · simp [hall]

/-- a column with an empty pattern contributes nothing and never rejects — and it still *occupies its place*: the
    patterns after it are matched against their own columns -/
theorem C15_multi_empty_column (cfg : Cfg) (ext : Ext) (ps : List (List Atom)) (h : Rep × List Nat) (hs : List (Rep × List Nat)) :
    multiEval cfg ext ([] :: ps) (h :: hs) = multiEval cfg ext ps hs := by
  simp only [multiEval, C15_empty]
  cases multiEval cfg ext ps hs <;> simp

end NucleoVerif

namespace NucleoVerif

/-- a multi-column pattern all of whose columns are empty (what `MultiPattern::is_empty` tests and the worker's
    trivial path relies on) matches every item with score 0 -/
theorem C15_multi_all_empty (cfg : Cfg) (ext : Ext) : ∀ (ps : List (List Atom)) (hs : List (Rep × List Nat)),
    (∀ p ∈ ps, p = []) → multiEval cfg ext ps hs = some 0 := by
  intro ps
  induction ps with
  | nil => intro hs _; cases hs <;> rfl
  | cons p ps ih =>
    intro hs hall
    cases hs with
    | nil => rfl
    | cons h hs =>
      have hp : p = [] := hall p (List.mem_cons_self ..)
      subst hp
      rw [C15_multi_empty_column]
      exact ih hs (fun q hq => hall q (List.mem_cons_of_mem _ hq))

/-- the hypothesis `EmpOk` of the worker-protocol theorems (C06 / C07), instantiated with the scoring function the worker
    uses: when the pattern ids flagged empty are those whose columns are all empty, an empty pattern gives every item
    score 0 -/
theorem C15_empOk (cfg : Cfg) (ext : Ext) (patterns : Nat → List (List Atom)) (columns : Nat → List (Rep × List Nat)) (emp : Nat → Bool)
    (hemp : ∀ p, emp p = true → ∀ q ∈ patterns p, q = []) :
    ∀ p it, emp p = true → multiEval cfg ext (patterns p) (columns it) = some 0 :=
  fun p it h => C15_multi_all_empty cfg ext _ _ (hemp p h)

end NucleoVerif
