import NucleoVerif.Lemmas.Tables
/-! # C16 — character normalization is a coherent, idempotent projection

All statements quantify over **every** natural number `c` (hence every Unicode scalar value).
The tables, their lengths and the dispatch of `normalizeLatin` are generated from the Rust
source on every run (`Gen/Tables.lean`); the reference (`Gen/RefData.lean`) comes from
python's `unicodedata`, independently of the repository. -/
namespace NucleoVerif
open Gen

/-! ## simple case folding -/

/-- naive specification: linear scan over the first `n` *reference* pairs -/
def refFoldAux (c : Nat) : Nat → Nat
  | 0 => c
  | n+1 => if tblGet REF_FOLD_KEYS REF_FOLD_len n = c then tblGet REF_FOLD_VALS REF_FOLD_len n else refFoldAux c n

/-- Unicode simple case folding (statuses C+S) of `c` according to the reference data -/
def refFold (c : Nat) : Nat := refFoldAux c REF_FOLD_len

theorem fold_table_eq_reference :
    FOLD_len = REF_FOLD_len ∧ FOLD_KEYS = REF_FOLD_KEYS ∧ FOLD_VALS = REF_FOLD_VALS := by
  decide +kernel

/-- the binary search of the code finds exactly the entry whose key is `c` -/
theorem toLower_spec (c : Nat) :
    (∃ i, i < FOLD_len ∧ foldKey i = c ∧ toLower c = foldVal i) ∨
    ((∀ i, i < FOLD_len → foldKey i ≠ c) ∧ toLower c = c) := by
  unfold toLower
  cases h : foldSearch c with
  | some i => exact Or.inl ⟨i, (foldSearch_some h).1, (foldSearch_some h).2, rfl⟩
  | none => exact Or.inr ⟨foldSearch_none h, rfl⟩

theorem refFoldAux_spec (c : Nat) : ∀ n,
    (∃ i, i < n ∧ tblGet REF_FOLD_KEYS REF_FOLD_len i = c ∧ refFoldAux c n = tblGet REF_FOLD_VALS REF_FOLD_len i) ∨
    ((∀ i, i < n → tblGet REF_FOLD_KEYS REF_FOLD_len i ≠ c) ∧ refFoldAux c n = c) := by
  intro n
  induction n with
  | zero => exact Or.inr ⟨fun i hi => absurd hi (Nat.not_lt_zero i), rfl⟩
  | succ n ih =>
    by_cases e : tblGet REF_FOLD_KEYS REF_FOLD_len n = c
    · exact Or.inl ⟨n, by omega, e, by simp [refFoldAux, e]⟩
    · rcases ih with ⟨i, hi, hk, hv⟩ | ⟨hno, hv⟩
      · exact Or.inl ⟨i, by omega, hk, by simp [refFoldAux, e, hv]⟩
      · refine Or.inr ⟨?_, by simp [refFoldAux, e, hv]⟩
        intro i hi
        by_cases ei : i = n
        · subst ei; exact e
        · exact hno i (by omega)

/-- **Case folding maps every character as Unicode simple case folding does.** -/
theorem C16_fold_eq_reference (c : Nat) : toLower c = refFold c := by
  obtain ⟨hl, hk, hv⟩ := fold_table_eq_reference
  unfold refFold
  rcases refFoldAux_spec c REF_FOLD_len with ⟨j, hj, hkj, hvj⟩ | ⟨hnoj, hvj⟩ <;>
    rcases toLower_spec c with ⟨i, hi, hkey, hval⟩ | ⟨hno, hval⟩
  · -- both found: the index is unique because the keys are strictly increasing
    rw [← hl, ← hk] at hkj
    rw [hvj, hval, ← hl, ← hv]
    have : i = j := by
      rcases Nat.lt_trichotomy i j with h | h | h
      · have := foldKey_mono i j h (by omega); simp only [foldKey] at this hkey; omega
      · exact h
      · have := foldKey_mono j i h hi; simp only [foldKey] at this hkey; omega
    subst this; rfl
  · exact absurd (by simpa [foldKey, hl, hk] using hkj) (hno j (by omega))
  · exact absurd (by simpa [foldKey, hl, hk] using hkey) (hnoj i (by omega))
  · rw [hvj, hval]

theorem isUpper_spec (c : Nat) : isUpper c = true ↔ ∃ i, i < FOLD_len ∧ foldKey i = c := by
  unfold isUpper
  cases h : foldSearch c with
  | some i => simpa using ⟨i, (foldSearch_some h).1, (foldSearch_some h).2⟩
  | none =>
    simp only [Option.isSome_none, Bool.false_eq_true, false_iff, not_exists, not_and]
    exact fun i hi => foldSearch_none h i hi

/-- **Case folding is idempotent.** -/
theorem C16_fold_idempotent (c : Nat) : toLower (toLower c) = toLower c := by
  rcases toLower_spec c with ⟨i, hi, _, hval⟩ | ⟨_, hval⟩
  · rw [hval]
    have := allUpTo_spec fold_vals_not_keys_b i hi
    simp only [Option.isNone_iff_eq_none] at this
    simp [toLower, this]
  · rw [hval, hval]

/-- **Case folding leaves ASCII other than A–Z untouched** (and maps A–Z to a–z). -/
theorem C16_fold_ascii (c : Nat) (h : c < 128) : toLower c = if 65 ≤ c ∧ c ≤ 90 then c + 32 else c := by
  have := allUpTo_spec fold_ascii_b c h
  simpa using this

/-! ## Latin normalization -/

/-- **Latin normalization changes only characters inside its documented ranges**
    (U+00A0..=U+029F, U+1E00..=U+1EFF, U+2070..=U+209F, as documented on the tables). -/
theorem C16_latin_only_blocks (c : Nat)
    (h1 : ¬ (0xa0 ≤ c ∧ c ≤ 0x29f)) (h2 : ¬ (0x1e00 ≤ c ∧ c ≤ 0x1eff)) (h3 : ¬ (0x2070 ≤ c ∧ c ≤ 0x209f)) :
    normalizeLatin c = c := by
  simp only [normalizeLatin]
  repeat' split
  all_goals omega

theorem normalizeLatin_1ab (c : Nat) (h : 0xa0 ≤ c ∧ c ≤ 0x29f) :
    normalizeLatin c = tblGet LATIN_1AB LATIN_1AB_len (c - 0xa0) := by
  simp only [normalizeLatin]
  repeat' split
  all_goals omega
theorem normalizeLatin_ext (c : Nat) (h : 0x1e00 ≤ c ∧ c ≤ 0x1eff) :
    normalizeLatin c = tblGet LATIN_EXTENDED_ADDITIONAL LATIN_EXTENDED_ADDITIONAL_len (c - 0x1e00) := by
  simp only [normalizeLatin]
  repeat' split
  all_goals omega
theorem normalizeLatin_sup (c : Nat) (h : 0x2070 ≤ c ∧ c ≤ 0x209f) :
    normalizeLatin c = tblGet SUPERSCRIPTS_AND_SUBSCRIPTS SUPERSCRIPTS_AND_SUBSCRIPTS_len (c - 0x2070) := by
  simp only [normalizeLatin]
  repeat' split
  all_goals omega

/-- the table entry consulted for `c` (one of the three ranges) together with the facts decided on it -/
theorem normalizeLatin_entry (c : Nat)
    (h : (0xa0 ≤ c ∧ c ≤ 0x29f) ∨ (0x1e00 ≤ c ∧ c ≤ 0x1eff) ∨ (0x2070 ≤ c ∧ c ≤ 0x209f)) :
    normalizeLatin c < 0x110000 ∧ normalizeLatin (normalizeLatin c) = normalizeLatin c := by
  rcases h with h | h | h
  · rw [normalizeLatin_1ab c h]
    have := allUpTo_spec latin1ab_ok_b (c - 0xa0) (by simp [LATIN_1AB_len]; omega)
    simpa [latinEntryOk] using this
  · rw [normalizeLatin_ext c h]
    have := allUpTo_spec latinExt_ok_b (c - 0x1e00) (by simp [LATIN_EXTENDED_ADDITIONAL_len]; omega)
    simpa [latinEntryOk] using this
  · rw [normalizeLatin_sup c h]
    have := allUpTo_spec supsub_ok_b (c - 0x2070) (by simp [SUPERSCRIPTS_AND_SUBSCRIPTS_len]; omega)
    simpa [latinEntryOk] using this

/-- **Latin normalization is idempotent.** -/
theorem C16_latin_idempotent (c : Nat) : normalizeLatin (normalizeLatin c) = normalizeLatin c := by
  by_cases h : (0xa0 ≤ c ∧ c ≤ 0x29f) ∨ (0x1e00 ≤ c ∧ c ≤ 0x1eff) ∨ (0x2070 ≤ c ∧ c ≤ 0x209f)
  · exact (normalizeLatin_entry c h).2
  · have : normalizeLatin c = c := C16_latin_only_blocks c (by omega) (by omega) (by omega)
    rw [this, this]

/-- **No table index is ever out of range** (the Rust indexing cannot panic) and the result is a scalar. -/
theorem C16_latin_total (c : Nat) (hc : c < 0x110000) : normalizeLatin c < 0x110000 := by
  by_cases h : (0xa0 ≤ c ∧ c ≤ 0x29f) ∨ (0x1e00 ≤ c ∧ c ≤ 0x1eff) ∨ (0x2070 ≤ c ∧ c ≤ 0x209f)
  · exact (normalizeLatin_entry c h).1
  · rw [C16_latin_only_blocks c (by omega) (by omega) (by omega)]; exact hc

/-- **Latin normalization leaves ASCII untouched.** -/
theorem C16_latin_ascii (c : Nat) (h : c < 128) : normalizeLatin c = c :=
  C16_latin_only_blocks c (by omega) (by omega) (by omega)

/-- required image under the NFKD rule (reference data), `none` = the rule says nothing -/
def latinRef (c : Nat) : Option Nat :=
  let v :=
    if 0xa0 ≤ c ∧ c ≤ 0x29f then tblGet REF_LATIN_1AB REF_LATIN_1AB_len (c - 0xa0)
    else if 0x1e00 ≤ c ∧ c ≤ 0x1eff then tblGet REF_LATIN_EXTENDED_ADDITIONAL REF_LATIN_EXTENDED_ADDITIONAL_len (c - 0x1e00)
    else if 0x2070 ≤ c ∧ c ≤ 0x209f then tblGet REF_SUPERSCRIPTS_AND_SUBSCRIPTS REF_SUPERSCRIPTS_AND_SUBSCRIPTS_len (c - 0x2070)
    else 0x1FFFFF
  if v = 0x1FFFFF then none else some v

/-- **A character in the blocks whose compatibility decomposition is an ASCII letter or digit
    followed only by combining marks is mapped to exactly that letter or digit.** -/
theorem C16_latin_reference (c want : Nat) (h : latinRef c = some want) : normalizeLatin c = want := by
  unfold latinRef at h
  by_cases h1 : 0xa0 ≤ c ∧ c ≤ 0x29f
  · simp only [h1, and_self, if_true] at h
    have := allUpTo_spec latin1ab_ref_b (c - 0xa0) (by simp [LATIN_1AB_len]; omega)
    rw [normalizeLatin_1ab c h1]
    simp only [latinRefOk, Bool.or_eq_true, decide_eq_true_eq] at this
    split at h
    · cases h
    · rcases this with e | e
      · contradiction
      · rw [e]; injection h
  · by_cases h2 : 0x1e00 ≤ c ∧ c ≤ 0x1eff
    · simp only [h1, h2, and_self, if_true, if_false] at h
      have := allUpTo_spec latinExt_ref_b (c - 0x1e00) (by simp [LATIN_EXTENDED_ADDITIONAL_len]; omega)
      rw [normalizeLatin_ext c h2]
      simp only [latinRefOk, Bool.or_eq_true, decide_eq_true_eq] at this
      split at h
      · cases h
      · rcases this with e | e
        · contradiction
        · rw [e]; injection h
    · by_cases h3 : 0x2070 ≤ c ∧ c ≤ 0x209f
      · simp only [h1, h2, h3, and_self, if_true, if_false] at h
        have := allUpTo_spec supsub_ref_b (c - 0x2070) (by simp [SUPERSCRIPTS_AND_SUBSCRIPTS_len]; omega)
        rw [normalizeLatin_sup c h3]
        simp only [latinRefOk, Bool.or_eq_true, decide_eq_true_eq] at this
        split at h
        · cases h
        · rcases this with e | e
          · contradiction
          · rw [e]; injection h
      · simp [h1, h2, h3] at h

/-! ## every place that normalizes a haystack character sees the same result -/

/-- **`char_class_and_normalize` (scoring) and `normalize` (filtering, comparing) agree** for every
    character, configuration and representation. -/
theorem C16_cnorm_eq_norm (cfg : Cfg) (r : Rep) (c : Nat) (hr : r = .ascii → c < 128) :
    cnorm cfg r c = norm cfg r c := by
  have asciiEq : ∀ c, cnormAscii cfg c = normAscii cfg c := by
    intro c
    unfold cnormAscii normAscii charClassAscii
    by_cases hi : cfg.ignoreCase = true
    · by_cases hu : 65 ≤ c ∧ c ≤ 90
      · have : ¬ (97 ≤ c ∧ c ≤ 122) := by omega
        simp [hi, hu, this]
      · simp only [hi, true_and, hu, if_false]
        repeat' split
        all_goals first | rfl | omega | (exfalso; simp_all)
    · simp [hi]
  cases r with
  | ascii => exact asciiEq c
  | unicode =>
    show cnormChar cfg c = normChar cfg c
    unfold cnormChar
    by_cases h : c < 128
    · simp only [h, if_true, asciiEq]
      unfold normAscii normChar
      simp only [C16_latin_ascii c h, ite_self]
      by_cases hi : cfg.ignoreCase = true
      · simp only [hi, true_and, if_true, C16_fold_ascii c h]
      · simp [hi]
    · simp only [h, if_false]; rfl

/-- **The result does not depend on the representation the character is held in.** -/
theorem C16_norm_rep_independent (cfg : Cfg) (c : Nat) (h : c < 128) :
    norm cfg .ascii c = norm cfg .unicode c := by
  show normAscii cfg c = normChar cfg c
  unfold normAscii normChar
  simp only [C16_latin_ascii c h, ite_self]
  by_cases hi : cfg.ignoreCase = true
  · simp only [hi, true_and, if_true, C16_fold_ascii c h]
  · simp [hi]

/-! ## non-vacuity: concrete characters meeting the hypotheses -/
example : latinRef 0xe4 = some 0x61 := by decide +kernel          -- ä ↦ a
example : latinRef 0x1e9b = some 0x73 := by decide +kernel        -- ẛ ↦ s  (was 'i' before the fix)
example : toLower 0x3c2 = 0x3c3 := by decide +kernel              -- ς ↦ σ
example : isUpper 0x3c2 = true := by decide +kernel

end NucleoVerif
