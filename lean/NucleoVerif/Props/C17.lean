import NucleoVerif.Model.Utf32
/-! # C17 — string conversion keeps the documented grapheme guarantees

The segmentation into extended grapheme clusters is external (`unicode-segmentation`); the
model receives it.  One fact about it is assumed explicitly where needed (`AsciiSeg`): an
ASCII string without a CR LF pair segments into single characters.  It is exercised by the
correspondence run for every ASCII string of length ≤ 2 (thorough: ≤ 3) and all generated
strings. -/
namespace NucleoVerif

/-- the segmentation fact used by `C17_len` in the ASCII branch -/
def AsciiSeg (s : List Nat) (clusters : List (List Nat)) : Prop :=
  hasAsciiGraphemes s = true → clusters = s.map ([·])

/-- a segmentation is a partition of the string into non-empty pieces -/
def IsSegmentation (s : List Nat) (clusters : List (List Nat)) : Prop :=
  clusters.flatten = s ∧ ∀ c ∈ clusters, c ≠ []

/-- **the ASCII form is chosen exactly when the string is ASCII and contains no CR LF pair** -/
theorem C17_variant (s : List Nat) (cl : List (List Nat)) :
    (mkUtf32 s cl).rep = .ascii ↔ (∀ c ∈ s, c < 128) ∧ hasCRLF s = false := by
  unfold mkUtf32 hasAsciiGraphemes
  by_cases h : (s.all (· < 128) && !hasCRLF s) = true
  · simp only [h, if_true, true_iff]
    simpa using h
  · simp only [h, Bool.false_eq_true, if_false]
    constructor
    · intro e; cases e
    · intro ⟨h1, h2⟩
      exfalso; apply h
      simp [h2]
      exact h1

/-- **in the ASCII form the bytes are the original string** -/
theorem C17_ascii_identity (s : List Nat) (cl : List (List Nat)) (h : (mkUtf32 s cl).rep = .ascii) :
    (mkUtf32 s cl).content = s := by
  unfold mkUtf32 at *
  split at h
  · rename_i hh; simp [hh]
  · cases h

/-- **otherwise: one character per cluster — its first code point, or LF for CR LF** -/
theorem C17_unicode_content (s : List Nat) (cl : List (List Nat)) (h : (mkUtf32 s cl).rep = .unicode) :
    (mkUtf32 s cl).content = cl.map (fun c => if c = [13, 10] then 10 else c.headD 0) := by
  unfold mkUtf32 at *
  split at h
  · cases h
  · rename_i hh; simp [hh, projCluster]

/-- **the length is the number of grapheme clusters** (ASCII branch: under `AsciiSeg`) -/
theorem C17_len (s : List Nat) (cl : List (List Nat)) (hseg : AsciiSeg s cl) :
    (mkUtf32 s cl).len = cl.length := by
  unfold mkUtf32 U32.len
  split
  · rename_i hh
    rw [hseg hh]; simp
  · simp

/-- slicing, indexing and iteration agree with the content -/
theorem C17_slice_get (u : U32) (a b i : Nat) (hab : a ≤ b) (hb : b ≤ u.len) (hi : i < b - a) :
    (u.slice a b).len = b - a ∧ (u.slice a b).get i = u.get (a + i) ∧ (u.slice a b).rep = u.rep := by
  unfold U32.slice U32.len U32.get at *
  refine ⟨by simp [List.length_take, List.length_drop]; omega, ?_, rfl⟩
  simp [List.getElem?_take, hi]

theorem C17_slice_full (u : U32) : u.slice 0 u.len = u := by
  cases u; simp [U32.slice, U32.len]

/-- **every slice function, every spelling of a range**: the four functions `Utf32Str::slice`, `Utf32Str::slice_u32`,
    `Utf32String::slice`, `Utf32String::slice_u32` — their bound arithmetic regenerated from the source on every run — turn any
    pair of bounds into exactly the range of the content that `RangeBounds` denotes, keeping the variant -/
theorem C17_slice_ranges :
    Gen.sliceBoundsAll.map (fun sb => (sb.recv, sb.fn)) =
      [("Utf32Str", "slice"), ("Utf32Str", "slice_u32"), ("Utf32String", "slice"), ("Utf32String", "slice_u32")] ∧
    ∀ sb ∈ Gen.sliceBoundsAll, sb.shapeOk = true ∧ ∀ (u : U32) (lo hi : Bnd), u.sliceVia sb lo hi = u.slice lo.startOf (hi.endOf u.len) := by
  refine ⟨by decide, ?_⟩
  intro sb h
  simp only [Gen.sliceBoundsAll, List.mem_cons, List.not_mem_nil, or_false] at h
  rcases h with rfl | rfl | rfl | rfl <;> refine ⟨rfl, ?_⟩ <;> intro u lo hi <;> cases lo <;> cases hi <;> rfl

/-- so a slice by any pair of bounds has the length, characters and variant of that window of the content -/
theorem C17_slice_ranges_get (sb : Gen.SliceBounds) (hsb : sb ∈ Gen.sliceBoundsAll) (u : U32) (lo hi : Bnd) (i : Nat)
    (hab : lo.startOf ≤ hi.endOf u.len) (hb : hi.endOf u.len ≤ u.len) (hi' : i < hi.endOf u.len - lo.startOf) :
    (u.sliceVia sb lo hi).len = hi.endOf u.len - lo.startOf ∧ (u.sliceVia sb lo hi).get i = u.get (lo.startOf + i) ∧
      (u.sliceVia sb lo hi).rep = u.rep := by
  rw [(C17_slice_ranges.2 sb hsb).2 u lo hi]
  exact C17_slice_get u _ _ i hab hb hi'

/-- cutting a string by its cluster lengths is a segmentation when the lengths are positive and add up -/
theorem cutClusters_flatten : ∀ (ks : List Nat) (s : List Nat), ks.foldl (· + ·) 0 = s.length →
    (cutClusters s ks).flatten = s := by
  intro ks
  induction ks with
  | nil => intro s h; simp at h; simp [cutClusters, List.length_eq_zero_iff.mp h.symm]
  | cons k ks ih =>
    intro s h
    simp only [cutClusters, List.flatten_cons]
    have hk : k ≤ s.length := by
      have : ∀ (l : List Nat) (a : Nat), a ≤ l.foldl (· + ·) a := by
        intro l; induction l with
        | nil => intro a; simp
        | cons x xs ihx => intro a; simp only [List.foldl_cons]; exact Nat.le_trans (Nat.le_add_right a x) (ihx (a + x))
      simp only [List.foldl_cons, Nat.zero_add] at h
      have := this ks k; omega
    rw [ih (s.drop k)]
    · exact List.take_append_drop k s
    · simp only [List.foldl_cons, Nat.zero_add] at h
      have : ∀ (l : List Nat) (a : Nat), l.foldl (· + ·) a = a + l.foldl (· + ·) 0 := by
        intro l; induction l with
        | nil => intro a; simp
        | cons x xs ihx => intro a; simp only [List.foldl_cons, Nat.zero_add]; rw [ihx (a + x), ihx x]; omega
      rw [this ks k] at h
      simp [List.length_drop]; omega

/-! non-vacuity -/
example : mkUtf32 [97, 13, 10, 98] [[97], [13, 10], [98]] = ⟨.unicode, [97, 10, 98]⟩ := by decide
example : mkUtf32 [97, 98] [[97], [98]] = ⟨.ascii, [97, 98]⟩ := by decide
example : AsciiSeg [97, 98] [[97], [98]] := by intro _; rfl
example : ∀ sb ∈ Gen.sliceBoundsAll, (U32.sliceVia sb ⟨.ascii, [97, 98, 99]⟩ (.excl 0) .unb).content = [98, 99] := by decide

end NucleoVerif
