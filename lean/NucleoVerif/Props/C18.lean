import NucleoVerif.Model.ParSort
import NucleoVerif.Model.Nucleo
/-! # C18 — the cancellable parallel sort returns a sorted permutation -/
namespace NucleoVerif.PS

/-- **the slice is always a permutation of its input** — for every comparison function (consistent or
    not), every moment the cancel flag is raised (`cancelAt` is an arbitrary oracle for the flag reads),
    every length and arrangement; cancelled or not.  (By construction of the model: its only mutation is
    a swap; that the real code computes the same arrays is the correspondence check.) -/
theorem C18_perm {α : Type} [Inhabited α] (lt : α → α → Bool) (cancelAt : Nat → Bool) (a : Array α) :
    (parQuicksort lt cancelAt a).1.Perm a := by
  unfold parQuicksort
  exact ((parQuicksortM (a0 := a) lt cancelAt a.size).run ⟨a, Array.Perm.refl a⟩).2.property

/-- in particular the length never changes and no element is lost or duplicated -/
theorem C18_size {α : Type} [Inhabited α] (lt : α → α → Bool) (cancelAt : Nat → Bool) (a : Array α) :
    (parQuicksort lt cancelAt a).1.size = a.size :=
  (C18_perm lt cancelAt a).size_eq

/-- a cancel flag that is already raised when the sort starts: reported, slice untouched -/
theorem C18_cancelled_at_start {α : Type} [Inhabited α] (lt : α → α → Bool) (cancelAt : Nat → Bool) (a : Array α)
    (h : cancelAt 0 = true) : parQuicksort lt cancelAt a = (a, true) := by
  unfold parQuicksort parQuicksortM
  simp only [h, if_true]
  rfl

/-! ## the heapsort fallback: its (translated) loop ranges cover what they must -/

/-- **every heap node that has a child is sifted by the build loop** (the loop range is translated from
    `heapsort`'s source): a node whose first child lies inside the slice is inside the range the build
    loop visits.  Without this the "heap" handed to the pop loop need not be a heap. -/
theorem C18_heap_build_covers_parents (len node : Nat) (h : Gen.PS_heapChild node < len) :
    Gen.PS_heapBuildLo len ≤ node ∧ node < Gen.PS_heapBuildHi len := by
  unfold Gen.PS_heapChild at h
  unfold Gen.PS_heapBuildLo Gen.PS_heapBuildHi
  omega

/-- the children of a node are `2·node + 1` and the position after it, and are below it in the heap order
    (strictly larger index): sifting moves strictly down, so it terminates within `len` steps -/
theorem C18_heap_child_below (node : Nat) : node < Gen.PS_heapChild node := by
  unfold Gen.PS_heapChild; omega

/-- **the pop loop places every position but the first**: it visits `len - 1, …, 1` -/
theorem C18_heap_pop_covers (len : Nat) : Gen.PS_heapPopLo len = 1 ∧ Gen.PS_heapPopHi len = len := by
  unfold Gen.PS_heapPopLo Gen.PS_heapPopHi; exact ⟨rfl, rfl⟩

/-! ## uniqueness of the sorted order: thread-count independence -/

/-- two lists sorted by the same strict order in which distinct elements are always comparable, and
    permutations of each other, are equal -/
theorem sorted_perm_unique {β : Type} (lt : β → β → Bool) (htot : ∀ a b, a ≠ b → lt a b = true ∨ lt b a = true) :
    ∀ (l₁ l₂ : List β), l₁.Pairwise (fun a b => lt b a = false) → l₂.Pairwise (fun a b => lt b a = false) → l₁.Perm l₂ → l₁ = l₂ := by
  intro l₁
  induction l₁ with
  | nil => intro l₂ _ _ hp; exact (List.Perm.nil_eq hp)
  | cons a t₁ ih =>
    intro l₂ h₁ h₂ hp
    cases l₂ with
    | nil => exact absurd hp.symm (by simp)
    | cons b t₂ =>
      have h₁' := List.pairwise_cons.mp h₁
      have h₂' := List.pairwise_cons.mp h₂
      have hab : a = b := by
        by_cases e : a = b
        · exact e
        · exfalso
          have ha : a ∈ b :: t₂ := hp.mem_iff.mp (List.mem_cons_self)
          have hb : b ∈ a :: t₁ := hp.mem_iff.mpr (List.mem_cons_self)
          have ha' : a ∈ t₂ := by
            rcases List.mem_cons.mp ha with h | h
            · exact absurd h e
            · exact h
          have hb' : b ∈ t₁ := by
            rcases List.mem_cons.mp hb with h | h
            · exact absurd h.symm e
            · exact h
          have r1 := h₂'.1 a ha'   -- lt a b = false
          have r2 := h₁'.1 b hb'   -- lt b a = false
          rcases htot a b e with h | h
          · rw [h] at r1; cases r1
          · rw [h] at r2; cases r2
      subst hab
      have : t₁.Perm t₂ := List.Perm.cons_inv hp
      rw [ih t₂ h₁'.2 h₂'.2 this]


/-! ## never "cancelled" when the flag is never raised -/

section

variable {α : Type} [Inhabited α] {a0 : Array α} (lt : α → α → Bool)

/-- "this computation does not report cancellation" -/
def NC (m : M a0 (Bool × Nat)) : Prop := ∀ s, (m s).1.1 = false

theorem NC_pure_false (n : Nat) : NC (a0 := a0) (pure (false, n)) := fun _ => rfl

theorem NC_bind_any {β : Type} (m : M a0 β) (f : β → M a0 (Bool × Nat)) (h : ∀ x, NC (f x)) : NC (m >>= f) := by
  intro s
  show ((f (m s).1) (m s).2).1.1 = false
  exact h _ _

theorem NC_bind_rec (m : M a0 (Bool × Nat)) (f : Bool × Nat → M a0 (Bool × Nat)) (hm : NC m)
    (h : ∀ x, x.1 = false → NC (f x)) : NC (m >>= f) := by
  intro s
  show ((f (m s).1) (m s).2).1.1 = false
  exact h _ (hm s) _

theorem NC_ite (c : Prop) [Decidable c] (a b : M a0 (Bool × Nat)) (ha : NC a) (hb : NC b) : NC (if c then a else b) := by
  split <;> assumption

theorem recurseSplit_NC
    (rec : (lo hi : Nat) → Option α → (limit : Nat) → (wasBalanced wasPartitioned : Bool) → (nread : Nat) → M a0 (Bool × Nat))
    (hrec : ∀ lo hi pred limit wb wp nread, NC (rec lo hi pred limit wb wp nread))
    (lo hi : Nat) (pred : Option α) (limit : Nat) (wb wp : Bool) (nread pivot : Nat) :
    NC (recurseSplit lt (fun _ => false) rec lo hi pred limit wb wp nread pivot) := by
  have tail : ∀ (doEqual : Bool), NC (a0 := a0) (if doEqual = true then do
        let mid ← partitionEqual lt lo hi pivot
        rec (lo + mid) hi pred limit wb wp nread
      else do
        let __x ← partition lt lo hi pivot
        let pv ← rd (lo + __x.fst)
        if max __x.fst (hi - lo - __x.fst - 1) ≤ Gen.PS_MAX_SEQUENTIAL then
          if __x.fst < hi - lo - __x.fst - 1 then do
            let __x_1 ← rec lo (lo + __x.fst) pred limit true true nread
            rec (lo + __x.fst + 1) hi (some pv) limit (decide (min __x.fst (hi - lo - __x.fst) ≥ (hi - lo) / 8)) __x.snd __x_1.snd
          else do
            let __x_1 ← rec (lo + __x.fst + 1) hi (some pv) limit true true nread
            rec lo (lo + __x.fst) pred limit (decide (min __x.fst (hi - lo - __x.fst) ≥ (hi - lo) / 8)) __x.snd __x_1.snd
        else do
          let __x_1 ← rec lo (lo + __x.fst) pred limit true true (nread + 1)
          let __x_2 ← rec (lo + __x.fst + 1) hi (some pv) limit true true __x_1.snd
          pure (__x_1.fst || __x_2.fst, __x_2.snd)) := by
    intro doEqual
    apply NC_ite
    · apply NC_bind_any; intro mid; exact hrec _ _ _ _ _ _ _
    · apply NC_bind_any; intro x
      apply NC_bind_any; intro pv
      apply NC_ite
      · apply NC_ite
        · apply NC_bind_rec _ _ (hrec _ _ _ _ _ _ _); intro x1 _; exact hrec _ _ _ _ _ _ _
        · apply NC_bind_rec _ _ (hrec _ _ _ _ _ _ _); intro x1 _; exact hrec _ _ _ _ _ _ _
      · apply NC_bind_rec _ _ (hrec _ _ _ _ _ _ _); intro x1 h1
        apply NC_bind_rec _ _ (hrec _ _ _ _ _ _ _); intro x2 h2
        intro s
        show (x1.1 || x2.1) = false
        rw [h1, h2]; rfl
  unfold recurseSplit
  simp only [Bool.false_eq_true, if_false]
  cases pred with
  | none => apply NC_bind_any; intro doEqual; exact tail doEqual
  | some p =>
    apply NC_bind_any; intro v
    apply NC_bind_any; intro doEqual
    exact tail doEqual

theorem recursePivot_NC
    (rec : (lo hi : Nat) → Option α → (limit : Nat) → (wasBalanced wasPartitioned : Bool) → (nread : Nat) → M a0 (Bool × Nat))
    (hrec : ∀ lo hi pred limit wb wp nread, NC (rec lo hi pred limit wb wp nread))
    (lo hi : Nat) (pred : Option α) (limit : Nat) (wb wp : Bool) (nread : Nat) :
    NC (recursePivot lt (fun _ => false) rec lo hi pred limit wb wp nread) := by
  unfold recursePivot
  apply NC_bind_any
  intro x
  simp only
  apply NC_ite
  · apply NC_bind_any
    intro b
    apply NC_ite
    · exact NC_pure_false _
    · exact recurseSplit_NC lt rec hrec _ _ _ _ _ _ _ _
  · exact recurseSplit_NC lt rec hrec _ _ _ _ _ _ _ _

theorem recurse_NC : ∀ (fuel lo hi : Nat) (pred : Option α) (limit : Nat) (wb wp : Bool) (nread : Nat),
    NC (a0 := a0) (recurseLoop lt (fun _ => false) fuel lo hi pred limit wb wp nread) := by
  intro fuel
  induction fuel with
  | zero => intro lo hi pred limit wb wp nread; unfold recurseLoop; exact NC_pure_false _
  | succ k ih =>
    intro lo hi pred limit wb wp nread
    unfold recurseLoop
    apply NC_ite
    · apply NC_bind_any; intro _; exact NC_pure_false _
    · apply NC_ite
      · apply NC_bind_any; intro _; exact NC_pure_false _
      · apply NC_ite
        · apply NC_bind_any; intro _
          exact recursePivot_NC lt _ ih _ _ _ _ _ _ _
        · exact recursePivot_NC lt _ ih _ _ _ _ _ _ _

/-- **a sort whose cancel flag is never raised never reports "cancelled"** — every comparison function, every input -/
theorem C18_not_cancelled (lt : α → α → Bool) (a : Array α) : (parQuicksort lt (fun _ => false) a).2 = false := by
  unfold parQuicksort parQuicksortM
  simp only [Bool.false_eq_true, if_false]
  have := recurse_NC (a0 := a) lt (a.size + 2) 0 a.size none (bitLen a.size) true true 1 ⟨a, Array.Perm.refl a⟩
  exact this


end

end NucleoVerif.PS

namespace NucleoVerif.Nu
open NucleoVerif.PS

/-- the worker's comparison decides every pair of distinct matches: it is a strict *total* order -/
theorem matchLess_total (len : Item → Nat) (items : Nat → Option Item) (a b : Match) (h : a ≠ b) :
    matchLess len items a b = true ∨ matchLess len items b a = true := by
  unfold matchLess
  by_cases hs : a.score = b.score
  · have hs' : b.score = a.score := hs.symm
    have e1 : ¬ (a.score ≠ b.score) := fun x => x hs
    have e2 : ¬ (b.score ≠ a.score) := fun x => x hs'
    rw [if_neg e1, if_neg e2]
    by_cases ha : a.idx = PLACE
    · by_cases hb : b.idx = PLACE
      · exfalso; apply h; cases a; cases b; simp_all
      · right; rw [if_neg hb, if_pos ha]
    · by_cases hb : b.idx = PLACE
      · left; rw [if_neg ha, if_pos hb]
      · rw [if_neg ha, if_neg hb, if_neg hb, if_neg ha]
        by_cases hl : ((items a.idx).map len |>.getD 0) = ((items b.idx).map len |>.getD 0)
        · have hl' := hl.symm
          rw [if_pos hl, if_pos hl']
          simp only [decide_eq_true_eq]
          have : a.idx ≠ b.idx := by
            intro e; apply h; cases a; cases b; simp_all
          omega
        · have hl' : ¬ (((items b.idx).map len |>.getD 0) = ((items a.idx).map len |>.getD 0)) := fun e => hl e.symm
          rw [if_neg hl, if_neg hl']
          simp only [decide_eq_true_eq]
          omega
  · have hs' : ¬ (b.score = a.score) := fun e => hs e.symm
    simp only [ne_eq, hs, hs', not_false_eq_true, if_true, decide_eq_true_eq]
    omega

/-- **because the worker's comparison is a total order, the sorted match list is unique**: whatever
    the number of worker threads (i.e. however the work is split and in whatever order the sub-slices are
    sorted), two sorted permutations of the same matches are the same list -/
theorem C18_thread_independent (len : Item → Nat) (items : Nat → Option Item) (l₁ l₂ : List Match)
    (h₁ : l₁.Pairwise (fun a b => matchLess len items b a = false))
    (h₂ : l₂.Pairwise (fun a b => matchLess len items b a = false)) (hp : l₁.Perm l₂) : l₁ = l₂ :=
  sorted_perm_unique (matchLess len items) (matchLess_total len items) l₁ l₂ h₁ h₂ hp

end NucleoVerif.Nu

