import NucleoVerif.Props.C20
/-! # C19 — tick's status tells the truth about the snapshot -/
namespace NucleoVerif.Nu

theorem joinRun_snapshot (n : Nucleo) (run : Worker → Worker) : (n.joinRun run).snapshot = n.snapshot := by
  unfold Nucleo.joinRun; split <;> rfl

/-- one `tick_inner` with the lock: the snapshot is touched only when it reports `changed` -/
theorem tickInnerLocked_unchanged (n : Nucleo) (c : Bool) (st : PStatus) (k : Nat)
    (h : (tickInnerLocked n c st k).2.changed = false) : (tickInnerLocked n c st k).1.snapshot = n.snapshot := by
  have hw : n.worker.running = false := by
    unfold tickInnerLocked at h; split at h <;> simpa using h
  have : n.snapAfter = n.snapshot := by simp [Nucleo.snapAfter, hw]
  unfold tickInnerLocked; split <;> simp [this]

/-- **if `tick` reports `changed = false`, the snapshot (matches, item count, pattern, item stream) is
    exactly what it was before the call** — for every lock outcome and every background-run effect -/
theorem C19_changed (n : Nucleo) (o : TickOracle) (h : (n.tick o).2.changed = false) :
    (n.tick o).1.snapshot = n.snapshot := by
  unfold Nucleo.tick at *
  simp only at *
  split at h
  · rename_i hc
    simp only [hc, if_true]
    simp only [Bool.or_eq_false_iff] at h
    -- second tick_inner
    have h2 : ((({ n with shouldNotify := false } : Nucleo).tickCancelFirst o).1.tickSecond o).1.snapshot =
        (({ n with shouldNotify := false } : Nucleo).tickCancelFirst o).1.snapshot := by
      unfold Nucleo.tickSecond at *
      split
      · rename_i hl
        simp only [hl, if_true] at h
        rw [tickInnerLocked_unchanged _ _ _ _ h.2, joinRun_snapshot]
      · rfl
    rw [h2]
    -- first tick_inner
    unfold Nucleo.tickCancelFirst at *
    simp only at *
    rw [tickInnerLocked_unchanged _ _ _ _ h.1, joinRun_snapshot]
  · rename_i hc
    simp only [hc, Bool.false_eq_true, if_false]
    unfold Nucleo.tickPlain at *
    split
    · rfl
    · rename_i hp
      simp only [hp, if_false] at h
      rw [tickInnerLocked_unchanged _ _ _ _ h, joinRun_snapshot]

/-- `running = false` is only ever reported by a `tick_inner` that held the worker lock and found that
    the reservation counter it read does not exceed the worker's processed-item count; it spawns nothing -/
theorem C19_running_lock (n : Nucleo) (c : Bool) (st : PStatus) (k : Nat)
    (h : (tickInnerLocked n c st k).2.running = false) :
    c = false ∧ k ≤ n.worker.itemCount ∧ (tickInnerLocked n c st k).1.pending = n.pending := by
  unfold tickInnerLocked at *
  by_cases hr : (c || decide (k > n.worker.itemCount)) = true
  · simp [hr] at h
  · simp only [hr, Bool.false_eq_true, if_false]
    simp only [Bool.or_eq_true, decide_eq_true_eq, not_or, Nat.not_lt] at hr
    exact ⟨by simpa using hr.1, hr.2, trivial⟩

/-- …and in that case, if a run had finished un-cancelled since the last look, the snapshot now *is*
    the worker's result: its item count is the worker's processed count (≥ the counter read), its
    pattern is the pattern the run was started with and it refers to the worker's stream -/
theorem C19_running_fresh_result (n : Nucleo) (k : Nat) (hrun : n.worker.running = true) (hnc : n.worker.wasCanceled = false)
    (hf : n.state = .fresh) (h : (tickInnerLocked n false .unchanged k).2.running = false) :
    (tickInnerLocked n false .unchanged k).1.snapshot.itemCount = n.worker.itemCount ∧
    k ≤ (tickInnerLocked n false .unchanged k).1.snapshot.itemCount ∧
    (tickInnerLocked n false .unchanged k).1.snapshot.pattern = n.worker.pattern ∧
    (tickInnerLocked n false .unchanged k).1.snapshot.stream = n.worker.stream := by
  have hk := (C19_running_lock n false .unchanged k h).2.1
  have hs : n.snapAfter = n.snapshot.update n.worker := by simp [Nucleo.snapAfter, hrun, hnc, hf, NState.canceled]
  have hr : ¬ ((false || decide (k > n.worker.itemCount)) = true) := by simp; omega
  unfold tickInnerLocked
  simp only [hr, Bool.false_eq_true, if_false, hs, Snapshot.update]
  exact ⟨trivial, hk, trivial, trivial⟩

end NucleoVerif.Nu
