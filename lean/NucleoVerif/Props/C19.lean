import NucleoVerif.Props.C20
/-! # C19 — tick's status tells the truth about the snapshot -/
namespace NucleoVerif.Nu

theorem joinRun_snapshot (n : Nucleo) (run : Worker → Worker) : (n.joinRun run).snapshot = n.snapshot := by
  unfold Nucleo.joinRun; split <;> rfl

/-- one `tick_inner` with the lock: the snapshot is touched only when it reports `changed` -/
theorem tickInnerLocked_unchanged (n : Nucleo) (c : Bool) (st : PStatus) (k : Nat)
    (h : (tickInnerLocked n c st k).2.changed = false) : (tickInnerLocked n c st k).1.snapshot = n.snapshot := by
  have hw : n.worker.running = false := by
    unfold tickInnerLocked at h; split at h <;> simpa using h
  have : n.snapAfter = n.snapshot := by simp [Nucleo.snapAfter, hw]
  unfold tickInnerLocked; split <;> simp [this]

/-- **if `tick` reports `changed = false`, the snapshot (matches, item count, pattern, item stream) is
    exactly what it was before the call** — for every lock outcome and every background-run effect -/
theorem C19_changed (n : Nucleo) (o : TickOracle) (h : (n.tick o).2.changed = false) :
    (n.tick o).1.snapshot = n.snapshot := by
  unfold Nucleo.tick at *
  simp only at *
  split at h
  · rename_i hc
    simp only [hc, if_true]
    simp only [Bool.or_eq_false_iff] at h
    -- second tick_inner
    have h2 : ((({ n with shouldNotify := false } : Nucleo).tickCancelFirst o).1.tickSecond o).1.snapshot =
        (({ n with shouldNotify := false } : Nucleo).tickCancelFirst o).1.snapshot := by
      unfold Nucleo.tickSecond at *
      split
      · rename_i hl
        simp only [hl, if_true] at h
        rw [tickInnerLocked_unchanged _ _ _ _ h.2, joinRun_snapshot]
      · rfl
    rw [h2]
    -- first tick_inner
    unfold Nucleo.tickCancelFirst at *
    simp only at *
    rw [tickInnerLocked_unchanged _ _ _ _ h.1, joinRun_snapshot]
  · rename_i hc
    simp only [hc, Bool.false_eq_true, if_false]
    unfold Nucleo.tickPlain at *
    split
    · rfl
    · rename_i hp
      simp only [hp, if_false] at h
      rw [tickInnerLocked_unchanged _ _ _ _ h, joinRun_snapshot]

/-- `running = false` is only ever reported by a `tick_inner` that held the worker lock and found that
    the reservation counter it read does not exceed the worker's processed-item count; it spawns nothing -/
theorem C19_running_lock (n : Nucleo) (c : Bool) (st : PStatus) (k : Nat)
    (h : (tickInnerLocked n c st k).2.running = false) :
    c = false ∧ k ≤ n.worker.itemCount ∧ (tickInnerLocked n c st k).1.pending = n.pending := by
  unfold tickInnerLocked at *
  by_cases hr : (c || decide (k > n.worker.itemCount)) = true
  · simp [hr] at h
  · simp only [hr, Bool.false_eq_true, if_false]
    simp only [Bool.or_eq_true, decide_eq_true_eq, not_or, Nat.not_lt] at hr
    exact ⟨by simpa using hr.1, hr.2, trivial⟩

/-- …and in that case, if a run had finished un-cancelled since the last look, the snapshot now *is*
    the worker's result: its item count is the worker's processed count (≥ the counter read), its
    pattern is the pattern the run was started with and it refers to the worker's stream -/
theorem C19_running_fresh_result (n : Nucleo) (k : Nat) (hrun : n.worker.running = true) (hnc : n.worker.wasCanceled = false)
    (hf : n.state = .fresh) (h : (tickInnerLocked n false .unchanged k).2.running = false) :
    (tickInnerLocked n false .unchanged k).1.snapshot.itemCount = n.worker.itemCount ∧
    k ≤ (tickInnerLocked n false .unchanged k).1.snapshot.itemCount ∧
    (tickInnerLocked n false .unchanged k).1.snapshot.pattern = n.worker.pattern ∧
    (tickInnerLocked n false .unchanged k).1.snapshot.stream = n.worker.stream := by
  have hk := (C19_running_lock n false .unchanged k h).2.1
  have hs : n.snapAfter = n.snapshot.update n.worker := by simp [Nucleo.snapAfter, hrun, hnc, hf, NState.canceled]
  have hr : ¬ ((false || decide (k > n.worker.itemCount)) = true) := by simp; omega
  unfold tickInnerLocked
  simp only [hr, Bool.false_eq_true, if_false, hs, Snapshot.update]
  exact ⟨trivial, hk, trivial, trivial⟩


/-! ## `running = false`: the state invariant over every history -/

/-- what every background run does to the worker, whatever it observes: it marks itself as run and keeps the
    pattern and the stream handle it was started with -/
structure RunLike (run : Worker → Worker) : Prop where
  running : ∀ w, (run w).running = true
  pattern : ∀ w, (run w).pattern = w.pattern
  stream : ∀ w, (run w).stream = w.stream

def Uncancelled (run : Worker → Worker) : Prop := ∀ w, (run w).wasCanceled = false

/-- the state invariant behind the `running = false` clause -/
structure Inv19 (n : Nucleo) : Prop where
  /-- a finished run that has been looked at leaves the worker marked idle -/
  idle : n.pending = none → n.worker.running = false
  /-- with no run in flight on a live stream, the snapshot is the worker's result -/
  mirror : n.pending = none → n.state = .fresh →
    n.snapshot.itemCount = n.worker.itemCount ∧ n.snapshot.pattern = n.worker.pattern
  /-- an unchanged pattern on a live stream is the pattern the worker was (last) started with -/
  pat : n.status = .unchanged → n.state = .fresh → n.worker.pattern = n.pattern

theorem Inv19.new : Inv19 Nucleo.new := ⟨fun _ => rfl, fun _ h => by simp [Nucleo.new] at h, fun _ h => by simp [Nucleo.new] at h⟩

theorem Inv19.restart {n : Nucleo} (h : Inv19 n) (c : Bool) : Inv19 (n.restart c) :=
  ⟨h.idle, fun _ hs => by simp [Nucleo.restart] at hs, fun _ hs => by simp [Nucleo.restart] at hs⟩

theorem Inv19.reparse {n : Nucleo} (h : Inv19 n) (p : Nat) (s : PStatus) (hs : s ≠ .unchanged) : Inv19 (n.reparse p s) :=
  ⟨h.idle, h.mirror, fun hu _ => absurd hu hs⟩

theorem Inv19.addInjector {n : Nucleo} (h : Inv19 n) (k : Nat) : Inv19 (n.addInjector k) := ⟨h.idle, h.mirror, h.pat⟩
theorem Inv19.dropInjector {n : Nucleo} (h : Inv19 n) (k : Nat) : Inv19 (n.dropInjector k) := ⟨h.idle, h.mirror, h.pat⟩
theorem Inv19.cloneInjector {n : Nucleo} (h : Inv19 n) (a b : Nat) : Inv19 (n.cloneInjector a b) := by
  unfold Nucleo.cloneInjector; split
  · exact ⟨h.idle, h.mirror, h.pat⟩
  · exact h

/-- the state a `tick_inner` that holds the lock works on: the run in flight (if any) has been joined -/
structure Joined (m : Nucleo) : Prop where
  noPending : m.pending = none
  /-- either an un-looked-at, un-cancelled result, or an idle worker mirrored by the snapshot (on a live stream) -/
  fresh : m.state = .fresh →
    (m.worker.running = true ∧ m.worker.wasCanceled = false) ∨
    (m.worker.running = false ∧ m.snapshot.itemCount = m.worker.itemCount ∧ m.snapshot.pattern = m.worker.pattern)

/-- **one `tick_inner` that holds the lock and reports `running = false`** leaves the snapshot equal to the worker's
    result, whose processed count is at least the counter it read -/
theorem tickInnerLocked_done (m : Nucleo) (k : Nat) (hj : Joined m) (hf : m.state = .fresh)
    (h : (tickInnerLocked m false .unchanged k).2.running = false) :
    let m' := (tickInnerLocked m false .unchanged k).1
    m'.pending = none ∧ m'.worker.running = false ∧ m'.state = .fresh ∧
    m'.snapshot.itemCount = m'.worker.itemCount ∧ m'.snapshot.pattern = m'.worker.pattern ∧ k ≤ m'.snapshot.itemCount ∧
    m'.worker.pattern = m.worker.pattern ∧ m'.status = m.status ∧ m'.pattern = m.pattern := by
  have hk := (C19_running_lock m false .unchanged k h).2.1
  have hr : ¬ ((false || decide (k > m.worker.itemCount)) = true) := by simp; omega
  unfold tickInnerLocked
  simp only [hr, Bool.false_eq_true, if_false]
  rcases hj.fresh hf with ⟨h1, h2⟩ | ⟨h1, h2, h3⟩
  · have hs : m.snapAfter = m.snapshot.update m.worker := by simp [Nucleo.snapAfter, h1, h2, hf, NState.canceled]
    have hw : m.workerAfter = { m.worker with running := false } := by simp [Nucleo.workerAfter, h1]
    simp only [hs, hw, Snapshot.update, Worker.itemCount]
    exact ⟨hj.noPending, by trivial, hf, by trivial, by trivial, hk, by trivial, by trivial, by trivial⟩
  · have hs : m.snapAfter = m.snapshot := by simp [Nucleo.snapAfter, h1]
    have hw : m.workerAfter = m.worker := by simp [Nucleo.workerAfter, h1]
    simp only [hs, hw]
    exact ⟨hj.noPending, h1, hf, h2, h3, by rw [h2]; exact hk, by trivial, by trivial, by trivial⟩

theorem joinRun_fields (n : Nucleo) (run : Worker → Worker) :
    (n.joinRun run).state = n.state ∧ (n.joinRun run).status = n.status ∧ (n.joinRun run).pattern = n.pattern ∧
    (n.joinRun run).pending = none ∧ (n.joinRun run).snapshot = n.snapshot ∧ (n.joinRun run).cur = n.cur := by
  unfold Nucleo.joinRun
  cases hp : n.pending with
  | none => simp [hp]
  | some p => simp

theorem joinRun_joined (n : Nucleo) (h : Inv19 n) (run : Worker → Worker) (hr : RunLike run) (hu : Uncancelled run) :
    Joined (n.joinRun run) ∧ (n.joinRun run).worker.pattern = n.worker.pattern := by
  have hf := joinRun_fields n run
  refine ⟨⟨hf.2.2.2.1, ?_⟩, ?_⟩
  · intro hfr
    rw [hf.1] at hfr
    unfold Nucleo.joinRun
    cases hp : n.pending with
    | none =>
      simp only [Option.isSome_none, Bool.false_eq_true, if_false]
      right
      exact ⟨h.idle hp, h.mirror hp hfr⟩
    | some p =>
      simp only [Option.isSome_some, if_true]
      left
      exact ⟨hr.running _, hu _⟩
  · unfold Nucleo.joinRun
    split
    · exact hr.pattern _
    · rfl

/-- a non-cancelling `tick_inner` that holds the lock, from a joined state on a live stream with an unchanged
    pattern: the invariant is re-established, and `running = false` comes with the snapshot facts -/
theorem locked_step (m : Nucleo) (k : Nat) (hj : Joined m) (hf : m.state = .fresh) (hp : m.worker.pattern = m.pattern) :
    Inv19 (tickInnerLocked m false .unchanged k).1 ∧
    (tickInnerLocked m false .unchanged k).1.pattern = m.pattern ∧
    ((tickInnerLocked m false .unchanged k).2.running = false →
      (tickInnerLocked m false .unchanged k).1.snapshot.pattern = m.pattern ∧
      k ≤ (tickInnerLocked m false .unchanged k).1.snapshot.itemCount ∧
      (tickInnerLocked m false .unchanged k).1.snapshot.itemCount = (tickInnerLocked m false .unchanged k).1.worker.itemCount) := by
  by_cases hr : (tickInnerLocked m false .unchanged k).2.running = false
  · obtain ⟨d1, d2, d3, d4, d5, d6, d7, d8, d9⟩ := tickInnerLocked_done m k hj hf hr
    refine ⟨⟨fun _ => d2, fun _ _ => ⟨d4, d5⟩, fun _ _ => by rw [d7, d9]; exact hp⟩, d9, fun _ => ⟨by rw [d5, d7]; exact hp, d6, d4⟩⟩
  · refine ⟨?_, ?_, fun h => absurd h hr⟩
    · -- the spawning branch
      unfold tickInnerLocked at hr ⊢
      by_cases hc : (false || decide (k > m.worker.itemCount)) = true
      · simp only [hc, if_true]
        exact ⟨fun hpn => by simp at hpn, fun hpn => by simp at hpn, fun _ _ => rfl⟩
      · simp [hc] at hr
    · unfold tickInnerLocked; split <;> rfl

/-- what the environment guarantees about the background runs a tick joins: they are runs (`RunLike`), and a run that
    no tick cancelled and no restart followed did not observe the cancel flag — the flag is raised only by a
    cancelling tick (which then waits for the run) and by `restart` (which makes the next tick a cancelling one) -/
structure TickEnv (n : Nucleo) (o : TickOracle) : Prop where
  run0 : RunLike o.run0
  run1 : RunLike o.run1
  unc1 : Uncancelled o.run1
  unc0 : n.tickCancels = false → Uncancelled o.run0

/-- the counter value read by the `tick_inner` that decides `running` -/
def TickOracle.decidingCount (o : TickOracle) (n : Nucleo) : Nat := if n.tickCancels then o.count2 else o.count1

theorem state_fresh_of_not_canceled (s : NState) (h : s.canceled = false) : s = .fresh := by
  cases s <;> simp [NState.canceled] at h ⊢

/-- the first `tick_inner` of a cancelling tick always spawns: afterwards a run is pending on a live stream,
    started with the current pattern, and the status is reset -/
theorem tickCancelFirst_facts (n : Nucleo) (o : TickOracle) :
    (n.tickCancelFirst o).1.state = .fresh ∧ (n.tickCancelFirst o).1.pending.isSome = true ∧
    (n.tickCancelFirst o).1.worker.pattern = n.pattern ∧ (n.tickCancelFirst o).1.pattern = n.pattern ∧
    (n.tickCancelFirst o).1.status = .unchanged := by
  unfold Nucleo.tickCancelFirst tickInnerLocked
  simp only [Bool.true_or, if_true]
  refine ⟨by trivial, by trivial, ?_, ?_, ?_⟩
  · exact (joinRun_fields _ o.run0).2.2.1
  · exact (joinRun_fields _ o.run0).2.2.1
  · exact (joinRun_fields _ o.run0).2.1

/-- the second `tick_inner` of a cancelling tick -/
theorem tickSecond_step (n2 : Nucleo) (o : TickOracle) (r1 : RunLike o.run1) (u1 : Uncancelled o.run1)
    (hf : n2.state = .fresh) (hp : n2.pending.isSome = true) (hw : n2.worker.pattern = n2.pattern) :
    Inv19 (n2.tickSecond o).1 ∧ (n2.tickSecond o).1.pattern = n2.pattern ∧
    ((n2.tickSecond o).2.running = false →
      (n2.tickSecond o).1.snapshot.pattern = n2.pattern ∧ o.count2 ≤ (n2.tickSecond o).1.snapshot.itemCount ∧
      (n2.tickSecond o).1.snapshot.itemCount = (n2.tickSecond o).1.worker.itemCount) := by
  unfold Nucleo.tickSecond
  by_cases hl : o.lock2 = true
  · simp only [hl, if_true]
    have hfj := joinRun_fields n2 o.run1
    have hj2 : Joined (n2.joinRun o.run1) := by
      refine ⟨hfj.2.2.2.1, fun _ => Or.inl ?_⟩
      unfold Nucleo.joinRun
      simp only [hp, if_true]
      exact ⟨r1.running _, u1 _⟩
    have hp2 : (n2.joinRun o.run1).worker.pattern = (n2.joinRun o.run1).pattern := by
      rw [hfj.2.2.1]
      unfold Nucleo.joinRun
      simp only [hp, if_true]
      rw [r1.pattern]; exact hw
    have ls := locked_step (n2.joinRun o.run1) o.count2 hj2 (by rw [hfj.1]; exact hf) hp2
    rw [hfj.2.2.1] at ls
    exact ls
  · simp only [hl, Bool.false_eq_true, if_false]
    unfold tickInnerTimeout
    refine ⟨⟨?_, ?_, ?_⟩, rfl, fun hh => by simp at hh⟩
    · intro hpn; simp only at hpn; rw [hpn] at hp; simp at hp
    · intro hpn; simp only at hpn; rw [hpn] at hp; simp at hp
    · intro _ _; exact hw

/-- the only `tick_inner` of a non-cancelling tick -/
theorem tickPlain_step (n : Nucleo) (h : Inv19 n) (o : TickOracle) (r0 : RunLike o.run0) (u0 : Uncancelled o.run0)
    (hst : n.status = .unchanged) (hf : n.state = .fresh) :
    Inv19 (n.tickPlain o).1 ∧ (n.tickPlain o).1.pattern = n.pattern ∧
    ((n.tickPlain o).2.running = false →
      (n.tickPlain o).1.snapshot.pattern = n.pattern ∧ o.count1 ≤ (n.tickPlain o).1.snapshot.itemCount ∧
      (n.tickPlain o).1.snapshot.itemCount = (n.tickPlain o).1.worker.itemCount) := by
  unfold Nucleo.tickPlain
  split
  · unfold tickInnerTimeout
    exact ⟨⟨h.idle, h.mirror, h.pat⟩, rfl, fun hh => by simp at hh⟩
  · have hfj := joinRun_fields n o.run0
    have hj := joinRun_joined n h o.run0 r0 u0
    have hp : (n.joinRun o.run0).worker.pattern = (n.joinRun o.run0).pattern := by
      rw [hj.2, hfj.2.2.1]; exact h.pat hst hf
    have ls := locked_step _ o.count1 hj.1 (by rw [hfj.1]; exact hf) hp
    rw [hfj.2.2.1] at ls
    exact ls

/-- **one `tick`**: the invariant is preserved, the current pattern is not touched, and if it reports
    `running = false` the snapshot carries the current pattern and accounts for at least as many items as the
    reservation counter showed when the deciding `tick_inner` read it -/
theorem Inv19.tick {n : Nucleo} (h : Inv19 n) (o : TickOracle) (env : TickEnv n o) :
    Inv19 (n.tick o).1 ∧ (n.tick o).1.pattern = n.pattern ∧
    ((n.tick o).2.running = false →
      (n.tick o).1.snapshot.pattern = n.pattern ∧ o.decidingCount n ≤ (n.tick o).1.snapshot.itemCount ∧
      (n.tick o).1.snapshot.itemCount = (n.tick o).1.worker.itemCount) := by
  unfold Nucleo.tick TickOracle.decidingCount
  simp only
  have hc0 : ({ n with shouldNotify := false } : Nucleo).tickCancels = n.tickCancels := rfl
  rw [hc0]
  have h0 : Inv19 ({ n with shouldNotify := false } : Nucleo) := ⟨h.idle, h.mirror, h.pat⟩
  by_cases hc : n.tickCancels = true
  · simp only [hc, if_true]
    obtain ⟨f1, f2, f3, f4, f5⟩ := tickCancelFirst_facts ({ n with shouldNotify := false } : Nucleo) o
    have st := tickSecond_step _ o env.run1 env.unc1 f1 f2 (by rw [f3, f4])
    rw [f4] at st
    exact st
  · have hc' : n.tickCancels = false := by simpa using hc
    simp only [hc', Bool.false_eq_true, if_false]
    have hst : n.status = .unchanged ∧ n.state = .fresh := by
      unfold Nucleo.tickCancels at hc'
      simp only [Bool.or_eq_false_iff, ne_eq, decide_eq_false_iff_not, Decidable.not_not] at hc'
      exact ⟨by simpa using hc'.1, state_fresh_of_not_canceled _ hc'.2⟩
    exact tickPlain_step _ h0 o env.run0 (env.unc0 hc') hst.1 hst.2

/-! ## every history -/

/-- the requirements on the environment, event by event (they depend on the state the event meets) -/
def EvOk19 (n : Nucleo) : Ev → Prop
  | .tick o => TickEnv n o
  | .reparse _ s => s ≠ .unchanged        -- `MultiPattern::reparse` always marks the column as changed
  | _ => True

def okHist : Nucleo → List Ev → Prop
  | _, [] => True
  | n, e :: es => EvOk19 n e ∧ okHist (applyEv n e) es

theorem Inv19.step {n : Nucleo} (h : Inv19 n) (e : Ev) (hok : EvOk19 n e) : Inv19 (Nu.applyEv n e) := by
  cases e with
  | inj k => exact h.addInjector k
  | clone a b => exact h.cloneInjector a b
  | drop k => exact h.dropInjector k
  | restart c => exact h.restart c
  | reparse p s => exact h.reparse p s hok
  | tick o => exact (h.tick o hok).1

theorem Inv19.history : ∀ (evs : List Ev) (n : Nucleo), Inv19 n → okHist n evs → Inv19 (evs.foldl Nu.applyEv n) := by
  intro evs
  induction evs with
  | nil => intro n h _; exact h
  | cons e es ih =>
    intro n h hok
    simp only [List.foldl_cons]
    exact ih _ (h.step e hok.1) hok.2

/-- **after every history of injector(), clone, drop, reparse, restart(true|false) and tick (completing or timing
    out), a tick that reports `running = false` leaves a snapshot that carries the matcher's current pattern and
    accounts for at least as many items as the reservation counter showed when that tick read it** (every push that
    completed before the call began had already advanced the counter) -/
theorem C19_running_history (evs : List Ev) (hok : okHist Nucleo.new evs) (o : TickOracle)
    (env : TickEnv (evs.foldl applyEv Nucleo.new) o)
    (h : ((evs.foldl applyEv Nucleo.new).tick o).2.running = false) :
    ((evs.foldl applyEv Nucleo.new).tick o).1.snapshot.pattern = ((evs.foldl applyEv Nucleo.new).tick o).1.pattern ∧
    o.decidingCount (evs.foldl applyEv Nucleo.new) ≤ ((evs.foldl applyEv Nucleo.new).tick o).1.snapshot.itemCount := by
  have inv := Inv19.history evs Nucleo.new Inv19.new hok
  have t := inv.tick o env
  have r := t.2.2 h
  exact ⟨by rw [r.1, t.2.1], r.2.1⟩

/-! ## the model's `Worker.run` satisfies the run assumptions -/

theorem processTrivial_fields (w : Worker) (seen : Nat → Option Item) (c : Nat) :
    (processTrivial w seen c).running = w.running ∧ (processTrivial w seen c).pattern = w.pattern ∧
    (processTrivial w seen c).wasCanceled = w.wasCanceled := by
  unfold processTrivial; split <;> exact ⟨rfl, rfl, rfl⟩

theorem resetMatches_fields (w : Worker) (seen : Nat → Option Item) :
    (resetMatches w seen).running = w.running ∧ (resetMatches w seen).pattern = w.pattern ∧
    (resetMatches w seen).wasCanceled = w.wasCanceled := by
  unfold resetMatches; exact ⟨rfl, rfl, rfl⟩

theorem begin_fields (w : Worker) (c : Bool) :
    (w.begin c).running = true ∧ (w.begin c).pattern = w.pattern ∧ (w.begin c).wasCanceled = false := by
  unfold Worker.begin; split <;> exact ⟨rfl, rfl, rfl⟩

variable (score : Nat → Item → Option Nat) (len : Item → Nat)

theorem rescore_fields (w : Worker) (o : Obs) :
    (rescore score w o).1.running = w.running ∧ (rescore score w o).1.pattern = w.pattern ∧
    (rescore score w o).1.wasCanceled = w.wasCanceled := ⟨rfl, rfl, rfl⟩

theorem processNew_fields (w : Worker) (o : Obs) :
    (processNew score w o).1.running = w.running ∧ (processNew score w o).1.pattern = w.pattern ∧
    (processNew score w o).1.wasCanceled = w.wasCanceled := by
  unfold processNew; simp only; split <;> exact ⟨rfl, rfl, rfl⟩

theorem scorePass_fields (w : Worker) (st : PStatus) (o : Obs) :
    (Worker.scorePass score w st o).1.running = w.running ∧ (Worker.scorePass score w st o).1.pattern = w.pattern ∧
    (Worker.scorePass score w st o).1.wasCanceled = w.wasCanceled := by
  unfold Worker.scorePass
  simp only
  generalize hw' : (if st = PStatus.rescore then resetMatches w o.seen0 else w) = w'
  have hf : w'.running = w.running ∧ w'.pattern = w.pattern ∧ w'.wasCanceled = w.wasCanceled := by
    rw [← hw']; split
    · exact resetMatches_fields w o.seen0
    · exact ⟨rfl, rfl, rfl⟩
  split
  · have a := rescore_fields score (processTrivial w' o.seen1 o.count) o
    have b := processTrivial_fields w' o.seen1 o.count
    exact ⟨a.1.trans (b.1.trans hf.1), a.2.1.trans (b.2.1.trans hf.2.1), a.2.2.trans (b.2.2.trans hf.2.2)⟩
  · have a := processNew_fields score w' o
    exact ⟨a.1.trans hf.1, a.2.1.trans hf.2.1, a.2.2.trans hf.2.2⟩

/-- every run of the model is a run in the sense of `RunLike`; it is un-cancelled exactly when it did not observe
    the cancel flag -/
theorem Worker.run_runLike (st : PStatus) (cl pe : Bool) (o : Obs) :
    RunLike (fun w => (Worker.run score len w st cl pe o).1) := by
  refine ⟨?_, ?_, ?_⟩
  · intro w
    unfold Worker.run
    split
    · rw [(processTrivial_fields _ _ _).1, (resetMatches_fields _ _).1]; exact (begin_fields w cl).1
    · unfold Worker.finish
      have hs := scorePass_fields score (w.begin cl) st o
      split <;> simp only [hs.1, (begin_fields w cl).1]
  · intro w
    unfold Worker.run
    split
    · rw [(processTrivial_fields _ _ _).2.1, (resetMatches_fields _ _).2.1]; exact (begin_fields w cl).2.1
    · unfold Worker.finish
      have hs := scorePass_fields score (w.begin cl) st o
      split <;> simp only [hs.2.1, (begin_fields w cl).2.1]
  · intro w; exact run_stream score len w st cl pe o


/-- the hypotheses are satisfiable and the conclusion is reached: an injector, a first tick whose run completes in
    time, then a tick that reports `running = false` -/
example :
    let run : Worker → Worker := fun w => { w with running := true, wasCanceled := false }
    let o : TickOracle := { count1 := 0, count2 := 0, lock1 := true, lock2 := true, run0 := run, run1 := run }
    okHist Nucleo.new [.inj 1, .tick o] ∧ TickEnv ([Ev.inj 1, .tick o].foldl applyEv Nucleo.new) o ∧
    (([Ev.inj 1, .tick o].foldl applyEv Nucleo.new).tick o).2.running = false := by
  intro run o
  have rl : RunLike run := ⟨fun _ => rfl, fun _ => rfl, fun _ => rfl⟩
  have env : ∀ n, TickEnv n o := fun n => ⟨rl, rl, fun _ => rfl, fun _ _ => rfl⟩
  exact ⟨⟨trivial, env _, trivial⟩, env _, by decide⟩

end NucleoVerif.Nu
