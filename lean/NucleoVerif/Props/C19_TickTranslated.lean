import NucleoVerif.Gen.TickPlan
import NucleoVerif.Model.Nucleo
import NucleoVerif.Props.C20_Translated
/-! # C19 (companion file) — the plan of `Nucleo::tick` / `tick_inner`, translated from the source, is the model's

`Gen/TickPlan.lean` is regenerated on every run from `src/lib.rs`: the order of the steps of `tick` and `tick_inner` (shape-checked
with the hooks stripped) and the conditions that decide whether a tick cancels, whether a run is spawned, whether the
finished run's result is copied into the snapshot, whether the notification flag is re-armed, and what a timed-out lock
attempt returns.  The protocol theorems of C06, C07, C12, C13, C19 and C20 are about `Nucleo.tick`. -/
namespace NucleoVerif.Nu

/-- **`let canceled = status != Unchanged || self.state.canceled()`** -/
theorem C19_translated_tick_cancels (n : Nucleo) :
    n.tickCancels = Gen.TickPlan.tick_cancels n.status.rank n.state.canceled := by
  unfold Nucleo.tickCancels Gen.TickPlan.tick_cancels
  cases n.status <;> simp [PStatus.rank]

/-- **the snapshot is copied exactly when the source says** -/
theorem C19_translated_snapshot (n : Nucleo) :
    n.snapAfter = if Gen.TickPlan.copies_snapshot n.worker.running n.worker.wasCanceled n.state.canceled then n.snapshot.update n.worker
                  else n.snapshot := by
  unfold Nucleo.snapAfter Gen.TickPlan.copies_snapshot
  cases n.worker.running <;> cases n.worker.wasCanceled <;> cases n.state.canceled <;> simp

/-- **`tick_inner` with the lock held**: `changed = inner.running`, a run is spawned exactly when the source says, with the
    current pattern, the cancel flag lowered, the flag re-armed unless the tick is a cancelling one, and `run(status, cleared)` -/
theorem C19_translated_tick_inner (n : Nucleo) (canceled : Bool) (status : PStatus) (count : Nat) :
    tickInnerLocked n canceled status count =
      if Gen.TickPlan.spawns canceled count n.worker.itemCount then
        ({ n with snapshot := n.snapAfter,
                  worker := { n.workerAfter with pattern := n.pattern, stream := if n.state.canceled then n.cur else n.workerAfter.stream },
                  cancelFlag := false,
                  shouldNotify := if Gen.TickPlan.rearms_on_spawn canceled then true else n.shouldNotify,
                  pending := some ⟨status, n.state.canceled⟩ }, ⟨n.worker.running, true⟩)
      else ({ n with snapshot := n.snapAfter, worker := n.workerAfter }, ⟨n.worker.running, false⟩) := by
  unfold tickInnerLocked Gen.TickPlan.spawns Gen.TickPlan.rearms_on_spawn
  cases canceled <;> simp

/-- **a timed-out lock attempt** re-arms the flag and reports `changed = false, running = true` -/
theorem C19_translated_timeout (n : Nucleo) :
    tickInnerTimeout n = ({ n with shouldNotify := true }, ⟨Gen.TickPlan.timeout_status.1, Gen.TickPlan.timeout_status.2⟩) := rfl

/-- **`tick`**: the flag is cleared first; a cancelling tick runs `tick_inner` twice (the second time not cancelling, with status
    `Unchanged`) and combines the two results as the source does -/
theorem C19_translated_tick (n : Nucleo) (o : TickOracle) :
    n.tick o =
      if Gen.TickPlan.tick_cancels n.status.rank n.state.canceled then
        let r1 := ({ n with shouldNotify := false } : Nucleo).tickCancelFirst o
        let r2 := r1.1.tickSecond o
        (r2.1, ⟨(Gen.TickPlan.combine r1.2.changed r1.2.running r2.2.changed r2.2.running).1,
                (Gen.TickPlan.combine r1.2.changed r1.2.running r2.2.changed r2.2.running).2⟩)
      else ({ n with shouldNotify := false } : Nucleo).tickPlain o := by
  unfold Nucleo.tick
  simp only
  rw [C19_translated_tick_cancels]
  rfl

/-- the second `tick_inner` of a cancelling tick is called with `Status::Unchanged` -/
theorem C19_translated_second_status : PStatus.unchanged.rank = Gen.TickPlan.second_inner_status := rfl

/-- **`restart`**: the cancel flag is raised, the matcher moves to a fresh stream in state `Cleared`, and the snapshot is emptied (and
    re-pointed at the new stream) exactly when `clear_snapshot` is set -/
theorem C19_translated_restart (n : Nucleo) (clear : Bool) :
    (n.restart clear).cancelFlag = true ∧ (n.restart clear).state.id = Gen.TickPlan.restart_state ∧
    (n.restart clear).cur = n.nextStream ∧
    (n.restart clear).snapshot =
      if Gen.TickPlan.restart_clears_snapshot clear then { n.snapshot with itemCount := 0, hits := [], stream := n.nextStream } else n.snapshot := by
  unfold Nucleo.restart Gen.TickPlan.restart_clears_snapshot
  exact ⟨rfl, rfl, rfl, rfl⟩

end NucleoVerif.Nu
