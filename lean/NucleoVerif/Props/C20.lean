import NucleoVerif.Model.Nucleo
/-! # C20 — active_injectors counts the live injectors of the current stream

`active_injectors()` is computed from a reference count: `strong_count(items) −
matcher_item_refs(state) − [snapshot.items is items]`.  The theorem: in every state reachable
through `injector()` / `clone` / `drop` / `restart(true|false)` / `tick` (with **any** lock
outcome, counter values and background-run effects that leave the worker's stream handle
alone, which `Worker::run` does), that number is exactly the number of live injector handles
of the current stream. -/
namespace NucleoVerif.Nu

/-- number of live injector handles feeding the matcher's current stream -/
def liveInjectors (n : Nucleo) : Nat := (n.injectors.filter (fun p => p.2 = n.cur)).length

/-- the invariant behind `matcher_item_refs`: the worker holds the current stream unless a restart
    has happened since the last tick; stream ids are fresh -/
structure Inv20 (n : Nucleo) : Prop where
  held : n.state ≠ .cleared → n.worker.stream = n.cur
  notHeld : n.state = .cleared → n.worker.stream ≠ n.cur
  curFresh : n.cur < n.nextStream
  workerFresh : n.worker.stream < n.nextStream

/-- **the reported number is the number of live injectors of the current stream** -/
theorem C20_count (n : Nucleo) (h : Inv20 n) : n.activeInjectors = liveInjectors n := by
  unfold Nucleo.activeInjectors Nucleo.strongCount liveInjectors
  by_cases hs : n.state = .cleared
  · have := h.notHeld hs
    simp [hs, NState.refs, this]
    split <;> omega
  · have := h.held hs
    have hr : n.state.refs = 2 := by cases hst : n.state <;> simp_all [NState.refs]
    simp [hr, this]
    split <;> omega

theorem Inv20.new : Inv20 Nucleo.new := by
  constructor <;> simp [Nucleo.new]

theorem Inv20.addInjector {n : Nucleo} (h : Inv20 n) (k : Nat) : Inv20 (n.addInjector k) :=
  ⟨h.held, h.notHeld, h.curFresh, h.workerFresh⟩

theorem Inv20.cloneInjector {n : Nucleo} (h : Inv20 n) (a b : Nat) : Inv20 (n.cloneInjector a b) := by
  unfold Nucleo.cloneInjector
  split
  · exact ⟨h.held, h.notHeld, h.curFresh, h.workerFresh⟩
  · exact h

theorem Inv20.dropInjector {n : Nucleo} (h : Inv20 n) (k : Nat) : Inv20 (n.dropInjector k) :=
  ⟨h.held, h.notHeld, h.curFresh, h.workerFresh⟩

theorem Inv20.reparse {n : Nucleo} (h : Inv20 n) (p : Nat) (s : PStatus) : Inv20 (n.reparse p s) :=
  ⟨h.held, h.notHeld, h.curFresh, h.workerFresh⟩

/-- after `restart` the worker still holds the old stream: `Cleared` counts one reference only, and
    **injectors created before the restart are not counted any more** (they feed the old stream) -/
theorem Inv20.restart {n : Nucleo} (h : Inv20 n) (clear : Bool) : Inv20 (n.restart clear) := by
  have := h.workerFresh
  constructor <;> simp [Nucleo.restart] <;> omega

/-! ## `tick`, for every lock outcome and every background-run effect -/

theorem workerAfter_stream (n : Nucleo) : n.workerAfter.stream = n.worker.stream := by
  unfold Nucleo.workerAfter; split <;> rfl

theorem tickInnerLocked_frame (n : Nucleo) (c : Bool) (st : PStatus) (k : Nat) :
    (tickInnerLocked n c st k).1.cur = n.cur ∧ (tickInnerLocked n c st k).1.nextStream = n.nextStream ∧
    (tickInnerLocked n c st k).1.state = n.state ∧ (tickInnerLocked n c st k).1.injectors = n.injectors ∧
    (tickInnerLocked n c st k).1.pattern = n.pattern ∧ (tickInnerLocked n c st k).1.status = n.status ∧
    (tickInnerLocked n c st k).1.worker.stream =
      (if (c || decide (k > n.worker.itemCount)) = true ∧ n.state.canceled = true then n.cur else n.worker.stream) := by
  unfold tickInnerLocked
  by_cases hr : (c || decide (k > n.worker.itemCount)) = true
  · by_cases hs : n.state.canceled = true <;> simp [hr, hs, workerAfter_stream]
  · simp [hr, workerAfter_stream]

theorem tickInnerTimeout_frame (n : Nucleo) :
    (tickInnerTimeout n).1 = { n with shouldNotify := true } := rfl

def KeepsStream (run : Worker → Worker) : Prop := ∀ w, (run w).stream = w.stream

theorem joinRun_frame (m : Nucleo) (run : Worker → Worker) (hk : KeepsStream run) :
    (m.joinRun run).cur = m.cur ∧ (m.joinRun run).nextStream = m.nextStream ∧ (m.joinRun run).state = m.state ∧
    (m.joinRun run).worker.stream = m.worker.stream ∧ (m.joinRun run).injectors = m.injectors ∧
    (m.joinRun run).status = m.status ∧ (m.joinRun run).pattern = m.pattern := by
  unfold Nucleo.joinRun
  split <;> simp [hk m.worker]

/-- the fields the reference count depends on -/
structure Core where
  state : NState
  cur : Nat
  nextStream : Nat
  wstream : Nat
  injectors : List (Nat × Nat)
  pattern : Nat
deriving DecidableEq

def Nucleo.core (n : Nucleo) : Core := ⟨n.state, n.cur, n.nextStream, n.worker.stream, n.injectors, n.pattern⟩

theorem joinRun_core (m : Nucleo) (run : Worker → Worker) (hk : KeepsStream run) : (m.joinRun run).core = m.core := by
  have := joinRun_frame m run hk
  simp [Nucleo.core, this]

theorem tickInnerLocked_core (n : Nucleo) (c : Bool) (st : PStatus) (k : Nat) :
    (tickInnerLocked n c st k).1.core =
      { n.core with wstream := if (c || decide (k > n.worker.itemCount)) = true ∧ n.state.canceled = true then n.cur else n.worker.stream } := by
  have := tickInnerLocked_frame n c st k
  simp [Nucleo.core, this]

theorem tickCancelFirst_core (n : Nucleo) (o : TickOracle) (h0 : KeepsStream o.run0) :
    (n.tickCancelFirst o).1.core =
      { n.core with state := .fresh, wstream := if n.state.canceled = true then n.cur else n.worker.stream } := by
  unfold Nucleo.tickCancelFirst
  simp only
  have j := joinRun_core ({ n with status := .unchanged, cancelFlag := true } : Nucleo) o.run0 h0
  have f := tickInnerLocked_core (({ n with status := .unchanged, cancelFlag := true } : Nucleo).joinRun o.run0) true n.status o.count1
  have jf := joinRun_frame ({ n with status := .unchanged, cancelFlag := true } : Nucleo) o.run0 h0
  simp only [Nucleo.core] at f j ⊢
  simp only [Core.mk.injEq] at f j ⊢
  obtain ⟨f1, f2, f3, f4, f5, f6⟩ := f
  obtain ⟨j1, j2, j3, j4, j5, j6⟩ := j
  refine ⟨trivial, by rw [f2, j2], by rw [f3, j3], ?_, by rw [f5, j5], by rw [f6, j6]⟩
  rw [f4, jf.2.2.1, jf.1, jf.2.2.2.1]
  simp

theorem tickSecond_core (n : Nucleo) (o : TickOracle) (h1 : KeepsStream o.run1) (hs : n.state = .fresh) :
    (n.tickSecond o).1.core = n.core := by
  unfold Nucleo.tickSecond
  split
  · rw [tickInnerLocked_core, joinRun_core n o.run1 h1]
    have := (joinRun_frame n o.run1 h1)
    simp [this.2.2.1, hs, NState.canceled, this.2.2.2.1, Nucleo.core]
  · simp [tickInnerTimeout, Nucleo.core]

theorem tickPlain_core (n : Nucleo) (o : TickOracle) (h0 : KeepsStream o.run0) (hs : n.state.canceled = false) :
    (n.tickPlain o).1.core = n.core := by
  unfold Nucleo.tickPlain
  split
  · simp [tickInnerTimeout, Nucleo.core]
  · rw [tickInnerLocked_core, joinRun_core n o.run0 h0]
    have := (joinRun_frame n o.run0 h0)
    simp [this.2.2.1, hs, this.2.2.2.1, Nucleo.core]

/-- **what `tick` does to the fields the reference count depends on**, for every lock outcome, counter
    value and background-run effect -/
theorem tick_core (n : Nucleo) (o : TickOracle) (h0 : KeepsStream o.run0) (h1 : KeepsStream o.run1) :
    (n.tick o).1.core =
      if n.tickCancels then { n.core with state := .fresh, wstream := if n.state.canceled = true then n.cur else n.worker.stream }
      else n.core := by
  unfold Nucleo.tick
  simp only
  have hcan : ({ n with shouldNotify := false } : Nucleo).tickCancels = n.tickCancels := rfl
  rw [hcan]
  by_cases hc : n.tickCancels = true
  · simp only [hc, if_true]
    have c1 := tickCancelFirst_core ({ n with shouldNotify := false } : Nucleo) o h0
    have hs : (({ n with shouldNotify := false } : Nucleo).tickCancelFirst o).1.state = .fresh := by
      have := congrArg Core.state c1
      simpa [Nucleo.core] using this
    rw [tickSecond_core _ o h1 hs, c1]
    rfl
  · simp only [hc, Bool.false_eq_true, if_false]
    have hs : n.state.canceled = false := by
      simp only [Nucleo.tickCancels, Bool.or_eq_true, not_or] at hc
      simpa using hc.2
    exact tickPlain_core ({ n with shouldNotify := false } : Nucleo) o h0 hs


section
variable (score : Nat → Item → Option Nat) (len : Item → Nat)
theorem resetMatches_stream (w : Worker) (seen : Nat → Option Item) : (resetMatches w seen).stream = w.stream := by
  simp [resetMatches]
theorem processTrivial_stream (w : Worker) (seen : Nat → Option Item) (c : Nat) : (processTrivial w seen c).stream = w.stream := by
  unfold processTrivial; split <;> rfl
theorem processNew_stream (w : Worker) (o : Obs) : (processNew score w o).1.stream = w.stream := by
  unfold processNew; simp only; split <;> rfl
theorem rescore_stream (w : Worker) (o : Obs) : (rescore score w o).1.stream = w.stream := by
  simp [rescore]
theorem begin_stream (w : Worker) (c : Bool) : (w.begin c).stream = w.stream := by
  unfold Worker.begin; split <;> rfl
theorem scorePass_stream (w : Worker) (st : PStatus) (o : Obs) : (Worker.scorePass score w st o).1.stream = w.stream := by
  unfold Worker.scorePass
  simp only
  generalize hw : (if st = .rescore then resetMatches w o.seen0 else w) = w0
  have h : w0.stream = w.stream := by
    rw [← hw]; split
    · exact resetMatches_stream w _
    · rfl
  split
  · show (rescore score (processTrivial w0 o.seen1 o.count) o).1.stream = w.stream
    rw [rescore_stream, processTrivial_stream]; exact h
  · show (processNew score w0 o).1.stream = w.stream
    rw [processNew_stream]; exact h
theorem finish_stream (w : Worker) (u p : Nat) (o : Obs) : (Worker.finish len w u p o).1.stream = w.stream := by
  unfold Worker.finish; split <;> rfl

theorem run_stream (w : Worker) (st : PStatus) (cl pe : Bool) (o : Obs) :
    (w.run score len st cl pe o).1.stream = w.stream := by
  unfold Worker.run
  split
  · rw [processTrivial_stream, resetMatches_stream, begin_stream]
  · rw [finish_stream, scorePass_stream, begin_stream]
end

/-- `Worker::run` never touches the worker's stream handle (so every oracle built from it qualifies) -/
theorem run_keepsStream (score : Nat → Item → Option Nat) (len : Item → Nat) (st : PStatus) (cl pe : Bool) (o : Obs) :
    KeepsStream (fun w => (w.run score len st cl pe o).1) :=
  fun w => run_stream score len w st cl pe o

theorem Inv20.tick {n : Nucleo} (h : Inv20 n) (o : TickOracle) (h0 : KeepsStream o.run0) (h1 : KeepsStream o.run1) :
    Inv20 (n.tick o).1 := by
  have c := tick_core n o h0 h1
  have e : ∀ m : Nucleo, m.core = (n.tick o).1.core → (m.state = (n.tick o).1.state ∧ m.cur = (n.tick o).1.cur ∧
      m.nextStream = (n.tick o).1.nextStream ∧ m.worker.stream = (n.tick o).1.worker.stream) := by
    intro m hm; simp only [Nucleo.core, Core.mk.injEq] at hm; exact ⟨hm.1, hm.2.1, hm.2.2.1, hm.2.2.2.1⟩
  by_cases hc : n.tickCancels = true
  · simp only [hc, if_true, Nucleo.core, Core.mk.injEq] at c
    obtain ⟨c1, c2, c3, c4, _, _⟩ := c
    constructor
    · intro _; rw [c4, c2]
      split
      · rfl
      · rename_i hs
        exact h.held (by intro hcl; rw [hcl] at hs; simp [NState.canceled] at hs)
    · intro hcl; rw [c1] at hcl; cases hcl
    · rw [c2, c3]; exact h.curFresh
    · rw [c4, c3]; split; exact h.curFresh; exact h.workerFresh
  · simp only [hc, Bool.false_eq_true, if_false, Nucleo.core, Core.mk.injEq] at c
    obtain ⟨c1, c2, c3, c4, _, _⟩ := c
    exact ⟨by rw [c1, c4, c2]; exact h.held, by rw [c1, c4, c2]; exact h.notHeld, by rw [c2, c3]; exact h.curFresh,
           by rw [c4, c3]; exact h.workerFresh⟩

/-! ## every history -/

inductive Ev
  | inj (h : Nat) | clone (src h : Nat) | drop (h : Nat)
  | restart (clear : Bool)
  | reparse (pid : Nat) (status : PStatus)
  | tick (o : TickOracle)

def applyEv (n : Nucleo) : Ev → Nucleo
  | .inj h => n.addInjector h
  | .clone a b => n.cloneInjector a b
  | .drop h => n.dropInjector h
  | .restart c => n.restart c
  | .reparse p s => n.reparse p s
  | .tick o => (n.tick o).1

/-- the only requirement on the environment: background runs do not replace the worker's stream handle -/
def Ev.ok : Ev → Prop
  | .tick o => KeepsStream o.run0 ∧ KeepsStream o.run1
  | _ => True

/-- **at every point of every history of injector(), clone, drop, restart(true|false) and tick
    (completing or timing out), `active_injectors` equals the number of live injector handles of the
    current stream** -/
theorem C20_history (evs : List Ev) (hok : ∀ e ∈ evs, e.ok) :
    (evs.foldl applyEv Nucleo.new).activeInjectors = liveInjectors (evs.foldl applyEv Nucleo.new) := by
  apply C20_count
  have : ∀ (n : Nucleo), Inv20 n → (∀ e ∈ evs, e.ok) → Inv20 (evs.foldl applyEv n) := by
    induction evs with
    | nil => intro n h _; exact h
    | cons e es ih =>
      intro n h hall
      simp only [List.foldl_cons]
      apply ih (fun e he => hok e (List.mem_cons_of_mem _ he))
      · cases e with
        | inj k => exact h.addInjector k
        | clone a b => exact h.cloneInjector a b
        | drop k => exact h.dropInjector k
        | restart c => exact h.restart c
        | reparse p s => exact h.reparse p s
        | tick o =>
          have := hall (.tick o) (List.mem_cons_self)
          exact h.tick o this.1 this.2
      · exact fun e he => hall e (List.mem_cons_of_mem _ he)
  exact this Nucleo.new Inv20.new hok

/-- the scenario of the crate's only test for this function, and one beyond it: an injector of the old
    stream stays alive across a restart and a tick and is not counted -/
example :
    let n := [Ev.inj 0, .inj 1, .restart false, .inj 2, .tick ⟨0, 0, true, true, id, id⟩, .drop 0].foldl applyEv Nucleo.new
    n.activeInjectors = 1 ∧ liveInjectors n = 1 ∧ n.injectors.length = 2 := by decide

end NucleoVerif.Nu
