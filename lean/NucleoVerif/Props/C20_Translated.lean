import NucleoVerif.Model.Nucleo
import NucleoVerif.Gen.Rules
/-! # C20 (companion file) — the state rules and the formula of `active_injectors`, translated from the source

`Gen/Rules.lean` is regenerated on every run from `src/lib.rs`: `State::matcher_item_refs`, `State::canceled`,
`State::cleared` and the formula of `Nucleo::active_injectors`.  The theorems of C20 (and the tick protocol of C12/C19) are
about `NState.refs`, `NState.canceled` and `Nucleo.activeInjectors`; they are the same functions. -/
namespace NucleoVerif.Nu

def NState.id : NState → Nat
  | .init => 0 | .cleared => 1 | .fresh => 2

theorem C20_translated_state (s : NState) :
    s.refs = Gen.Rules.matcher_item_refs s.id ∧ s.canceled = Gen.Rules.state_canceled s.id ∧
    s.canceled = Gen.Rules.state_cleared s.id := by
  cases s <;> decide

theorem C20_translated_active_injectors (n : Nucleo) :
    n.activeInjectors = Gen.Rules.active_injectors (n.strongCount n.cur) n.state.id (decide (n.snapshot.stream = n.cur)) := by
  unfold Nucleo.activeInjectors Gen.Rules.active_injectors
  rw [(C20_translated_state n.state).1]
  by_cases h : n.snapshot.stream = n.cur <;> simp [h]

end NucleoVerif.Nu
