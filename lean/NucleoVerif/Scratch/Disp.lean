import NucleoVerif.Gen.Dispatch
import NucleoVerif.Model.Matcher
namespace NucleoVerif

/-- the callbacks of the translated dispatch, instantiated with the model's routines on fixed arguments -/
def modelCalls (cfg : Cfg) (ext : Ext) (hrep nrep : Rep) (h n : List Nat) : Gen.Dispatch.Calls (Nat × List Nat) MRes where
  none := none
  some := some
  zero := (0, [])
  calculate_score := fun s e => calculateScore cfg ext hrep h n s e
  exact_match_impl := fun s e => exactImpl cfg ext hrep nrep h n s e
  fuzzy_match_greedy_ := fun s e => fuzzyGreedyInner cfg ext hrep nrep h n s e
  fuzzy_match_optimal := fun s g e => fuzzyOptimal cfg ext hrep nrep h n s g e
  prefilter_ascii := fun og => prefilterAscii cfg h n og
  prefilter_non_ascii := fun og => prefilterNonAscii cfg h n og
  substring_match_1_ascii := substring1Ascii cfg ext h (n.headD 0)
  substring_match_1_non_ascii := fun s => substring1NonAscii cfg ext h (n.headD 0) s
  substring_match_ascii := substringAscii cfg ext h n
  substring_match_non_ascii := fun s => substringNonAscii cfg ext nrep h n s

theorem fuzzyMatch_eq_translated (cfg : Cfg) (ext : Ext) (hrep nrep : Rep) (h n : List Nat) :
    fuzzyMatch cfg ext hrep nrep h n =
      Gen.Dispatch.fuzzy_matcher_impl (modelCalls cfg ext hrep nrep h n) h.length n.length (hrep == .ascii) (nrep == .ascii) := by
  unfold fuzzyMatch Gen.Dispatch.fuzzy_matcher_impl modelCalls
  rcases n with _ | ⟨c, _ | ⟨d, t⟩⟩ <;> cases hrep <;> cases nrep <;> simp <;> (repeat' split) <;> simp_all

theorem fuzzyGreedy_eq_translated (cfg : Cfg) (ext : Ext) (hrep nrep : Rep) (h n : List Nat) :
    fuzzyGreedy cfg ext hrep nrep h n =
      Gen.Dispatch.fuzzy_match_greedy_impl (modelCalls cfg ext hrep nrep h n) h.length n.length (hrep == .ascii) (nrep == .ascii) := by
  unfold fuzzyGreedy Gen.Dispatch.fuzzy_match_greedy_impl modelCalls
  rcases n with _ | ⟨c, _ | ⟨d, t⟩⟩ <;> cases hrep <;> cases nrep <;> simp <;> (repeat' split) <;> simp_all

theorem substringMatch_eq_translated (cfg : Cfg) (ext : Ext) (hrep nrep : Rep) (h n : List Nat) :
    substringMatch cfg ext hrep nrep h n =
      Gen.Dispatch.substring_match_impl (modelCalls cfg ext hrep nrep h n) h.length n.length (hrep == .ascii) (nrep == .ascii) := by
  unfold substringMatch Gen.Dispatch.substring_match_impl modelCalls
  rcases n with _ | ⟨c, _ | ⟨d, t⟩⟩ <;> cases hrep <;> cases nrep <;> simp <;> (repeat' split) <;> simp_all

end NucleoVerif
