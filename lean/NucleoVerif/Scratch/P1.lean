import NucleoVerif.Model.Chars
open NucleoVerif NucleoVerif.Gen
def bad : List Nat := (List.range 0x2100).filter fun c => normalizeLatin c != c && normalizeLatin (toLower c) == toLower c
#eval bad
#eval bad.map fun c => (c, normalizeLatin c, toLower c)
