import NucleoVerif.Model.OptImpl
open NucleoVerif NucleoVerif.OptImpl NucleoVerif.Gen.Opt
def cfg0 : Cfg := { delims := [47, 44, 58, 59, 124], white := 10, delim := 9, initial := .whitespace, normalize := true, ignoreCase := true, preferPrefix := false }
def str (s : String) : List Nat := s.toList.map Char.toNat
def junkCur (k : Nat) : List ScoreCell := (List.range k).map fun i => ⟨i * 37 % 500, i % 11, i % 2 == 0⟩
def junkCells (k : Nat) : List MatrixCell := (List.range k).map fun i => ⟨i % 4⟩
def both (h n : String) : MRes × MRes :=
  let hh := str h; let nn := str n
  let cols := windowCols cfg0 (fun _ => default) .ascii hh 0 hh.length
  let w := hh.length + 1 - nn.length
  (optimalDP cfg0 (fun _ => default) .ascii hh nn 0 hh.length, optimalImpl cfg0 cols nn 0 (junkCur w) (junkCells (w * nn.length)))
#eval both "axbxcbxab_c" "abc"
#eval both "foo bar baz" "fbz"
#eval both "abcabcabc/abc" "abc"
#eval both "aaaaaaaa" "aaa"
#eval both "a_b_c_d abcd ab/cd" "abcd"
#eval both "ab" "ab"
#eval both "xyz" "ab"
