import NucleoVerif.Props.C01_DispatchTranslated
namespace NucleoVerif

theorem exactMatch_eq_translated (cfg : Cfg) (ext : Ext) (hrep nrep : Rep) (h n : List Nat) :
    exactMatch cfg ext hrep nrep h n =
      Gen.Dispatch.exact_match (modelCalls cfg ext hrep nrep h n) h.length n.length (isWs (n.headD 0))
        (isWs (n.getLast?.getD (n.headD 0))) (leadingWs hrep h) (trailingWs hrep h) := by
  unfold exactMatch Gen.Dispatch.exact_match modelCalls
  rcases n with _ | ⟨c, t⟩ <;> simp

theorem prefixMatch_eq_translated (cfg : Cfg) (ext : Ext) (hrep nrep : Rep) (h n : List Nat) :
    prefixMatch cfg ext hrep nrep h n =
      Gen.Dispatch.prefix_match (modelCalls cfg ext hrep nrep h n) h.length n.length (isWs (n.headD 0))
        (isWs (n.getLast?.getD (n.headD 0))) (leadingWs hrep h) (trailingWs hrep h) := by
  unfold prefixMatch Gen.Dispatch.prefix_match modelCalls
  rcases n with _ | ⟨c, t⟩ <;> simp

theorem postfixMatch_eq_translated (cfg : Cfg) (ext : Ext) (hrep nrep : Rep) (h n : List Nat) :
    postfixMatch cfg ext hrep nrep h n =
      Gen.Dispatch.postfix_match (modelCalls cfg ext hrep nrep h n) h.length n.length (isWs (n.headD 0))
        (isWs (n.getLast?.getD (n.headD 0))) (leadingWs hrep h) (trailingWs hrep h) := by
  unfold postfixMatch Gen.Dispatch.postfix_match modelCalls
  rcases n with _ | ⟨c, t⟩ <;> simp

end NucleoVerif
