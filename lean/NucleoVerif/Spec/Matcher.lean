import NucleoVerif.Model.Chars
/-! Naive specifications for the matcher properties (C01–C05).  Deliberately independent of
the model's control flow **and of the crate's constants**: the scoring scheme is written
with the documented literals (16 / 3 / 1 / 10-9-8 / 5 / 4 / ×2); `Props/C03.lean` proves
that the constants extracted from the source equal them. -/
namespace NucleoVerif.Spec
open NucleoVerif

/-! ### C01: the subsequence relation -/

/-- `n` occurs in order in `h` (the standard sublist relation) -/
def Subseq (n h : List Nat) : Prop := List.Sublist n h

/-- executable decision of `Subseq` (leftmost greedy embedding) -/
def subseqB : List Nat → List Nat → Bool
  | [], _ => true
  | _ :: _, [] => false
  | a :: as, b :: bs => if a = b then subseqB as bs else subseqB (a :: as) bs

/-- the haystack as the matcher sees it -/
def normHay (cfg : Cfg) (hrep : Rep) (h : List Nat) : List Nat := h.map (norm cfg hrep)

/-! ### C02: index witnesses -/

/-- strictly increasing, in range, and each indexed haystack character normalizes to the needle character -/
def validWitnessB (cfg : Cfg) (hrep : Rep) (h n : List Nat) (is : List Nat) : Bool :=
  is.length == n.length &&
  (is.zip (is.drop 1)).all (fun p => p.1 < p.2) &&
  (is.zip n).all (fun p => match h[p.1]? with
    | some c => norm cfg hrep c == p.2
    | none => false)

def contiguousB (is : List Nat) : Bool := (is.zip (is.drop 1)).all (fun p => p.1 + 1 == p.2)

/-! ### C03: the documented fzf scheme, with literal numbers -/

/-- documented boundary bonuses: 10 after whitespace (8 under the path preset), 9 after a delimiter,
    8 after another non-word character; 5 for camelCase / letter→digit; whitespace and non-word
    characters themselves score their class bonus -/
def specBonus (white delim : Nat) (prev cls : CharClass) : Nat :=
  let word := cls = .lower ∨ cls = .upper ∨ cls = .letter ∨ cls = .number
  if word ∧ prev = .whitespace then white
  else if word ∧ prev = .delimiter then delim
  else if word ∧ prev = .nonWord then 8
  else if (prev = .lower ∧ cls = .upper) ∨ (prev ≠ .number ∧ cls = .number) then 5
  else if cls = .whitespace then white
  else if cls = .nonWord then 8
  else 0

/-- state of the scheme after some haystack column -/
structure SSt where
  score : Nat
  prev : CharClass
  inGap : Bool
  inRun : Bool       -- previous column was matched
  runBonus : Nat     -- bonus inherited by the current consecutive run
deriving DecidableEq, Repr

/-- first matched character: 16 + 2·bonus -/
def sInit (white delim : Nat) (prev cls : CharClass) : SSt :=
  let b := specBonus white delim prev cls
  ⟨16 + 2 * b, cls, false, true, b⟩

/-- a matched character: 16 + bonus; inside a run the bonus is at least 4 and at least the run's
    bonus, where a boundary bonus (≥ 8) larger than the run's bonus takes over the run -/
def sMatch (white delim : Nat) (s : SSt) (cls : CharClass) : SSt :=
  let b := specBonus white delim s.prev cls
  if s.inRun then
    let rb := if b ≥ 8 ∧ b > s.runBonus then b else s.runBonus
    ⟨s.score + 16 + max (max b rb) 4, cls, false, true, rb⟩
  else ⟨s.score + 16 + b, cls, false, true, b⟩

/-- a skipped character between the first and last match: −3 to open a gap, −1 to extend, floored at 0 -/
def sSkip (s : SSt) (cls : CharClass) : SSt :=
  ⟨s.score - (if s.inGap then 1 else 3), cls, true, false, s.runBonus⟩

/-- walk columns `col, col+1, …` (characters `cs`) of the haystack -/
def sWalk (white delim : Nat) (cls : Nat → CharClass) (is : List Nat) : SSt → Nat → List Nat → SSt
  | s, _, [] => s
  | s, col, c :: cs =>
    sWalk white delim cls is (if is.contains col then sMatch white delim s (cls c) else sSkip s (cls c)) (col + 1) cs

/-- **the fzf scheme applied to alignment `is`** (ascending indices into `h`), prefix preference off -/
def alignScore (cfg : Cfg) (ext : Ext) (h : List Nat) (is : List Nat) : Nat :=
  match is with
  | [] => 0
  | first :: _ =>
    let last := is.getLast?.getD first
    let cls := charClass cfg ext
    let prev := if first = 0 then cfg.initial else (h[first - 1]?.map cls).getD cfg.initial
    match h.drop first with
    | [] => 0
    | c0 :: rest =>
      (sWalk cfg.white cfg.delim cls is (sInit cfg.white cfg.delim prev (cls c0)) (first + 1) (rest.take (last - first))).score

/-! ### C04: brute force over all alignments -/

/-- all strictly increasing index lists `is` (starting at `base`) with `norm h[is[k]] = n[k]` -/
def allAlignments (cfg : Cfg) (hrep : Rep) : List Nat → Nat → List Nat → List (List Nat)
  | [], _, _ => [[]]
  | _ :: _, _, [] => []
  | nc :: ns, base, c :: cs =>
    (if norm cfg hrep c = nc then (allAlignments cfg hrep ns (base + 1) cs).map (base :: ·) else [])
      ++ allAlignments cfg hrep (nc :: ns) (base + 1) cs

def maxAlignScore (cfg : Cfg) (ext : Ext) (hrep : Rep) (h n : List Nat) : Nat :=
  ((allAlignments cfg hrep n 0 h).map (alignScore cfg ext h)).foldl max 0

/-! ### C05: contiguous occurrences, anchoring -/

/-- start positions at which `n` equals the normalized haystack -/
def occAux (n : List Nat) : Nat → List Nat → List Nat
  | i, [] => if n.isEmpty then [i] else []
  | i, c :: cs => (if (c :: cs).take n.length == n then [i] else []) ++ occAux n (i + 1) cs

def occurrences (cfg : Cfg) (hrep : Rep) (h n : List Nat) : List Nat := occAux n 0 (normHay cfg hrep h)

/-- bonus of the character at `i` as a first matched character -/
def firstBonus (cfg : Cfg) (ext : Ext) (h : List Nat) (i : Nat) : Nat :=
  let cls := charClass cfg ext
  let prev := if i = 0 then cfg.initial else (h[i - 1]?.map cls).getD cfg.initial
  specBonus cfg.white cfg.delim prev ((h[i]?.map cls).getD .nonWord)

/-- the leftmost occurrence whose first character earns the highest bonus -/
def bestOccurrence (cfg : Cfg) (ext : Ext) (hrep : Rep) (h n : List Nat) : Option Nat :=
  (occurrences cfg hrep h n).foldl (fun best i =>
    match best with
    | none => some i
    | some b => if firstBonus cfg ext h i > firstBonus cfg ext h b then some i else some b) none

/-- `char::is_whitespace` count at the front / back, by the representation's own predicate
    (ASCII strings: `u8::is_ascii_whitespace`, code-point strings: `char::is_whitespace`) -/
def wsOf : Rep → Nat → Bool
  | .ascii => isAsciiWs
  | .unicode => isWs

def lead (r : Rep) (h : List Nat) : Nat := (h.takeWhile (wsOf r)).length
def trail (r : Rep) (h : List Nat) : Nat := (h.reverse.takeWhile (wsOf r)).length

end NucleoVerif.Spec
