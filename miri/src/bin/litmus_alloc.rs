//! Litmus 4 (C09): two writers race to allocate the same bucket.  The loser of the compare-exchange in
//! `get_or_alloc` keeps writing (columns, value, `active`) into the bucket the *other* thread allocated and
//! initialised non-atomically before publishing the pointer: the failed compare-exchange must be an Acquire load,
//! otherwise those writes race with the winner's initialisation (reported by Miri).
use nucleo::{Config, Nucleo};
use std::sync::{Arc, Barrier};

/// an exact-size iterator that waits at a barrier just before yielding item `gate_at`
struct Gate {
    next: u32,
    end: u32,
    gate_at: u32,
    barrier: Arc<Barrier>,
}
impl Iterator for Gate {
    type Item = u32;
    fn next(&mut self) -> Option<u32> {
        if self.next == self.end {
            return None;
        }
        if self.next == self.gate_at {
            self.barrier.wait();
        }
        self.next += 1;
        Some(self.next - 1)
    }
    fn size_hint(&self) -> (usize, Option<usize>) {
        let n = (self.end - self.next) as usize;
        (n, Some(n))
    }
}
impl ExactSizeIterator for Gate {}

fn main() {
    let mut n: Nucleo<u32> = Nucleo::new(Config::DEFAULT, Arc::new(|| {}), Some(1), 1);
    // a fresh stream starts with capacity 1024: indices 0..=2015 have buckets, bucket 6 (from 2016) does not
    n.restart(true);
    let a = n.injector();
    let b = n.injector();
    let reader = n.injector();
    let barrier = Arc::new(Barrier::new(2));
    let ba = barrier.clone();
    // A's batch 0..2020 enters bucket 6 in the middle of the call; it waits just before its first item there
    let ta = std::thread::spawn(move || {
        a.extend(Gate { next: 0, end: 2020, gate_at: 2016, barrier: ba }, |v, c| c[0] = format!("{v}").into());
    });
    // B's batch 2020..2024 starts in bucket 6: both find the pointer null, both allocate, one loses the exchange
    let tb = std::thread::spawn(move || {
        barrier.wait();
        b.extend((5000..5004u32).collect::<Vec<_>>().into_iter(), |v, c| c[0] = format!("{v}").into());
    });
    ta.join().unwrap();
    tb.join().unwrap();
    for i in 0..2024u32 {
        let item = reader.get(i).expect("published");
        assert_eq!(item.matcher_columns[0].to_string(), format!("{}", item.data));
    }
    println!("litmus_alloc ok");
}
