//! Litmus 6 (C09): a batch that walks into a bucket another thread allocated.  Per round, on a freshly restarted stream
//! (buckets up to index 2015 are allocated by the constructor): thread A extends the stream far enough into the last
//! allocated bucket that `extend` allocates the next one ahead of time; thread B, told so only through a relaxed flag,
//! extends across the boundary and writes its items into the bucket A allocated.  Nothing orders A's initialisation of
//! that bucket (the non-atomic `active = false` of every entry) before B's writes except the release publication of the
//! bucket pointer and the acquire load with which B's loop picks it up.
use nucleo::{Config, Nucleo};
use std::sync::atomic::{AtomicBool, Ordering};
use std::sync::Arc;

const A_ITEMS: u32 = 1904; // ends in the last eighth of bucket 5 (indices 992..2016)
const B_ITEMS: u32 = 160; // 1904..2064 crosses index 2016 into bucket 6

fn main() {
    let mut n: Nucleo<u32> = Nucleo::new(Config::DEFAULT, Arc::new(|| {}), Some(1), 1);
    for _round in 0..5 {
        n.restart(true);
        let a_inj = n.injector();
        let b_inj = n.injector();
        let told = Arc::new(AtomicBool::new(false));
        let told2 = told.clone();
        let a = std::thread::spawn(move || {
            a_inj.extend(0..A_ITEMS, |_, _| {});
            told2.store(true, Ordering::Relaxed);
        });
        let b = std::thread::spawn(move || {
            while !told.load(Ordering::Relaxed) {
                std::thread::yield_now();
            }
            b_inj.extend(A_ITEMS..A_ITEMS + B_ITEMS, |_, _| {});
            b_inj
        });
        a.join().unwrap();
        let inj = b.join().unwrap();
        assert_eq!(inj.injected_items(), A_ITEMS + B_ITEMS);
        for i in [0, A_ITEMS - 1, A_ITEMS, 2015, 2016, A_ITEMS + B_ITEMS - 1] {
            assert_eq!(*inj.get(i).expect("published item").data, i);
        }
    }
    println!("litmus_extend ok");
}
