//! Litmus 1 (C09): a batch whose reservation makes `extend` allocate the *next* bucket eagerly, and a
//! reader that polls an index of that bucket.  The reader finds the bucket pointer and loads the
//! entry's `active` flag, which the allocating thread initialised non-atomically before publishing the
//! pointer: with a Relaxed load of the pointer in `Vec::get` this is a data race (reported by Miri).
use nucleo::{Config, Nucleo};
use std::sync::Arc;

fn main() {
    let mut n: Nucleo<u32> = Nucleo::new(Config::DEFAULT, Arc::new(|| {}), Some(1), 1);
    // a fresh stream starts with capacity 1024: indices 0..=2015 have buckets, 2016.. does not
    n.restart(false);
    let a = n.injector();
    let b = n.injector();
    a.extend((0..1800u32).collect::<Vec<_>>().into_iter(), |_, _| {});
    let t = std::thread::spawn(move || {
        // 1800..2015 ends near the end of bucket 5: bucket 6 is allocated before the first item is written
        a.extend((1800..2015u32).collect::<Vec<_>>().into_iter(), |v, c| c[0] = format!("{v}").into());
    });
    let mut seen = 0u32;
    for _ in 0..400 {
        if b.get(2016).is_some() {
            seen += 1;
        }
        if let Some(item) = b.get(2000) {
            assert_eq!(*item.data, 2000);
            assert_eq!(item.matcher_columns[0].to_string(), "2000");
        }
        std::thread::yield_now();
    }
    t.join().unwrap();
    assert_eq!(seen, 0);
    assert_eq!(*b.get(2014).unwrap().data, 2014);
    println!("litmus_get ok");
}
