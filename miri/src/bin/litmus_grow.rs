//! Litmus 8 (C09): the worker's iterator walks into a bucket an injector allocated on demand.  Per round, on a freshly restarted
//! stream (buckets up to index 2015 are allocated by the constructor): an injector thread extends the stream past that boundary
//! in one batch - the only thing it does before allocating the next bucket is the increment of the reservation counter - and
//! keeps its handle; the main thread ticks until the snapshot holds every item, so worker runs scan the fresh bucket while it is
//! being filled.  Nothing orders the non-atomic initialisation of that bucket's `active` flags before the worker's loads of them
//! except the release publication of the bucket pointer and the acquire load with which the iterator picks it up.
use nucleo::{Config, Nucleo};
use std::sync::atomic::{AtomicBool, Ordering};
use std::sync::Arc;

const ITEMS: u32 = 2016 + 24;

fn main() {
    let mut n: Nucleo<u32> = Nucleo::new(Config::DEFAULT, Arc::new(|| {}), Some(1), 1);
    for _round in 0..3 {
        n.restart(true);
        let inj = n.injector();
        let done = Arc::new(AtomicBool::new(false));
        let d2 = done.clone();
        let t = std::thread::spawn(move || {
            inj.extend(0..ITEMS, |_, _| {});
            d2.store(true, Ordering::Relaxed);
            inj
        });
        let mut spins = 0u32;
        loop {
            n.tick(0);
            if n.snapshot().item_count() == ITEMS {
                break;
            }
            spins += 1;
            assert!(spins < 200_000, "the snapshot never caught up");
            std::thread::yield_now();
        }
        let inj = t.join().unwrap();
        assert!(done.load(Ordering::Relaxed));
        assert_eq!(inj.injected_items(), ITEMS);
        assert_eq!(*inj.get(ITEMS - 1).expect("published item").data, ITEMS - 1);
    }
    println!("litmus_grow ok");
}
