//! Litmus 7 (C09): a batch whose iterator yields one item more than it reported.  `extend` reserves exactly the reported
//! number of indices, so the surplus item must never be written: the entry behind the batch belongs to whoever reserves
//! it next.  Per round: thread A extends with such an iterator (the guard in `extend` panics; caught here) and then tells,
//! through a relaxed flag only, a reader and a pusher.  The reader looks at the entry behind the batch, the pusher pushes
//! (and is handed exactly that entry).  If the surplus item was written and published, the reader's non-atomic read of it
//! and the pusher's non-atomic write of the same entry are unordered.
use nucleo::{Config, Nucleo};
use std::panic::{catch_unwind, AssertUnwindSafe};
use std::sync::atomic::{AtomicBool, Ordering};
use std::sync::Arc;

struct Liar {
    next: u32,
    yields: u32,
    reports: usize,
}
impl Iterator for Liar {
    type Item = u32;
    fn next(&mut self) -> Option<u32> {
        if self.next < self.yields {
            self.next += 1;
            Some(self.next - 1)
        } else {
            None
        }
    }
}
impl ExactSizeIterator for Liar {
    fn len(&self) -> usize {
        self.reports
    }
}

fn main() {
    std::panic::set_hook(Box::new(|_| {}));
    let mut n: Nucleo<u32> = Nucleo::new(Config::DEFAULT, Arc::new(|| {}), Some(1), 1);
    for round in 0..6u32 {
        n.restart(true);
        let reports = 3 + round % 3;
        let a_inj = n.injector();
        let r_inj = n.injector();
        let p_inj = n.injector();
        let told = Arc::new(AtomicBool::new(false));
        let (t1, t2) = (told.clone(), told.clone());
        let a = std::thread::spawn(move || {
            let _ = catch_unwind(AssertUnwindSafe(|| {
                a_inj.extend(Liar { next: 0, yields: reports + 1, reports: reports as usize }, |_, _| {});
            }));
            told.store(true, Ordering::Relaxed);
        });
        let r = std::thread::spawn(move || {
            while !t1.load(Ordering::Relaxed) {
                std::thread::yield_now();
            }
            let mut seen = 0u32;
            for _ in 0..3 {
                if let Some(item) = r_inj.get(reports) {
                    seen = seen.wrapping_add(*item.data);
                }
                std::thread::yield_now();
            }
            seen
        });
        let p = std::thread::spawn(move || {
            while !t2.load(Ordering::Relaxed) {
                std::thread::yield_now();
            }
            p_inj.push(1000 + round, |_, _| {})
        });
        a.join().unwrap();
        let _ = r.join().unwrap();
        let idx = p.join().unwrap();
        let inj = n.injector();
        assert_eq!(*inj.get(idx).expect("published item").data, 1000 + round);
    }
    println!("litmus_liar ok");
}
