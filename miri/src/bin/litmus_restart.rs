//! Litmus 3 (C09): restart while an old injector keeps pushing from another thread and a run is in
//! flight; the old stream is freed when its last handle goes away.
use nucleo::pattern::{CaseMatching, Normalization};
use nucleo::{Config, Nucleo};
use std::sync::Arc;

fn main() {
    let mut n: Nucleo<u32> = Nucleo::new(Config::DEFAULT, Arc::new(|| {}), Some(2), 1);
    let old = n.injector();
    for v in 0..40u32 {
        old.push(v, |v, c| c[0] = format!("old{v}").into());
    }
    n.pattern.reparse(0, "o", CaseMatching::Smart, Normalization::Smart, false);
    n.tick(0);
    let t = std::thread::spawn(move || {
        for v in 40..80u32 {
            old.push(v, |v, c| c[0] = format!("old{v}").into());
        }
    });
    n.restart(false);
    let new = n.injector();
    for v in 0..35u32 {
        new.push(v, |v, c| c[0] = format!("new{v}").into());
    }
    for _ in 0..4 {
        n.tick(20);
        for item in n.snapshot().matched_items(..) {
            let s = item.matcher_columns[0].to_string();
            assert!(s.starts_with("old") || s.starts_with("new"));
        }
    }
    t.join().unwrap();
    n.pattern.reparse(0, "new", CaseMatching::Smart, Normalization::Smart, false);
    while n.tick(1000).running {}
    assert_eq!(n.snapshot().matched_item_count(), 35);
    println!("litmus_restart ok");
}
