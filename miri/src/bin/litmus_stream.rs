//! Litmus 5 (C09): streaming injection.  Each round a fresh thread pushes ONE item and tells the main thread so only
//! through a relaxed counter (no join, no lock, no channel before the tick); the main thread then ticks with a non-empty
//! pattern until the item is matched.  The item is the last one reserved when the worker takes its snapshot, so nothing
//! but the acquire load of its `active` flag in the snapshot iterator orders the worker's first look at the value and the
//! matcher columns (the scoring pass of `process_new_items`) after the injector's writes.
use nucleo::pattern::{CaseMatching, Normalization};
use nucleo::{Config, Nucleo};
use std::sync::atomic::{AtomicUsize, Ordering};
use std::sync::Arc;

fn main() {
    let mut n: Nucleo<u32> = Nucleo::new(Config::DEFAULT, Arc::new(|| {}), Some(1), 1);
    n.pattern.reparse(0, "ab", CaseMatching::Smart, Normalization::Smart, false);
    let pushed = Arc::new(AtomicUsize::new(0));
    let mut handles = Vec::new();
    for round in 0..6usize {
        let inj = n.injector();
        let p = pushed.clone();
        handles.push(std::thread::spawn(move || {
            inj.push(round as u32, |v, c| c[0] = format!("xa{v}b").into());
            p.fetch_add(1, Ordering::Relaxed);
        }));
        while pushed.load(Ordering::Relaxed) <= round {
            std::thread::yield_now();
        }
        let mut guard = 0;
        loop {
            n.tick(10);
            if n.snapshot().matched_item_count() as usize > round {
                break;
            }
            guard += 1;
            assert!(guard < 10_000, "item {round} never matched");
        }
    }
    for h in handles {
        h.join().unwrap();
    }
    println!("litmus_stream ok ({} matches)", n.snapshot().matched_item_count());
}
