//! Litmus 2 (C09): an injector thread publishes items while the main thread edits the pattern, ticks
//! and reads the snapshot (matched items go through `get_unchecked`); two pool threads score and sort.
use nucleo::pattern::{CaseMatching, Normalization};
use nucleo::{Config, Nucleo};
use std::sync::Arc;

fn main() {
    let mut n: Nucleo<u32> = Nucleo::new(Config::DEFAULT, Arc::new(|| {}), Some(2), 1);
    let inj = n.injector();
    let t = std::thread::spawn(move || {
        for v in 0..60u32 {
            inj.push(v, |v, c| c[0] = format!("item{v}").into());
        }
        inj.extend((60..90u32).collect::<Vec<_>>().into_iter(), |v, c| c[0] = format!("item{v}").into());
    });
    let mut total = 0usize;
    for round in 0..6 {
        let text = ["i", "it", "it1", "item", "", "m2"][round];
        n.pattern.reparse(0, text, CaseMatching::Smart, Normalization::Smart, round > 0 && round < 4);
        let st = n.tick(50);
        let snap = n.snapshot();
        for item in snap.matched_items(..) {
            assert!(item.matcher_columns[0].to_string().starts_with("item"));
            total += *item.data as usize;
        }
        let _ = st;
    }
    t.join().unwrap();
    while n.tick(1000).running {}
    let snap = n.snapshot();
    assert_eq!(snap.item_count(), 90);
    println!("litmus_tick ok ({} matches at the end, checksum {total})", snap.matched_item_count());
}
