#!/bin/bash
# Build the framework from files on disk only (offline).
set -e
cd "$(dirname "$0")"
export CARGO_NET_OFFLINE=true
python3 translator/refdata.py
python3 translator/translate.py
(cd lean && lake build NucleoVerif nucleo_model 2>&1 | tail -5)
(cd harness && cargo build --release --offline 2>&1 | grep -E '^error|Finished|warning: unused' | head -20)
echo "setup done"
