#!/usr/bin/env python3
"""tools/keep_seed.py <seed dir under /tmp/seed> <name> <property> <caught-by> <needs...>"""
import json, os, shutil, sys
src, name, prop, caught = sys.argv[1:5]
needs = " ".join(sys.argv[5:])
dst = f"/verif/seeded/{name}"
os.makedirs(dst, exist_ok=True)
patch = os.path.join(src, "patch_rebased.diff") if os.path.exists(os.path.join(src, "patch_rebased.diff")) else os.path.join(src, "patch.diff")
shutil.copy(patch, os.path.join(dst, "patch.diff"))
if os.path.exists(os.path.join(src, "NOTES.md")):
    shutil.copy(os.path.join(src, "NOTES.md"), os.path.join(dst, "NOTES.md"))
demo = os.path.join(src, "demo")
if os.path.isdir(demo):
    shutil.copytree(demo, os.path.join(dst, "demo"), dirs_exist_ok=True, ignore=shutil.ignore_patterns("target", "Cargo.lock"))
meta = {"property": prop, "needs_to_manifest": needs, "caught_by": caught,
        "confirmed": "compiles; `cargo test --offline --workspace` passes with the patch; the sub-agent's demo fails with it and passes without it (re-run in the scratch worktree); "
                     "applied to /repo with `git apply`, the listed checks were run (tools/try_seed.sh), then `git checkout -- .`",
        "origin": "fresh sub-agent given only the property text and a scratch worktree"}
json.dump(meta, open(os.path.join(dst, "meta.json"), "w"), indent=1)
print("kept", dst)
