#!/usr/bin/env python3
"""Writes MANIFEST.json from the table below (kept in one place so that it stays valid)."""
import json
import os

ROOT = os.path.dirname(os.path.dirname(os.path.abspath(__file__)))
props = [json.loads(l) for l in open(os.path.join(ROOT, "properties.jsonl"))]

MATCHER_NOTE = ("Trusted: Lean kernel; axioms propext/Classical.choice/Quot.sound; translator (constants, presets, matrix layout, and the cell functions of the optimal matcher - "
                "next_m_cell, p_score, MatrixCell::set/get, UNMATCHED, the first-row cell, the prefix bonus - translated expression by expression into Gen/Optimal.lean; the branches of the scoring loop of "
                "calculate_score translated by symbolic execution into Gen/ScoreLoop.lean); harness+driver. "
                "The dispatch of the three *_impl entry points of lib.rs (length guards, representation match, one-character case, prefilter call and its ?, contiguous shortcut, window arguments of every callee) "
                "is translated statement by statement into Gen/Dispatch.lean on every run and proved to be the model's fuzzyMatch / fuzzyGreedy / substringMatch (companion files <ID>_DispatchTranslated). "
                "Modelled, not verified: the control flow inside the routines the dispatch calls (tied by the correspondence run: corpus + seeded random + exhaustive small domain + "
                "size-limit shapes, every case on a fresh, a used and a poisoned matcher). The optimal matcher is modelled twice: as the naive two-matrix recurrence (optimalDP) and at code level "
                "(Model/OptImpl.lean: one score row shifted by the row offsets, UNMATCHED sentinels, two-bit back-pointer segments, traceback; loops transcribed by hand zip for zip, u16/u8 arithmetic "
                "as Nat with narrowing casts as mod); the two are proved equal for every input and every prior content of the scratch memory (Props/C04_Compressed.lean), and the code-level model is "
                "run against the implementation on every matrix-path case (results and, through a digest hook, the internal state it leaves behind). std Unicode predicates and memchr/memmem as parameters.")

CLAIMS = {
    "C01": dict(
        technique="Lean 4 theorems: the full decision theorem for every representation pair except K1's (prefilter specifications, completeness of the recurrence, scans), agreement of the four entry points, representation independence + model/implementation correspondence with the subsequence oracle",
        text="Proof over the model for all inputs. Theorems: the oracle's decision is List.Sublist; for every configuration, every haystack and every already-normalized needle, "
             "fuzzy_match/fuzzy_indices succeed iff the needle is a subsequence of the normalized haystack - C01_decision_ascii (ASCII haystack x ASCII needle) and "
             "C01_decision_unicode (code-point haystack x needle in either representation): length guards, equal-length shortcut, one-character scan, the prefilter window (ASCII: "
             "first occurrence, greedy end, last occurrence; code points: first occurrence of the first and last occurrence of the last needle character, length check), contiguous "
             "shortcut, matrix path (completeness of the two-matrix recurrence, DP.optimalDP_isSome) and greedy fallback, composed; the greedy entry points decide the same relation "
             "(C01_decision_*_greedy), all four agree (C01_entry_points_agree_*), and the answer does not depend on the representation (C01_representation_independent). The remaining "
             "pair, ASCII-representation haystack x code-point needle, answers None for every input in model and code: KNOWN-FINDING K1. Tie to the code: the model is replayed "
             "against the implementation on every generated case and the Sublist oracle is evaluated on the implementation's own results."),
    "C02": dict(
        technique="Lean 4 theorems (index-pushing loop of calculate_score on tight windows; greedy scans; cell invariants of the optimal matcher's recurrence) + witness oracle on the implementation's indices",
        text="Theorems: meaning of the witness predicate; every calculate_score-based path reports strictly increasing indices inside [start,end) of the haystack; "
             "the alignment reported by the optimal matcher's recurrence is a valid witness (one index per needle character, strictly increasing, inside the haystack and the "
             "window, each haystack character normalizing to its needle character: C02_optimalDP_valid_witness, prefix preference off; C02_optimalDP_spells_needle for every "
             "configuration); exact_match_impl, prefix and postfix matching report exactly the contiguous indices of their window, anchored right after the skipped leading / right "
             "in front of the skipped trailing whitespace (companion file C02_Anchored: calculateScore_contiguous, C02_exactImpl_contiguous, C02_prefix_anchored, "
             "C02_postfix_anchored); the greedy matcher's indices are a valid witness (companion file C02_Greedy, C02_greedy_entry: code-point haystacks with any needle, ASCII "
             "haystacks with a normalized needle; calculate_score yields a witness exactly on a tight window - the rest of the needle is a subsequence of the window but not of the "
             "window without its last character - the forward scans of the prefilter / of fuzzy_match_greedy_ stop at the first completion and the backward scan keeps the window "
             "tight wherever it moves the start); at the fuzzy_indices entry point (companion file C02_Fuzzy) every path reports a valid witness: "
             "C02_fuzzy_entry_ascii / _unicode for needles of two or more characters (the contiguous shortcut, the matrix, and the greedy fallback when the scratch layout does not "
             "fit; normalized needle, prefix preference off) and C02_fuzzy_entry_ascii_one / _unicode_one for one-character needles (the reported index is an occurrence); substring matching "
             "reports the contiguous indices of an occurrence of the needle, starting at the position the matcher picked (companion file C02_Substring: "
             "C02_substring_ascii_witness, C02_substring_unicode_witness, through the decision theorems of C05); "
             "failed matches carry no indices. The traceback through the compressed back-pointer matrix (companion file C02_Traceback, from C04_Compressed): the code-level model of "
             "reconstruct_optimal_path over the two-bit cells written by score_row reproduces, index by index, the alignment of the recurrence's best cell, for every input and prior "
             "scratch content, hence a valid witness (C02_traceback_valid_witness). The substring scan's window and the agreement of both optimal-matcher models with the implementation "
             "are checked on the implementation's output for every case (prior vector content random, must be untouched)."),
    "C03": dict(
        technique="Lean 4 theorems (constants = documented literals, bonus table, calculate_score loop and the optimal recurrence = scheme on the reported alignment) + scheme oracle on the implementation's alignment",
        text="Theorems: the extracted constants equal the documented numbers; bonus_for equals the documented 7x7 bonus table for every pair of classes and every "
             "configuration; calculate_score returns exactly the scheme's value of the alignment it reports for every window ending at the last match while the u16 accumulator is "
             "unsaturated (C03_calculateScore_eq_alignScore); the optimal matcher's two-matrix recurrence returns the scheme's value of the alignment it reports, for every haystack, "
             "needle and window (C03_optimalDP_eq_alignScore, by cell invariants over all columns and rows); prefix, postfix and exact matching return the scheme's value of the contiguous "
             "alignment they report (companion file C03_Anchored: C03_exactImpl_score, C03_anchored_score); 'never wraps around' (companion file C03_Bound): the scheme's value on any "
             "alignment of L distinct indices is at most (16 + B) L + B, B the largest bonus (C03_scheme_bound, every haystack and configuration), so for needles of up to 2519 "
             "characters every value, intermediate ones included, is below 2^16 and the code's u16 arithmetic is exact (C03_fits_u16, alignNoSat_of_short), which removes the "
             "saturation side condition of the calculate_score theorem there (C03_calculateScore_eq_alignScore_short); companion file C03_Entry: on a tight window (what the prefilters "
             "and greedy scans produce, C02_Greedy) the last reported index is the window's last position (tight_last), so calculate_score returns the scheme's value there with no "
             "side condition left (C03_tight_score), and at the fuzzy_match entry point the contiguous shortcut and the matrix path return the scheme's value of the alignment "
             "they report (C03_fuzzy_entry_ascii / _unicode: needles of 2 to 2519 characters, prefix preference off); companion file C03_Paths: the substring matchers "
             "(C03_substring_ascii_score / _unicode_score), the greedy matcher (C03_greedy_ascii_score / _unicode_score) and hence EVERY path of fuzzy_match - contiguous shortcut, "
             "matrix, greedy fallback - return the scheme's value of the alignment they report (C03_fuzzy_all_paths_ascii / _unicode); fuzzy_match_correct_ascii / _unicode put C01, C02 "
             "and C03 into one statement about fuzzy_match (matches iff subsequence; then a valid witness whose scheme value is the score). One-character needles: C03_fuzzy_one_char_ascii / _unicode (from the one-character optimum of C04). Companion file C03_GreedyEntry: the fuzzy_match_greedy entry point "
             "(length guards, greedy-only prefilter, contiguous shortcut, inner routine) returns the scheme's value of the alignment it reports (C03_greedy_entry_ascii / _unicode). Companion file C03_BonusTranslated: Config::bonus_for, translated from score.rs (and the CharClass declaration order from chars.rs) on every run, is the model's bonusFor. Companion file C03_Translated: the unrolled first iteration, the two branches of the loop body and the prefer_prefix tail of calculate_score, "
             "translated from score.rs on every run by symbolic execution of their statements (Gen/ScoreLoop.lean), are the model's state machine stInit / stepMatch / stepSkip / prefixBonusCs the theorems are about. The compressed matrix of "
             "fuzzy_optimal.rs equals the recurrence (C04_Compressed: optimalImpl_eq_optimalDP, C04_compressed_matrix_correct - with the u16/u8 arithmetic read as exact, which C03_fits_u16 justifies for needles up to 2519 characters). The oracle "
             "evaluates score = scheme on the reported indices for all six algorithms on every case; the u16 saturation for needles > 2520 characters is a KNOWN-FINDING."),
    "C04": dict(
        technique="Lean 4 theorems (prefilter window = full matrix; code-level model of the compressed matrix = recurrence by refinement, row by row; early-exit soundness; upper bound) + brute-force optimum oracle + correspondence of both models with the implementation",
        text="Theorems. 'Never lower than the recurrence evaluated on the full matrix' (companion file C04_Window): the model evaluates the documented two-matrix recurrence on the "
             "prefilter window h[start..end]; C04_window_is_full_matrix proves that this IS the value (score and alignment) of the same recurrence on all of h whenever the first "
             "needle character does not occur before start and the last not at or behind end (rows over pre ++ window ++ post are the rows over the window padded with empty cells: "
             "dpCols_window; the full matrix's columns split at the window: windowCols_split), C04_window_lossless_ascii / _unicode prove that the windows prefilter_ascii and "
             "prefilter_non_ascii choose have that property (first occurrence of the first character, one past the last occurrence of the last), and "
             "C04_fuzzy_is_full_matrix_ascii / _unicode state it at the fuzzy_match entry point for the matrix path (prefix preference off, needle of at least two characters, "
             "scratch layout fits). 'The single-row, offset-compressed matrix equals the recurrence everywhere' (companion file C04_Compressed): the code-level model of "
             "fuzzy_match_optimal - greedy row offsets of setup, one score row reused for all needle rows and shifted by the offsets, UNMATCHED sentinels and zero P-scores for "
             "'no cell', the two column loops of score_row, populate_matrix, max_by_key over the last row, two-bit back-pointer cells in per-row segments split off the end, the loop of "
             "reconstruct_optimal_path; cell functions generated from the source - returns exactly the score and alignment of the recurrence, for every window, needle of at least two characters, "
             "configuration and every prior content of the score row and the back-pointer cells (optimalImpl_eq_optimalDP; C04_compressed_matrix_correct: valid witness, score = scheme, "
             "at most the maximum over all alignments). The code-level model is tied to the implementation by the translator (cell functions) and by running it on every matrix-path case: result, and - through a "
             "cfg-gated digest hook - the row offsets, the last score row and every back-pointer cell the real matcher (fresh, used, poisoned) leaves behind must equal the model's. "
             "Further theorems: no bonus exceeds the value the early exit waits for (all presets), a candidate scan keeps the leftmost maximum and stops only at the "
             "maximum; the optimal matcher's recurrence never scores above the maximum over all alignments (C04_upper_bound: its value is the scheme's value of an alignment the "
             "brute-force specification enumerates; every haystack, needle, window, prefix preference off). For a one-character needle the ASCII matcher returns exactly the maximum over all alignments, at the leftmost best-placed occurrence "
             "(C04_one_char_optimum_ascii: scan invariant over every haystack; the early exit is sound because no bonus exceeds max_bonus), and so does the code-point matcher "
             "(C04_one_char_optimum_unicode: substring_match_1_non_ascii behind the non-ASCII prefilter, every haystack and needle character). Upper bound and the one-character optimum are also checked against a brute force over all alignments for small inputs; the lower bound is also an oracle of its own: "
             "implementation score >= the model's recurrence evaluated on the full matrix (every haystack column, no prefilter window) whenever the whole haystack fits the slab."),
    "C05": dict(
        technique="Lean 4 theorems (prefix/postfix/exact decisions in full; occurrence list, trimming helpers, exact_match_impl) + occurrence/anchoring oracle on the implementation",
        text="Theorems: characterisation of the specification's occurrence list; the code's position(..).unwrap_or(0) trimming equals the whitespace counts unless the "
             "haystack is all whitespace; exact_match_impl succeeds iff lengths agree and the normalized window equals the needle (per representation pair); the prefix, postfix and "
             "exact decisions are full theorems (C05_prefix, C05_postfix, C05_exact: for every configuration, haystack, already-normalized needle and representation pair other than "
             "K1's, the matcher succeeds iff the needle equals the normalized haystack text at the start / at the end / as a whole, leading or trailing haystack whitespace - by the "
             "representation's own predicate - being skipped unless the needle itself starts / ends with whitespace; including all-whitespace haystacks, where the code's "
             "unwrap_or(0) skips nothing but a normalized whitespace character can not equal a non-whitespace needle character). The substring statement is a theorem for ASCII haystacks "
             "(C05_substring_ascii: substring_match_ascii succeeds iff the needle occurs contiguously in the normalized haystack and its first reported index is the leftmost "
             "occurrence whose first character earns the highest bonus - acceptance test = occurrence for every prefilter shape the code selects, scan invariant, the specification's "
             "fold characterised; its one-character instance is C04_one_char_optimum_ascii) and for code-point haystacks (C05_substring_unicode: substring_match_non_ascii behind the "
             "non-ASCII prefilter, needles of at least two characters, no normalisation hypothesis; the one-character instance is C04_one_char_optimum_unicode; the decision for one-character needles through substring_match itself - substring_match_1_ascii, substring_match_1_non_ascii behind the greedy-only prefilter and the equal-length shortcut - is companion file C05_OneChar: C05_substring_one_char); at the substring_match "
             "entry point (companion file C05_Entry) every branch of the dispatch - needle longer than the haystack, equal lengths, the ASCII scan, the code-point scan behind its "
             "prefilter - decides 'the needle occurs contiguously in the normalized haystack' (C05_substring_entry_ascii / _unicode, needles of at least two characters). K1 is a KNOWN-FINDING."),
    "C10": dict(
        technique="Lean 4 theorems: slab layout over all sizes (translated), history independence of the code-level matrix model for every prior scratch content + run-time extents hook + overflow-checked correspondence with poisoned slab",
        text="Theorem (all window and needle lengths, both character sizes): the five views MatrixSlab::alloc hands out are inside the slab, pairwise disjoint and aligned; view and layout "
             "element counts are translated from matrix.rs on every run and the real byte ranges reported by the cfg-gated hook must equal the model's. The size test of MatrixSlab::alloc that selects the matrix path is translated too (Gen/Alloc.lean) and is the model's slabFits (companion file C10_AllocTranslated). History independence of the one "
             "path that keeps state in the slab (companion file C10_Matrix, from C04_Compressed): the code-level model of fuzzy_match_optimal takes the prior content of the score row and of the "
             "back-pointer cells as arguments and returns the same result for every such content (C10_matrix_history_independent: it reads a cell of either only after writing it in the same "
             "call); C10_matrix_indices_in_range: every side condition of the matrix path's index arithmetic (Model/OptImpl.lean: optimalSafe - one conjunct per u16/usize subtraction and per slice "
             "or index expression of setup, score_row, populate_matrix, the best-cell search and reconstruct_optimal_path, plus termination of the traceback loop) holds for every window, "
             "needle, configuration and prior scratch content; C10_matrix_scores_fit_u16: with prefix preference off and the presets' bonuses every cell of row r of the matrix has score at most "
             "26 (r + 1) + 10, so for the needle lengths the slab admits (at most 2048) no u16 addition of next_m_cell / p_score overflows. Totality, and history independence of the real code: every case runs in a build with overflow checks and debug assertions on a fresh, a used and a poisoned matcher; "
             "any panic or difference is a violation (absence of panics and overflow outside the matrix path: correspondence, not theorem)."),
    "C16": dict(
        technique="Lean 4 theorems over all code points (kernel-decided complete tables lifted by range lemmas) + exhaustive model/implementation correspondence",
        text="Every clause of C16 is a Lean theorem over every natural number (hence every scalar value) about a model whose tables, table lengths and block dispatch are regenerated "
             "from the Rust source on each run: toLower = Unicode simple case folding (independent reference), idempotence of both maps, ASCII fixed, only the documented ranges change, "
             "the NFKD letter/digit rule, and agreement of normalize with char_class_and_normalize in both representations. The hand-written control flow of the model is tied to the "
             "code by an exhaustive run over all 1,112,064 scalars in 4 configurations x 2 representations.",
        note="Trusted: Lean kernel; axioms propext/Classical.choice/Quot.sound; translator; harness+driver; python unicodedata 14.0 as the reference; std's is_lowercase/is_numeric/"
             "is_alphabetic are model inputs."),
}
CLAIMS.update({
    "C14": dict(
        technique="Lean 4 theorems about the parser model (markers, splitting, escape grammar) + exhaustive/random model-implementation correspondence with grammar oracles",
        text="Atom::parse itself is translated from the source on every run (Gen/Parse.lean: its three matches on atom.as_bytes(), the kind of a negated fuzzy atom, the new_inner call) and proved to be the model's parseAtom (companion file C14_ParseTranslated, from C07_ParseTranslated), so the theorems below speak about the parser the code has. Theorems. C14_one_grammar (companion file C14_OneGrammar): both bodies of Atom::new_inner - the byte path with split(\"\\ \")/to_ascii_lowercase/"
             "is_ascii_uppercase and the grapheme loop with its saw_backslash state machine, the case-folding table and the normalization tables - compute ONE function "
             "(atomSpec) of the text's characters: needle = replaceEscSpace of the characters (every backslash-space becomes a space, every other backslash stays), lower-cased "
             "when case is ignored; smart case = no upper-case character; smart normalization = no character normalization would change (vacuous on ASCII) - for every text, "
             "setting, kind and flag, with no assumption about the segmentation (escRun_spec: the state machine is replaceEscSpace with a pending backslash counted as one more "
             "character in front). C14_literal_roundtrip: the literal round trip for EVERY text, ASCII or not; for non-ASCII text under the explicit segmentation facts SegLit "
             "(escaping spaces does not move cluster boundaries, a final $ is its own cluster, a non-empty text has a cluster - they fail for exotic texts such as a Prepend "
             "character directly before a space, where the two constructions genuinely differ). Also: marker table (negation, kinds, escapes), a text whose spaces are all escaped is a single atom (splitting only at unescaped whitespace, "
             "for every text), replacing escaped spaces inverts escaping for every text (ASCII path), reparse = parse (the model is a function); the complete literal round trip "
             "for ASCII text (C14_literal_roundtrip_ascii: for every escapable text and every CaseMatching x Normalization, parsing its escaped form - leading marker escaped, "
             "spaces escaped, trailing $ escaped - yields exactly one positive fuzzy atom, the atom built from the text itself; with case respected the needle is the text). "
             "The round trip, smart case/normalization and case-folded storage are also evaluated as oracle clauses on the implementation's atoms for every "
             "generated pattern, including all 7381 texts of length <= 4 over {a B ! ^ ' $ \\ space ä}; model = implementation on all of them (both new_inner paths).",
        note="Trusted: Lean kernel, axioms propext/Classical.choice/Quot.sound, harness+driver. Grapheme segmentation is a model input (SegLit states what the non-ASCII round trip needs of it; the oracle evaluates the round trip on the implementation with the real segmentation); private flags are read from Debug output."),
    "C15": dict(
        technique="Lean 4 theorems (conjunction/sum/concatenation, negation, flag overwrite, sorted stable permutation) + correspondence on random atom lists",
        text="Theorems over the model for every atom list, haystack and configuration, with the matcher calls abstract: a negated atom matches iff its inner match fails and "
             "contributes nothing; a pattern matches iff all atoms match, its score is the sum and its indices the concatenation in atom order; the empty pattern gives Some(0); "
             "each atom overwrites ignore_case/normalize so the result is independent of the matcher's previous flags; match_list is a permutation of the matching inputs in "
             "non-increasing score order with equal scores kept in input order; a multi-column pattern (MultiPattern::score, companion file C15_Multi) matches iff every column's pattern "
             "matches that column's text - column k against text k whether or not other columns are empty - and its score is the sum of the columns' scores (C15_multi, "
             "C15_multi_empty_column), an all-empty multi-column pattern gives every item score 0 (C15_multi_all_empty; C15_empOk discharges the hypothesis EmpOk of the worker-protocol theorems of C06 / C07 "
             "for the scoring function the worker uses); Atom::score and Atom::indices are translated from the source on every run (Gen/AtomEval.lean: kind -> entry point in score and in both branches of indices, flags written first, negation) and proved to be the model's Atom.eval (companion file C15_EvalTranslated); what one atom decides is a theorem for all five kinds at once (companion file C15_AtomDecision: C15_atom_decision - the matcher call of a fuzzy / substring / prefix / postfix / exact atom succeeds exactly when the predicate kindDec holds of the normalized haystack, collecting the decision theorems of C01 and C05 including one-character substring needles). Tied to the code by correspondence on random patterns sharing one Matcher, and on MultiPatterns of 1-3 columns in which every subset of the columns has a pattern.",
        note="Trusted: Lean kernel, axioms propext/Classical.choice/Quot.sound, harness+driver; the matcher calls are those of C01-C05 (same model). MultiPattern::score is modelled (multiEval) and compared on the N lines; the worker's use of it is covered by the nucleo-level checks."),
    "C08": dict(
        technique="Lean 4 inductive invariant over all interleavings of a small-step model at atomic-operation granularity + replay of real seeded schedules on the model",
        text="Theorems over every number of threads, every program of push/extend(honest or lying)/get/count/snapshot and every schedule (list of thread ids, one atomic "
             "operation per step): fetch_add hands out exactly the next index/contiguous block, no index is owned by two threads, published entries lie below the counter and are "
             "never owned again (Inv, preserved by every step, holds in every reachable state); a published entry is never overwritten (slot_stable); after a push's last step "
             "every later lookup finds exactly its value (read_your_writes); nothing is ever returned for an index that was not assigned; counter and bucket publication are "
             "monotone; Location::of arithmetic (entry in bounds, buckets tile the index space, injective, below 27 buckets). Tie: real threads are run under a seeded scheduler "
             "at the cfg-gated yield points and the model must predict each executed site and each result.",
        note="Trusted: Lean kernel, axioms propext/Classical.choice/Quot.sound, translator (SKIP/BUCKETS constants, Location arithmetic shape), harness scheduler + driver. "
             "Sequential consistency at yield-point granularity is assumed here (memory-order reorderings: C09). Matcher-column contents are compared by the harness itself."),
    "C17": dict(
        technique="Lean 4 theorems about the conversion model + correspondence on grapheme-rich strings (segmentation as input)",
        text="Theorems: the ASCII form is chosen iff the string is ASCII without CR LF; its bytes are the string; otherwise one character per cluster (first code point, LF for CR LF); "
             "length = number of clusters (ASCII branch under the explicit segmentation hypothesis AsciiSeg); slice/get/len agree with the content; C17_slice_ranges: the bound "
             "arithmetic of Utf32Str::slice/slice_u32 and Utf32String::slice/slice_u32, regenerated from the source on every run, turns every pair of RangeBounds bounds into the window "
             "they denote. All six constructors, a dirty reused buffer, chars/rev/Display and slices (every spelling of each range through all four functions) are compared with the "
             "model and with the content on every generated string.",
        note="Trusted: Lean kernel, axioms, harness+driver. The unicode-segmentation crate's cluster boundaries are an input; AsciiSeg is a hypothesis exercised exhaustively for short ASCII strings."),
})

NU_NOTE = "Trusted: Lean kernel, axioms propext/Classical.choice/Quot.sound, harness (gates on the cfg-gated yield points) + driver. The branch structure and conditions of tick, tick_inner and Worker::run are translated from the source on every run (Gen/TickPlan.lean, Gen/RunPlan.lean) and proved to be the model's (companion files <ID>_TickTranslated, <ID>_RunTranslated). Modelled, not verified: the bodies of the steps (restart, reset_matches, process_new_items, the rescoring closure, Snapshot::update - tied by replaying seeded histories on a real Nucleo, every observable compared); a background run is one model transition parameterised by its observations; parking_lot's lock, Arc counts and rayon are abstracted (lock outcomes and run effects are oracle inputs of the theorems); scores are inputs (C01-C05, C15)."
CLAIMS.update({
    "C06": dict(
        technique="Lean 4 theorems (run contract of rescoring and empty-pattern runs, snapshot guard, in-flight removal, strict total order of the comparison) over the protocol model + replay of seeded histories with paused writers and per-snapshot oracle",
        text="Theorems. C06_protocol (companion file C06_Protocol, composed with the tick-protocol invariant P07 of C07_Protocol): after EVERY history of injector/clone/drop/reparse/"
             "restart(true|false)/tick events - ticks that complete or time out, runs that complete or are cancelled at an arbitrary point, every lock outcome - the snapshot is "
             "consistent (SnapshotConsistent): its matches are exactly the items its pattern matches, with that pattern's scores, among a duplicate-free set of initialised items of "
             "its stream whose size is the reported item count, no item twice, ordered by (score desc, item length asc, index asc) with the items' true lengths (run_seen: every "
             "index a completed run accounts for was observed as what the stream holds). For the empty pattern (a run that takes reset_matches + process_new_items_trivial and cannot be cancelled; which pattern ids are empty is a parameter, with the "
             "hypothesis EmpOk that the empty pattern gives every item score 0) the order clause is insertion order instead. The invariant also carries Pub: every index the worker "
             "accounts for holds a published item of its stream. Building blocks: the snapshot is replaced only by the result of a finished, un-cancelled run while the matcher is Fresh, and always together with that run's "
             "stream handle and processed-item count; the in-flight indices are processed in ascending order whatever order the pool threads report them in (repair of F11, with the "
             "[5,3] regression decided in the model); placeholder entries sort behind real matches of equal score; the comparison closure itself is translated from src/worker.rs on every run (Gen/Worker.lean) and proved to be the model's matchLess (companion file C06_Translated); the plan of Worker::run - the order of its steps and the three conditions that select the trivial path, reset_matches and the kind of pass - is translated too (Gen/RunPlan.lean) and proved to be the one the model's Worker.run follows (companion file C06_RunTranslated, restated for C07, C12, C13 and C19). The run contract is a theorem for the two kinds of run that rebuild the list from the "
             "worker's bookkeeping alone (companion file C06_RunContract): after a completed full-rescoring run - from ANY earlier state of the match list (left by completed, timed-out "
             "or cancelled runs) whose bookkeeping invariant BK holds, first run after restart included - the match list is a sorted permutation of exactly the current pattern's "
             "matches among the accounted items (earlier processed + newly published, in-flight ones excluded and recorded), BK holds again and item_count is the number of "
             "accounted items (C06_rescore_run_contract; the offset-based removal loop of remove_in_flight_matches is characterised, removeInFlightGo_spec; the worker's comparison is "
             "a strict total order and the sort-and-truncate end keeps exactly the non-placeholder entries); after a completed run with the empty pattern the list is every accounted "
             "item in insertion order (C06_trivial_run_contract). Environment hypotheses are explicit (RunEnv: slots only go from unpublished to published, observations are the "
             "stream's content, processed items stay readable, counter monotone and below u32::MAX, the cancel flag not seen). The incremental paths are theorems under the hypothesis that the list was right for the items accounted so far: unchanged pattern "
             "(C06_unchanged_run_contract: in-flight items that completed and newly published items are scored and merged) and appended edit (C06_update_run_contract: the existing "
             "entries are rescored under a pattern that can only match what the old one matched); with nothing in flight a right list is the from-scratch result (C06_quiescent). "
             "The state a CANCELLED run leaves is the Loose invariant of C07_Cancelled; C06_Protocol shows such a worker is never copied into the snapshot. "
             "The whole contract (matches = exactly the matching processed "
             "items, once each, scored, ordered) is also evaluated on every real snapshot of every generated history (writers paused between reservation and publication, 1-3 pool "
             "threads, 1-2 columns), and model = implementation on all of them.",
        note=NU_NOTE),
    "C07": dict(
        technique="Lean 4 theorems (append-shortcut decision rule; worker-level convergence from the run contracts: bookkeeping survives every run, rebuilding runs repair, incremental runs preserve, quiescent = from scratch) + end-to-end comparison of every quiescent history with a fresh Nucleo",
        text="Theorems: the Update shortcut is taken only for a truthful append onto a column not already due for a rescore whose last atom is positive, not "
             "postfix/exact, does not end in a backslash and (unless fuzzy) not in an escaped dollar (repair of F9), and which keeps normalizing the haystack if it did (repair of F16); can_append_to and the status decision of MultiPattern::reparse (both ifs, with the repair of F16) are translated from src/pattern.rs on every run and proved to be the model's rule (companion file C07_Translated), and so is Atom::parse (companion file C07_ParseTranslated: the matches of Atom::parse are the model's stripNeg / stripKind / stripDollar); with decided witnesses that each excluded class is not a "
             "narrowing; appending text changes only the last atom (companion file C07_Append: the splitter is a left-to-right scan with one bit of state, so every piece of the old "
             "text but the last is a piece of the new text and the atoms parsed from them are the first atoms of the new pattern, unchanged and in order - "
             "C07_append_keeps_earlier_atoms; the narrowing property the shortcut needs therefore concerns the last atom alone, which is what can_append_to inspects; for the fuzzy kind and a fixed "
             "configuration the narrowing is a theorem through the decision theorems of C01 (C07_fuzzy_append_narrows_ascii / _unicode: whatever fuzzy_match finds for n ++ s it finds "
             "for n), and (companion file C07_Narrows) so it is for the two other admitted kinds, through the decision theorems of C05: C07_substring_append_narrows_ascii / _unicode "
             "(an occurrence of n ++ s is an occurrence of n) and C07_prefix_append_narrows; typing an upper-case letter onto a smart-case atom turns ignore_case off and still narrows (companion file C07_SmartCase: the case-insensitive haystack is the "
             "lower-cased case-sensitive one and the stored needle is its own lower case - fuzzy, substring and prefix atoms, C07_smart_case_flip_narrows_*); a change of the smart-normalization flag by the appended text narrows without case folding (companion file C07_NormFlip) but does NOT narrow under case folding (finding F16, repaired: characters whose case folding and "
             "Latin normalization disagree; C07_normalization_flip_witness decides the witness in the model) - the repaired rule refuses the shortcut then (model normKept, C07_update_keeps_normalization), so the hypothesis Narrows of the protocol theorem is only needed for edits that keep the flag or drop ignore_case; for ASCII pattern text that hypothesis is a theorem end to end (companion files C07_AtomNarrows and C07_UpdateSound: C07_update_narrows_ascii - whenever the rule answers Update for t continued to t ++ s, every haystack matched by the pattern parsed from t ++ s is matched by the one parsed from t, through every stage of Atom::parse on continued text, changes of kind by a trailing $, an escaped \\$, the smart-case flip and one-character needles; it rests on C15_atom_decision, one decision predicate for all five kinds of atom; C07_multi_update_narrows_ascii lifts it to multi-column patterns and companion file C07_NarrowsDischarged instantiates the hypothesis Narrows of C07_protocol with the worker's scoring function); companion file C07_Sublist gives the general form for fuzzy atoms (the old needle survives as a subsequence of the new one, with or without the case flip), and the 'narrow' stream checks on the parser model, for every generated ASCII edit that takes the shortcut, that the atom in the last atom's place has one of the narrowing shapes (subsequence / infix / prefix of the kind, `$` turning fuzzy into postfix and the others into exact, case folding only switched off, normalization unchanged) and on the real code that no haystack matches the new pattern without matching the old one; a cancelling tick always hands the worker the current pattern. Convergence at the level of the worker (companion file C07_Quiescent, on the run contracts "
             "of C06_RunContract): the bookkeeping invariant survives every run, completed or cancelled at any point (BK_run); a completed rebuilding run (rescoring after a "
             "non-appended edit or restart, or the empty pattern) makes the match list right from any such state (C07_rescore_establishes, C07_any_run_then_rescore); completed "
             "incremental runs keep it right (C07_unchanged_preserves, C07_update_preserves - the latter needs exactly the narrowing property the Update rule is about); and a right "
             "list with nothing in flight is the from-scratch result over all items, with the item count equal to their number (C07_quiescent). Cancellation (companion file "
             "C07_Cancelled): every run, whatever it observes of the cancel flag and wherever it is interrupted, ends in a 'loose' state - no accounted item that matches the "
             "pattern is lost, real entries are distinct accounted items, left-over placeholders have score 0 (scorePass_loose, C06_cancelled_run_loose); a completed Update run "
             "turns a loose state into the exactly right list (C06_update_run_contract_loose); C07_history: through any sequence of rescoring / appended-edit / unchanged-pattern "
             "runs, each completed or cancelled anywhere, the worker is loose between runs and exactly right after every completed run - in particular an appended edit arriving "
             "while the previous run is being cancelled is handled correctly. The protocol facts the history theorem assumes (an unchanged-pattern run only follows a completed run; "
             "Update only for a narrowing edit) are C07's rule and C19's invariant. The composition with the tick protocol is a theorem too (companion file C07_Protocol, "
             "C07_protocol): for every history of injector/clone/drop, reparse (Update only for a narrowing edit), restart(true|false) and tick - every lock outcome, runs "
             "completing or cancelled anywhere, cleared runs after a restart - a tick that reports running = false leaves a snapshot holding exactly the current pattern's "
             "matches with their scores among the accounted items of the current stream, in the worker's order, and with nothing in flight that is the from-scratch result "
             "over all of them; the environment hypotheses say that a joined run is Worker.run on the pending status with observations consistent with the stream. "
             "Runs for the empty pattern (reset_matches + process_new_items_trivial, never cancelled) are included: which pattern ids are empty is a parameter, under the hypothesis "
             "EmpOk (the empty pattern gives every item score 0). "
             "Convergence is also checked end to end: every generated history is driven to quiescence "
             "and its snapshot compared with a fresh Nucleo fed the same items and final pattern (oracle independent of the model).",
        note=NU_NOTE),
    "C12": dict(
        technique="Lean 4 theorems over the protocol model (restart, guard lemma for runs of the old stream) for every lock outcome and run effect + history replay",
        text="Theorems (every lock outcome, counter value and background-run effect): restart(true) empties the snapshot and points it at the new stream immediately; "
             "restart(false) leaves it untouched; the new stream is referenced by no old injector, worker or snapshot handle; while the matcher is Cleared a finishing run of the old "
             "stream is never copied into the snapshot (guard lemma) and the next run works on the new stream; a snapshot update always takes the worker's stream handle together with "
             "its matches. Old injectors keep working without any effect: checked on the real code (oldpush/oldextend events), where every match's item must belong to the snapshot's stream; "
             "every snapshot dump also probes get_item(0..40): after restart(true) nothing may be readable by index, and whatever a snapshot reaches belongs to one stream and never to one abandoned by a clearing restart.",
        note=NU_NOTE),
    "C13": dict(
        technique="Lean 4: decided lost-wake-up witness + theorem that a tick reporting 'running' leaves the flag armed; replay with the run parked at run.end",
        text="The property is false for the code (finding K2, not repaired): C13_lost_wakeup_witness decides the schedule in the model and the harness replays it on the real Nucleo "
             "by parking the run at the run.end yield point (tick times out, re-arms, reports running; the run ends with zero notify calls) - reported as KNOWN-FINDING. Proved: "
             "whenever tick returns running, should_notify is armed when it returns, and a run that reads an armed flag notifies; over every history (companion file C13_History): "
             "whenever a run is in flight between ticks the flag is armed (C13_armed_between_ticks), a run notifies exactly when it was not cancelled and read a true flag "
             "(run_notifies_iff), hence a run that reads the flag while no tick is executing and is not cancelled does notify (C13_notified_outside_ticks) - which pins the defect "
             "to the window inside a tick between clearing and re-arming the flag. Every notify call of every history is predicted by "
             "the model (pushes, extends and runs), so any other lost or spurious notification is a violation; and the last sentence of the property is an oracle clause of its own on the implementation: a push or extend - also one that was paused inside its fill callback while later pushes completed - that returns without a notify call after its items became visible is reported as such.",
        note=NU_NOTE),
    "C19": dict(
        technique="Lean 4 theorems over the protocol model for every lock outcome and run effect + history replay with before/after snapshots",
        text="Theorem: changed = false implies the snapshot (matches, item count, pattern, stream) is identical to the one before the call, for every lock outcome, counter value and "
             "background-run effect. 'running = false': C19_running_history - after every history of injector/clone/drop/reparse/restart(true|false)/tick (completing or timing out), "
             "a tick that reports running = false leaves a snapshot that carries the matcher's current pattern and accounts for at least as many items as the reservation counter "
             "showed when the deciding tick_inner read it (state invariant Inv19 - idle worker, snapshot mirrors the worker's result, worker started with the current pattern - "
             "preserved by every event). Environment assumptions, stated as hypotheses (TickEnv): a joined background run marks itself as run and keeps pattern and stream "
             "(proved for the model's Worker.run: Worker.run_runLike), and a run that no tick cancelled and no restart followed did not observe the cancel flag. Both clauses are "
             "also evaluated on every tick of every replayed history.",
        note=NU_NOTE),
    "C09": dict(
        technique="Lean 4 happens-before certificates over the orderings extracted from the source + site-sequence validation on real schedules + Miri litmus programs as failing-schedule search",
        text="Theorems: every atomic operation of the item vector is classified (C09_sites_covered fails when one is added or removed); the declared orderings are the ones the "
             "chains need (weakening any of them breaks C09_orderings, strengthening keeps it); and for every execution (events, program order, reads-from, library edges) that "
             "follows the stated skeleton, the initialising write happens-before the read: entry data for get and the snapshot iterators, the bucket header's non-atomic "
             "initialisation for get / iterators (repair of F10) / writers (their program-order premise - every non-atomic flag initialisation is sequenced before the publishing "
             "CAS and reachable nowhere else - is extracted from src/boxcar.rs by the translator: C09_bucket_init_precedes_publication), and get_unchecked through its caller contract and the publisher's acquire of the pointer. The worker's "
             "result list, the per-thread matchers and Drop are ordered by library edges (mutex, spawn/join, Arc). The skeleton is validated by replaying real schedules site by "
             "site; the caller contract of get_unchecked is evaluated on real Nucleo histories (every index handed to it has reached its publishing store); eight litmus programs (get, tick, restart, bucket allocation, streaming push, batch walking into another thread's bucket) run "
             "under Miri's race detector (thorough tier, and whenever a certificate breaks: Miri's report is then the replay).",
        note="Trusted: Lean kernel, axioms propext/Classical.choice/Quot.sound, translator (atomic-site extraction), the release/acquire fragment of the memory model as formalised "
             "in Model/MemModel.lean, harness scheduler, Miri as the search engine. rayon, parking_lot and Arc internals are library edges."),
    "C11": dict(
        technique="Lean 4 theorems about the translated Drop loop and the reference-count model + drop-counter / allocation-balance correspondence",
        text="Theorems: the Drop loop (its break/continue shape is translated from the source on every run) visits every allocated bucket wherever it sits (repair of F12, with the "
             "decided witness for the old loop); entries are only ever marked active inside an allocated bucket, for every sequential history of pushes and batches (honest or "
             "lying, with panicking callbacks); dropping the vector therefore drops every published item, each read off one entry (at most once); a panicking callback's item is "
             "dropped by unwinding and its entry never becomes active; a batch partitions its items into written and unwound ones. 'Only after it is unreachable', over every history of injector/clone/drop/reparse/restart/tick events "
             "(companion file C11_Handles): no event creates a handle to a stream nobody holds, every handle points at a created stream with a positive count, and a stream whose "
             "count reached zero keeps count zero after every continuation (no second drop, no access after the drop). In the correspondence run the destroyed items after every "
             "event of every Nucleo history must be exactly those of streams with zero handles, and an item the snapshot lists must not have been dropped.",
        note="Trusted: Lean kernel, axioms propext/Classical.choice/Quot.sound, translator (Drop/dealloc shape), harness (per-item drop counters, counting global allocator) + driver. "
             "Arc, unwinding and the allocator are modelled, not verified; concurrency of the vector itself is C08."),
    "C18": dict(
        technique="Lean 4 theorems: the model of all of par_sort.rs returns a sorted permutation (Hoare-style contracts for every routine, composed through the recursion; no bound on the length) + exact-output correspondence with the real sort",
        text="Theorems, for every input of any length and every oracle for the cancel-flag reads: (1) for every comparison function (even inconsistent) the resulting slice is a permutation of the input "
             "(the model mutates only by swaps, enforced by its type), cancelled or not; (2) C18_sorted: under a strict weak order, whenever the sort reports 'not cancelled' the slice is in "
             "non-decreasing order - proved for the whole pattern-defeating quicksort: shift_tail/insertion_sort, shift_head/partial_insertion_sort ('true' only if sorted), heapsort (sift_down, build and pop loops, "
             "with the loop ranges translated from the source), partition_in_blocks (block scans, the cyclic swap chain, both clean-up loops, block-size arithmetic and termination), partition, partition_equal, "
             "choose_pivot (index in range), break_patterns (indices in range), and the recurse loop with its predecessor-pivot shortcut, the sequential/parallel split and the sufficiency of the model's fuel; "
             "(3) C18_not_cancelled / C18_sorted_permutation: a flag that is never raised gives 'not cancelled' and a sorted permutation; a flag raised before the start returns 'cancelled' with the slice untouched; "
             "(4) the worker's comparison decides every pair of distinct matches, hence two sorted permutations of the same matches are equal (thread-count independence). "
             "The tie to the code: the model reproduces the real final slice exactly (including the order of ties, break_patterns, heapsort fallback and cancel points) for 1/2/8/16 threads, on killer-adversary "
             "inputs that reach the fallback, and for each private building block called directly; the property's clauses are also evaluated on the real output of every case.",
        note="Trusted: Lean kernel, axioms propext/Classical.choice/Quot.sound (the verification conditions are generated by Lean's `mvcgen` from the model's own do-blocks; what it produces is checked by the kernel and adds no axiom), translator (pdqsort thresholds), "
             "harness+driver. rayon::join is modelled as sequential composition on disjoint sub-slices."),
    "C20": dict(
        technique="Lean 4 invariant over all histories of injector/clone/drop/restart/reparse/tick with arbitrary tick oracles + history replay",
        text="Theorem C20_history: for every history of injector(), clone, drop, restart(true|false), reparse and tick - every lock outcome, counter value and background-run effect "
             "that leaves the worker's stream handle alone (proved for Worker::run) - active_injectors equals the number of live injector handles of the current stream; injectors of "
             "older streams are never counted. The formula of active_injectors and State::matcher_item_refs / canceled / cleared are translated from src/lib.rs on every run (Gen/Rules.lean) and proved to be the model's (companion file C20_Translated). Tied to the code also by replaying seeded histories (including writer threads holding injector clones) and comparing after every event.",
        note=NU_NOTE),
})

MATCHER_IDS = {"C01", "C02", "C03", "C04", "C05", "C10"}


def main():
    checks = []
    for p in props:
        pid = p["id"]
        if pid not in CLAIMS:
            continue
        c = CLAIMS[pid]
        checks.append({
            "property_id": pid,
            "quick_cmd": f"./check {pid} --tier quick",
            "thorough_cmd": f"./check {pid} --tier thorough",
            "evidence_file": f"evidence/{pid}.json",
            "replay_cmd_template": f"./check {pid} --replay {{path}}",
            "engine": "lean-model",
            "technique": c["technique"],
            "level_claimed": {"category": "proof", "text": c["text"], "design_ref": f"DESIGN.md section 5, {pid}"},
            "level_note": c.get("note", MATCHER_NOTE if pid in MATCHER_IDS else ""),
        })
    served = sorted(CLAIMS)
    m = {
        "version": 1,
        "setup_cmd": "./setup.sh",
        "hooks": {"guard": "--cfg nucleo_verif",
                  "enable": "RUSTFLAGS=\"--cfg nucleo_verif\" (set in harness/.cargo/config.toml; the harness crate has path dependencies on /repo)",
                  "baseline_off_cmd": "cd /repo && cargo test --workspace --no-fail-fast --offline",
                  "source_commits": HOOK_COMMITS, "add_only": True},
        "engines": [
            {"name": "lean-model", "path": "lean/", "serves_properties": served, "kind_free_text": "Lean 4 model + theorems (Props/), compiled model driver (Main.lean)"},
            {"name": "translator", "path": "translator/", "serves_properties": served, "kind_free_text": "Rust source data -> Lean (Gen/), regenerated every run"},
            {"name": "harness", "path": "harness/", "serves_properties": served, "kind_free_text": "Rust correspondence harness calling the real code in-process"}],
        "checks": checks,
        "not_applicable": [{"property_id": p["id"], "reason": "check under construction in this session (Lean model planned in DESIGN.md section 5); not claimed until its theorem and correspondence exist"}
                           for p in props if p["id"] not in CLAIMS],
        "notes": "See DESIGN.md. All checks: ./check <ID> --tier quick|thorough. Known findings: KNOWN_FINDINGS.txt.",
    }
    json.dump(m, open(os.path.join(ROOT, "MANIFEST.json"), "w"), indent=1)
    print("MANIFEST.json written:", len(checks), "checks,", len(m["not_applicable"]), "not applicable")


HOOK_COMMITS = ["83be2c1", "70f7560", "1c72289", "55bd267", "3b24678", "7ff75e2", "14ea588", "8a8fa86", "57f2bf8", "9a2c717"]

if __name__ == "__main__":
    main()
