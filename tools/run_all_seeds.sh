#!/bin/bash
# usage: tools/run_all_seeds.sh [name-filter]
# Regression run over every kept seeded change: each patch is applied to a scratch worktree (/tmp/alt, see try_seed_alt.sh)
# and the quick check of its property is run there; prints one line per seed: CAUGHT / MISSED.  /repo and /verif are not touched.
set -u
cd /verif
filter=${1:-}
out=/tmp/alt_seeds.log
: > $out
for d in seeded/*/; do
  name=$(basename $d)
  [ -n "$filter" ] && [[ "$name" != *$filter* ]] && continue
  prop=$(python3 -c "import json;print(json.load(open('$d/meta.json'))['property'])")
  res=$(tools/try_seed_alt.sh $d/patch.diff $prop 2>&1 | grep -v WARNING)
  if echo "$res" | grep -q "^VIOLATION"; then
    how=$(echo "$res" | grep -E "^# " | head -1 | cut -c1-160)
    nf=$(echo "$res" | grep -c "no-failing-input-found")
    echo "CAUGHT $name [$prop] nf=$nf $how" | tee -a $out
  else
    echo "MISSED $name [$prop] $(echo "$res" | tail -2 | tr '\n' ' ' | cut -c1-200)" | tee -a $out
  fi
done
echo SEEDS-DONE | tee -a $out
