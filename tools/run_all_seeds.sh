#!/bin/bash
# usage: tools/run_all_seeds.sh [name-filter]
# Regression run over every kept seeded change: each patch is applied to a scratch worktree (/tmp/alt, see try_seed_alt.sh)
# and the quick check of its property is run there; prints one line per seed: CAUGHT / MISSED.  /repo and /verif are not touched.
set -u
cd /verif
filter=${1:-}
out=${SEEDS_LOG:-/tmp/alt_seeds.log}
: > $out
# the history / vector / pattern seeds first (fast checks), the matcher seeds (about three minutes each) last
order=$( (ls -d seeded/*/ | grep -vE "seeded/C(01|02|03|04|05|10)-"; ls -d seeded/*/ | grep -E "seeded/C(01|02|03|04|05|10)-") )
for d in $order; do
  name=$(basename $d)
  [ -n "$filter" ] && [[ "$name" != *$filter* ]] && continue
  [ -n "${SEEDS_SKIP:-}" ] && grep -q "^CAUGHT $name " "$SEEDS_SKIP" && continue
  prop=$(python3 -c "import json;print(json.load(open('$d/meta.json'))['property'])")
  res=$(tools/try_seed_alt.sh $d/patch.diff $prop 2>&1 | grep -v WARNING)
  if echo "$res" | grep -q "^VIOLATION"; then
    how=$(echo "$res" | grep -E "^# " | head -1 | cut -c1-160)
    nf=$(echo "$res" | grep -c "no-failing-input-found")
    echo "CAUGHT $name [$prop] nf=$nf $how" | tee -a $out
  else
    echo "MISSED $name [$prop] $(echo "$res" | tail -2 | tr '\n' ' ' | cut -c1-200)" | tee -a $out
  fi
done
echo SEEDS-DONE | tee -a $out
