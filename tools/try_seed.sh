#!/bin/bash
# usage: tools/try_seed.sh <patch.diff> <check id>...   — applies the patch to /repo, runs the quick checks, undoes it
set -u
patch=$1; shift
cd /repo && git status --short | grep -v '^??' && { echo "repo dirty"; exit 2; }
git -C /repo apply "$patch" || { echo "patch does not apply"; exit 2; }
for id in "$@"; do
  echo "=== $id"
  (cd /verif && timeout 1500 ./check $id --tier quick 2>&1 | grep -E '^VIOLATION|^KNOWN-FINDING|^# |OK tier' | cut -c1-400 | head -8)
done
git -C /repo checkout -- .
git -C /repo status --short | grep -v '^??'
echo "=== restored"
