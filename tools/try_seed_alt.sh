#!/bin/bash
# usage: tools/try_seed_alt.sh <patch.diff> <check id>...
# Like try_seed.sh, but on a scratch copy: /tmp/alt/verif (copy of /verif incl. build output) and /tmp/alt/repo (git
# worktree of /repo with the patch applied), so that it can run while other checks use /repo.  Nothing in /repo or /verif
# is touched.  Remove the scratch with:  git -C /repo worktree remove --force /tmp/alt/repo; rm -rf /tmp/alt
set -u
patch=$(readlink -f "$1"); shift
mkdir -p /tmp/alt
if [ ! -d /tmp/alt/repo ]; then git -C /repo worktree add -q --detach /tmp/alt/repo HEAD || exit 2; fi
git -C /tmp/alt/repo checkout -q --detach "$(git -C /repo rev-parse HEAD)" && git -C /tmp/alt/repo checkout -q -- . || exit 2
rsync -a --delete --exclude .git --exclude replays --exclude evidence /verif/ /tmp/alt/verif/ || exit 2
mkdir -p /tmp/alt/verif/replays /tmp/alt/verif/evidence
sed -i 's#"/repo#"/tmp/alt/repo#g' /tmp/alt/verif/harness/Cargo.toml /tmp/alt/verif/miri/Cargo.toml
git -C /tmp/alt/repo apply "$patch" || { echo "patch does not apply"; exit 2; }
for id in "$@"; do
  echo "=== $id"
  (cd /tmp/alt/verif && NUCLEO_REPO=/tmp/alt/repo timeout 2400 ./check $id --tier quick 2>&1 | grep -E '^VIOLATION|^KNOWN-FINDING|^# |OK tier' | cut -c1-400 | head -8)
done
git -C /tmp/alt/repo checkout -q -- .
echo "=== done (scratch copy)"
