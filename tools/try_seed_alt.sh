#!/bin/bash
# usage: [ALT_DIR=/tmp/alt2] tools/try_seed_alt.sh <patch.diff> <check id>...
# Like try_seed.sh, but on a scratch copy: $A/verif (copy of /verif incl. build output) and $A/repo (git worktree of /repo
# with the patch applied), A = ${ALT_DIR:-/tmp/alt}, so that it can run while other checks use /repo.  Nothing in /repo or
# /verif is touched.  Remove the scratch with:  git -C /repo worktree remove --force $A/repo; rm -rf $A
set -u
A=${ALT_DIR:-/tmp/alt}
patch=$(readlink -f "$1"); shift
mkdir -p $A
if [ ! -d $A/repo ]; then git -C /repo worktree add -q --detach $A/repo HEAD || exit 2; fi
git -C $A/repo checkout -q --detach "$(git -C /repo rev-parse HEAD)" && git -C $A/repo checkout -q -- . || exit 2
rsync -a --delete --exclude .git --exclude replays --exclude evidence /verif/ $A/verif/ || exit 2
mkdir -p $A/verif/replays $A/verif/evidence
sed -i "s#\"/repo#\"$A/repo#g" $A/verif/harness/Cargo.toml $A/verif/miri/Cargo.toml
git -C $A/repo apply "$patch" || { echo "patch does not apply"; exit 2; }
for id in "$@"; do
  echo "=== $id"
  (cd $A/verif && NUCLEO_REPO=$A/repo timeout 2400 ./check $id --tier quick 2>&1 | grep -E '^VIOLATION|^KNOWN-FINDING|^# |OK tier' | cut -c1-400 | head -8)
done
git -C $A/repo checkout -q -- .
echo "=== done (scratch copy)"
