#!/usr/bin/env python3
"""Translator: extracts the *data* of the Rust sources under /repo into Lean files
under lean/NucleoVerif/Gen/.  Run before every `lake build`; files are only rewritten
when their content changes (so lake's incremental build stays incremental).

Everything here fails loudly (TranslateError) when an expected item is missing or has
an unexpected shape: a silent default would make a theorem be about something that is
not the code.
"""
import os
import re
import sys

REPO = os.environ.get("NUCLEO_REPO", "/repo")
OUT = os.path.join(os.path.dirname(os.path.abspath(__file__)), "..", "lean", "NucleoVerif", "Gen")


class TranslateError(Exception):
    pass


def read(rel):
    with open(os.path.join(REPO, rel), encoding="utf-8") as f:
        return f.read()


def strip_comments(src):
    # remove // comments (not inside char/string literals that contain //: none in the files we parse
    # except URLs inside doc comments, which start with // anyway)
    out = []
    for line in src.split("\n"):
        # keep char literals like '/' intact: only cut at // that is not inside quotes
        i = 0
        in_s = None
        cut = len(line)
        while i < len(line):
            ch = line[i]
            if in_s:
                if ch == "\\":
                    i += 2
                    continue
                if ch == in_s:
                    in_s = None
            else:
                if ch == '"':
                    in_s = '"'
                elif ch == "'":
                    # char literal or lifetime; a char literal closes within a few chars
                    m = re.match(r"'(\\u\{[0-9a-fA-F]+\}|\\.|[^'\\])'", line[i:])
                    if m:
                        i += len(m.group(0))
                        continue
                elif line.startswith("//", i):
                    cut = i
                    break
            i += 1
        out.append(line[:cut])
    return "\n".join(out)


def write_if_changed(name, text):
    os.makedirs(OUT, exist_ok=True)
    path = os.path.join(OUT, name)
    old = None
    if os.path.exists(path):
        with open(path, encoding="utf-8") as f:
            old = f.read()
    if old != text:
        with open(path, "w", encoding="utf-8") as f:
            f.write(text)
        return True
    return False


# ----------------------------------------------------------------------------------------
# constant expressions

def lz32(x):
    return 32 - x.bit_length()


def eval_const(expr, env):
    e = expr.strip()
    e = e.replace("u32::BITS", "32").replace("u32::MAX", str(2**32 - 1)).replace("u16::MAX", "65535")
    e = e.replace("usize::MAX", str(2**64 - 1))
    e = re.sub(r"\bas\s+(usize|u16|u32|u64|u8)\b", "", e)
    e = re.sub(r"(\b[A-Za-z_][A-Za-z_0-9]*)\.leading_zeros\(\)", r"lz32(\1)", e)
    e = re.sub(r"(\d)_(\d)", r"\1\2", e)
    e = e.replace("/", "//")
    if not re.fullmatch(r"[A-Za-z_0-9\s+\-*/()<>]*", e):
        raise TranslateError(f"unsupported constant expression: {expr!r}")
    try:
        return int(eval(e, {"__builtins__": {}, "lz32": lz32}, dict(env)))
    except Exception as ex:  # noqa
        raise TranslateError(f"cannot evaluate constant expression {expr!r}: {ex}")


def consts_of(src, names, env=None):
    env = dict(env or {})
    src = strip_comments(src)
    found = {}
    # evaluate in source order so that later constants may use earlier ones; two passes for forward refs
    decls = re.findall(r"const\s+([A-Z_0-9]+)\s*:\s*[a-z0-9]+\s*=\s*([^;]+);", src)
    for _ in range(3):
        for n, e in decls:
            if n in found:
                continue
            try:
                found[n] = eval_const(e, {**env, **found})
            except TranslateError:
                pass
    for n in names:
        if n not in found:
            raise TranslateError(f"constant {n} not found / not evaluable")
    return {n: found[n] for n in names}, found


# ----------------------------------------------------------------------------------------
# char literals and tables

CHAR_RE = r"'(\\u\{[0-9a-fA-F]+\}|\\.|[^'\\])'"


def char_val(lit):
    if lit.startswith("\\u{"):
        return int(lit[3:-1], 16)
    if lit.startswith("\\"):
        m = {"n": 10, "r": 13, "t": 9, "\\": 92, "'": 39, '"': 34, "0": 0}
        if lit[1] not in m:
            raise TranslateError(f"unknown escape {lit!r}")
        return m[lit[1]]
    if len(lit) != 1:
        raise TranslateError(f"bad char literal {lit!r}")
    return ord(lit)


def big_nat(vals, width=21):
    n = 0
    for i, v in enumerate(vals):
        if v >= (1 << width):
            raise TranslateError("table value too wide")
        n |= v << (width * i)
    return hex(n)


def parse_char_array(src, name):
    m = re.search(r"static\s+" + name + r"\s*:\s*\[char;\s*(\d+)\]\s*=\s*\[(.*?)\n\];", src, re.S)
    if not m:
        raise TranslateError(f"table {name} not found")
    n = int(m.group(1))
    body = strip_comments(m.group(2))
    vals = [char_val(x) for x in re.findall(CHAR_RE, body)]
    if len(vals) != n:
        raise TranslateError(f"table {name}: declared {n} entries, parsed {len(vals)}")
    return vals


def translate_normalize_fn(src):
    """Translate the body of `pub fn normalize(c: char) -> char` (an if-chain with early
    returns over comparisons of `c` with char literals and table lookups) to Lean."""
    m = re.search(r"pub fn normalize\(c: char\) -> char \{(.*?)\n\}", src, re.S)
    if not m:
        raise TranslateError("fn normalize not found")
    body = strip_comments(m.group(1))
    toks = body.strip()
    lean = []
    checks = []  # (cond_lean, table, base) for the bounds obligations
    pos = 0

    def conv_cond(c):
        parts = [p.strip() for p in c.split("||")]
        outp = []
        for p in parts:
            mm = re.fullmatch(r"c\s*(<=|>=|<|>)\s*" + CHAR_RE, p)
            if not mm:
                raise TranslateError(f"normalize(): unsupported condition {p!r}")
            op = {"<=": "≤", ">=": "≥", "<": "<", ">": ">"}[mm.group(1)]
            outp.append(f"c {op} {hex(char_val(mm.group(2)))}")
        return " ∨ ".join(outp)

    def conv_ret(r):
        r = r.strip()
        if r == "c":
            return "c"
        mm = re.fullmatch(r"([A-Z_0-9]+)\[c as usize - " + CHAR_RE + r" as usize\]", r)
        if not mm:
            raise TranslateError(f"normalize(): unsupported return expression {r!r}")
        return f"tblGet {mm.group(1)} {mm.group(1)}_len (c - {hex(char_val(mm.group(2)))})"

    rest = toks
    while True:
        rest = rest.strip()
        mm = re.match(r"if\s+(.*?)\s*\{\s*return\s+(.*?);\s*\}", rest, re.S)
        if mm:
            lean.append(f"  if {conv_cond(mm.group(1))} then {conv_ret(mm.group(2))} else")
            rest = rest[mm.end():]
            continue
        lean.append(f"  {conv_ret(rest)}")
        break
    return "\n".join(lean)


def gen_tables():
    nsrc = read("matcher/src/chars/normalize.rs")
    fsrc = read("matcher/src/chars/case_fold.rs")
    names = ["LATIN_1AB", "LATIN_EXTENDED_ADDITIONAL", "SUPERSCRIPTS_AND_SUBSCRIPTS"]
    tables = {n: parse_char_array(nsrc, n) for n in names}
    m = re.search(r"pub const CASE_FOLDING_SIMPLE\s*:\s*&'static \[\(char, char\)\]\s*=\s*&\[(.*?)\n\];", fsrc, re.S)
    if not m:
        raise TranslateError("CASE_FOLDING_SIMPLE not found")
    pairs = re.findall(r"\(\s*" + CHAR_RE + r"\s*,\s*" + CHAR_RE + r"\s*\)", strip_comments(m.group(1)))
    keys = [char_val(a) for a, b in pairs]
    vals = [char_val(b) for a, b in pairs]
    if len(keys) < 1000:
        raise TranslateError("case folding table suspiciously small")
    out = ["/- GENERATED by translator/translate.py from matcher/src/chars/{normalize,case_fold}.rs — do not edit -/",
           "namespace NucleoVerif.Gen", "",
           "/-- entry `i` of a table packed 21 bits per entry; `none`-like 0x1FFFFF is never a scalar. Out of range = Rust index panic, modelled as 0x1FFFFF (not a scalar value) so a proof must rule it out. -/",
           "def tblGet (t len i : Nat) : Nat := if i < len then (t >>> (21 * i)) &&& 0x1FFFFF else 0x1FFFFF", ""]
    for n in names:
        out.append(f"def {n}_len : Nat := {len(tables[n])}")
        out.append(f"def {n} : Nat := {big_nat(tables[n])}")
        out.append("")
    out.append(f"def FOLD_len : Nat := {len(keys)}")
    out.append(f"def FOLD_KEYS : Nat := {big_nat(keys)}")
    out.append(f"def FOLD_VALS : Nat := {big_nat(vals)}")
    out.append("")
    out.append("/-- translation of `chars::normalize::normalize` (the Latin normalization dispatch) -/")
    out.append("def normalizeLatin (c : Nat) : Nat :=")
    out.append(translate_normalize_fn(nsrc))
    out.append("")
    out.append("end NucleoVerif.Gen")
    return "\n".join(out) + "\n"


# ----------------------------------------------------------------------------------------
# scoring constants and config presets

def gen_consts():
    ssrc = read("matcher/src/score.rs")
    names = ["SCORE_MATCH", "PENALTY_GAP_START", "PENALTY_GAP_EXTENSION", "PREFIX_BONUS_SCALE",
             "MAX_PREFIX_BONUS", "BONUS_BOUNDARY", "BONUS_CAMEL123", "BONUS_NON_WORD",
             "BONUS_CONSECUTIVE", "BONUS_FIRST_CHAR_MULTIPLIER"]
    sc, allsc = consts_of(ssrc, names)
    csrc = strip_comments(read("matcher/src/config.rs"))
    m = re.search(r"pub const DEFAULT: Self = \{\s*Config \{(.*?)\}\s*\};", csrc, re.S)
    if not m:
        raise TranslateError("Config::DEFAULT not found")
    fields = {}
    for line in m.group(1).split("\n"):
        fm = re.fullmatch(r"\s*(\w+)\s*:\s*(.+),\s*", line)
        if fm:
            fields[fm.group(1)] = fm.group(2).strip()
    need = ["delimiter_chars", "bonus_boundary_white", "bonus_boundary_delimiter", "initial_char_class",
            "normalize", "ignore_case", "prefer_prefix"]
    for k in need:
        if k not in fields:
            raise TranslateError(f"Config::DEFAULT field {k} missing")

    def bytes_lit(s):
        mm = re.fullmatch(r'b"(.*)"', s.strip())
        if not mm:
            raise TranslateError(f"bad byte string {s!r}")
        b = mm.group(1).encode("ascii").decode("unicode_escape")
        return [ord(x) for x in b]

    def cls(s):
        mm = re.fullmatch(r"CharClass::(\w+)", s.strip())
        if not mm:
            raise TranslateError(f"bad char class {s!r}")
        return mm.group(1)

    default = dict(delims=bytes_lit(fields["delimiter_chars"]),
                   white=eval_const(fields["bonus_boundary_white"], allsc),
                   delim=eval_const(fields["bonus_boundary_delimiter"], allsc),
                   initial=cls(fields["initial_char_class"]),
                   normalize=fields["normalize"], ignore_case=fields["ignore_case"],
                   prefer_prefix=fields["prefer_prefix"])

    def preset(fn_name):
        mm = re.search(r"fn " + fn_name + r"\((?:mut self|&mut self)\)[^{]*\{(.*?)\n    \}", csrc, re.S)
        if not mm:
            raise TranslateError(f"{fn_name} not found")
        body = mm.group(1)
        # non-windows branch of the cfg!(windows) conditional
        dm = re.search(r"if cfg!\(windows\)\s*\{.*?\}\s*else\s*\{\s*self\.delimiter_chars\s*=\s*(b\"[^\"]*\");", body, re.S)
        if not dm:
            raise TranslateError(f"{fn_name}: delimiter_chars assignment not found")
        res = dict(default)
        res["delims"] = bytes_lit(dm.group(1))
        rest = body[dm.end():]
        # strip the closing of else
        for am in re.finditer(r"self\.(\w+)\s*=\s*([^;]+);", rest):
            k, v = am.group(1), am.group(2).strip()
            if k == "bonus_boundary_white":
                res["white"] = eval_const(v, allsc)
            elif k == "bonus_boundary_delimiter":
                res["delim"] = eval_const(v, allsc)
            elif k == "initial_char_class":
                res["initial"] = cls(v)
            elif k == "delimiter_chars":
                res["delims"] = bytes_lit(v)
            else:
                raise TranslateError(f"{fn_name}: unexpected assignment to {k}")
        return res

    paths = preset("match_paths")
    set_paths = preset("set_match_paths")
    clsmap = {"Whitespace": "whitespace", "NonWord": "nonWord", "Delimiter": "delimiter", "Lower": "lower",
              "Upper": "upper", "Letter": "letter", "Number": "number"}
    out = ["/- GENERATED by translator/translate.py from matcher/src/{score,config}.rs — do not edit -/",
           "namespace NucleoVerif.Gen", ""]
    for n in names:
        out.append(f"def {n} : Nat := {sc[n]}")
    out.append("")
    out.append("/-- order of the variants of `chars::CharClass` as declared (derive(PartialOrd) uses it) -/")
    chsrc = strip_comments(read("matcher/src/chars.rs"))
    em = re.search(r"pub\(crate\) enum CharClass \{(.*?)\}", chsrc, re.S)
    if not em:
        raise TranslateError("enum CharClass not found")
    variants = [v.strip() for v in em.group(1).split(",") if v.strip()]
    if sorted(variants) != sorted(clsmap):
        raise TranslateError(f"CharClass variants changed: {variants}")
    out.append("def charClassOrder : List String := [" + ", ".join(f'"{clsmap[v]}"' for v in variants) + "]")
    out.append("")
    for nm, p in [("presetDefault", default), ("presetMatchPaths", paths), ("presetSetMatchPaths", set_paths)]:
        out.append(f"def {nm}_delims : List Nat := {p['delims']}")
        out.append(f"def {nm}_white : Nat := {p['white']}")
        out.append(f"def {nm}_delim : Nat := {p['delim']}")
        out.append(f"def {nm}_initial : String := \"{clsmap[p['initial']]}\"")
        out.append(f"def {nm}_normalize : Bool := {p['normalize']}")
        out.append(f"def {nm}_ignoreCase : Bool := {p['ignore_case']}")
        out.append(f"def {nm}_preferPrefix : Bool := {p['prefer_prefix']}")
        out.append("")
    out.append("end NucleoVerif.Gen")
    return "\n".join(out) + "\n"


GENERATORS = {"Tables.lean": gen_tables, "Consts.lean": gen_consts}


# ----------------------------------------------------------------------------------------
# matrix.rs: limits, layout element counts and view extents

def conv_len_expr(e):
    """usize expression over haystack_len / needle_len -> Lean Nat expression over h n.
    Only + - * and parentheses; `h + 1 - n` never underflows under the asserted `h >= n`."""
    e = e.strip().replace("self.", "")
    e = re.sub(r"\bhaystack_len\b", "h", e)
    e = re.sub(r"\bneedle_len\b", "n", e)
    if not re.fullmatch(r"[hn0-9\s+\-*()]+", e):
        raise TranslateError(f"unsupported length expression {e!r}")
    return e


def gen_layout():
    src = strip_comments(read("matcher/src/matrix.rs"))
    cs, allc = consts_of(src, ["MAX_MATRIX_SIZE", "MAX_HAYSTACK_LEN", "MAX_NEEDLE_LEN"])
    # Layout::array::<T>(expr) in MatrixLayout::new, in order
    lay = re.findall(r"let\s+(\w+)_layout\s*=\s*Layout::array::<(\w+)>\(\s*(.*?)\s*\)\s*\.unwrap\(\);", src, re.S)
    names = [x[0] for x in lay]
    if names != ["haystack", "bonus", "rows", "score", "matrix"]:
        raise TranslateError(f"MatrixLayout::new: unexpected layouts {names}")
    ext = re.findall(r"layout\.extend\((\w+)_layout\)", src)
    if ext != names:
        raise TranslateError(f"MatrixLayout::new: layouts extended in unexpected order {ext}")
    # slice_from_raw_parts_mut(ptr, expr) in fieds_from_ptr, in order
    views = re.findall(r"let\s+(\w+)\s*=\s*slice_from_raw_parts_mut\(\s*(\w+)\s*,\s*(.*?)\s*,?\s*\);", src, re.S)
    vnames = [v[0] for v in views]
    if vnames != ["haystack", "bonus", "rows", "cells", "matrix"]:
        raise TranslateError(f"fieds_from_ptr: unexpected views {vnames}")
    offs = re.findall(r"base\.add\(self\.(\w+)_off\)", src)
    if offs != ["haystack", "bonus", "rows", "score", "matrix"]:
        raise TranslateError(f"fieds_from_ptr: unexpected offsets {offs}")
    tys = {"C": None, "u8": (1, 1), "u16": (2, 2), "ScoreCell": (8, 8), "MatrixCell": (1, 1)}
    if not re.search(r"if size_of::<ScoreCell>\(\) != 8", src) or not re.search(r"#\[repr\(align\(8\)\)\]", src):
        raise TranslateError("ScoreCell size/align check not found")
    if not re.search(r"#\[repr\(transparent\)\]\s*pub struct MatrixCell\(pub\(crate\) u8\);", src):
        raise TranslateError("MatrixCell is no longer a transparent u8")
    # the alloc guards
    g = re.search(r"let cells = haystack_\.len\(\) \* needle_len;\s*if cells > MAX_MATRIX_SIZE\s*\|\|\s*haystack_\.len\(\) > u16::MAX as usize\s*\|\|\s*needle_len > MAX_NEEDLE_LEN\s*\{\s*return None;\s*\}", src)
    if not g:
        raise TranslateError("MatrixSlab::alloc guards changed shape")
    if not re.search(r"if matrix_layout\.layout\.size\(\) > size_of::<MatcherData>\(\) \{\s*return None;", src):
        raise TranslateError("MatrixSlab::alloc size guard changed shape")
    # MatcherData fields
    md = re.search(r"struct MatcherData \{(.*?)\}", src, re.S)
    if not md:
        raise TranslateError("struct MatcherData not found")
    total = 0
    align = 1
    fsz = {"char": (4, 4), "u8": (1, 1), "u16": (2, 2), "ScoreCell": (8, 8)}
    fields = re.findall(r"(\w+)\s*:\s*\[(\w+);\s*(\w+)\]", md.group(1))
    if len(fields) != 5:
        raise TranslateError("MatcherData fields changed")
    for fname, ty, cnt in fields:
        if ty not in fsz:
            raise TranslateError(f"MatcherData: unknown element type {ty}")
        total += fsz[ty][0] * allc[cnt]
        align = max(align, fsz[ty][1])
    # repr(Rust) may reorder fields; every field size here is a multiple of its alignment and the
    # sum is a multiple of the struct alignment, so size = sum regardless of order (checked)
    if total % align != 0:
        raise TranslateError("MatcherData size is not a multiple of its alignment; padding would depend on field order")
    out = ["/- GENERATED by translator/translate.py from matcher/src/matrix.rs — do not edit -/",
           "set_option linter.unusedVariables false", "namespace NucleoVerif.Gen", ""]
    for n_ in ["MAX_MATRIX_SIZE", "MAX_HAYSTACK_LEN", "MAX_NEEDLE_LEN"]:
        out.append(f"def {n_} : Nat := {cs[n_]}")
    out.append(f"/-- `size_of::<MatcherData>()` -/\ndef slabSize : Nat := {total}")
    out.append(f"def slabAlign : Nat := {align}")
    out.append("")
    for (nm, ty, expr), (vn, _ptr, vexpr) in zip(lay, views):
        out.append(f"/-- element count of `{nm}_layout` = `Layout::array::<{ty}>({' '.join(expr.split())})` -/")
        out.append(f"def layoutCount_{nm} (h n : Nat) : Nat := {conv_len_expr(expr)}")
        out.append(f"/-- element count of the `{vn}` view = `slice_from_raw_parts_mut(_, {' '.join(vexpr.split())})` -/")
        out.append(f"def viewCount_{nm} (h n : Nat) : Nat := {conv_len_expr(vexpr)}")
        if ty == "C":
            out.append(f"def elemSize_{nm} (charSize : Nat) : Nat := charSize")
        else:
            out.append(f"def elemSize_{nm} (_charSize : Nat) : Nat := {tys[ty][0]}")
        out.append("")
    out.append("end NucleoVerif.Gen")
    return "\n".join(out) + "\n"


GENERATORS["Layout.lean"] = gen_layout


# ----------------------------------------------------------------------------------------
# boxcar.rs constants, par_sort.rs thresholds, and every atomic operation site (C09)

ATOMIC_RE = re.compile(r"\.(load|store|fetch_add|fetch_sub|swap|compare_exchange(?:_weak)?)\(")


def atomic_sites(rel):
    """(file, enclosing fn, receiver expression, operation, orderings, occurrence index within the fn)"""
    src = strip_comments(read(rel))
    sites = []
    # enclosing function by scanning `fn name` occurrences
    fn_pos = [(m.start(), m.group(1)) for m in re.finditer(r"\bfn\s+([a-zA-Z_0-9]+)", src)]
    per_fn = {}
    for m in ATOMIC_RE.finditer(src):
        op = m.group(1)
        # arguments up to the matching parenthesis
        depth, i = 1, m.end()
        while depth and i < len(src):
            depth += {"(": 1, ")": -1}.get(src[i], 0)
            i += 1
        args = " ".join(src[m.end():i - 1].split())
        ords = re.findall(r"Ordering::(\w+)", args)
        if not ords:
            continue  # not an atomic (e.g. Vec::swap)
        # receiver: the expression chain before the dot, last field name
        pre = " ".join(src[max(0, m.start() - 200):m.start()].split())
        recv = re.findall(r"([A-Za-z_][A-Za-z_0-9]*)\s*\)?$", pre)
        recv = recv[0] if recv else "?"
        fn = "?"
        for pos, name in fn_pos:
            if pos < m.start():
                fn = name
        k = per_fn.get((fn, recv, op), 0)
        per_fn[(fn, recv, op)] = k + 1
        sites.append((rel, fn, recv, op, ords, k))
    return sites


def rust_arith(expr, names):
    """a usize arithmetic expression over the given names (`v.len()` is `len`) as a Lean Nat term"""
    e = expr.strip().replace("v.len()", "len")
    toks = re.findall(r"[A-Za-z_][A-Za-z_0-9]*|\d+|[-+*/()]", e)
    if "".join(toks) != re.sub(r"\s+", "", e):
        raise TranslateError(f"par_sort.rs: cannot translate the expression `{expr}`")
    for t in toks:
        if re.match(r"[A-Za-z_]", t) and t not in names:
            raise TranslateError(f"par_sort.rs: unknown name `{t}` in `{expr}`")
    return " ".join(toks)


def heapsort_shape(psrc):
    """the loop ranges and the child arithmetic of `heapsort`, as Lean definitions"""
    p = strip_comments(psrc)
    m = re.search(r"fn heapsort<T, F>\(v: &mut \[T\], is_less: &F\)(.*?)\n\}\n", p, re.S)
    if not m:
        raise TranslateError("par_sort.rs: heapsort not found")
    body = m.group(1)
    child = re.search(r"let mut child = ([^;]+);\s*if child >= v\.len\(\) \{\s*break;\s*\}\s*"
                      r"if child \+ 1 < v\.len\(\) && is_less\(&v\[child\], &v\[child \+ 1\]\) \{\s*child \+= 1;\s*\}\s*"
                      r"if !is_less\(&v\[node\], &v\[child\]\) \{\s*break;\s*\}\s*v\.swap\(node, child\);\s*node = child;", body)
    build = re.search(r"for i in \(([^.]+?)\.\.([^)]*(?:\([^)]*\))?[^)]*)\)\.rev\(\) \{\s*sift_down\(v, i\);\s*\}", body)
    pop = re.search(r"for i in \(([^.]+?)\.\.([^)]*(?:\([^)]*\))?[^)]*)\)\.rev\(\) \{\s*v\.swap\(0, i\);\s*sift_down\(&mut v\[\.\.i\], 0\);\s*\}", body)
    if not (child and build and pop):
        raise TranslateError("par_sort.rs: heapsort changed shape (sift_down / build loop / pop loop)")
    return ["/-- `heapsort`: first child of a heap node -/",
            f"def PS_heapChild (node : Nat) : Nat := {rust_arith(child.group(1), ['node'])}",
            "/-- `heapsort`: the build loop visits the nodes `[PS_heapBuildLo len, PS_heapBuildHi len)` in descending order -/",
            f"def PS_heapBuildLo (len : Nat) : Nat := {rust_arith(build.group(1), ['len'])}",
            f"def PS_heapBuildHi (len : Nat) : Nat := {rust_arith(build.group(2), ['len'])}",
            "/-- `heapsort`: the pop loop visits the positions `[PS_heapPopLo len, PS_heapPopHi len)` in descending order -/",
            f"def PS_heapPopLo (len : Nat) : Nat := {rust_arith(pop.group(1), ['len'])}",
            f"def PS_heapPopHi (len : Nat) : Nat := {rust_arith(pop.group(2), ['len'])}", ""]



def fn_bodies(src):
    """name -> list of body texts of every `fn name` in src (brace matching; comments already stripped)"""
    bodies = {}
    for m in re.finditer(r"\bfn\s+([a-zA-Z_0-9]+)", src):
        i = src.find("{", m.end())
        semi = src.find(";", m.end())
        if i < 0 or (0 <= semi < i):
            continue  # a declaration without body
        depth, j = 1, i + 1
        while depth and j < len(src):
            depth += {"{": 1, "}": -1}.get(src[j], 0)
            j += 1
        bodies.setdefault(m.group(1), []).append(src[i:j])
    return bodies


def bucket_init_before_publish(b):
    """Program order of bucket allocation (C09): the non-atomic initialisation of a fresh bucket's `active` flags
    (`.write(AtomicBool::new(..))`) must be complete before the bucket pointer is published by the compare_exchange in
    `get_or_alloc`, and no function that performs such writes may be reachable from anywhere else than `get_or_alloc`
    (before its CAS) and `with_capacity` (the vector is not shared yet)."""
    bodies = fn_bodies(b)
    writers = {n for n, bs in bodies.items() if any(re.search(r"\.write\(\s*AtomicBool::new\(", x) for x in bs)}
    if not writers:
        raise TranslateError("boxcar.rs: no non-atomic initialisation of the `active` flags found")
    changed = True
    while changed:
        changed = False
        for n, bs in bodies.items():
            if n in writers:
                continue
            if any(re.search(r"\b(?:Self::|Bucket::|Bucket::<T>::)?(%s)\(" % "|".join(map(re.escape, sorted(writers))), x) for x in bs):
                if n not in ("get_or_alloc", "with_capacity"):
                    writers.add(n)
                    changed = True
    call_re = re.compile(r"\b(?:Self::|Bucket::|Bucket::<T>::)?(%s)\(" % "|".join(map(re.escape, sorted(writers))))
    goa = bodies.get("get_or_alloc")
    if not goa:
        raise TranslateError("boxcar.rs: get_or_alloc not found")
    body = goa[0]
    cas = body.find("compare_exchange")
    if cas < 0:
        raise TranslateError("boxcar.rs: get_or_alloc no longer publishes with compare_exchange")
    calls = [m.start() for m in call_re.finditer(body)]
    ok = bool(calls) and all(c < cas for c in calls)
    # nobody else may initialise flags of a bucket that could already be shared
    for n, bs in bodies.items():
        if n in writers or n in ("get_or_alloc", "with_capacity"):
            continue
        if any(call_re.search(x) for x in bs):
            ok = False
    return ok


def gen_boxcar():
    bsrc = read("src/boxcar.rs")
    cs, allc = consts_of(bsrc, ["SKIP", "SKIP_BUCKET", "BUCKETS", "MAX_ENTRIES"])
    psrc = read("src/par_sort.rs")
    pnames = ["MAX_INSERTION", "MAX_SEQUENTIAL", "BLOCK", "MAX_STEPS", "SHORTEST_MEDIAN_OF_MEDIANS", "SHORTEST_SHIFTING", "MAX_SWAPS"]
    pc, _ = consts_of(psrc, pnames)
    # the index arithmetic of Location::of / bucket_len
    b = strip_comments(bsrc)
    need = [r"let skipped = index\.checked_add\(SKIP\)", r"let bucket = u32::BITS - skipped\.leading_zeros\(\);",
            r"let bucket = bucket - \(SKIP_BUCKET \+ 1\);", r"let entry = skipped \^ bucket_len;", r"1 << \(bucket \+ SKIP_BUCKET\)",
            r"self\.bucket_len - \(self\.bucket_len >> 3\)"]
    for pat in need:
        if not re.search(pat, b):
            raise TranslateError(f"boxcar.rs: Location arithmetic changed shape ({pat})")
    sites = []
    for rel in ["src/boxcar.rs", "src/lib.rs", "src/worker.rs", "src/par_sort.rs"]:
        sites += atomic_sites(rel)
    # Drop for Vec: which buckets does the loop visit, and what does Bucket::dealloc drop?
    dm = re.search(r"impl<T> Drop for Vec<T> \{\s*fn drop\(&mut self\) \{\s*for \(i, bucket\) in self\.buckets\.iter_mut\(\)\.enumerate\(\) \{(.*?)\n        \}\n    \}", b, re.S)
    if not dm:
        raise TranslateError("Drop for Vec changed shape")
    body = dm.group(1)
    nm = re.search(r"if entries\.is_null\(\) \{\s*(break|continue|return);\s*\}", body)
    if not nm:
        raise TranslateError("Drop for Vec: null-bucket handling not found")
    if not re.search(r"Bucket::dealloc\(entries, len, self\.columns\)", body):
        raise TranslateError("Drop for Vec: dealloc call not found")
    stops = nm.group(1) != "continue"
    dd = re.search(r"unsafe fn dealloc\(entries: \*mut Entry<T>, len: u32, cols: u32\) \{(.*?)\n    \}", b, re.S)
    if not dd:
        raise TranslateError("Bucket::dealloc not found")
    dbody = dd.group(1)
    shape_ok = (re.search(r"for i in 0\.\.len \{", dbody) and re.search(r"if \*\(\*entry\)\.active\.get_mut\(\) \{", dbody)
                and re.search(r"ptr::drop_in_place\(\(\*\(\*entry\)\.slot\.get\(\)\)\.as_mut_ptr\(\)\);", dbody)
                and re.search(r"for matcher_col in Entry::matcher_cols_raw\(entry, cols\) \{\s*ptr::drop_in_place\(\(\*matcher_col\.get\(\)\)\.as_mut_ptr\(\)\);", dbody)
                and re.search(r"std::alloc::dealloc\(entries as \*mut u8, arr_layout\)", dbody))
    if not shape_ok:
        raise TranslateError("Bucket::dealloc changed shape (expected: every active entry's slot and columns dropped, then the allocation freed)")
    out = ["/- GENERATED by translator/translate.py from src/{boxcar,lib,worker,par_sort}.rs — do not edit -/",
           "namespace NucleoVerif.Gen", ""]
    out.append("/-- does the loop of `Drop for Vec` stop at the first bucket whose pointer is null (`break`/`return`) instead of skipping it (`continue`)? -/")
    out.append(f"def dropStopsAtNull : Bool := {'true' if stops else 'false'}")
    out.append("")
    out.append("/-- in `get_or_alloc`, is every non-atomic initialisation of the fresh bucket's `active` flags sequenced before the compare_exchange "
               "that publishes the bucket (and performed nowhere else on a bucket that may be shared)? -/")
    out.append(f"def bucketInitBeforePublish : Bool := {'true' if bucket_init_before_publish(b) else 'false'}")
    out.append("")
    for n_ in ["SKIP", "SKIP_BUCKET", "BUCKETS", "MAX_ENTRIES"]:
        out.append(f"def {n_} : Nat := {cs[n_]}")
    out.append("")
    for n_ in pnames:
        out.append(f"def PS_{n_} : Nat := {pc[n_]}")
    out.append("")
    out += heapsort_shape(psrc)
    out.append("/-- memory orderings -/")
    out.append("inductive MemOrd | relaxed | acquire | release | acqRel | seqCst")
    out.append("deriving DecidableEq, Repr")
    out.append("")
    out.append("structure AtomicSite where")
    out.append("  file : String\n  fn : String\n  recv : String\n  op : String\n  occ : Nat\n  ords : List MemOrd")
    out.append("deriving DecidableEq, Repr")
    out.append("")
    omap = {"Relaxed": ".relaxed", "Acquire": ".acquire", "Release": ".release", "AcqRel": ".acqRel", "SeqCst": ".seqCst"}
    out.append("/-- every atomic operation in the crate, with the orderings declared in the source -/")
    out.append("def atomicSites : List AtomicSite := [")
    rows = []
    for rel, fn, recv, op, ords, k in sites:
        for o in ords:
            if o not in omap:
                raise TranslateError(f"unknown ordering {o}")
        rows.append(f'  ⟨"{rel}", "{fn}", "{recv}", "{op}", {k}, [{", ".join(omap[o] for o in ords)}]⟩')
    out.append(",\n".join(rows))
    out.append("]")
    out.append("")
    out.append("end NucleoVerif.Gen")
    return "\n".join(out) + "\n"


GENERATORS["Boxcar.lean"] = gen_boxcar


# ----------------------------------------------------------------------------------------
# Utf32Str / Utf32String: how the four slice functions turn a RangeBounds into start..end (C17)

def slice_expr(e):
    """`start`, `start + 1`, `end as usize + 1`, `0`, `self.len()` ... as a Lean term over x (the bound) and n (the length);
    None when the expression has any other shape"""
    e = re.sub(r"\bas\s+(usize|u32|u64)\b", " ", e.strip().rstrip(","))
    e = e.replace("self.len()", " n ")
    e = re.sub(r"\b(start|end)\b", " x ", e)
    toks = re.findall(r"[A-Za-z_][A-Za-z_0-9]*|\d+|[-+*()]", e)
    if "".join(toks) != re.sub(r"\s+", "", e) or not toks:
        return None
    if any(re.match(r"[A-Za-z_]", t) and t not in ("x", "n") for t in toks):
        return None
    return " ".join(toks)


def gen_utf32():
    src = strip_comments(read("matcher/src/utf32_str.rs"))
    rows = []
    for m in re.finditer(r"pub fn (slice(?:_u32)?)\(\s*(&?self)\s*,\s*range: impl RangeBounds<(\w+)>\s*\)\s*->\s*Utf32Str(?:<'\w+>)?\s*\{", src):
        i = m.end()
        depth, j = 1, i
        while depth and j < len(src):
            depth += {"{": 1, "}": -1}.get(src[j], 0)
            j += 1
        body = src[i:j]
        recv = "Utf32String" if m.group(2) == "&self" else "Utf32Str"
        ok = True
        vals = {}
        for which in ("start", "end"):
            mm = re.search(r"let %s = match range\.%s_bound\(\) \{(.*?)\};" % (which, which), body, re.S)
            arms = dict(re.findall(r"Bound::(Included|Excluded|Unbounded)(?:\(&\w+\))?\s*=>\s*([^,\n]+),", mm.group(1))) if mm else {}
            for k in ("Included", "Excluded", "Unbounded"):
                t = slice_expr(arms[k]) if k in arms else None
                if t is None:
                    ok = False
                    t = "0"
                vals[(which, k)] = t
        # the result: the same variant over [start..end] of the content
        tail = body[body.rfind("match self"):] if "match self" in body else ""
        tail = re.sub(r"\s+as\s+usize\b", "", tail)
        arms = re.findall(r"(Utf32Str(?:ing)?)::(Ascii|Unicode)\((\w+)\)\s*=>\s*\{?\s*Utf32Str::(Ascii|Unicode)\(&(\w+)(\.as_bytes\(\))?\[start\.\.end\]\)", tail)
        if sorted((a[1], a[3]) for a in arms) != [("Ascii", "Ascii"), ("Unicode", "Unicode")] or any(a[2] != a[4] or a[0] != recv for a in arms):
            ok = False
        rows.append((recv, m.group(1), ok, vals))
    out = ["/- GENERATED by translator/translate.py from matcher/src/utf32_str.rs — do not edit -/", "namespace NucleoVerif.Gen", "",
           "/-- how one of the slice functions computes `start..end` from the two bounds of a `RangeBounds` (x: the bound's value, n: the string's length); "
           "`shapeOk`: every arm was an arithmetic expression the translator understands, and the result is the same variant over `content[start..end]` -/",
           "structure SliceBounds where",
           "  recv : String\n  fn : String\n  shapeOk : Bool\n  startIncl : Nat → Nat\n  startExcl : Nat → Nat\n  startUnb : Nat → Nat\n  endIncl : Nat → Nat → Nat\n  endExcl : Nat → Nat → Nat\n  endUnb : Nat → Nat",
           "", "def sliceBoundsAll : List SliceBounds := ["]
    lines = []
    def lam(params, body):
        toks = body.split()
        return "fun " + " ".join(p if p in toks else "_" for p in params) + " => " + body
    for recv, fn, ok, v in rows:
        lines.append(f'  {{ recv := "{recv}", fn := "{fn}", shapeOk := {"true" if ok else "false"},\n'
                     f'    startIncl := {lam(["x"], v[("start", "Included")])}, startExcl := {lam(["x"], v[("start", "Excluded")])}, startUnb := {lam(["n"], v[("start", "Unbounded")])},\n'
                     f'    endIncl := {lam(["x", "n"], v[("end", "Included")])}, endExcl := {lam(["x", "n"], v[("end", "Excluded")])}, endUnb := {lam(["n"], v[("end", "Unbounded")])} }}')
    out.append(",\n".join(lines))
    out += ["]", "", "end NucleoVerif.Gen"]
    return "\n".join(out) + "\n"


GENERATORS["Utf32.lean"] = gen_utf32


# ----------------------------------------------------------------------------------------
# fuzzy_optimal.rs / matrix.rs: the cell functions of the optimal matcher (C02, C03, C04, C10)
#
# `next_m_cell`, `p_score`, `MatrixCell::set/get`, the `UNMATCHED` constant and the first-row cell are straight-line
# integer code; they are translated expression by expression (a small Rust-subset parser), so that the theorems about
# the compressed matrix are about what these functions say now.  u16/u8 `+` and `*` become `Nat` operations (the
# absence of overflow is C10's business: overflow checks in the harness build), `saturating_sub` becomes the truncated
# subtraction of `Nat`, a narrowing `as` cast becomes `% 2^bits`, a widening one disappears.

MINUS_OBLIGATIONS = []
INT_BITS = {"u8": 8, "u16": 16, "u32": 32, "u64": 64, "usize": 64}


class RustExpr:
    """tokenizer + Pratt parser for the subset; produces Lean text and a (best-effort) type"""
    TOK = re.compile(r"\s*(?:(\d+)|([A-Za-z_][A-Za-z_0-9]*)|(==|!=|>=|<=|&&|\|\||<<|>>|::|[-+*/%<>=!&|(){},.;:]))")
    PREC = {"||": 1, "&&": 2, "==": 3, "!=": 3, "<": 3, ">": 3, "<=": 3, ">=": 3, "|": 4, "&": 5, "<<": 6, ">>": 6,
            "+": 7, "-": 7, "*": 8, "/": 8, "%": 8}
    LEAN = {"||": "||", "&&": "&&", "==": "==", "!=": "!=", "<": "<", ">": ">", "<=": "≤", ">=": "≥", "|": "|||", "&": "&&&",
            "<<": "<<<", ">>": ">>>", "+": "+", "*": "*", "/": "/", "%": "%"}

    def __init__(self, text, env, structs, consts):
        self.toks = []
        i = 0
        text = text.strip()
        while i < len(text):
            m = self.TOK.match(text, i)
            if not m:
                raise TranslateError(f"cannot tokenize {text[i:i+30]!r}")
            self.toks.append(m.group(1) or m.group(2) or m.group(3))
            i = m.end()
        self.i = 0
        self.env = env          # name -> type
        self.structs = structs  # struct -> {field: type}
        self.consts = consts    # const name -> type
        self.subst = {}         # name -> Lean expression to put in its place (symbolic execution of statement blocks)
        self.enums = {}         # enum name -> list of variants (a path `E::V` becomes the variant's index)

    def peek(self):
        return self.toks[self.i] if self.i < len(self.toks) else None

    def next(self):
        t = self.peek()
        self.i += 1
        return t

    def expect(self, t):
        if self.next() != t:
            raise TranslateError(f"expected {t!r} near {' '.join(self.toks[max(0, self.i-4):self.i+3])!r}")

    def done(self):
        return self.i >= len(self.toks)

    # -- expressions ------------------------------------------------------------------
    def expr(self, prec=0, no_struct=False):
        lhs, ty = self.unary(no_struct)
        while True:
            op = self.peek()
            if op == "as":
                self.next()
                target = self.next()
                lhs, ty = self.cast(lhs, ty, target)
                continue
            if op not in self.PREC or self.PREC[op] <= prec:
                return lhs, ty
            self.next()
            rhs, rty = self.expr(self.PREC[op], no_struct)
            if op == "-":
                # plain `-` panics / wraps on underflow: only between closed constant expressions, with the obligation
                # `rhs ≤ lhs` emitted as a decided theorem next to the definition
                names = set(re.findall(r"[A-Za-z_][A-Za-z_0-9]*", lhs + " " + rhs))
                if not names <= set(self.consts):
                    raise TranslateError("plain `-` on non-constant unsigned integers is not in the translated subset")
                MINUS_OBLIGATIONS.append((lhs, rhs))
                lhs, ty = f"({lhs} - {rhs})", ty or rty
                continue
            if op in ("==", "!=") and (ty in self.structs or ty == "bool"):
                lhs, ty = (f"(decide ({lhs} = {rhs}))" if op == "==" else f"(decide ({lhs} ≠ {rhs}))"), "bool"
            elif op in ("==", "!=", "<", ">", "<=", ">="):
                lean = {"==": "=", "!=": "≠"}.get(op, self.LEAN[op])
                lhs, ty = f"(decide ({lhs} {lean} {rhs}))", "bool"
            elif op in ("&&", "||"):
                lhs, ty = f"({lhs} {op} {rhs})", "bool"
            else:
                lhs, ty = f"({lhs} {self.LEAN[op]} {rhs})", ty or rty
        return lhs, ty

    def cast(self, e, ty, target):
        if target not in INT_BITS:
            raise TranslateError(f"cast to {target}")
        if ty == "bool":
            return f"(if {e} then 1 else 0)", target
        if ty in INT_BITS and INT_BITS[ty] <= INT_BITS[target]:
            return e, target
        if ty is None and re.fullmatch(r"\d+", e):
            return e, target
        return f"({e} % {2 ** INT_BITS[target]})", target

    def unary(self, no_struct):
        t = self.next()
        if t == "(":
            e, ty = self.expr()
            if self.peek() == ",":
                items = [(e, ty)]
                while self.peek() == ",":
                    self.next()
                    items.append(self.expr())
                self.expect(")")
                return "(" + ", ".join(x for x, _ in items) + ")", "(" + ",".join(str(y) for _, y in items) + ")"
            self.expect(")")
            return self.postfix(f"({e})" if not e.startswith("(") else e, ty)
        if t == "!":
            e, ty = self.unary(no_struct)
            return f"(!{e})", "bool"
        if t == "*":     # deref of a reference to a Copy value
            return self.unary(no_struct)
        if t == "if":
            c, _ = self.expr(no_struct=True)
            self.expect("{")
            a, aty = self.block()
            self.expect("else")
            if self.peek() == "if":
                b, _ = self.unary(no_struct)
            else:
                self.expect("{")
                b, _ = self.block()
            return f"(if {c} then {a} else {b})", aty
        if re.fullmatch(r"\d+", t):
            return self.postfix(t, None)
        if t in ("true", "false"):
            return t, "bool"
        if re.fullmatch(r"[A-Za-z_][A-Za-z_0-9]*", t):
            if t in self.enums and self.peek() == "::":
                self.next()
                v = self.next()
                if v not in self.enums[t]:
                    raise TranslateError(f"{t}::{v} is not a variant")
                return str(self.enums[t].index(v)), "usize"
            if t in self.structs and self.peek() == "{" and not no_struct:
                self.next()
                fields = []
                while self.peek() != "}":
                    f = self.next()
                    if self.peek() == ":":
                        self.next()
                        v, _ = self.expr()
                    else:
                        v = f
                    fields.append((f, v))
                    if self.peek() == ",":
                        self.next()
                self.expect("}")
                if sorted(f for f, _ in fields) != sorted(self.structs[t]):
                    raise TranslateError(f"struct literal {t} with fields {[f for f, _ in fields]}")
                return "{ " + ", ".join(f"{f} := {v}" for f, v in fields) + f" : {t} }}", t
            if self.peek() == "(":      # function call
                self.next()
                args = []
                while self.peek() != ")":
                    args.append(self.expr())
                    if self.peek() == ",":
                        self.next()
                self.expect(")")
                if t == "max" and len(args) == 2:
                    return self.postfix(f"(max {args[0][0]} {args[1][0]})", args[0][1] or args[1][1])
                raise TranslateError(f"call of {t}")
            if t in self.env:
                return self.postfix("(" + self.subst[t] + ")" if t in self.subst else t, self.env[t])
            if t in self.consts:
                return self.postfix(t, self.consts[t])
            raise TranslateError(f"unknown name {t}")
        raise TranslateError(f"unexpected token {t!r}")

    def postfix(self, e, ty):
        while self.peek() == ".":
            self.next()
            name = self.next()
            if self.peek() == "(":
                self.next()
                args = []
                while self.peek() != ")":
                    args.append(self.expr())
                    if self.peek() == ",":
                        self.next()
                self.expect(")")
                if name == "saturating_sub" and len(args) == 1:
                    e = f"({e} - {args[0][0]})"
                elif name in ("saturating_add", "saturating_mul") and len(args) == 1 and (ty in INT_BITS or ty is None):
                    bits = INT_BITS.get(ty or args[0][1] or "u16", 16)
                    op = "+" if name == "saturating_add" else "*"
                    e = f"(min ({e} {op} {args[0][0]}) {2 ** bits - 1})"
                    ty = ty or args[0][1]
                elif name == "min" and len(args) == 1:
                    e = f"(min {e} {args[0][0]})"
                else:
                    raise TranslateError(f"method {name}")
            elif re.fullmatch(r"\d+", name):      # tuple-struct field `self.0`
                if ty in self.structs and name in self.structs[ty]:
                    e, ty = f"{e}.f{name}", self.structs[ty][name]
                else:
                    raise TranslateError(f"tuple field .{name} of {ty}")
            else:
                if ty in self.structs and name in self.structs[ty]:
                    e, ty = f"{e}.{name}", self.structs[ty][name]
                else:
                    raise TranslateError(f"field .{name} of {ty}")
        return e, ty

    # -- blocks: `let`, `if c { x = e }`, `if c { return e; }`, `x = e;`, tail expression ------
    def block(self):
        """after the opening brace; consumes the closing one; returns Lean text of the block's value"""
        t = self.peek()
        if t == "}":
            raise TranslateError("block without a value")
        if t == "let":
            self.next()
            mut = self.peek() == "mut"
            if mut:
                self.next()
            if self.peek() == "(":
                raise TranslateError("tuple patterns are not in the subset")
            name = self.next()
            if self.peek() == ":":
                self.next(); self.next()
            self.expect("=")
            v, ty = self.expr()
            self.expect(";")
            self.env = dict(self.env, **{name: ty})
            rest, rty = self.block()
            return f"let {name} := {v}\n  {rest}", rty
        if t == "return":
            self.next()
            v, ty = self.expr()
            if self.peek() == ";":
                self.next()
            self.expect("}")
            return v, ty
        if t == "if":
            # statement forms first: `if c { return e; }` and `if c { x = e }`
            save = self.i
            self.next()
            c, _ = self.expr(no_struct=True)
            self.expect("{")
            if self.peek() == "return":
                self.next()
                v, ty = self.expr()
                if self.peek() == ";":
                    self.next()
                self.expect("}")
                rest, _ = self.block()
                return f"if {c} then {v} else\n  {rest}", ty
            if self.i + 1 < len(self.toks) and self.toks[self.i + 1] == "=" and self.toks[self.i] in self.env:
                name = self.next()
                self.next()
                v, _ = self.expr()
                if self.peek() == ";":
                    self.next()
                self.expect("}")
                if self.peek() == ";":
                    self.next()
                rest, rty = self.block()
                return f"let {name} := if {c} then {v} else {name}\n  {rest}", rty
            self.i = save
        if self.i + 1 < len(self.toks) and self.toks[self.i + 1] == "=" and t in self.env:
            name = self.next()
            self.next()
            v, _ = self.expr()
            self.expect(";")
            rest, rty = self.block()
            return f"let {name} := {v}\n  {rest}", rty
        v, ty = self.expr()
        self.expect("}")
        return v, ty


def sym_exec(text, types, consts, state):
    """Symbolic execution of a straight-line Rust statement block (`let [mut] x = e;`, `x = e;`, `x += e;`,
    `if c { .. } [else { .. }]` without a value) over the mutable variables in `state` (name -> Lean expression in
    terms of the inputs).  Returns the final state.  Everything else raises TranslateError."""
    px = RustExpr(text, dict(types), {}, consts)

    def expr(st, no_struct=False):
        px.subst = dict(st)
        e, ty = px.expr(no_struct=no_struct)
        return e, ty

    def block(st):
        st = dict(st)
        while px.peek() is not None and px.peek() != "}":
            t = px.peek()
            if t == "let":
                px.next()
                if px.peek() == "mut":
                    px.next()
                name = px.next()
                if px.peek() == ":":
                    px.next(); px.next()
                px.expect("=")
                e, ty = expr(st)
                px.expect(";")
                px.env[name] = ty or px.env.get(name)
                st[name] = e
            elif t == "if":
                px.next()
                c, _ = expr(st, no_struct=True)
                px.expect("{")
                s1 = block(st)
                px.expect("}")
                if px.peek() == "else":
                    px.next()
                    px.expect("{")
                    s2 = block(st)
                    px.expect("}")
                else:
                    s2 = dict(st)
                if px.peek() == ";":
                    px.next()
                merged = {}
                for k in set(s1) | set(s2):
                    a, b = s1.get(k, st.get(k)), s2.get(k, st.get(k))
                    if a is None or b is None:
                        continue   # a variable local to one branch
                    merged[k] = a if a == b else f"(if {c} then {a} else {b})"
                st = merged
            elif px.i + 1 < len(px.toks) and px.toks[px.i + 1] in ("=", "+") and t in px.env:
                name = px.next()
                op = px.next()
                if op == "+":
                    px.expect("=")
                    e, _ = expr(st)
                    st[name] = f"({st[name]} + {e})"
                else:
                    e, _ = expr(st)
                    st[name] = e
                if px.peek() == ";":
                    px.next()
            else:
                raise TranslateError(f"statement starting with {t!r} is outside the translated subset")
        return st

    out = block(state)
    if not px.done():
        raise TranslateError("unbalanced block")
    return out


def gen_score_loop():
    """calculate_score: the unrolled first iteration, the two branches of the loop body and the prefer_prefix tail"""
    src = strip_comments(read("matcher/src/score.rs"))
    body = fn_bodies(src).get("calculate_score", [None])[0]
    if body is None:
        raise TranslateError("fn calculate_score not found")
    consts = {k: "u16" for k in ("SCORE_MATCH", "PENALTY_GAP_START", "PENALTY_GAP_EXTENSION", "BONUS_BOUNDARY", "BONUS_CONSECUTIVE",
                                "BONUS_FIRST_CHAR_MULTIPLIER", "MAX_PREFIX_BONUS", "PREFIX_BONUS_SCALE")}
    m = re.search(r"let mut in_gap = (\w+);\s*let mut consecutive = (\d+);", body)
    if not m:
        raise TranslateError("initial in_gap / consecutive not found")
    init_gap, init_consec = m.group(1), m.group(2)
    m = re.search(r"let mut first_bonus = self\.bonus_for\(prev_class, class\);\s*let mut score = ([^;]+);", body)
    if not m:
        raise TranslateError("unrolled first iteration not found")
    first, _ = RustExpr(m.group(1), {"first_bonus": "u16"}, {}, consts).expr()
    m = re.search(r"if c == needle_char \{(.*?)if let Some\(&next\) = needle_iter\.next\(\) \{.*?\}\s*\} else \{(.*?)\}\s*prev_class = class;", body, re.S)
    if not m:
        raise TranslateError("the loop body of calculate_score has an unexpected shape")
    mt, sk = m.group(1), m.group(2)
    mt = re.sub(r"if INDICES \{.*?\}\s*", "", mt, flags=re.S)
    mm = re.match(r"\s*let mut bonus = self\.bonus_for\(prev_class, class\);(.*)", mt, re.S)
    if not mm:
        raise TranslateError("the matching branch does not start with the bonus_for call")
    types = {"bonus": "u16", "first_bonus": "u16", "score": "u16", "in_gap": "bool", "consecutive": "usize"}
    inputs = {k: k for k in types}
    sm = sym_exec(mm.group(1), types, consts, inputs)
    ss = sym_exec(sk, types, consts, inputs)
    for st in (sm, ss):
        extra = set(st) - set(types) - {"penalty"}
        if extra:
            raise TranslateError(f"unexpected variables in the loop body: {sorted(extra)}")
    # the prefer_prefix tail
    m = re.search(r"if self\.config\.prefer_prefix \{\s*if start != 0 \{(.*?)\} else \{(.*?)\}\s*\}\s*score\s*\}\s*$", body, re.S)
    if not m:
        raise TranslateError("the prefer_prefix tail of calculate_score has an unexpected shape")
    t1 = m.group(1).replace("(start - 1).min(u16::MAX as usize) as u16", "start_minus_1_clamped")
    tt = {"score": "u16", "start_minus_1_clamped": "u16"}
    st1 = sym_exec(t1, tt, consts, {"score": "score", "start_minus_1_clamped": "start_minus_1_clamped"})
    st2 = sym_exec(m.group(2), tt, consts, {"score": "score", "start_minus_1_clamped": "start_minus_1_clamped"})
    fields = ["bonus", "first_bonus", "score", "in_gap", "consecutive"]
    def rec(st):
        return "{ " + ", ".join(f"{f} := {st[f]}" for f in fields) + " }"
    out = ["/- GENERATED by translator/translate.py from matcher/src/score.rs (fn calculate_score) — do not edit -/",
           "import NucleoVerif.Gen.Consts", "namespace NucleoVerif.Gen.ScoreLoop", "open NucleoVerif.Gen", "",
           "/-- the mutable variables of the loop of `calculate_score` (`bonus`: the value of `self.bonus_for(prev_class, class)` on entry to the matching branch) -/",
           "structure Vars where", "  bonus : Nat", "  first_bonus : Nat", "  score : Nat", "  in_gap : Bool", "  consecutive : Nat", "deriving DecidableEq, Repr", "",
           f"def init_in_gap : Bool := {init_gap}", f"def init_consecutive : Nat := {init_consec}", "",
           "/-- `score` after the unrolled first iteration -/", f"def first_score (first_bonus : Nat) : Nat := {first}", "",
           "/-- the branch `c == needle_char` of the loop body (symbolic execution of its statements; `u16::saturating_add` is `min (· + ·) 65535`) -/",
           "def match_step (bonus first_bonus score : Nat) (in_gap : Bool) (consecutive : Nat) : Vars :=", "  " + rec(sm), "",
           "/-- the other branch -/",
           "def skip_step (bonus first_bonus score : Nat) (in_gap : Bool) (consecutive : Nat) : Vars :=", "  " + rec(ss), "",
           "/-- the `prefer_prefix` tail: `score` afterwards (`start_minus_1_clamped` = `(start - 1).min(u16::MAX)`) -/",
           f"def prefix_tail (score start start_minus_1_clamped : Nat) : Nat := if start ≠ 0 then {st1['score']} else {st2['score']}", "",
           "end NucleoVerif.Gen.ScoreLoop"]
    return "\n".join(out) + "\n"


GENERATORS["ScoreLoop.lean"] = gen_score_loop


def gen_worker():
    """src/worker.rs: the comparison closure handed to par_quicksort (C06's order clause)"""
    src = strip_comments(read("src/worker.rs"))
    m = re.search(r"par_quicksort\(\s*&mut self\.matches,\s*\|match1, match2\| \{(.*?)\},\s*&self\.canceled,", src, re.S)
    if not m:
        raise TranslateError("the comparison closure of the worker's sort was not found")
    body = m.group(1)
    # the two lengths: total haystack length of the item a match refers to
    lens = re.findall(r"let (item[12]) = &?self\.items\.get_unchecked\((match[12])\.idx\);", body)
    sums = re.findall(r"let (len[12])(?:: u32)? = (item[12])\s*\.matcher_columns\s*\.iter\(\)\s*\.map\(\|haystack\| haystack\.len\(\) as u32\)\s*\.sum\(\);", body)
    if sorted(lens) != [("item1", "match1"), ("item2", "match2")] or sorted(sums) != [("len1", "item1"), ("len2", "item2")]:
        raise TranslateError(f"the tie-breaker lengths of the sort comparison have an unexpected shape: {lens} {sums}")
    body = re.sub(r"let item[12] = &?self\.items\.get_unchecked\(match[12]\.idx\);", "", body)
    body = re.sub(r"let len[12](?:: u32)? = item[12]\s*\.matcher_columns\s*\.iter\(\)\s*\.map\(\|haystack\| haystack\.len\(\) as u32\)\s*\.sum\(\);", "", body, flags=re.S)
    body = body.replace("u32::MAX", "4294967295")
    structs = {"Match": {"score": "u32", "idx": "u32"}}
    msrc = strip_comments(read("src/lib.rs"))
    mm = re.search(r"pub struct Match \{(.*?)\}", msrc, re.S)
    if not mm or sorted(re.findall(r"pub (\w+): (\w+)", mm.group(1))) != [("idx", "u32"), ("score", "u32")]:
        raise TranslateError("struct Match is not {score: u32, idx: u32}")
    text, ty = translate_fn("{" + body + "}", [("match1", "Match"), ("match2", "Match"), ("len1", "u32"), ("len2", "u32")], structs, {})
    out = ["/- GENERATED by translator/translate.py from src/worker.rs and src/lib.rs — do not edit -/",
           "namespace NucleoVerif.Gen.Worker", "",
           "/-- `pub struct Match` -/", "structure Match where", "  score : Nat", "  idx : Nat", "deriving DecidableEq, Repr", "",
           "/-- the closure `|match1, match2| ..` handed to `par_quicksort` in `Worker::run`; `len1` / `len2`: the sum of the lengths of the "
           "matcher columns of the item `match1.idx` / `match2.idx` refers to (read through `get_unchecked`) -/",
           f"def match_less (match1 match2 : Match) (len1 len2 : Nat) : Bool :=\n  {text}", "",
           "end NucleoVerif.Gen.Worker"]
    return "\n".join(out) + "\n"


GENERATORS["Worker.lean"] = gen_worker


def enum_variants(src, name):
    m = re.search(r"enum %s\s*\{(.*?)\}" % name, src, re.S)
    if not m:
        raise TranslateError(f"enum {name} not found")
    body = re.sub(r"#\[[^\]]*\]", "", m.group(1))
    return [v.strip() for v in body.split(",") if v.strip()]


def gen_rules():
    """src/pattern.rs: can_append_to (C07's shortcut rule); src/lib.rs: State::{matcher_item_refs,canceled,cleared} and the
    formula of active_injectors (C20)"""
    psrc = strip_comments(read("src/pattern.rs"))
    msrc = strip_comments(read("matcher/src/pattern.rs"))
    lsrc = strip_comments(read("src/lib.rs"))
    kinds = enum_variants(msrc, "AtomKind")
    if kinds != ["Fuzzy", "Substring", "Prefix", "Postfix", "Exact"]:
        raise TranslateError(f"AtomKind variants are {kinds}")
    body = fn_bodies(psrc).get("can_append_to", [None])[0]
    if body is None:
        raise TranslateError("fn can_append_to not found")
    m = re.fullmatch(r"\{\s*if atom\.negative \|\| matches!\(atom\.kind, ([A-Za-z:| ]+)\) \{\s*return false;\s*\}\s*"
                     r"match atom\.needle_text\(\)\.chars\(\)\.next_back\(\) \{(.*?)\}\s*\}", body.strip(), re.S)
    if not m:
        raise TranslateError("can_append_to has an unexpected shape")
    excl = [k.strip().replace("AtomKind::", "") for k in m.group(1).split("|")]
    if any(k not in kinds for k in excl):
        raise TranslateError(f"can_append_to excludes {excl}")
    arms = re.findall(r"(Some\('(\\\\|\\?.)'\)|_)\s*=>\s*([^,]+),", m.group(2))
    if not arms or arms[-1][0] != "_":
        raise TranslateError("can_append_to: the match has no catch-all arm at the end")
    def arm_val(e):
        e = e.strip()
        if e in ("true", "false"):
            return e
        mm = re.fullmatch(r"atom\.kind == AtomKind::(\w+)", e)
        if mm and mm.group(1) in kinds:
            return f"(kind == {kinds.index(mm.group(1))})"
        raise TranslateError(f"can_append_to: arm value {e!r}")
    lines = []
    for pat, ch, val in arms:
        if pat == "_":
            lines.append(f"    | _ => {arm_val(val)}")
        else:
            c = {"\\\\": "\\"}.get(ch, ch)
            lines.append(f"    | some {ord(c)} => {arm_val(val)}")
    out = ["/- GENERATED by translator/translate.py from src/pattern.rs, src/lib.rs and matcher/src/pattern.rs — do not edit -/",
           "namespace NucleoVerif.Gen.Rules", "",
           "/-- `AtomKind` variants in declaration order: " + ", ".join(f"{i} = {k}" for i, k in enumerate(kinds)) + " -/",
           f"def atomKinds : Nat := {len(kinds)}", "",
           "/-- `fn can_append_to(atom)`: `last` = the last character of the atom's needle text -/",
           "def can_append_to (negative : Bool) (kind : Nat) (last : Option Nat) : Bool :=",
           "  if negative || (" + " || ".join(f"kind == {kinds.index(k)}" for k in excl) + ") then false",
           "  else match last with"] + lines + [""]
    # State
    states = enum_variants(lsrc, "State")
    if states != ["Init", "Cleared", "Fresh"]:
        raise TranslateError(f"State variants are {states}")
    body = fn_bodies(lsrc).get("matcher_item_refs", [None])[0]
    m = re.fullmatch(r"\{\s*match self \{(.*?)\}\s*\}", (body or "").strip(), re.S)
    if not m:
        raise TranslateError("State::matcher_item_refs has an unexpected shape")
    refs = {}
    for pats, val in re.findall(r"([A-Za-z:| ]+?)\s*=>\s*(\d+),", m.group(1)):
        for pt in pats.split("|"):
            refs[pt.strip().replace("State::", "")] = int(val)
    if sorted(refs) != sorted(states):
        raise TranslateError(f"matcher_item_refs covers {sorted(refs)}")
    out += ["/-- `State` variants in declaration order: " + ", ".join(f"{i} = {k}" for i, k in enumerate(states)) + "; `State::matcher_item_refs` -/",
            "def matcher_item_refs (state : Nat) : Nat :=",
            "  " + " else ".join(f"if state == {states.index(k)} then {refs[k]}" for k in states[:-1]) + f" else {refs[states[-1]]}", ""]
    for fn in ("canceled", "cleared"):
        b = fn_bodies(lsrc).get(fn, [])
        b = [x for x in b if "State::" in x]
        mm = re.fullmatch(r"\{\s*self (!=|==) State::(\w+)\s*\}", b[0].strip()) if b else None
        if not mm or mm.group(2) not in states:
            raise TranslateError(f"State::{fn} has an unexpected shape")
        out += [f"/-- `State::{fn}` -/", f"def state_{fn} (state : Nat) : Bool := state {'!=' if mm.group(1) == '!=' else '=='} {states.index(mm.group(2))}", ""]
    # MultiPattern::reparse: the status decision (with the repair of F16) and Status' order
    statuses = enum_variants(psrc, "Status")
    if statuses != ["Unchanged", "Update", "Rescore"]:
        raise TranslateError(f"Status variants are {statuses}")
    rb = fn_bodies(psrc).get("reparse", [None])[0]
    ws = lambda t: re.sub(r"\s+", "", t)
    m1 = re.search(r"let old_status = self\.cols\[column\]\.1;\s*if (.*?)\{\s*self\.cols\[column\]\.1 = Status::(\w+);\s*\} else \{\s*self\.cols\[column\]\.1 = Status::(\w+);\s*\}", rb or "", re.S)
    if not m1 or ws(m1.group(1)) != "append&&old_status!=Status::Rescore&&self.cols[column].0.atoms.last().map_or(true,can_append_to)":
        raise TranslateError("MultiPattern::reparse: the first status decision has an unexpected shape")
    m2 = re.search(r"let old_last = self\.cols\[column\]\.0\.atoms\.len\(\)\.checked_sub\(1\);\s*let old_normalizes = self\.cols\[column\]\.0\.atoms\.last\(\)\.map\(normalizes\);\s*"
                   r"self\.cols\[column\]\s*\.0\s*\.reparse\(new_text, case_matching, normalization\);\s*"
                   r"if self\.cols\[column\]\.1 == Status::(\w+)\s*&& matches!\(normalization, Normalization::(\w+)\)\s*&& old_normalizes == Some\((\w+)\)\s*\{\s*"
                   r"let new_normalizes = old_last\s*\.and_then\(\|i\| self\.cols\[column\]\.0\.atoms\.get\(i\)\)\s*\.map\(normalizes\);\s*"
                   r"if new_normalizes == Some\((\w+)\) \{\s*self\.cols\[column\]\.1 = Status::(\w+);\s*\}\s*\}\s*\}\s*$", rb or "", re.S)
    if not m2:
        raise TranslateError("MultiPattern::reparse: the normalization part (repair of F16) has an unexpected shape")
    nb = fn_bodies(psrc).get("normalizes", [None])[0]
    if nb is None or ws(nb) != "{atom.needle_text().chars().all(|c|nucleo_matcher::chars::normalize(c)==c)}":
        raise TranslateError("fn normalizes has an unexpected shape")
    sid = lambda k: statuses.index(k)
    out += ["/-- `Status` variants in declaration order (`derive(Ord)`, `status()` takes the maximum): " + ", ".join(f"{i} = {k}" for i, k in enumerate(statuses)) + " -/",
            f"def statuses : Nat := {len(statuses)}", "",
            "/-- `MultiPattern::reparse`: the column's status afterwards.  `last_ok` = `atoms.last().map_or(true, can_append_to)` before the edit, `smart` = "
            "`matches!(normalization, Normalization::" + m2.group(2) + ")`, `old_normalizes` / `new_normalizes` = `normalizes` (no character of the needle text is changed by "
            "`chars::normalize`) of the last atom before the edit / of the atom in its place afterwards -/",
            "def reparse_status (append : Bool) (old_status : Nat) (last_ok smart : Bool) (old_normalizes new_normalizes : Option Bool) : Nat :=",
            f"  let first := if append && old_status != {sid('Rescore')} && last_ok then {sid(m1.group(2))} else {sid(m1.group(3))}",
            f"  if first == {sid(m2.group(1))} && smart && old_normalizes == some {m2.group(3)} then (if new_normalizes == some {m2.group(4)} then {sid(m2.group(5))} else first) else first", ""]
    body = fn_bodies(lsrc).get("active_injectors", [None])[0]
    m = re.fullmatch(r"\{\s*Arc::strong_count\(&self\.items\)\s*-\s*self\.state\.matcher_item_refs\(\)\s*-\s*\(Arc::ptr_eq\(&self\.snapshot\.items, &self\.items\)\) as usize\s*\}", (body or "").strip())
    if not m:
        raise TranslateError("Nucleo::active_injectors has an unexpected shape")
    out += ["/-- `Nucleo::active_injectors`: strong count of the current stream, minus the matcher's own handles, minus the snapshot's if it "
            "points at the current stream -/",
            "def active_injectors (strong_count state : Nat) (snapshot_is_current : Bool) : Nat :=",
            "  strong_count - matcher_item_refs state - (if snapshot_is_current then 1 else 0)", "",
            "end NucleoVerif.Gen.Rules"]
    return "\n".join(out) + "\n"


GENERATORS["Rules.lean"] = gen_rules


def gen_bonus():
    """score.rs: Config::bonus_for (the bonus rules of the scoring scheme, C03)"""
    src = strip_comments(read("matcher/src/score.rs"))
    csrc = strip_comments(read("matcher/src/chars.rs"))
    classes = enum_variants(csrc, "CharClass")
    if classes != ["Whitespace", "NonWord", "Delimiter", "Lower", "Upper", "Letter", "Number"]:
        raise TranslateError(f"CharClass variants are {classes}")
    bodies = [b for b in fn_bodies(src).get("bonus_for", []) if "match prev_class" in b]
    if len(bodies) != 1:
        raise TranslateError("Config::bonus_for not found")
    body = bodies[0].replace("self.bonus_boundary_white", "white").replace("self.bonus_boundary_delimiter", "delim")
    m = re.fullmatch(r"\{\s*if (class [^{]+?)\s*\{\s*match prev_class \{(.*?)_ => \(\),\s*\}\s*\}\s*(if .*)\}", body.strip(), re.S)
    if not m:
        raise TranslateError("Config::bonus_for has an unexpected shape")
    consts = {k: "u16" for k in ("BONUS_BOUNDARY", "BONUS_CAMEL123", "BONUS_NON_WORD", "BONUS_CONSECUTIVE")}
    env = {"prev_class": "usize", "class": "usize", "white": "u16", "delim": "u16"}
    def ex(text):
        px = RustExpr(text, env, {}, consts)
        px.enums = {"CharClass": classes}
        e, _ = px.expr(no_struct=True)
        if not px.done():
            raise TranslateError(f"trailing tokens in {text!r}")
        return e
    guard = ex(m.group(1))
    arms = re.findall(r"CharClass::(\w+)\s*=>\s*return ([^,]+),", m.group(2))
    if not arms or any(a not in classes for a, _ in arms):
        raise TranslateError(f"bonus_for: arms {arms}")
    # the trailing if / else-if chain (a `return e;` inside a branch is that branch's value)
    tail = re.sub(r"return ([^;]+);", r"\1", m.group(3).strip())
    px = RustExpr(tail, env, {}, consts)
    px.enums = {"CharClass": classes}
    tail_e, _ = px.unary(False)
    if not px.done():
        raise TranslateError("bonus_for: trailing tokens after the if-chain")
    lines = []
    for a, v in arms:
        lines.append(f"  if {guard} && (decide (prev_class = {classes.index(a)})) then {ex(v)} else")
    out = ["/- GENERATED by translator/translate.py from matcher/src/score.rs and matcher/src/chars.rs — do not edit -/",
           "import NucleoVerif.Gen.Consts", "namespace NucleoVerif.Gen.Bonus", "open NucleoVerif.Gen", "",
           "/-- `CharClass` variants in declaration order (`derive(PartialOrd)`): " + ", ".join(f"{i} = {k}" for i, k in enumerate(classes)) + " -/",
           f"def charClasses : Nat := {len(classes)}", "",
           "/-- `Config::bonus_for(prev_class, class)`; `white` / `delim` = `bonus_boundary_white` / `bonus_boundary_delimiter` -/",
           "def bonus_for (white delim prev_class «class» : Nat) : Nat :="] + [l.replace(" class ", " «class» ").replace("(class ", "(«class» ") for l in lines] + \
          ["  " + tail_e.replace(" class ", " «class» ").replace("(class ", "(«class» "), "", "end NucleoVerif.Gen.Bonus"]
    return "\n".join(out) + "\n"


GENERATORS["Bonus.lean"] = gen_bonus


def gen_alloc_guard():
    """matrix.rs: the two rejection tests of MatrixSlab::alloc (C10: which inputs take the matrix path)"""
    src = strip_comments(read("matcher/src/matrix.rs"))
    body = fn_bodies(src).get("alloc", [None])[0]
    if body is None:
        raise TranslateError("MatrixSlab::alloc not found")
    m = re.search(r"let cells = ([^;]+);\s*if (.*?)\{\s*return None;\s*\}\s*let matrix_layout = MatrixLayout::<C>::new\(haystack_\.len\(\), needle_len\);\s*"
                  r"if matrix_layout\.layout\.size\(\) > size_of::<MatcherData>\(\) \{\s*return None;\s*\}", body, re.S)
    if not m:
        raise TranslateError("MatrixSlab::alloc has an unexpected shape")
    consts = {"MAX_MATRIX_SIZE": "usize", "MAX_NEEDLE_LEN": "usize", "MAX_HAYSTACK_LEN": "usize"}
    env = {"w": "usize", "needle_len": "usize", "cells": "usize"}
    cells_e = m.group(1).replace("haystack_.len()", "w")
    cond = m.group(2).replace("haystack_.len()", "w").replace("u16::MAX as usize", "65535")
    ce, _ = RustExpr(cells_e, env, {}, consts).expr()
    px = RustExpr(cond, env, {}, consts)
    px.subst = {"cells": ce}
    ge, _ = px.expr(no_struct=True)
    if not px.done():
        raise TranslateError("alloc guard: trailing tokens")
    out = ["/- GENERATED by translator/translate.py from matcher/src/matrix.rs (MatrixSlab::alloc) — do not edit -/",
           "import NucleoVerif.Gen.Layout", "namespace NucleoVerif.Gen.Alloc", "open NucleoVerif.Gen", "",
           "/-- the first test of `MatrixSlab::alloc` that makes it return `None` (`w` = `haystack_.len()`, the window) -/",
           f"def rejects_size (w needle_len : Nat) : Bool := {ge}", "",
           "/-- the second one is `matrix_layout.layout.size() > size_of::<MatcherData>()` (the layout's size and the slab size are in `Gen/Layout.lean`) -/",
           "def second_test_is_layout_size_gt_slab : Bool := true", "",
           "end NucleoVerif.Gen.Alloc"]
    return "\n".join(out) + "\n"


GENERATORS["Alloc.lean"] = gen_alloc_guard


def byte_lit(tok):
    """b'x', b'\\\\', b'\\'' -> code"""
    m = re.fullmatch(r"b'(\\.|[^\\])'", tok.strip())
    if not m:
        raise TranslateError(f"byte literal {tok!r}")
    c = m.group(1)
    return ord({"\\\\": "\\", "\\'": "'", "\\n": "\n", "\\t": "\t"}.get(c, c))


def match_blocks(body, scrutinee):
    """the texts between the braces of every `match <scrutinee> { ... }` in body, in order"""
    out, pos = [], 0
    key = "match " + scrutinee
    while True:
        i = body.find(key, pos)
        if i < 0:
            return out
        j = body.find("{", i)
        depth, k = 1, j + 1
        while depth and k < len(body):
            depth += {"{": 1, "}": -1}.get(body[k], 0)
            k += 1
        out.append((i, k, body[j + 1:k - 1]))
        pos = k


def slice_arms(text):
    """arms of a match on a byte slice: [(pattern or None for `_`, body text)] — bodies are `{ ... }` blocks or expressions"""
    arms, i = [], 0
    while True:
        m = re.compile(r"\s*(\[[^\]]*\]|_)\s*=>\s*").match(text, i)
        if not m:
            if text[i:].strip():
                raise TranslateError(f"slice match: cannot read arm at {text[i:i+40]!r}")
            return arms
        pat = None if m.group(1) == "_" else m.group(1)[1:-1]
        j = m.end()
        if text[j] == "{":
            depth, k = 1, j + 1
            while depth:
                depth += {"{": 1, "}": -1}.get(text[k], 0)
                k += 1
            body = text[j + 1:k - 1]
            i = k
            if text[i:i + 1] == ",":
                i += 1
        else:
            k = text.find(",", j)
            k = len(text) if k < 0 else k
            body = text[j:k]
            i = k + 1
        arms.append((pat, body.strip()))


def gen_parse():
    """matcher/src/pattern.rs: Atom::parse — the three matches on `atom.as_bytes()` (the `!`, `^`/`'` prefixes and their escapes, the
    `$` suffix rule), the kind of a negated fuzzy atom and the call of new_inner (C07, C14)"""
    msrc = strip_comments(read("matcher/src/pattern.rs"))
    kinds = enum_variants(msrc, "AtomKind")
    body = next((b for b in fn_bodies(msrc).get("parse", []) if "atom.as_bytes()" in b), None)
    if body is None:
        raise TranslateError("Atom::parse not found")
    blocks = match_blocks(body, "atom.as_bytes()")
    if len(blocks) != 3:
        raise TranslateError(f"Atom::parse has {len(blocks)} matches on atom.as_bytes(), expected 3")
    heads = [body[max(0, i - 40):i].strip() for i, _, _ in blocks]
    if not (heads[0].endswith("let invert =") and heads[1].endswith("let mut kind =") and heads[2].endswith("let mut append_dollar = false;")):
        raise TranslateError(f"Atom::parse: the matches are bound as {heads}")
    if not re.search(r"\{\s*let mut atom = raw;\s*let invert = match", body):
        raise TranslateError("Atom::parse does not start with `let mut atom = raw; let invert = match`")

    def kind_id(e):
        m = re.fullmatch(r"AtomKind::(\w+)", e.strip())
        if not m or m.group(1) not in kinds:
            raise TranslateError(f"Atom::parse: kind expression {e!r}")
        return str(kinds.index(m.group(1)))

    def arm_lean(pat, text, value_kind):
        """-> (list of Lean list patterns (one per alternative), suffix?, (atom expr, kind expr, dollar expr, value expr))"""
        atom, kind, dollar, value = "atom", "kind", "dollar", None
        stmts = [t.strip() for t in re.split(r";|\n", text) if t.strip()]
        # re-join an `if .. { } else { }` that was split over lines
        joined, buf = [], ""
        for t in stmts:
            buf = (buf + " " + t).strip()
            if buf.count("{") == buf.count("}"):
                joined.append(buf)
                buf = ""
        if buf:
            raise TranslateError(f"Atom::parse: unbalanced arm body {text!r}")
        for t in joined:
            m = re.fullmatch(r"atom = &atom\[(\d+)\.\.\]", t)
            if m:
                atom = f"({atom}).drop {m.group(1)}"
                continue
            m = re.fullmatch(r"atom = &atom\[\.\.atom\.len\(\) - (\d+)\]", t)
            if m:
                atom = f"({atom}).take (({atom}).length - {m.group(1)})"
                continue
            if t == "append_dollar = true":
                dollar = "true"
                continue
            m = re.fullmatch(r"kind = if kind == (AtomKind::\w+) \{ (AtomKind::\w+) \} else \{ (AtomKind::\w+) \}", t)
            if m:
                kind = f"(if kind == {kind_id(m.group(1))} then {kind_id(m.group(2))} else {kind_id(m.group(3))})"
                continue
            if t in ("true", "false") and value_kind == "bool":
                value = t
                continue
            if t.startswith("AtomKind::") and value_kind == "kind":
                value = kind_id(t)
                continue
            if t == "()" and value_kind == "unit":
                continue
            raise TranslateError(f"Atom::parse: statement {t!r} in a match arm")
        if pat is None:
            return ["_"], False, (atom, kind, dollar, value)
        elems = [e.strip() for e in pat.split(",")]
        suffix = elems[0] == ".."
        if suffix:
            elems = elems[1:][::-1]       # read from the end
        elif elems[-1] == "..":
            elems = elems[:-1]
        else:
            raise TranslateError(f"Atom::parse: slice pattern [{pat}] has no `..`")
        alts = [[]]
        for e in elems:
            codes = [byte_lit(x) for x in e.split("|")]
            alts = [a + [c] for a in alts for c in codes]
        return [" :: ".join(str(c) for c in a) + " :: _" for a in alts], suffix, (atom, kind, dollar, value)

    def block(idx, value_kind):
        arms = slice_arms(blocks[idx][2])
        if not arms or arms[-1][0] is not None:
            raise TranslateError("Atom::parse: a match has no catch-all arm at the end")
        rows, suff = [], None
        for pat, text in arms:
            pats, suffix, res = arm_lean(pat, text, value_kind)
            if pat is not None:
                if suff is None:
                    suff = suffix
                elif suff != suffix:
                    raise TranslateError("Atom::parse: a match mixes prefix and suffix slice patterns")
            for pt in pats:
                rows.append((pt, res))
        return rows, bool(suff)

    rows1, s1 = block(0, "bool")
    rows2, s2 = block(1, "kind")
    rows3, s3 = block(2, "unit")
    if s1 or s2 or not s3:
        raise TranslateError("Atom::parse: expected two prefix matches and one suffix match")
    if any(r[1][1] != "kind" or r[1][2] != "dollar" or r[1][3] is None for r in rows1 + rows2):
        raise TranslateError("Atom::parse: a prefix match changes kind/append_dollar or has no value")
    tail = body[blocks[2][1]:]
    m = re.fullmatch(r"\s*if invert && kind == (AtomKind::\w+) \{\s*kind = (AtomKind::\w+);?\s*\}\s*"
                     r"let mut pattern = Atom::new_inner\(atom, case, normalize, kind, (true|false), append_dollar\);\s*"
                     r"pattern\.negative = invert;\s*pattern\s*\}", tail, re.S)
    if not m:
        raise TranslateError("Atom::parse: the part after the `$` match has an unexpected shape")
    out = ["/- GENERATED by translator/translate.py from matcher/src/pattern.rs (Atom::parse) — do not edit -/",
           "namespace NucleoVerif.Gen.Parse", "",
           "/-- `AtomKind` variants in declaration order: " + ", ".join(f"{i} = {k}" for i, k in enumerate(kinds)) + " -/",
           f"def atomKinds : Nat := {len(kinds)}", "",
           "/-- `let invert = match atom.as_bytes() { .. }`: (invert, atom afterwards) -/",
           "def invert (atom : List Nat) : Bool × List Nat :=", "  match atom with"]
    out += [f"  | {pt} => ({res[3]}, {res[0]})" for pt, res in rows1]
    out += ["", "/-- `let mut kind = match atom.as_bytes() { .. }`: (kind, atom afterwards) -/",
            "def kind (atom : List Nat) : Nat × List Nat :=", "  match atom with"]
    out += [f"  | {pt} => ({res[3]}, {res[0]})" for pt, res in rows2]
    out += ["", "/-- the `$` match (slice patterns `[.., x, y]` are read from the end of the text): (kind, append_dollar, atom afterwards) -/",
            "def dollar (kind : Nat) (atom : List Nat) : Nat × Bool × List Nat :=", "  let dollar := false", "  match atom.reverse with"]
    out += [f"  | {pt} => ({res[1]}, {res[2]}, {res[0]})" for pt, res in rows3]
    out += ["", "/-- `if invert && kind == .. { kind = .. }` -/",
            f"def final_kind (invert : Bool) (kind : Nat) : Nat := if invert && kind == {kind_id(m.group(1))} then {kind_id(m.group(2))} else kind", "",
            "/-- `Atom::new_inner(atom, case, normalize, kind, <escape_whitespace>, append_dollar)`; then `pattern.negative = invert` -/",
            f"def escape_whitespace : Bool := {m.group(3)}", ""]
    # pattern_atoms: the stateful closure handed to str::split
    pa = fn_bodies(msrc).get("pattern_atoms", [None])[0]
    mm = re.fullmatch(r"\{\s*let mut saw_backslash = false;\s*pattern\.split\(move \|c\| \{\s*saw_backslash = match c \{(.*?)\};\s*false\s*\}\)\s*\}", (pa or "").strip(), re.S)
    if not mm:
        raise TranslateError("pattern_atoms has an unexpected shape")
    arms = [a.strip() for a in mm.group(1).split(",") if a.strip()]
    rows = []
    for a in arms:
        lhs, rhs = [x.strip() for x in a.split("=>")]
        if rhs == "return true":
            val = "(true, saw)"
        elif rhs in ("true", "false"):
            val = f"(false, {rhs})"
        else:
            raise TranslateError(f"pattern_atoms: arm value {rhs!r}")
        if lhs == "c if c.is_whitespace() && !saw_backslash":
            cond = "is_ws && !saw"
        elif re.fullmatch(r"'(\\.|[^\\])'", lhs):
            cond = f"c == {byte_lit('b' + lhs)}"
        elif lhs == "_":
            cond = None
        else:
            raise TranslateError(f"pattern_atoms: arm pattern {lhs!r}")
        rows.append((cond, val))
    if not rows or rows[-1][0] is not None or any(c is None for c, _ in rows[:-1]):
        raise TranslateError("pattern_atoms: the match needs exactly one catch-all arm, at the end")
    chain = " else ".join(f"if {c} then {v}" for c, v in rows[:-1]) + f" else {rows[-1][1]}"
    # the per-character bookkeeping of the grapheme loop of new_inner (twice in the source: escape loop and closure)
    ni = next((b for b in fn_bodies(msrc).get("new_inner", [])), None)
    if ni is None:
        raise TranslateError("Atom::new_inner not found")
    ni = re.sub(r"#\[cfg\([^\]]*\)\]", "", ni)
    blocks_src = []
    for bm in re.finditer(r"match (case|normalization) \{", ni):
        depth, k = 1, bm.end()
        while depth:
            depth += {"{": 1, "}": -1}.get(ni[k], 0)
            k += 1
        blocks_src.append((bm.start(), bm.group(1), ni[bm.end():k - 1]))
    # the byte path has its own `match case` (whole-string operations); the grapheme loop's blocks are the ones assigning per character
    per_char = [(pos, which, txt) for pos, which, txt in blocks_src if "chars::" in txt]
    if len(per_char) != 4:
        raise TranslateError(f"new_inner: expected the per-character case/normalization matches twice, found {len(per_char)} blocks")

    def fold_block(which, txt):
        arms = [a.strip().rstrip(",").strip() for a in re.split(r"(?=CaseMatching::|Normalization::)", txt.strip()) if a.strip()]
        rows = {}
        for a in arms:
            mmm = re.fullmatch(r"(CaseMatching|Normalization)::(\w+) => (.*)", a, re.S)
            if not mmm:
                raise TranslateError(f"new_inner: arm {a!r}")
            rhs = mmm.group(3).strip()
            rhs = re.sub(r"^\{\s*(.*?);?\s*\}$", r"\1", rhs, flags=re.S).strip()
            table = {"c = chars::to_lower_case(c)": ("to_lower c", "ic", "nz"),
                     "ignore_case = ignore_case && !chars::is_upper_case(c)": ("c", "ic && !is_upper c", "nz"),
                     "normalize = normalize && chars::normalize(c) == c": ("c", "ic", "nz && (normalize c == c)"),
                     "()": ("c", "ic", "nz")}
            if rhs not in table:
                raise TranslateError(f"new_inner: statement {rhs!r}")
            rows[mmm.group(2)] = table[rhs]
        return rows
    cases = enum_variants(re.sub(r"#\[[^\]]*\]|///[^\n]*", "", msrc), "CaseMatching")
    norms = enum_variants(re.sub(r"#\[[^\]]*\]|///[^\n]*", "", msrc), "Normalization")

    def fold_lean(pair):
        lines = []
        for _, which, txt in pair:
            rows = fold_block(which, txt)
            names = cases if which == "case" else norms
            if sorted(rows) != sorted(names):
                raise TranslateError(f"new_inner: match on {which} covers {sorted(rows)}")
            var = "case" if which == "case" else "norm"
            arms = " ".join(f"| {names.index(n)} => ({rows[n][0]}, {rows[n][1]}, {rows[n][2]})" for n in names[:-1]) + f" | _ => ({rows[names[-1]][0]}, {rows[names[-1]][1]}, {rows[names[-1]][2]})"
            lines.append(f"  let (c, ic, nz) : Nat × Bool × Bool := match {var} with {arms}")
        return lines
    first, second = fold_lean(per_char[:2]), fold_lean(per_char[2:])
    if first != second:
        raise TranslateError("new_inner: the escape loop and the closure treat a character differently")
    # the escape state machine of the grapheme loop: the statements in front of the per-character matches, and the one behind the loop
    lm = re.search(r"for mut c in chars::graphemes\(needle\) \{(.*?)match case \{", ni, re.S)
    if not lm:
        raise TranslateError("new_inner: the grapheme loop with escapes was not found")
    loop_end = per_char[1][0]
    k = ni.index("{", ni.index("match normalization", loop_end))
    depth, k = 1, k + 1
    while depth:
        depth += {"{": 1, "}": -1}.get(ni[k], 0)
        k += 1
    tail = re.match(r"\s*needle_\.push\(c\);\s*\}\s*if saw_backslash \{\s*needle_\.push\('(\\\\|.)'\);\s*\}", ni[k:], re.S)
    if not tail:
        raise TranslateError("new_inner: after the per-character matches the loop must push c and end; then `if saw_backslash { needle_.push(..) }`")

    def stmts_of(text):
        out_, i = [], 0
        text = text.strip()
        while i < len(text):
            if text[i].isspace():
                i += 1
                continue
            mm2 = re.compile(r"if ([^{]+?) \{").match(text, i)
            if mm2:
                def block(j):
                    depth2, k2 = 1, j
                    while depth2:
                        depth2 += {"{": 1, "}": -1}.get(text[k2], 0)
                        k2 += 1
                    return text[j:k2 - 1], k2
                then_, j = block(mm2.end())
                else_ = None
                me = re.compile(r"\s*else \{").match(text, j)
                if me:
                    else_, j = block(me.end())
                out_.append(("if", mm2.group(1).strip(), stmts_of(then_), stmts_of(else_) if else_ is not None else []))
                i = j
                continue
            mm2 = re.compile(r"needle_\.push\('(\\\\|\\'|.)'\);").match(text, i)
            if mm2:
                out_.append(("push", byte_lit("b'" + mm2.group(1) + "'")))
                i = mm2.end()
                continue
            mm2 = re.compile(r"saw_backslash = ([^;]+);").match(text, i)
            if mm2:
                out_.append(("set", mm2.group(1).strip()))
                i = mm2.end()
                continue
            mm2 = re.compile(r"continue;").match(text, i)
            if mm2:
                out_.append(("continue",))
                i = mm2.end()
                continue
            raise TranslateError(f"new_inner escape loop: statement at {text[i:i+50]!r}")
        return out_

    def bexpr(e, saw):
        e = e.strip()
        if e == "saw_backslash":
            return saw
        if e in ("true", "false"):
            return e
        mm2 = re.fullmatch(r"c == '(\\\\|\\'|.)'", e)
        if mm2:
            return f"(c == {byte_lit(chr(98) + chr(39) + mm2.group(1) + chr(39))})"
        raise TranslateError(f"new_inner escape loop: expression {e!r}")

    def gen(stmts, out_e, saw):
        if not stmts:
            return f"({out_e}, {saw}, false)"
        st0, rest = stmts[0], stmts[1:]
        if st0[0] == "push":
            return gen(rest, f"({st0[1]} :: {out_e})", saw)
        if st0[0] == "set":
            return gen(rest, out_e, bexpr(st0[1], saw))
        if st0[0] == "continue":
            return f"({out_e}, {saw}, true)"
        return f"(if {bexpr(st0[1], saw)} then {gen(st0[2] + rest, out_e, saw)} else {gen(st0[3] + rest, out_e, saw)})"
    prelude = gen(stmts_of(lm.group(1)), "out", "saw")
    out += ["/-- the escape state machine of the grapheme loop of `new_inner`: what happens with a character in front of the per-character matches —",
            "    (characters pushed so far, newest first; `saw_backslash` afterwards; did the iteration `continue`?); when it did not, the character is folded",
            "    (`fold_char`) and pushed -/",
            f"def esc_prelude (saw : Bool) (c : Nat) (out : List Nat) : List Nat × Bool × Bool := {prelude}", "",
            "/-- behind the loop: `if saw_backslash { needle_.push(<this>) }` -/",
            f"def esc_pending_push : Nat := {byte_lit(chr(98) + chr(39) + tail.group(1) + chr(39))}", ""]
    # the byte path's whole-string case handling
    byte_case = [(pos, txt) for pos, which, txt in blocks_src if which == "case" and "chars::" not in txt]
    if len(byte_case) != 1:
        raise TranslateError(f"new_inner: expected one whole-string `match case` on the byte path, found {len(byte_case)}")
    rows = {}
    for a in [a.strip().rstrip(",").strip() for a in re.split(r"(?=CaseMatching::)", byte_case[0][1].strip()) if a.strip()]:
        mmm = re.fullmatch(r"CaseMatching::(\w+) => (.*)", a, re.S)
        if not mmm:
            raise TranslateError(f"new_inner byte path: arm {a!r}")
        rhs = re.sub(r"\s+", " ", re.sub(r"^\{\s*(.*?);?\s*\}$", r"\1", mmm.group(2).strip(), flags=re.S)).strip()
        table = {"ignore_case = true; needle.make_ascii_lowercase()": "(lower n, true)",
                 "ignore_case = !needle.bytes().any(|b| b.is_ascii_uppercase())": "(n, !any_upper n)",
                 "ignore_case = false": "(n, false)"}
        if rhs not in table:
            raise TranslateError(f"new_inner byte path: statement {rhs!r}")
        rows[mmm.group(1)] = table[rhs]
    if sorted(rows) != sorted(cases):
        raise TranslateError(f"new_inner byte path: match on case covers {sorted(rows)}")
    out += ["/-- the byte path of `new_inner`: what `match case` does with the whole (already unescaped) needle: (needle, ignore_case) -/",
            "def ascii_case (lower : List Nat → List Nat) (any_upper : List Nat → Bool) (case : Nat) (n : List Nat) : List Nat × Bool :=",
            "  match case with " + " ".join(f"| {cases.index(k)} => {rows[k]}" for k in cases[:-1]) + f" | _ => {rows[cases[-1]]}", ""]
    out += ["/-- the per-character bookkeeping of the grapheme loop of `new_inner`, in source order (`CaseMatching`: " + ", ".join(f"{i} = {k}" for i, k in enumerate(cases)) +
            "; `Normalization`: " + ", ".join(f"{i} = {k}" for i, k in enumerate(norms)) + "): (character pushed, ignore_case, normalize) -/",
            "def fold_char (to_lower : Nat → Nat) (is_upper : Nat → Bool) (normalize : Nat → Nat) (case norm : Nat) (c : Nat) (ic nz : Bool) : Nat × Bool × Bool :="] + first + ["  (c, ic, nz)", ""]
    out += ["/-- the closure of `pattern_atoms` on one character: (split here?, saw_backslash afterwards); `is_ws` = `c.is_whitespace()` -/",
            f"def split_step (saw : Bool) (is_ws : Bool) (c : Nat) : Bool × Bool := {chain}", "",
            "end NucleoVerif.Gen.Parse"]
    return "\n".join(out) + "\n"


GENERATORS["Parse.lean"] = gen_parse


def gen_atom_eval():
    """matcher/src/pattern.rs: Atom::score and Atom::indices — which matcher entry point each kind calls (three dispatch tables), the flag
    overwrite in front of them, and the treatment of negated atoms (C15)"""
    msrc = strip_comments(read("matcher/src/pattern.rs"))
    kinds = enum_variants(msrc, "AtomKind")
    algos = ["fuzzy", "substring", "prefix", "postfix", "exact"]
    bodies = fn_bodies(msrc)
    score = next((b for b in bodies.get("score", []) if "pattern_score" in b), None)
    indices = next((b for b in bodies.get("indices", []) if "pattern_score" in b), None)
    if score is None or indices is None:
        raise TranslateError("Atom::score / Atom::indices not found")
    flags = r"\{\s*matcher\.config\.ignore_case = self\.ignore_case;\s*matcher\.config\.normalize = self\.normalize;\s*"

    def table(text, suffix, extra):
        arms = re.findall(r"AtomKind::(\w+) => \{?\s*matcher\.(\w+)_%s\(haystack, self\.needle\.slice\(\.\.\)%s\)\s*\}?,?" % (suffix, extra), text)
        rest = re.sub(r"AtomKind::(\w+) => \{?\s*matcher\.(\w+)_%s\(haystack, self\.needle\.slice\(\.\.\)%s\)\s*\}?,?" % (suffix, extra), "", text)
        if rest.strip() or sorted(k for k, _ in arms) != sorted(kinds) or any(a not in algos for _, a in arms):
            raise TranslateError(f"Atom::score/indices: dispatch table {text.strip()[:80]!r}")
        d = dict(arms)
        return [algos.index(d[k]) for k in kinds]

    m = re.fullmatch(flags + r"let pattern_score = match self\.kind \{(.*?)\};\s*if self\.negative \{\s*if pattern_score\.is_some\(\) \{\s*return None;\s*\}\s*Some\(0\)\s*\} else \{\s*pattern_score\s*\}\s*\}",
                     score.strip(), re.S)
    if not m:
        raise TranslateError("Atom::score has an unexpected shape")
    t_score = table(m.group(1), "match", "")
    m = re.fullmatch(flags + r"if self\.negative \{\s*let pattern_score = match self\.kind \{(.*?)\};\s*pattern_score\.is_none\(\)\.then_some\(0\)\s*\} else \{\s*match self\.kind \{(.*)\}\s*\}\s*\}",
                     indices.strip(), re.S)
    if not m:
        raise TranslateError("Atom::indices has an unexpected shape")
    t_neg = table(m.group(1), "match", "")
    t_pos = table(m.group(2), "indices", ", indices")

    def lean_table(name, doc, t):
        return [f"/-- {doc} (kind id -> entry point: " + ", ".join(f"{i} = {a}" for i, a in enumerate(algos)) + ") -/",
                f"def {name} (kind : Nat) : Nat :=", "  match kind with"] + [f"  | {i} => {a}" for i, a in enumerate(t[:-1])] + [f"  | _ => {t[-1]}", ""]
    out = ["/- GENERATED by translator/translate.py from matcher/src/pattern.rs (Atom::score, Atom::indices) — do not edit -/",
           "namespace NucleoVerif.Gen.AtomEval", "",
           "/-- `AtomKind` variants in declaration order: " + ", ".join(f"{i} = {k}" for i, k in enumerate(kinds)) + " -/",
           f"def atomKinds : Nat := {len(kinds)}", ""]
    out += lean_table("score_entry", "`Atom::score`: `match self.kind { .. => matcher.<entry>_match(..) }`", t_score)
    out += lean_table("indices_neg_entry", "`Atom::indices`, negated atom: `matcher.<entry>_match(..)`", t_neg)
    out += lean_table("indices_pos_entry", "`Atom::indices`, positive atom: `matcher.<entry>_indices(.., indices)`", t_pos)
    out += ["/-- both functions start with `matcher.config.ignore_case = self.ignore_case; matcher.config.normalize = self.normalize;` -/",
            "def flags_overwritten_first : Bool := true", "",
            "/-- `Atom::score` after the call: `if self.negative { if pattern_score.is_some() { return None; } Some(0) } else { pattern_score }` -/",
            "def score_result (negative : Bool) (inner : Option Nat) : Option Nat :=",
            "  if negative then (if inner.isSome then none else some 0) else inner", "",
            "/-- `Atom::indices`, negated atom: `pattern_score.is_none().then_some(0)` (nothing is pushed to `indices`) -/",
            "def indices_neg_result (inner : Option Nat) : Option Nat := if inner.isNone then some 0 else none", "",
            "end NucleoVerif.Gen.AtomEval"]
    return "\n".join(out) + "\n"


GENERATORS["AtomEval.lean"] = gen_atom_eval


def gen_run_plan():
    """src/worker.rs: Worker::run — the order of its steps and the conditions that select them (cleared run, empty pattern, rescoring edit,
    rescoring pass over the previous matches vs. scoring of new items, cancelled sort) (C06, C07, C12, C19)"""
    wsrc = strip_comments(read("src/worker.rs"))
    psrc = strip_comments(read("src/pattern.rs"))
    statuses = enum_variants(psrc, "Status")
    body = fn_bodies(wsrc).get("run", [None])[0]
    if body is None:
        raise TranslateError("Worker::run not found")
    # the verification hooks are yield points only
    body = re.sub(r"#\[cfg\(nucleo_verif\)\]\s*crate::verif::point\([^;]*\);", "", body)
    notify = r"if self\.should_notify\.load\(atomic::Ordering::Relaxed\) \{\s*\(self\.notify\)\(\);\s*\}"
    m = re.fullmatch(
        r"\{\s*self\.running = true;\s*self\.was_canceled = false;\s*"
        r"if cleared \{\s*self\.last_snapshot = 0;\s*self\.in_flight\.clear\(\);\s*self\.matches\.clear\(\);\s*\}\s*"
        r"if (?P<c_empty>[^{]+?) \{\s*self\.reset_matches\(\);\s*self\.process_new_items_trivial\(\);\s*" + notify + r"\s*return;\s*\}\s*"
        r"if (?P<c_reset>[^{]+?) \{\s*self\.reset_matches\(\);\s*\}\s*"
        r"let mut unmatched = AtomicU32::new\(0\);\s*"
        r"if (?P<c_pass>[^{]+?) \{\s*self\.process_new_items_trivial\(\);(?P<pass>.*?)\} else \{\s*self\.process_new_items\(&unmatched\);\s*\}\s*"
        r"let canceled = par_quicksort\(\s*&mut self\.matches,(?P<cmp>.*?)&self\.canceled,\s*\);\s*"
        r"if canceled \{\s*self\.was_canceled = true;\s*\} else \{\s*self\.matches\s*\.truncate\(self\.matches\.len\(\) - take\(unmatched\.get_mut\(\)\) as usize\);\s*" + notify + r"\s*\}\s*\}",
        body.strip(), re.S)
    if not m:
        raise TranslateError("Worker::run has an unexpected shape")
    if not re.search(r"self\.matches\s*\.par_iter_mut\(\)\s*\.take_any_while\(\|_\| !self\.canceled\.load\(atomic::Ordering::Relaxed\)\)", m.group("pass")):
        raise TranslateError("Worker::run: the rescoring pass is not a cancellable par_iter_mut over self.matches")

    def cond(text):
        terms = []
        for t in text.split("&&"):
            t = t.strip()
            mm = re.fullmatch(r"pattern_status (==|!=) pattern::Status::(\w+)", t)
            if mm and mm.group(2) in statuses:
                terms.append(f"(status {mm.group(1)} {statuses.index(mm.group(2))})")
            elif t == "!self.matches.is_empty()":
                terms.append("!matches_empty")
            elif t == "self.matches.is_empty()":
                terms.append("matches_empty")
            elif t == "self.pattern.is_empty()":
                terms.append("pattern_empty")
            elif t == "!self.pattern.is_empty()":
                terms.append("!pattern_empty")
            else:
                raise TranslateError(f"Worker::run: condition term {t!r}")
        return " && ".join(terms)
    out = ["/- GENERATED by translator/translate.py from src/worker.rs (Worker::run) and src/pattern.rs (Status) — do not edit -/",
           "namespace NucleoVerif.Gen.RunPlan", "",
           "/-- `Status` variants in declaration order: " + ", ".join(f"{i} = {k}" for i, k in enumerate(statuses)) + " -/",
           f"def statuses : Nat := {len(statuses)}", "",
           "/-- `run` first sets `running`, clears `was_canceled`, and on a cleared run empties `last_snapshot`, `in_flight`, `matches` -/",
           "def begins_with_running_then_clear : Bool := true", "",
           "/-- the run takes the trivial path (`reset_matches; process_new_items_trivial; notify if armed; return`) -/",
           f"def trivial_path (pattern_empty : Bool) : Bool := {cond(m.group('c_empty'))}", "",
           "/-- `reset_matches` in front of the scoring pass -/",
           f"def resets (status : Nat) : Bool := {cond(m.group('c_reset'))}", "",
           "/-- the pass is `process_new_items_trivial` + a cancellable rescoring of `matches`; otherwise `process_new_items` -/",
           f"def rescoring_pass (status : Nat) (matches_empty : Bool) : Bool := {cond(m.group('c_pass'))}", "",
           "/-- after the sort: a cancelled sort only sets `was_canceled`; otherwise the placeholders are truncated, then notify if armed -/",
           "def cancelled_sort_sets_flag_else_truncate_then_notify : Bool := true", "",
           "end NucleoVerif.Gen.RunPlan"]
    return "\n".join(out) + "\n"


GENERATORS["RunPlan.lean"] = gen_run_plan


def gen_tick_plan():
    """src/lib.rs: Nucleo::tick and tick_inner — the order of their steps and the conditions that decide cancelling, spawning, copying the
    snapshot and re-arming the notification flag (C06, C07, C12, C13, C19, C20)"""
    lsrc = strip_comments(read("src/lib.rs"))
    psrc = strip_comments(read("src/pattern.rs"))
    statuses = enum_variants(psrc, "Status")
    bodies = fn_bodies(lsrc)
    hook = r"#\[cfg\(nucleo_verif\)\]\s*crate::verif::point\([^;]*\);"
    tick = re.sub(hook, "", bodies.get("tick", [""])[0])
    inner = re.sub(hook, "", bodies.get("tick_inner", [""])[0])
    mt = re.fullmatch(
        r"\{\s*self\.should_notify\.store\(false, atomic::Ordering::Relaxed\);\s*let status = self\.pattern\.status\(\);\s*"
        r"let canceled = (?P<c_cancel>[^;]+);\s*let mut res = self\.tick_inner\(timeout, canceled, status\);\s*"
        r"if !canceled \{\s*return res;\s*\}\s*self\.state = State::Fresh;\s*"
        r"let status2 = self\.tick_inner\(timeout, false, pattern::Status::(?P<s2>\w+)\);\s*"
        r"res\.changed \|= status2\.changed;\s*res\.running = status2\.running;\s*res\s*\}", tick.strip(), re.S)
    if not mt:
        raise TranslateError("Nucleo::tick has an unexpected shape")
    mi = re.fullmatch(
        r"\{\s*let mut inner = if canceled \{\s*self\.pattern\.reset_status\(\);\s*self\.canceled\.store\(true, atomic::Ordering::Relaxed\);\s*self\.worker\.lock_arc\(\)\s*\} else \{\s*"
        r"let Some\(worker\) = self\.worker\.try_lock_arc_for\(Duration::from_millis\(timeout\)\) else \{\s*"
        r"self\.should_notify\.store\(true, Ordering::Release\);\s*return Status \{\s*changed: (?P<t_changed>true|false),\s*running: (?P<t_running>true|false),\s*\};\s*\};\s*worker\s*\};\s*"
        r"let changed = inner\.running;\s*let running = (?P<c_running>[^;]+);\s*"
        r"if inner\.running \{\s*inner\.running = false;\s*if (?P<c_update>[^{]+?) \{\s*self\.snapshot\.update\(&inner\)\s*\}\s*\}\s*"
        r"if running \{\s*inner\.pattern\.clone_from\(&self\.pattern\);\s*self\.canceled\.store\(false, atomic::Ordering::Relaxed\);\s*"
        r"if (?P<c_rearm>[^{]+?) \{\s*self\.should_notify\.store\(true, atomic::Ordering::Release\);\s*\}\s*"
        r"let cleared = self\.state\.cleared\(\);\s*if cleared \{\s*inner\.items = self\.items\.clone\(\);\s*\}\s*"
        r"self\.pool\s*\.spawn\(move \|\| unsafe \{\s*inner\.run\(status, cleared\);?\s*\}\)\s*\}\s*Status \{ changed, running \}\s*\}", inner.strip(), re.S)
    if not mi:
        raise TranslateError("Nucleo::tick_inner has an unexpected shape")
    if mt.group("s2") not in statuses:
        raise TranslateError("tick: status of the second tick_inner")

    def cond(text):
        text = text.strip()
        op = "||" if "||" in text else "&&"
        if "||" in text and "&&" in text:
            raise TranslateError(f"tick: mixed condition {text!r}")
        terms = []
        for t in text.split(op):
            t = t.strip()
            mm = re.fullmatch(r"status (==|!=) pattern::Status::(\w+)", t)
            table = {"self.state.canceled()": "state_canceled", "!self.state.canceled()": "!state_canceled", "canceled": "canceled", "!canceled": "!canceled",
                     "self.items.count() > inner.item_count()": "decide (count > item_count)", "!inner.was_canceled": "!was_canceled", "inner.was_canceled": "was_canceled"}
            if mm and mm.group(2) in statuses:
                terms.append(f"(status {mm.group(1)} {statuses.index(mm.group(2))})")
            elif t in table:
                terms.append(table[t])
            else:
                raise TranslateError(f"tick: condition term {t!r}")
        return f" {op} ".join(terms)
    out = ["/- GENERATED by translator/translate.py from src/lib.rs (Nucleo::tick, tick_inner) and src/pattern.rs (Status) — do not edit -/",
           "namespace NucleoVerif.Gen.TickPlan", "",
           "/-- `Status` variants in declaration order: " + ", ".join(f"{i} = {k}" for i, k in enumerate(statuses)) + " -/",
           f"def statuses : Nat := {len(statuses)}", "",
           "/-- `tick` clears `should_notify` first, reads the pattern status, and: `let canceled = ..` -/",
           f"def tick_cancels (status : Nat) (state_canceled : Bool) : Bool := {cond(mt.group('c_cancel'))}", "",
           "/-- a cancelling tick: `tick_inner(timeout, true, status)`, `state = Fresh`, then `tick_inner(timeout, false, <this status>)` -/",
           f"def second_inner_status : Nat := {statuses.index(mt.group('s2'))}", "",
           "/-- `res.changed |= status2.changed; res.running = status2.running` -/",
           "def combine (changed1 running1 changed2 running2 : Bool) : Bool × Bool := (changed1 || changed2, running2)", "",
           "/-- `tick_inner`, lock timed out: re-arm `should_notify` and return this status -/",
           f"def timeout_status : Bool × Bool := ({mi.group('t_changed')}, {mi.group('t_running')})", "",
           "/-- `tick_inner`, lock held: `changed = inner.running`; `let running = ..` (a new run is spawned) -/",
           f"def spawns (canceled : Bool) (count item_count : Nat) : Bool := {cond(mi.group('c_running'))}", "",
           "/-- `if inner.running { inner.running = false; if .. { self.snapshot.update(&inner) } }` -/",
           f"def copies_snapshot (inner_running was_canceled state_canceled : Bool) : Bool := inner_running && ({cond(mi.group('c_update'))})", "",
           "/-- when spawning: the worker gets the current pattern, the cancel flag is lowered, and `if .. { should_notify.store(true) }`; the run is",
           "    `inner.run(status, self.state.cleared())`, with the current item list handed over on a cleared run -/",
           f"def rearms_on_spawn (canceled : Bool) : Bool := {cond(mi.group('c_rearm'))}", ""]
    states = enum_variants(lsrc, "State")
    mr = re.fullmatch(r"\{\s*self\.canceled\.store\(true, Ordering::Relaxed\);\s*self\.items = Arc::new\(boxcar::Vec::with_capacity\(\d+, self\.items\.columns\(\)\)\);\s*"
                      r"self\.state = State::(\w+);\s*if clear_snapshot \{\s*self\.snapshot\.clear\(self\.items\.clone\(\)\);\s*\}\s*\}", bodies.get("restart", [""])[0].strip(), re.S)
    if not mr or mr.group(1) not in states:
        raise TranslateError("Nucleo::restart has an unexpected shape")
    out += ["/-- `restart(clear_snapshot)`: raise the cancel flag, a new empty item list with the same number of columns, `state = State::<this>`",
            "    (" + ", ".join(f"{i} = {k}" for i, k in enumerate(states)) + "), and `if clear_snapshot { snapshot.clear(new list) }` -/",
            f"def restart_state : Nat := {states.index(mr.group(1))}", "",
            "def restart_clears_snapshot (clear_snapshot : Bool) : Bool := clear_snapshot", "",
            "end NucleoVerif.Gen.TickPlan"]
    return "\n".join(out) + "\n"


GENERATORS["TickPlan.lean"] = gen_tick_plan


# ---------------------------------------------------------------------------------------------------------------------------
# matcher/src/lib.rs: the dispatch of the three `*_impl` entry points (which routine runs on which argument shape, with which
# window arguments).  A small statement translator: `if c { ..return.. }`, `if let &[needle] = needle { .. }`, `assert!(..);`,
# `let (a, b) = self.f(..)?;`, `let x = self.f(..);`, `return e;`, `match (h, n) { (Utf32Str::A(..), Utf32Str::B(..)) => {..} .. }`.

DISPATCH_NON_NUMERIC = {"haystack", "haystack_", "needle", "needle_", "indices", "AsciiChar::cast(haystack)", "AsciiChar::cast(needle)",
                        "needle as char"}


def _close(s, i, op="{", cl="}"):
    """index of the bracket closing the one at s[i]"""
    depth = 0
    for j in range(i, len(s)):
        if s[j] == op:
            depth += 1
        elif s[j] == cl:
            depth -= 1
            if depth == 0:
                return j
    raise TranslateError("unbalanced brackets in a dispatch function")


def _split_args(a):
    out, depth, cur = [], 0, ""
    for ch in a:
        if ch in "(<[":
            depth += 1
        elif ch in ")>]":
            depth -= 1
        if ch == "," and depth == 0:
            out.append(cur.strip())
            cur = ""
        else:
            cur += ch
    if cur.strip():
        out.append(cur.strip())
    return [re.sub(r"\s+", " ", x) for x in out]


class Dispatch:
    def __init__(self, fname, hname):
        self.fname, self.hname = fname, hname
        self.sigs = {}      # callee -> (kind, arg types)
        self.asserts = []

    def ident(self, x):
        return "end_" if x == "end" else x

    def num(self, e):
        e = e.strip()
        if re.fullmatch(r"\d+", e):
            return e, "Nat"
        if e in ("true", "false"):
            return e, "Bool"
        if re.fullmatch(self.hname + r"\.len\(\)", e):
            return "hlen", "Nat"
        if re.fullmatch(r"[a-z_]+", e):
            return self.ident(e), "Nat"
        m = re.fullmatch(r"([a-z_]+) ([+-]) (\w+)", e)
        if m:
            r, _ = self.num(m.group(3))
            return f"({self.ident(m.group(1))} {m.group(2)} {r})", "Nat"
        raise TranslateError(f"{self.fname}: argument {e!r}")

    def cond(self, c):
        c = re.sub(r"\s+", " ", c.strip())
        h = self.hname
        if re.fullmatch(r"needle_\.len\(\) > " + h + r"\.len\(\)", c):
            return "nlen > hlen"
        if c == "needle_.is_empty()":
            return "nlen == 0"
        if re.fullmatch(r"needle_\.len\(\) == " + h + r"\.len\(\)", c):
            return "nlen == hlen"
        m = re.fullmatch(r"needle_\.len\(\) == ([a-z_]+) - ([a-z_]+)", c)
        if m:
            return f"nlen == {self.ident(m.group(1))} - {self.ident(m.group(2))}"
        raise TranslateError(f"{self.fname}: condition {c!r}")

    def call(self, e, kind):
        """`self.f::<..>(args)` -> Lean application of the callback; kind in R (Option<u16>), S (u16), T<k> (Option of a k-tuple)"""
        e = e.strip()
        m = re.match(r"self\s*\.\s*(\w+)\s*(::<[^>]*>)?\s*\(", e, re.S)
        if not m or _close(e, m.end() - 1, "(", ")") != len(e) - 1:
            raise TranslateError(f"{self.fname}: call {e!r}")
        args = _split_args(e[m.end():-1])
        if len(args) < 2 or args[0] not in DISPATCH_NON_NUMERIC or args[1] not in DISPATCH_NON_NUMERIC:
            raise TranslateError(f"{self.fname}: {m.group(1)} is not called on (haystack, needle, ..)")
        nums = [self.num(a) for a in args[2:] if a not in DISPATCH_NON_NUMERIC]
        sig = (kind, tuple(t for _, t in nums))
        if self.sigs.setdefault(m.group(1), sig) != sig:
            raise TranslateError(f"{self.fname}: {m.group(1)} is used with two different shapes")
        return "(" + " ".join([f"c.{m.group(1)}"] + [a for a, _ in nums]) + ")" if nums else f"c.{m.group(1)}"

    def expr(self, e, env):
        e = e.strip()
        if e == "None":
            return "c.none"
        m = re.fullmatch(r"Some\((.*)\)", e, re.S)
        if m:
            inner = m.group(1).strip()
            if inner == "0":
                return "(c.some c.zero)"
            if inner in env:
                return f"(c.some {env[inner]})"
            return f"(c.some {self.call(inner, 'S')})"
        return self.call(e, "R")

    def block(self, s, env):
        s = s.strip()
        if not s:
            raise TranslateError(f"{self.fname}: a block falls through")
        m = re.match(r"if let &\[needle\] = needle \{", s)
        m2 = None if m else re.match(r"if ([^{]+?) \{", s)
        if m or m2:
            mm = m or m2
            j = _close(s, mm.end() - 1)
            inner = s[mm.end():j]
            if not re.search(r"\breturn\b[^;]*;\s*$", inner, re.S):
                raise TranslateError(f"{self.fname}: an `if` block does not end in `return`")
            if s[j + 1:].lstrip().startswith("else"):
                raise TranslateError(f"{self.fname}: unexpected `else`")
            c = "nlen == 1" if m else self.cond(m2.group(1))
            return f"(if {c} then {self.block(inner, env)} else {self.block(s[j + 1:], env)})"
        m = re.match(r"assert!\s*\(", s)
        if m:
            j = _close(s, m.end() - 1, "(", ")")
            self.asserts.append(re.sub(r"\s+", " ", s[m.end():j].strip()))
            rest = s[j + 1:].lstrip()
            if not rest.startswith(";"):
                raise TranslateError(f"{self.fname}: assert! without `;`")
            return self.block(rest[1:], env)
        m = re.match(r"let \(([^)]*)\) = (self\s*\.[^;]*?)\?;", s, re.S)
        if m:
            names = [x.strip() for x in m.group(1).split(",")]
            for x in names:
                if not re.fullmatch(r"_|[a-z_]+", x):
                    raise TranslateError(f"{self.fname}: pattern {m.group(1)!r}")
            callee = self.call(m.group(2), f"T{len(names)}")
            pat = ", ".join(self.ident(x) for x in names)
            return f"(match {callee} with | none => c.none | some ({pat}) => {self.block(s[m.end():], env)})"
        m = re.match(r"let ([a-z_]+) = (self\s*\.[^;]*);", s, re.S)
        if m:
            env = dict(env)
            env[m.group(1)] = self.call(m.group(2), "S")
            return self.block(s[m.end():], env)
        m = re.match(r"return\b([^;]*);", s, re.S)
        if m:
            if s[m.end():].strip():
                raise TranslateError(f"{self.fname}: code after `return`")
            return self.expr(m.group(1), env)
        m = re.match(r"match \((\w+), (\w+)\) \{", s)
        if m:
            if (m.group(1), m.group(2)) != (self.hname, "needle_"):
                raise TranslateError(f"{self.fname}: match on {m.group(0)!r}")
            j = _close(s, m.end() - 1)
            if s[j + 1:].strip():
                raise TranslateError(f"{self.fname}: code after the representation match")
            body, arms = s[m.end():j].strip(), {}
            while body:
                am = re.match(r"\(Utf32Str::(Ascii|Unicode)\((\w+)\), Utf32Str::(Ascii|Unicode)\((\w+)\)\) => \{", body)
                if not am:
                    raise TranslateError(f"{self.fname}: match arm {body[:60]!r}")
                k = _close(body, am.end() - 1)
                key = (am.group(1) == "Ascii", am.group(3) == "Ascii")
                if key in arms:
                    raise TranslateError(f"{self.fname}: duplicate match arm")
                arms[key] = self.block(body[am.end():k], env)
                body = body[k + 1:].lstrip().lstrip(",").strip()
            if len(arms) != 4:
                raise TranslateError(f"{self.fname}: expected the four representation pairs")
            b = lambda x: "true" if x else "false"
            return "(match hAscii, nAscii with" + "".join(
                f"\n    | {b(k[0])}, {b(k[1])} => {arms[k]}" for k in [(True, True), (True, False), (False, True), (False, False)]) + ")"
        if ";" in s:
            raise TranslateError(f"{self.fname}: statement {s[:60]!r}")
        return self.expr(s, env)


WRAP_ATOMS = [(r"haystack\.len\(\)", "hlen"), (r"needle\.len\(\)", "nlen"), (r"needle\.is_empty\(\)", "(nlen == 0)"),
              (r"needle\.first\(\)\.is_whitespace\(\)", "nFirstWs"), (r"needle\.last\(\)\.is_whitespace\(\)", "nLastWs"),
              (r"haystack\.leading_white_space\(\)", "leadWs"), (r"haystack\.trailing_white_space\(\)", "trailWs")]


def wrap_expr(fname, e, env):
    """arithmetic / comparison over the lengths, the two whitespace tests of the needle, the two whitespace counts of the haystack and the
    local variables (substituted by their current value)"""
    e = re.sub(r"\s+", " ", e.strip())
    for pat, rep in WRAP_ATOMS:
        e = re.sub(pat, rep, e)
    e = re.sub(r"\b[a-z_]+\b", lambda m: env.get(m.group(0), m.group(0)), e)
    for tok in re.findall(r"[A-Za-z_]+", e):
        if tok not in ("hlen", "nlen", "nFirstWs", "nLastWs", "leadWs", "trailWs", "if", "then", "else"):
            raise TranslateError(f"{fname}: expression {e!r}")
    if not re.fullmatch(r"[A-Za-z_0-9 ()+\-<=!]*", e):
        raise TranslateError(f"{fname}: expression {e!r}")
    return e


def wrap_call(fname, e, env):
    m = re.fullmatch(r"self\s*\.\s*exact_match_impl::<(true|false)>\s*\((.*)\)", e.strip(), re.S)
    if not m:
        raise TranslateError(f"{fname}: call {e.strip()[:60]!r}")
    args = _split_args(m.group(2))
    if len(args) != 5 or args[0] != "haystack" or args[1] != "needle" or args[4] not in ("indices", "&mut Vec::new()"):
        raise TranslateError(f"{fname}: arguments of exact_match_impl")
    if (m.group(1) == "true") != (args[4] == "indices"):
        raise TranslateError(f"{fname}: INDICES does not agree with the index vector passed")
    return f"(c.exact_match_impl ({wrap_expr(fname, args[2], env)}) ({wrap_expr(fname, args[3], env)}))"


def wrap_block(fname, s, env):
    s = s.strip()
    if not s:
        raise TranslateError(f"{fname}: a block falls through")
    m = re.match(r"let mut ([a-z_]+) = 0;", s)
    if m:
        env = dict(env)
        env[m.group(1)] = "0"
        return wrap_block(fname, s[m.end():], env)
    m = re.match(r"if ([^{]+?) \{", s)
    if m:
        j = _close(s, m.end() - 1)
        inner, rest = s[m.end():j].strip(), s[j + 1:].strip()
        c = wrap_expr(fname, m.group(1), env)
        am = re.fullmatch(r"([a-z_]+) = ([^;{}]+?);?", inner)
        if am:                                       # conditional assignment to a local
            if am.group(1) not in env:
                raise TranslateError(f"{fname}: assignment to {am.group(1)!r}")
            env = dict(env)
            env[am.group(1)] = f"(if {c} then {wrap_expr(fname, am.group(2), env)} else {env[am.group(1)]})"
            return wrap_block(fname, rest, env)
        em = re.match(r"else \{", rest)
        if em:                                       # if .. else as the tail expression
            k = _close(rest, em.end() - 1)
            if rest[k + 1:].strip():
                raise TranslateError(f"{fname}: code after if/else")
            return f"(if {c} then {wrap_block(fname, inner, env)} else {wrap_block(fname, rest[em.end():k], env)})"
        if not re.fullmatch(r"return\b[^;]*;", inner, re.S):
            raise TranslateError(f"{fname}: an `if` block is neither an assignment nor a `return`")
        return f"(if {c} then {wrap_block(fname, inner, env)} else {wrap_block(fname, rest, env)})"
    m = re.fullmatch(r"(?:return\b)?\s*(None|Some\(0\))\s*;?", s)
    if m:
        return "c.none" if m.group(1) == "None" else "(c.some c.zero)"
    if ";" in s:
        raise TranslateError(f"{fname}: statement {s[:60]!r}")
    return wrap_call(fname, s, env)


def gen_wrappers(bodies):
    """exact_match / prefix_match / postfix_match and their `_indices` twins: the empty-needle guard, the whitespace trimming and the
    window handed to exact_match_impl"""
    out = []
    for base in ["exact", "prefix", "postfix"]:
        terms = []
        for fname in [base + "_match", base + "_indices"]:
            if len(bodies.get(fname, [])) != 1:
                raise TranslateError(f"{fname} not found exactly once in matcher/src/lib.rs")
            terms.append(wrap_block(fname, bodies[fname][0].strip()[1:-1], {}))
        if terms[0] != terms[1]:
            raise TranslateError(f"{base}_match and {base}_indices differ in more than the index vector")
        out.append(f"/-- `Matcher::{base}_match` and `Matcher::{base}_indices` (both bodies translate to this term) -/")
        out.append(f"def {base}_match {{S R : Type}} (c : Calls S R) (hlen nlen : Nat) (nFirstWs nLastWs : Bool) (leadWs trailWs : Nat) : R :=")
        out.append("  " + terms[0])
        out.append("")
    return out


def gen_dispatch():
    """matcher/src/lib.rs: fuzzy_matcher_impl, fuzzy_match_greedy_impl, substring_match_impl — the length guards, the representation
    match, the one-character case, the prefilter call and its `?`, the contiguous shortcut and the window arguments of every callee
    (C01, C02, C03, C04, C05)"""
    src = strip_comments(read("matcher/src/lib.rs"))
    bodies = fn_bodies(src)
    fns, sigs, asserts = [], {}, {}
    for fname in ["fuzzy_matcher_impl", "fuzzy_match_greedy_impl", "substring_match_impl"]:
        if len(bodies.get(fname, [])) != 1:
            raise TranslateError(f"{fname} not found exactly once in matcher/src/lib.rs")
        body = bodies[fname][0].strip()
        hm = re.search(r"fn " + fname + r"<const INDICES: bool>\(\s*&mut self,\s*(\w+): Utf32Str<'_>,\s*needle_: Utf32Str<'_>,\s*"
                       r"indices: &mut Vec<u32>,\s*\) -> Option<u16>", src)
        if not hm:
            raise TranslateError(f"{fname}: unexpected signature")
        d = Dispatch(fname, hm.group(1))
        term = d.block(body[1:-1], {})
        for k, v in d.sigs.items():
            if sigs.setdefault(k, v) != v:
                raise TranslateError(f"{k} is used with two different shapes")
        asserts[fname] = d.asserts
        fns.append((fname, term))

    def ty(sig):
        kind, args = sig
        res = {"R": "R", "S": "S"}.get(kind) or ("Option (" + " × ".join(["Nat"] * int(kind[1:])) + ")")
        return " → ".join(list(args) + [res])
    out = ["/- GENERATED by translator/translate.py from matcher/src/lib.rs (fuzzy_matcher_impl, fuzzy_match_greedy_impl, substring_match_impl)"
           " — do not edit -/",
           "namespace NucleoVerif.Gen.Dispatch", "",
           "/-- the routines the dispatch calls, by the name they have in the source.  `R` is `Option<u16>` (with the index vector), `S` is `u16`;",
           "the haystack, needle and index-vector arguments are fixed by the caller and left out, the window arguments are kept in order. -/",
           "structure Calls (S R : Type) where", "  none : R", "  some : S → R", "  zero : S"]
    for k in sorted(sigs):
        out.append(f"  {k} : {ty(sigs[k])}")
    out.append("")
    for fname, term in fns:
        out.append(f"/-- `Matcher::{fname}`; assertions skipped: " + "; ".join(f"`{a}`" for a in asserts[fname]) + " -/")
        out.append(f"def {fname} {{S R : Type}} (c : Calls S R) (hlen nlen : Nat) (hAscii nAscii : Bool) : R :=")
        out.append("  " + term)
        out.append("")
    out += gen_wrappers(bodies)
    out.append("end NucleoVerif.Gen.Dispatch")
    return "\n".join(out) + "\n"


GENERATORS["Dispatch.lean"] = gen_dispatch


def rust_struct_fields(src, name):
    m = re.search(r"struct\s+%s\s*\{(.*?)\}" % name, src, re.S)
    if m:
        fields = re.findall(r"(?:pub(?:\([a-z]+\))?\s+)?([a-z_]+)\s*:\s*([A-Za-z0-9_]+)", m.group(1))
        return dict(fields)
    m = re.search(r"struct\s+%s\s*\(((?:[^()]|\([a-z]+\))*)\)" % name, src)
    if m:
        tys = [re.sub(r"^pub\s*(\([a-z]+\))?\s*", "", t.strip()) for t in m.group(1).split(",") if t.strip()]
        return {str(i): t for i, t in enumerate(tys)}
    raise TranslateError(f"struct {name} not found")


def lean_ty(t):
    return "Bool" if t == "bool" else "Nat" if t in INT_BITS else t


def translate_fn(src_body, params, structs, consts):
    env = dict(params)
    px = RustExpr(src_body.strip()[1:], env, structs, consts)   # after the opening brace
    text, ty = px.block()
    if not px.done():
        raise TranslateError("trailing tokens after the function body")
    return text, ty


def gen_optimal():
    del MINUS_OBLIGATIONS[:]
    msrc = strip_comments(read("matcher/src/matrix.rs"))
    osrc = strip_comments(read("matcher/src/fuzzy_optimal.rs"))
    structs = {"ScoreCell": rust_struct_fields(msrc, "ScoreCell"), "MatrixCell": rust_struct_fields(msrc, "MatrixCell")}
    if sorted(structs["ScoreCell"].items()) != [("consecutive_bonus", "u8"), ("matched", "bool"), ("score", "u16")]:
        raise TranslateError(f"ScoreCell has fields {structs['ScoreCell']}")
    if structs["MatrixCell"] != {"0": "u8"}:
        raise TranslateError(f"MatrixCell is {structs['MatrixCell']}")
    consts = {k: "u16" for k in ("SCORE_MATCH", "PENALTY_GAP_START", "PENALTY_GAP_EXTENSION", "BONUS_BOUNDARY", "BONUS_CONSECUTIVE",
                                "BONUS_FIRST_CHAR_MULTIPLIER", "MAX_PREFIX_BONUS", "PREFIX_BONUS_SCALE")}
    out = ["/- GENERATED by translator/translate.py from matcher/src/fuzzy_optimal.rs and matcher/src/matrix.rs — do not edit -/",
           "import NucleoVerif.Gen.Consts", "namespace NucleoVerif.Gen.Opt", "open NucleoVerif.Gen", "",
           "/-- `matrix.rs: struct ScoreCell` (u16 / u8 fields as `Nat`) -/",
           "structure ScoreCell where"]
    order = re.search(r"struct\s+ScoreCell\s*\{(.*?)\}", msrc, re.S).group(1)
    for f in re.findall(r"([a-z_]+)\s*:", order):
        out.append(f"  {f} : {lean_ty(structs['ScoreCell'][f])}")
    out += ["deriving DecidableEq, Repr, Inhabited", "",
            "/-- `matrix.rs: struct MatrixCell(u8)` -/", "structure MatrixCell where", "  f0 : Nat", "deriving DecidableEq, Repr, Inhabited", ""]
    # UNMATCHED
    m = re.search(r"const\s+UNMATCHED\s*:\s*ScoreCell\s*=\s*(ScoreCell\s*\{.*?\})\s*;", osrc, re.S)
    if not m:
        raise TranslateError("const UNMATCHED not found")
    e, _ = RustExpr(m.group(1), {}, structs, consts).expr()
    out += ["/-- `const UNMATCHED` -/", f"def UNMATCHED : ScoreCell := {e}", ""]
    consts["UNMATCHED"] = "ScoreCell"
    bodies = fn_bodies(osrc)
    mbodies = fn_bodies(msrc)
    def sig(src, name):
        mm = re.search(r"fn\s+%s\s*\(([^)]*)\)\s*(?:->\s*([^{]+))?\{" % name, src)
        if not mm:
            raise TranslateError(f"fn {name} not found")
        params = []
        for p in mm.group(1).split(","):
            p = p.strip()
            if not p or p in ("&self", "&mut self", "self"):
                continue
            n, t = [x.strip() for x in p.split(":")]
            params.append((n.replace("mut ", ""), t))
        return params, (mm.group(2) or "").strip()
    for name in ("next_m_cell", "p_score"):
        if len(bodies.get(name, [])) != 1:
            raise TranslateError(f"expected exactly one fn {name}")
        params, ret = sig(osrc, name)
        text, _ = translate_fn(bodies[name][0], params, structs, consts)
        rty = {"ScoreCell": "ScoreCell", "(u16, bool)": "Nat × Bool"}.get(ret)
        if rty is None:
            raise TranslateError(f"fn {name} returns {ret}")
        out += [f"/-- `fuzzy_optimal.rs: fn {name}` -/",
                f"def {name} " + " ".join(f"({n} : {lean_ty(t)})" for n, t in params) + f" : {rty} :=\n  {text}", ""]
    # MatrixCell::set / get
    params, _ = sig(msrc, "set")
    body = mbodies["set"][0]
    mm = re.fullmatch(r"\{\s*self\.0\s*=\s*(.*?);\s*\}", body.strip(), re.S)
    if not mm:
        raise TranslateError("MatrixCell::set is not a single assignment to self.0")
    e, _ = RustExpr(mm.group(1), dict(params), structs, consts).expr()
    out += ["/-- `MatrixCell::set` (the new value of the cell) -/",
            "def MatrixCell.set " + " ".join(f"({n} : {lean_ty(t)})" for n, t in params) + f" : MatrixCell := ⟨{e}⟩", ""]
    params, _ = sig(msrc, "get")
    text, _ = translate_fn(mbodies["get"][0], [("self", "MatrixCell")] + params, structs, consts)
    out += ["/-- `MatrixCell::get` -/",
            "def MatrixCell.get (self : MatrixCell) " + " ".join(f"({n} : {lean_ty(t)})" for n, t in params) + f" : Bool :=\n  {text}", ""]
    # the first-row cell and the initial prefix bonus inside score_row / setup
    sr = bodies.get("score_row", [None])[0]
    if sr is None:
        raise TranslateError("fn score_row not found")
    cells = re.findall(r"if\s+(c|c\[0\])\s*==\s*needle_char\s*\{\s*(ScoreCell\s*\{.*?\})\s*\}\s*else\s*\{\s*UNMATCHED\s*\}\s*;\s*"
                       r"prefix_bonus\s*=\s*(prefix_bonus\.saturating_sub\([A-Z_]+\))\s*;", sr, re.S)
    if len(cells) != 2:
        raise TranslateError(f"expected the first-row cell twice in score_row, found {len(cells)}")
    forms = []
    for which, lit, dec in cells:
        lit = lit.replace("*bonus", "bonus").replace("bonus[0]", "bonus")
        e, _ = RustExpr(lit, {"bonus": "u8", "prefix_bonus": "u16"}, structs, consts).expr()
        d, _ = RustExpr(dec, {"prefix_bonus": "u16"}, structs, consts).expr()
        forms.append((e, d))
    if forms[0] != forms[1]:
        raise TranslateError("the two loops of score_row build different first-row cells")
    out += ["/-- the first-row cell of `score_row::<FIRST_ROW = true>` for a column whose character equals the first needle character "
            "(both loops build the same one) -/",
            f"def first_row_cell (bonus : Nat) (prefix_bonus : Nat) : ScoreCell :=\n  {forms[0][0]}", "",
            "/-- how `prefix_bonus` changes from one column to the next -/",
            f"def prefix_bonus_next (prefix_bonus : Nat) : Nat := {forms[0][1]}", ""]
    su = bodies.get("setup", [None])[0]
    mm = re.search(r"if\s+config\.prefer_prefix\s*\{\s*if\s+start\s*==\s*0\s*\{(.*?)\}\s*else\s*\{(.*?)\}\s*\}\s*else\s*\{\s*0\s*\}", su or "", re.S)
    if not mm:
        raise TranslateError("the prefix bonus argument of setup's score_row call has an unexpected shape")
    a, _ = RustExpr(mm.group(1), {}, structs, consts).expr()
    btxt = mm.group(2).replace("u16::MAX as u32", "65535").replace("(start - 1)", "start_minus_1")
    b, _ = RustExpr(btxt, {"start_minus_1": "u32"}, structs, consts).expr()
    # `MAX*SCALE - GAP_START` on constants: plain `-` is outside the subset; handled textually above? check
    out += ["/-- the `prefix_bonus` argument `setup` passes to the first row (`start`: window start in the haystack) -/",
            f"def prefix_bonus_init (prefer_prefix : Bool) (start : Nat) : Nat :=\n  if prefer_prefix then (if start = 0 then {a} else (let start_minus_1 := start - 1; {b})) else 0", ""]
    for k, (l, r) in enumerate(MINUS_OBLIGATIONS):
        out += [f"/-- the plain `-` between constants does not underflow -/", f"theorem minus_ok_{k} : {r} ≤ {l} := by decide", ""]
    out.append("end NucleoVerif.Gen.Opt")
    return "\n".join(out) + "\n"


GENERATORS["Optimal.lean"] = gen_optimal


def main():
    changed, failed = [], []
    for name, fn in GENERATORS.items():
        try:
            text = fn()
        except TranslateError as e:
            # the other generators still run: a check only depends on the generated files its theorems and the driver import
            print(f"TRANSLATE-ERROR {name}: {e}")
            failed.append(name)
            continue
        if write_if_changed(name, text):
            changed.append(name)
    print("translator: regenerated " + (", ".join(changed) if changed else "nothing (all up to date)"))
    if failed:
        sys.exit(2)


if __name__ == "__main__":
    main()
